#!/bin/bash
# MANIFEST.setup_cmd: offline build of everything the checks need.
set -e
cd "$(dirname "$0")"
/venv/bin/python - <<'PY'
import sys
sys.path.insert(0, "harness")
import core
bad = core.forbidden_scan()
for b in bad:
    print("FORBIDDEN", *b)
sys.exit(1 if bad else 0)
PY
./build.sh
