"""Print the prompt handed to a fresh sub-agent that seeds a property-breaking change."""
import json, sys
pid, n = sys.argv[1], sys.argv[2]
hint = sys.argv[3] if len(sys.argv) > 3 else ""
for l in open('/verif/properties.jsonl'):
    p = json.loads(l)
    if p['id'] == pid:
        break
wt = "/tmp/seed_%s_%s" % (pid, n)
out = "/tmp/seedout/%s_%s" % (pid, n)
print(f"""You are helping test a verification framework for the Python library lepture/authlib (source at /repo, a git repository). Your job: produce ONE realistic change to the library that BREAKS the semantic property below while the library still imports and its existing test suite still passes.

PROPERTY {pid}: {p['title']}
Statement: {p['statement']}
Quantified over: {p['quantifier']['text']}
Code it is anchored in: {', '.join(p['anchors']['files'])}
Mechanisms meant to make it hold: {'; '.join(m['name'] + ' @ ' + m.get('where','') for m in p['anchors']['mechanism'])}

RULES
1. Never edit anything under /repo or /verif, and do not read /verif at all. Work only in your own scratch git worktree: run `git -C /repo worktree add {wt} HEAD` and edit files under {wt}/authlib only.
2. The change must be subtle: it must need something specific to manifest (an unusual input, a boundary value, a particular multi-step sequence of operations, a particular interleaving or fault point, or two cooperating edits that each look fine alone). It must NOT be something ordinary use or the existing tests would expose at once. Prefer a change a plausible refactoring or "optimisation" could introduce. {hint}
3. The existing test suite must still pass with your change. Run it from inside the worktree: `cd {wt} && PYTHONPATH={wt} PYTHONDONTWRITEBYTECODE=1 /venv/bin/python -m pytest -q -p no:cacheprovider --timeout=900 --continue-on-collection-errors 2>&1 | tail -3` — the expected result is exactly `634 passed, 1 skipped` plus 23 errors from the Django test modules (those errors are pre-existing and unrelated). First confirm the worktree's code is what gets imported: `cd {wt} && PYTHONPATH={wt} /venv/bin/python -c "import authlib; print(authlib.__file__)"` must print a path under {wt}.
4. Write a demonstration: a small standalone Python program `demo.py` that exits 0 (prints PASS) on the unmodified library and exits 1 (prints FAIL and what went wrong) with your change. It must take the library location from PYTHONPATH. Verify both: `PYTHONPATH=/repo /venv/bin/python demo.py` passes and `PYTHONPATH={wt} /venv/bin/python demo.py` fails.
5. Deliverables, in the directory {out} (create it): `patch.diff` (output of `git -C {wt} diff`), `demo.py`, and `meta.json` with keys: property ("{pid}"), summary (one sentence: what the change does), needs (what specific input/sequence/condition is needed for it to manifest), files (list of edited files), test_result (the last line of the pytest run).
6. When finished, remove the worktree: `git -C /repo worktree remove --force {wt}`. Leave only {out}.
Reply with a three-line summary: what you changed, what is needed to trigger it, and the pytest result line.""")
