#!/bin/bash
# Runs every claimed check (quick tier) and prints rc and the number of VIOLATION lines per property.
# usage: tools/runall.sh [seed] [tier]
cd /verif
export VERIF_SEED=${1:-20260930}
tier=${2:-quick}
for id in $(python3 -c "import json;print(' '.join(c['property_id'] for c in json.load(open('MANIFEST.json'))['checks']))"); do
  s=$(date +%s)
  ./check $id --tier $tier > /tmp/runall_$id.out 2>&1
  rc=$?
  echo "$id rc=$rc violations=$(grep -c '^VIOLATION' /tmp/runall_$id.out) known=$(grep -c '^KNOWN-FINDING' /tmp/runall_$id.out) $(( $(date +%s) - s ))s"
done
