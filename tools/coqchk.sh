#!/bin/bash
# independent re-check of every compiled Props module and everything it depends on; prints the context summary (axioms etc.)
cd /verif/coq && timeout 3000 coqchk -o -silent -Q . Authlib $(ls Props/*.v | sed 's#/#.#; s#\.v$##; s#^#Authlib.#') 2>&1 | grep -v '^$' | tail -14
