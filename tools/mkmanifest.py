"""Regenerate MANIFEST.json from the table below (kept valid at all times)."""
import json, os
V = os.path.dirname(os.path.dirname(os.path.abspath(__file__)))
BASE_CMD = ("cd /repo && /venv/bin/python -m pytest -ra -q -p no:cacheprovider --timeout=900 "
            "--continue-on-collection-errors --junitxml=/tmp/authlib-baseline.junit.xml")
ALL = ["C%02d" % i for i in range(1, 21)]
CLAIMED = json.load(open(os.path.join(V, "tools", "claimed.json")))
checks = []
for pid in ALL:
    if pid not in CLAIMED:
        continue
    c = CLAIMED[pid]
    checks.append({
        "property_id": pid,
        "quick_cmd": "./check %s --tier quick" % pid,
        "thorough_cmd": "./check %s --tier thorough" % pid,
        "evidence_file": "/verif/evidence/%s.json" % pid,
        "replay_cmd_template": "./check %s --replay {path}" % pid,
        "engine": "coq-model+correspondence",
        "level_claimed": {"category": "proof", "text": c["text"], "design_ref": c.get("design_ref", "DESIGN.md s8 " + pid)},
        "level_note": c["note"],
        "technique": c["technique"],
    })
na = [{"property_id": p, "reason": "not claimed yet: check under construction (see DESIGN.md s10 build order); "
       "the technique applies, nothing is registered until the check is green on the unchanged tree"}
      for p in ALL if p not in CLAIMED]
m = {
    "version": 1,
    "setup_cmd": "./setup.sh",
    "hooks": {"guard": "AUTHLIB_VERIF", "enable": "none required: no source hook is used; the harness drives "
              "the library by subclassing, mock transports and time patching",
              "baseline_off_cmd": BASE_CMD, "source_commits": [], "add_only": True},
    "engines": [{"name": "coq-model+correspondence", "path": "/verif/coq + /verif/harness",
                 "serves_properties": sorted(CLAIMED),
                 "kind_free_text": "Coq 8.16 theorems about executable Gallina models; models extracted to OCaml "
                 "(ExtrOcamlBasic) and run against the real authlib on generated inputs/histories on every run"}],
    "checks": checks,
    "notes": "See DESIGN.md. known_findings.json lists recorded findings and fix: commits.",
    "not_applicable": na,
}
json.dump(m, open(os.path.join(V, "MANIFEST.json"), "w"), indent=1)
print("claimed", sorted(CLAIMED))
