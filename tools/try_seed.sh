#!/bin/bash
# tools/try_seed.sh <seed-dir> <PROP-ID> : confirm a seeded change (tests pass, demo fails with it and
# passes without it) in a scratch worktree, then run the property's check against it in /repo and undo.
D="$1"; P="$2"; WT=/tmp/wt_try_$$
set -u
git -C /repo worktree add -q "$WT" HEAD || exit 2
if ! git -C "$WT" apply "$D/patch.diff"; then echo "PATCH-DOES-NOT-APPLY"; git -C /repo worktree remove --force "$WT"; exit 2; fi
T=$(cd "$WT" && PYTHONPATH="$WT" PYTHONDONTWRITEBYTECODE=1 /venv/bin/python -m pytest -q -p no:cacheprovider --timeout=900 --continue-on-collection-errors 2>&1 | tail -1)
echo "tests-with-change: $T"
(cd "$D" && PYTHONPATH="$WT" PYTHONDONTWRITEBYTECODE=1 timeout 300 /venv/bin/python demo.py > /dev/null 2>&1); echo "demo-with-change rc=$?"
(cd "$D" && PYTHONPATH=/repo PYTHONDONTWRITEBYTECODE=1 timeout 300 /venv/bin/python demo.py > /dev/null 2>&1); echo "demo-without-change rc=$?"
git -C /repo worktree remove --force "$WT"
git -C /repo apply "$D/patch.diff" || exit 2
cd /verif && timeout 3000 ./check "$P" --tier "${TIER:-quick}" | grep -c "^VIOLATION" | sed 's/^/check-violation-lines: /'
git -C /repo checkout -- . ; git -C /repo status --short | head -3
