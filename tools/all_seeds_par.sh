#!/bin/bash
# like all_seeds.sh, but four shards in parallel, each seeded change in its own scratch worktree (checks run through VERIF_REPO,
# /repo's working tree is not touched); shards are by property so that no two checks of one property run at once.
# needs a clean worktree of /repo's HEAD for the demos: CLEAN (default /tmp/clean)
cd /verif && ./build.sh | tail -1
shard() {
  for d in seeded/*/; do
    s=$(basename $d); p=${s%_*}; n=$((10#${p#C} % 4))
    [ "$n" = "$1" ] || continue
    q=$(python3 -c "import json;print(json.load(open('$d/meta.json')).get('checked_by',''))"); [ -n "$q" ] && p=$q
    r=$(tools/try_seed_wt.sh /verif/seeded/$s $p 2>&1 | grep -v "^VIOLATION\|conda" | tr '\n' ' ')
    echo "$s $r"
  done
}
for i in 0 1 2 3; do shard $i > /tmp/all_seeds_par_$i.log 2>&1 & done
wait
cat /tmp/all_seeds_par_[0-3].log | sort
