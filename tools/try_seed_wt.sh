#!/bin/bash
# tools/try_seed_wt.sh <seed-dir> <PROP-ID> : like try_seed.sh but never touches /repo's working tree: the change is
# applied in a scratch worktree and the check runs against it through VERIF_REPO (usable while /repo is busy).
D="$1"; P="$2"; WT=/tmp/wt_try_$$
set -u
git -C /repo worktree add -q "$WT" HEAD || exit 2
if ! git -C "$WT" apply "$D/patch.diff"; then echo "PATCH-DOES-NOT-APPLY"; git -C /repo worktree remove --force "$WT"; exit 2; fi
T=$(cd "$WT" && PYTHONPATH="$WT" PYTHONDONTWRITEBYTECODE=1 /venv/bin/python -m pytest -q -p no:cacheprovider --timeout=900 --continue-on-collection-errors 2>&1 | tail -1)
echo "tests-with-change: $T"
(cd "$D" && PYTHONPATH="$WT" PYTHONDONTWRITEBYTECODE=1 timeout 300 /venv/bin/python demo.py > /dev/null 2>&1); echo "demo-with-change rc=$?"
(cd "$D" && PYTHONPATH="${CLEAN:-/tmp/clean}" PYTHONDONTWRITEBYTECODE=1 timeout 300 /venv/bin/python demo.py > /dev/null 2>&1); echo "demo-without-change rc=$?"
cd /verif && VERIF_REPO="$WT" timeout 3000 ./check "$P" --tier "${TIER:-quick}" > /tmp/try_${P}_$$.out 2>&1
grep -c "^VIOLATION" /tmp/try_${P}_$$.out | sed 's/^/check-violation-lines: /'
grep "^VIOLATION" /tmp/try_${P}_$$.out | head -3
rm -f /tmp/try_${P}_$$.out
git -C /repo worktree remove --force "$WT"
