#!/bin/bash
# re-confirm every kept seeded change against the current /repo and the current checks (sequential: each is applied to /repo and undone)
cd /verif && ./build.sh | tail -1
for d in seeded/*/; do
  s=$(basename $d); p=${s%_*}
  # a change handed in under one property may be one that another property's check is responsible for (meta.json: checked_by)
  q=$(python3 -c "import json;print(json.load(open('$d/meta.json')).get('checked_by',''))"); [ -n "$q" ] && p=$q
  r=$(tools/try_seed.sh /verif/seeded/$s $p 2>&1 | tr '\n' ' ')
  echo "$s $r"
done
