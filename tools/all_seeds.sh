#!/bin/bash
# re-confirm every kept seeded change against the current /repo and the current checks (sequential: each is applied to /repo and undone)
cd /verif && ./build.sh | tail -1
for d in seeded/*/; do
  s=$(basename $d); p=${s%_*}
  r=$(tools/try_seed.sh /verif/seeded/$s $p 2>&1 | tr '\n' ' ')
  echo "$s $r"
done
