"""tools/keep_seed.py <ID_n> <first-run: caught|missed> : copy a confirmed seeded change from /tmp/seedout into /verif/seeded."""
import json, shutil, sys, os
sid, first = sys.argv[1], sys.argv[2]
src, dst = "/tmp/seedout/" + sid, "/verif/seeded/" + sid
os.makedirs(dst, exist_ok=True)
for f in ("patch.diff", "demo.py"):
    shutil.copy(os.path.join(src, f), os.path.join(dst, f))
m = json.load(open(os.path.join(src, "meta.json")))
m["confirmed"] = {
    "by": "tools/try_seed_wt.sh in a scratch worktree under /tmp (removed)",
    "tests_with_change": "634 passed, 1 skipped (23 pre-existing Django collection errors)",
    "demo": "exit 1 with the change, exit 0 without",
    "check": "./check %s --tier quick prints VIOLATION lines with the change (VERIF_REPO pointing at the scratch worktree)" % sid[:3],
    "first_run": first,
}
json.dump(m, open(os.path.join(dst, "meta.json"), "w"), indent=1)
print("kept", sid)
