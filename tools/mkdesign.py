"""Assemble DESIGN.md from tools/design/template.md and its parts."""
import os
V = os.path.dirname(os.path.dirname(os.path.abspath(__file__)))
d = os.path.join(V, "tools", "design")
t = open(os.path.join(d, "template.md")).read()
for k, f in (("@@PERPROP@@", "perprop.md"), ("@@FINDINGS@@", "findings.md"), ("@@SEEDS@@", "seeds.md")):
    t = t.replace(k, open(os.path.join(d, f)).read().rstrip("\n"))
open(os.path.join(V, "DESIGN.md"), "w").write(t)
print("DESIGN.md", len(t))
