#!/bin/bash
# run the repository's pinned test suite on /repo's working tree; prints the summary line
cd /repo && PYTHONDONTWRITEBYTECODE=1 /venv/bin/python -m pytest -q -p no:cacheprovider --timeout=900 --continue-on-collection-errors 2>&1 | tail -1
