#!/bin/bash
# Idempotent, lock-protected build of the Coq development and the extracted model.
set -e
cd "$(dirname "$0")"
exec 9>.build.lock
flock 9
cd coq
ls Base/*.v Model/*.v Spec/*.v Proofs/*.v Props/*.v Extract/DispatchAR.v Extract/DispatchO1.v Extract/DispatchFF.v Extract/DispatchID.v Extract/DispatchCS.v Extract/DispatchJW.v Extract/DispatchKP.v Extract/DispatchJE.v Extract/DispatchRB.v Extract/Dispatch.v Extract/Extraction.v 2>/dev/null \
  | sort > .files.new
{ echo "-Q . Authlib"; cat .files.new; } > _CoqProject.new
if ! cmp -s _CoqProject.new _CoqProject || [ ! -f Makefile ]; then
  mv _CoqProject.new _CoqProject
  coq_makefile -f _CoqProject -o Makefile > /dev/null
else
  rm -f _CoqProject.new
fi
rm -f .files.new
mkdir -p Extract/out
timeout 3000 make -j16 > .make.log 2>&1 || { tail -40 .make.log; exit 1; }
if [ ! -x ../bin/model ] || [ Extract/out/model.ml -nt ../bin/model ] || [ Extract/driver.ml -nt ../bin/model ]; then
  mkdir -p ../bin
  cp Extract/driver.ml Extract/out/driver.ml
  (cd Extract/out && ocamlfind ocamlopt -w -a model.mli model.ml driver.ml -o ../../../bin/model.tmp && mv ../../../bin/model.tmp ../../../bin/model)
fi
echo build-ok
