(* C09 -- token lifecycle: refresh, revocation, introspection and expiry are consistent. *)
From Coq Require Import List NArith ZArith Bool Ascii String.
From Authlib Require Import Base.Bytes Base.PyVal Model.Resource Model.Scope Model.TokenLife Proofs.TokenLifeP.
Import ListNotations.
Open Scope string_scope.

(* tokens are never removed or altered except for added revocation marks; the clock never goes back *)
Theorem lifecycle_monotone :
  forall registry introspector ops s j tk,
  nth_error (l_toks s) j = Some tk ->
  (exists tk', nth_error (l_toks (lrun_from registry introspector s ops)) j = Some tk' /\ extends tk tk') /\
  (l_now s <= l_now (lrun_from registry introspector s ops))%Z.
Proof. intros. now apply run_monotone. Qed.
Print Assumptions lifecycle_monotone.

(* once revoked: refused by the resource protector and inactive at introspection, after ANY further history *)
Theorem revoked_then_refused_and_inactive :
  forall registry introspector s j tk ops,
  nth_error (l_toks s) j = Some tk -> is_revoked tk = true ->
  let s' := lrun_from registry introspector s ops in
  (forall required, snd (lstep registry introspector s' (LAccess (RAccess j) required)) = LErr 401 "invalid_token") /\
  (forall c h tr cl sc, query_token (l_toks s') tr h = Some j ->
     snd (lstep registry introspector s' (LIntrospect (Some tr) c h)) <> LIntro true cl sc).
Proof. exact revoked_then_refused_and_inactive_l. Qed.
Print Assumptions revoked_then_refused_and_inactive.

Theorem owner_revoke_marks :
  forall registry introspector s tr c h cl j tk,
  lauth registry c = Some cl -> hint_ok h = true ->
  query_token (l_toks s) tr h = Some j -> nth_error (l_toks s) j = Some tk -> k_client tk = lc_id cl ->
  snd (lstep registry introspector s (LRevoke (Some tr) c h)) = LOk200 /\
  exists tk', nth_error (l_toks (fst (lstep registry introspector s (LRevoke (Some tr) c h)))) j = Some tk' /\
              is_revoked tk' = true.
Proof. exact owner_revoke_marks_l. Qed.
Print Assumptions owner_revoke_marks.

Theorem foreign_revoke_refused_unchanged :
  forall registry introspector s tr c h cl j tk,
  lauth registry c = Some cl -> hint_ok h = true ->
  query_token (l_toks s) tr h = Some j -> nth_error (l_toks s) j = Some tk -> k_client tk <> lc_id cl ->
  lstep registry introspector s (LRevoke (Some tr) c h) = (s, LErr 400 "invalid_grant").
Proof. exact foreign_revoke_refused_unchanged_l. Qed.
Print Assumptions foreign_revoke_refused_unchanged.

Theorem unknown_revoke_200 :
  forall registry introspector s tr c h cl,
  lauth registry c = Some cl -> hint_ok h = true -> query_token (l_toks s) tr h = None ->
  lstep registry introspector s (LRevoke (Some tr) c h) = (s, LOk200).
Proof. exact unknown_revoke_200_l. Qed.
Print Assumptions unknown_revoke_200.

Theorem foreign_introspect_inactive :
  forall registry introspector s tr c h cl j tk,
  lauth registry c = Some cl -> hint_ok h = true ->
  query_token (l_toks s) tr h = Some j -> nth_error (l_toks s) j = Some tk ->
  k_client tk <> lc_id cl -> lc_id cl <> introspector ->
  lstep registry introspector s (LIntrospect (Some tr) c h) = (s, LIntro false "" None).
Proof. exact foreign_introspect_inactive_l. Qed.
Print Assumptions foreign_introspect_inactive.

Theorem expired_unknown_refused :
  forall registry introspector s i required,
  (nth_error (l_toks s) i = None \/ exists tk, nth_error (l_toks s) i = Some tk /\ is_expired tk (l_now s) = true) ->
  snd (lstep registry introspector s (LAccess (RAccess i) required)) = LErr 401 "invalid_token".
Proof. exact expired_unknown_inactive_refused_l. Qed.
Print Assumptions expired_unknown_refused.

Theorem refresh_sound :
  forall registry introspector s t c scope s' n sc hr,
  lstep registry introspector s (LRefresh t c scope) = (s', LToken n sc hr) ->
  exists i tk cl, t = RRefresh i /\ nth_error (l_toks s) i = Some tk /\ lauth registry c = Some cl /\
    k_client tk = lc_id cl /\ k_has_refresh tk = true /\ k_ref_rev tk = false /\
    (exists tk', nth_error (l_toks s') i = Some tk' /\ k_ref_rev tk' = true) /\
    (forall x, In x (scopes_of sc) -> In x (scopes_of (k_scope tk)) /\ In x (split_ws (lc_scope cl))).
Proof. exact refresh_sound_l. Qed.
Print Assumptions refresh_sound.
