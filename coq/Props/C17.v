(* C17 -- the async client refreshes an expired token exactly once under any interleaving.
   Every theorem quantifies over the number n of coroutines, the client configuration c, the initial token t0,
   the sequence os of token-endpoint outcomes and EVERY schedule (list of coroutine numbers, of any length).
   `reach` is the state reached; its `trace` is the ordered log of observable events. *)
From Coq Require Import List Arith Bool.
From Authlib Require Import Model.AsyncRefresh Proofs.AsyncRefreshP Proofs.AsyncRefreshR.
Import ListNotations.

Definition reach c n t0 os sched : st := run c (init n t0 os) sched.

(* no protected request ever carries an expired access token *)
Theorem no_request_carries_expired_token :
  forall c n t0 os sched j a, ~ In (j, ESend a true) (trace (reach c n t0 os sched)).
Proof. intros. eapply no_stale_send_l, Inv_reach. Qed.
Print Assumptions no_request_carries_expired_token.

(* the token is replaced at most once, and every token request beyond the first answers a failed one *)
Theorem at_most_one_refresh :
  forall c n t0 os sched,
  let tr := trace (reach c n t0 os sched) in
  cnt is_tokset tr <= 1 /\ cnt is_rsend tr <= 1 + cnt is_fail tr.
Proof. intros. eapply at_most_one_refresh_l, Inv_reach. Qed.
Print Assumptions at_most_one_refresh.

(* update_token fires at most once per replacement, never without one, and exactly as often once the lock is free *)
Theorem callback_once :
  forall c n t0 os sched,
  let s := reach c n t0 os sched in
  cnt is_cb (trace s) <= cnt is_tokset (trace s) /\
  (c_cb c = false -> cnt is_cb (trace s) = 0) /\
  (c_cb c = true -> lock s = None -> cnt is_cb (trace s) = cnt is_tokset (trace s)).
Proof. intros. eapply callback_l, Inv_reach. Qed.
Print Assumptions callback_once.

(* the caller whose refresh failed sends nothing and, once it has finished, has received that error *)
Theorem failing_caller_gets_error_and_sends_nothing :
  forall c n t0 os sched j o,
  let s := reach c n t0 os sched in
  (o = OErr \/ o = O5xx) -> In (j, ERefreshResp o) (trace s) ->
  (forall a b, ~ In (j, ESend a b) (trace s)) /\
  (terminal (pcd s j) = true -> In (j, EError (match o with OErr => KOAuth | _ => KHttp end)) (trace s)).
Proof. intros c n t0 os sched j o s. eapply failing_caller_l, Inv_reach. Qed.
Print Assumptions failing_caller_gets_error_and_sends_nothing.

(* the check-then-refresh section is mutually exclusive *)
Theorem mutual_exclusion :
  forall c n t0 os sched j k,
  let s := reach c n t0 os sched in
  crit (pcd s j) = true -> crit (pcd s k) = true -> j = k.
Proof. intros c n t0 os sched j k s. eapply mutual_exclusion_l, Inv_reach. Qed.
Print Assumptions mutual_exclusion.

(* when all coroutines have finished and no token request failed: exactly one refresh, one replacement, one
   callback, and every coroutine sent its protected request with an unexpired token *)
Theorem exactly_one_refresh_when_finished :
  forall c n t0 os sched,
  let s := reach c n t0 os sched in
  finished s = true -> c_has_token c = true -> t_exp t0 = true -> refreshable c t0 = true ->
  cnt is_fail (trace s) = 0 -> 1 <= n ->
  cnt is_rsend (trace s) = 1 /\ cnt is_tokset (trace s) = 1 /\
  (c_cb c = true -> cnt is_cb (trace s) = 1) /\
  (forall j, j < n -> exists a, In (j, ESend a false) (trace s)).
Proof. intros c n t0 os sched s. eapply completion_l, Inv_reach. Qed.
Print Assumptions exactly_one_refresh_when_finished.

(* no deadlock, and no execution is longer than 13 events per coroutine: every schedule that keeps choosing an
   enabled coroutine therefore ends in a finished state *)
Theorem no_deadlock :
  forall c n t0 os sched,
  let s := reach c n t0 os sched in
  finished s = false -> exists i, step c s i <> None.
Proof. intros c n t0 os sched s. eapply progress_l, Inv_reach. Qed.
Print Assumptions no_deadlock.

Theorem executions_bounded :
  forall c n t0 os sched, length (trace (reach c n t0 os sched)) <= 13 * n.
Proof. intros. apply bounded_l. Qed.
Print Assumptions executions_bounded.

(* non-vacuity: a concrete 3-coroutine schedule in which the hypotheses of the completion theorem hold *)
Definition ex_c := {| c_has_token := true; c_url := true; c_cc := false; c_cb := true |}.
Definition ex_t0 := {| t_acc := 0; t_rt := Some 0; t_exp := true |}.
Definition ex_sched :=
  [0; 1; 2; 1; 1; 0; 1; 1; 1; 1; 1; 1; 2; 2; 0; 0; 0; 0; 0; 1; 1; 1; 2; 2; 2].
Example finished_somewhere :
  let s := reach ex_c 3 ex_t0 [OOk true] ex_sched in
  finished s = true /\ cnt is_fail (trace s) = 0 /\ cnt is_rsend (trace s) = 1 /\ cnt is_send (trace s) = 3.
Proof. vm_compute. repeat split. Qed.

(* non-vacuity of the failure theorem: the first refresh fails, the second succeeds *)
Example failure_somewhere :
  let s := reach ex_c 2 ex_t0 [OErr; OOk false] [0; 0; 0; 0; 0; 0; 1; 1; 1; 1; 1; 1; 1; 1; 1; 1; 1; 1] in
  In (0, ERefreshResp OErr) (trace s) /\ In (0, EError KOAuth) (trace s) /\ finished s = true /\
  cnt is_rsend (trace s) = 2 /\ cnt is_tokset (trace s) = 1.
Proof. vm_compute. intuition. Qed.
