(* C15 -- what the client half emits, the server half reads back unchanged. *)
From Coq Require Import List NArith ZArith Bool Ascii String.
From Authlib Require Import Base.Bytes Base.Base64 Base.Utf8 Base.Percent Base.Form Base.Url Base.PyVal.
From Authlib Require Import Model.Resource Model.ClientAuth Model.Wire.
From Authlib Require Import Proofs.Base64P Proofs.FormP Proofs.UrlP Proofs.WireP.
Import ListNotations.
Open Scope string_scope.

(* form encoding: every list of octet pairs decodes to itself *)
Theorem url_decode_url_encode : forall ps, parse_qsl true (urlencode ps) = ps.
Proof. exact parse_qsl_urlencode. Qed.
Print Assumptions url_decode_url_encode.

Theorem url_encode_passes_url_decode_prechecks :
  forall ps, str_all urlencoded_char (urlencode ps) = true.
Proof. exact urlencode_urlencoded. Qed.
Print Assumptions url_encode_passes_url_decode_prechecks.

Theorem quote_plus_roundtrip : forall s, unquote_plus (quote_plus s) = s.
Proof. exact unquote_plus_quote_plus. Qed.
Print Assumptions quote_plus_roundtrip.

(* adding parameters never drops, reorders or alters the parameters already there *)
Theorem add_params_to_qs_preserves :
  forall q ps, parse_qsl true (add_params_to_qs q ps) = (parse_qsl true q ++ ps)%list.
Proof. exact FormP.add_params_to_qs_preserves. Qed.
Print Assumptions add_params_to_qs_preserves.

Theorem urlparse_urlunparse : forall x, comp_wf x = true -> urlparse (urlunparse x) = x.
Proof. exact urlparse_urlunparse_l. Qed.
Print Assumptions urlparse_urlunparse.

Theorem add_params_to_uri_preserves :
  forall u ps, comp_wf (urlparse u) = true ->
  urlparse (add_params_to_uri u ps false) =
    with_query (urlparse u) (urlencode (parse_qsl true (u_query (urlparse u)) ++ ps)) /\
  parse_qsl true (u_query (urlparse (add_params_to_uri u ps false))) =
    (parse_qsl true (u_query (urlparse u)) ++ ps)%list.
Proof. exact add_params_to_uri_preserves_l. Qed.
Print Assumptions add_params_to_uri_preserves.

Theorem add_params_to_fragment_preserves :
  forall u ps, comp_wf (urlparse u) = true ->
  urlparse (add_params_to_uri u ps true) =
    with_fragment (urlparse u) (urlencode (parse_qsl true (u_fragment (urlparse u)) ++ ps)) /\
  parse_qsl true (u_fragment (urlparse (add_params_to_uri u ps true))) =
    (parse_qsl true (u_fragment (urlparse u)) ++ ps)%list.
Proof. exact add_params_to_fragment_preserves_l. Qed.
Print Assumptions add_params_to_fragment_preserves.

(* authorization request: existing query kept, protocol parameters appended in order *)
Corollary grant_uri_roundtrip :
  forall u cid rt ruri scope state extra, comp_wf (urlparse u) = true ->
  parse_qsl true (u_query (urlparse (prepare_grant_uri u cid rt ruri scope state extra))) =
  (parse_qsl true (u_query (urlparse u)) ++
   [("response_type", rt); ("client_id", cid)] ++ opt_param "redirect_uri" ruri ++
   opt_param "scope" scope ++ opt_param "state" state ++ extra)%list.
Proof. intros. unfold prepare_grant_uri. now apply add_params_to_uri_preserves_l. Qed.
Print Assumptions grant_uri_roundtrip.

Theorem token_request_roundtrip :
  forall grant body ruri kwargs,
  parse_qsl true (prepare_token_request grant body ruri kwargs) =
  (parse_qsl true body ++ [("grant_type", grant)] ++ opt_param "redirect_uri" ruri
     ++ filter (fun kv => negb (String.eqb (snd kv) "")) kwargs)%list.
Proof. exact token_request_roundtrip_l. Qed.
Print Assumptions token_request_roundtrip.

(* client authentication *)
Theorem basic_auth_roundtrip :
  forall id sec,
  is_ascii_str id = true -> is_ascii_str sec = true ->
  lacks ":" id -> lacks "%" id -> lacks "%" sec ->
  extract_basic (Some (encode_basic id sec)) = (Some id, Some sec).
Proof. exact basic_auth_roundtrip_l. Qed.
Print Assumptions basic_auth_roundtrip.

Theorem post_auth_roundtrip :
  forall body id sec,
  parse_qsl true (encode_post body id sec) =
  (parse_qsl true body ++ [("client_id", id); ("client_secret", sec)])%list.
Proof. exact post_auth_roundtrip_l. Qed.
Print Assumptions post_auth_roundtrip.

(* bearer token placement *)
Theorem bearer_body_roundtrip :
  forall body tok, parse_qsl true (bearer_body body tok) = (parse_qsl true body ++ [("access_token", tok)])%list.
Proof. exact bearer_body_roundtrip_l. Qed.
Print Assumptions bearer_body_roundtrip.

Theorem bearer_header_roundtrip :
  forall tok, str_all (fun c => negb (is_ws c)) tok = true -> tok <> "" ->
  split_max1 (bearer_header tok) = ["Bearer"; tok].
Proof. exact bearer_header_roundtrip_l. Qed.
Print Assumptions bearer_header_roundtrip.

Corollary bearer_uri_roundtrip :
  forall u tok, comp_wf (urlparse u) = true ->
  parse_qsl true (u_query (urlparse (bearer_uri u tok))) =
  (parse_qsl true (u_query (urlparse u)) ++ [("access_token", tok)])%list.
Proof. intros. unfold bearer_uri. now apply add_params_to_uri_preserves_l. Qed.
Print Assumptions bearer_uri_roundtrip.

Example wire_examples :
  comp_wf (urlparse "https://as.example/authorize?x=1&y=a%20b") = true /\
  prepare_grant_uri "https://as.example/authorize?x=1" "c d" "code" (Some "https://c.example/cb?z=1") (Some "a b") (Some "s&t=1") []
    = "https://as.example/authorize?x=1&response_type=code&client_id=c+d&redirect_uri=https%3A%2F%2Fc.example%2Fcb%3Fz%3D1&scope=a+b&state=s%26t%3D1" /\
  extract_basic (Some (encode_basic "client id" "s3cr3t:with:colons")) = (Some "client id", Some "s3cr3t:with:colons") /\
  parse_authorization_code_response "https://c.example/cb?code=abc&state=xyz" (Some "xyz") = PParams [("code", "abc"); ("state", "xyz")] /\
  parse_authorization_code_response "https://c.example/cb?code=abc&state=xyz" (Some "other") = PErr "mismatching_state" /\
  parse_implicit_response "https://c.example/cb#access_token=t&token_type=bearer&state=" (Some "xyz") = PErr "mismatching_state".
Proof. vm_compute. repeat split. Qed.

(* a response is handed to the client only with the state the client expects: whenever an expected state is given (non-empty),
   the parsed parameters carry exactly that state -- equality, character for character -- for both kinds of response;
   every other state, and a missing one, is reported as mismatching_state *)
Theorem code_response_state_is_the_expected_one :
  forall uri expected params,
  expected <> "" ->
  parse_authorization_code_response uri (Some expected) = PParams params ->
  lookup_pair "state" params = Some expected.
Proof.
  intros uri expected params Hne. unfold parse_authorization_code_response.
  destruct (lookup_pair "code" _); [|discriminate].
  unfold state_mismatch. apply String.eqb_neq in Hne. rewrite Hne.
  destruct (lookup_pair "state" _) as [g|] eqn:E; [|discriminate].
  destruct (String.eqb g expected) eqn:Eg; simpl; [|discriminate].
  intros H. injection H as <-. apply String.eqb_eq in Eg. subst g. exact E.
Qed.
Print Assumptions code_response_state_is_the_expected_one.

Theorem implicit_response_state_is_the_expected_one :
  forall uri expected params,
  expected <> "" ->
  parse_implicit_response uri (Some expected) = PParams params ->
  lookup_pair "state" params = Some expected.
Proof.
  intros uri expected params Hne. unfold parse_implicit_response.
  destruct (lookup_pair "access_token" _); [|discriminate].
  destruct (lookup_pair "token_type" _); [|discriminate].
  unfold state_mismatch. apply String.eqb_neq in Hne. rewrite Hne.
  destruct (lookup_pair "state" _) as [g|] eqn:E; [|discriminate].
  destruct (String.eqb g expected) eqn:Eg; simpl; [|discriminate].
  intros H. injection H as <-. apply String.eqb_eq in Eg. subst g. exact E.
Qed.
Print Assumptions implicit_response_state_is_the_expected_one.
