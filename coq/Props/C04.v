(* C04 -- JWT claims validation accepts exactly what its options allow. *)
From Coq Require Import List NArith ZArith Bool Ascii String.
From Authlib Require Import Base.Bytes Base.PyVal Model.Claims Spec.ClaimsSpec Proofs.ClaimsP.
Import ListNotations.
Open Scope string_scope.

(* JWTClaims.validate: decision procedure = specification, for every options
   dictionary (well formed), claim set of any JSON types, now and leeway, and
   every interpretation of the validator callables *)
Theorem jwt_validate_iff :
  forall vfun opts claims now lw,
  opts_wf opts = true ->
  (jwt_validate vfun opts claims now lw = None <->
   jwt_claims_ok vfun JWT_REGISTERED opts claims now lw = true).
Proof.
  intros. apply jwt_validate_iff_l; [assumption|].
  intros k [<-|[<-|[<-|[]]]]; vm_compute; reflexivity.
Qed.
Print Assumptions jwt_validate_iff.

(* the error names a constraint that is actually violated *)
Theorem jwt_error_adequate :
  forall vfun opts claims now lw e,
  jwt_validate vfun opts claims now lw = Some e ->
  violated vfun JWT_REGISTERED opts claims now lw e.
Proof.
  intros. apply jwt_error_adequate_l; [|assumption].
  intros k [<-|[<-|[<-|[]]]]; vm_compute; reflexivity.
Qed.
Print Assumptions jwt_error_adequate.

Theorem expired_never_accepted :
  forall vfun opts claims now lw z,
  opts_wf opts = true ->
  dict_get "exp" claims = Some (PInt z) -> (z < now - lw)%Z ->
  jwt_validate vfun opts claims now lw <> None.
Proof.
  intros. eapply expired_never_accepted_l; eauto.
  intros k [<-|[<-|[<-|[]]]]; vm_compute; reflexivity.
Qed.
Print Assumptions expired_never_accepted.

Theorem idtoken_validate_iff :
  forall vfun half_hash kind opts hdr params claims now lw,
  opts_wf opts = true ->
  (idtoken_validate vfun half_hash kind opts hdr params claims now lw = None <->
   idtoken_ok vfun half_hash (flow_of kind) opts hdr params claims now lw = true).
Proof. exact idtoken_validate_iff_l. Qed.
Print Assumptions idtoken_validate_iff.

Theorem at_validate_iff :
  forall vfun opts hdr claims now lw,
  opts_wf opts = true ->
  (at_validate vfun opts hdr claims now lw = None <->
   at_claims_ok vfun opts hdr claims now lw = true).
Proof. intros vfun. exact (at_validate_iff_l vfun (fun _ _ => None)). Qed.
Print Assumptions at_validate_iff.

(* the defect repaired by the fix: commit: with the early return on a falsy
   aud the specification is NOT met (witness: aud = [] with an expected audience) *)
Definition check_aud_before_fix (opts claims : dictT) : option verr :=
  match dict_get "aud" opts with
  | None => None
  | Some o =>
      if negb (py_truthy o) || negb (py_truthy (cget "aud" claims)) then None
      else check_aud opts claims
  end.
Theorem falsy_aud_early_return_refuted :
  exists opts claims,
    opts_wf opts = true /\ check_aud_before_fix opts claims = None /\ aud_ok opts claims = false.
Proof.
  exists [("aud", PDict [("value", PStr "rs")])], [("aud", PList [])].
  vm_compute. auto.
Qed.
Print Assumptions falsy_aud_early_return_refuted.

(* non-vacuity and boundaries (exp = now - leeway is accepted, one less is not) *)
Example boundary_exp :
  let v := fun _ _ _ => true in
  jwt_validate v [] [("exp", PInt 990)] 1000 10 = None /\
  jwt_validate v [] [("exp", PInt 989)] 1000 10 = Some EExpired /\
  jwt_validate v [] [("exp", PFloat 1979 (-1))] 1000 10 = Some EExpired /\   (* 989.5 *)
  jwt_validate v [] [("nbf", PInt 1010)] 1000 10 = None /\
  jwt_validate v [] [("nbf", PInt 1011)] 1000 10 = Some (EInvalidToken "nbf") /\
  jwt_validate v [] [("exp", PStr "990")] 1000 10 = Some (EInvalid "exp") /\
  jwt_validate v [("iss", PDict [("essential", PBool true); ("value", PStr "a")])]
               [("iss", PStr "b")] 1000 0 = Some (EInvalid "iss") /\
  jwt_validate v [("aud", PDict [("value", PStr "rs")])] [("aud", PList [PStr "x"; PStr "rs"])] 1000 0 = None /\
  jwt_validate v [("aud", PDict [("value", PStr "rs")])] [("aud", PList [])] 1000 0 = Some (EInvalid "aud") /\
  opts_wf [("iss", PDict [("essential", PBool true); ("value", PStr "a")])] = true.
Proof. vm_compute. repeat split. Qed.
