(* C16 -- JWK import/export: member encoding, export filter, thumbprint input.
   Only statements; each closed by [exact] of a lemma in Proofs/. *)
From Coq Require Import List NArith ZArith Bool Ascii String Sorting.Sorted Permutation.
From Authlib Require Import Base.Bytes Base.Base64 Base.BigEndian Base.PyVal Model.JWK.
From Authlib Require Import Proofs.Base64P Proofs.BigEndianP Proofs.JWKP.
Import ListNotations.
Open Scope string_scope.

Theorem base64_to_int_int_to_base64 :
  forall n : N, n <> 0%N -> base64_to_int (int_to_base64 n) = Some n.
Proof. exact base64_to_int_int_to_base64_l. Qed.
Print Assumptions base64_to_int_int_to_base64.

Theorem int_to_base64_zero : int_to_base64 0 = "" /\ base64_to_int "" = None.
Proof. exact int_to_base64_zero_l. Qed.
Print Assumptions int_to_base64_zero.

(* RFC 7518 s6.3.1: minimal big-endian, no leading zero octet *)
Theorem int_to_base64_minimal :
  forall n : N, n <> 0%N ->
  exists octets a, urlsafe_b64decode (int_to_base64 n) = Some octets /\
                   first_char octets = Some a /\ byte_n a <> 0%N /\ bytes_to_int octets = n.
Proof. exact int_to_base64_minimal_l. Qed.
Print Assumptions int_to_base64_minimal.

Theorem int_to_base64_unpadded_urlsafe :
  forall n : N, str_all is_b64url_char (int_to_base64 n) = true.
Proof. exact int_to_base64_alphabet_l. Qed.
Print Assumptions int_to_base64_unpadded_urlsafe.

Theorem urlsafe_b64_roundtrip : forall s, urlsafe_b64decode (b64url_encode s) = Some s.
Proof. exact urlsafe_b64decode_encode. Qed.
Print Assumptions urlsafe_b64_roundtrip.

Theorem urlsafe_b64_encode_canonical : forall s, b64url_canonical (b64url_encode s) = true.
Proof. exact b64url_encode_canonical. Qed.
Print Assumptions urlsafe_b64_encode_canonical.

(* RFC 7518 s6.2.1.2 / s6.2.2.1: "full size of a coordinate for the curve" *)
Theorem ec_coordinate_full_size :
  forall crv n s, ec_coord crv n = Some s ->
  exists octets, urlsafe_b64decode s = Some octets /\
                 String.length octets = curve_octets crv /\ bytes_to_int octets = n.
Proof. exact ec_coordinate_full_size_l. Qed.
Print Assumptions ec_coordinate_full_size.

Theorem ec_dumps_members_full_size :
  forall crv x y d toks m v,
  ec_dumps_private crv x y d = KOk toks ->
  In (m, v) [("x", x); ("y", y); ("d", d)] ->
  exists s octets, dict_get m toks = Some (PStr s) /\ urlsafe_b64decode s = Some octets /\
                   String.length octets = curve_octets crv /\ bytes_to_int octets = v.
Proof. exact ec_dumps_members_full_size_l. Qed.
Print Assumptions ec_dumps_members_full_size.

(* the repaired defect, kept as a theorem: the minimal encoder used before the
   fix does not meet the full-size rule (witness: coordinate 1 on P-256) *)
Theorem minimal_encoder_not_full_size :
  exists crv n, curve_octets crv = 32%nat /\ ec_coord crv n <> Some (int_to_base64 n).
Proof. exact minimal_encoder_not_full_size_l. Qed.
Print Assumptions minimal_encoder_not_full_size.

Theorem ec_import_accepts_both_lengths :
  forall k n, n <> 0%N ->
  base64_to_int (b64url_encode (str_repeat "000"%char k ++ int_to_bytes_min n)) = Some n.
Proof. exact ec_import_accepts_padded_l. Qed.
Print Assumptions ec_import_accepts_both_lengths.

(* public export of a private key: only public fields, kty and kid survive *)
Theorem public_export_only_public_fields :
  forall kty pf toks thumb d,
  as_dict_core kty pf false toks thumb = KOk d ->
  dict_has "d" toks = true ->
  forall k, In k (dict_keys d) -> In k pf \/ k = "kty" \/ k = "kid".
Proof. exact public_export_only_public_fields_l. Qed.
Print Assumptions public_export_only_public_fields.

Theorem public_export_no_private_member :
  forall kty pf toks thumb d,
  disjoint_strs PRIVATE_MEMBERS (pf ++ ["kty"; "kid"]) = true ->
  as_dict_core kty pf false toks thumb = KOk d ->
  dict_has "d" toks = true ->
  forall k, In k PRIVATE_MEMBERS -> ~ In k (dict_keys d).
Proof. exact public_export_no_private_member_l. Qed.
Print Assumptions public_export_no_private_member.

Theorem key_classes_public_fields_disjoint_from_private :
  disjoint_strs PRIVATE_MEMBERS (RSA_PUBLIC ++ ["kty"; "kid"]) = true /\
  disjoint_strs PRIVATE_MEMBERS (EC_PUBLIC ++ ["kty"; "kid"]) = true /\
  disjoint_strs PRIVATE_MEMBERS (OKP_PUBLIC ++ ["kty"; "kid"]) = true.
Proof. exact key_classes_disjoint_l. Qed.
Print Assumptions key_classes_public_fields_disjoint_from_private.

Theorem private_export_of_public_errors :
  forall kty pf toks thumb, dict_has "d" toks = false ->
  as_dict_core kty pf true toks thumb = KErr "This is a public key".
Proof. exact private_export_of_public_errors_l. Qed.
Print Assumptions private_export_of_public_errors.

Theorem keyset_public_export_no_private :
  forall ks ds,
  keyset_as_dict false ks = KOk ds ->
  Forall (fun '(kty, pf, toks, thumb) =>
            disjoint_strs PRIVATE_MEMBERS (pf ++ ["kty"; "kid"]) = true /\ dict_has "d" toks = true) ks ->
  Forall (fun d => forall k, In k PRIVATE_MEMBERS -> ~ In k (dict_keys d)) ds.
Proof. exact keyset_public_export_no_private_l. Qed.
Print Assumptions keyset_public_export_no_private.

Theorem keyset_private_export_with_public_errors :
  forall ks,
  Exists (fun '(kty, pf, toks, thumb) => dict_has "d" toks = false) ks ->
  exists m, keyset_as_dict true ks = KErr m.
Proof. exact keyset_private_export_with_public_errors_l. Qed.
Print Assumptions keyset_private_export_with_public_errors.

(* RFC 7638 s3: members in lexicographic order, no whitespace *)
Theorem thumbprint_input_canonical :
  forall kty required toks s,
  thumbprint_input kty required toks = KOk s ->
  exists fields texts,
    Sorted sle fields /\ Permutation (required ++ ["kty"]) fields /\
    members_text fields (dict_set "kty" (PStr kty) toks) = Some texts /\
    s = "{" ++ join "," texts ++ "}".
Proof. exact thumbprint_input_canonical_l. Qed.
Print Assumptions thumbprint_input_canonical.

(* non-vacuity: a private EC token dict goes through the filter *)
Example ec_coord_example : ec_coord "P-256" 1 = Some "AAAAAAAAAAAAAAAAAAAAAAAAAAAAAAAAAAAAAAAAAAE".
Proof. vm_compute. reflexivity. Qed.

Example public_export_example :
  as_dict_core "EC" EC_PUBLIC false
     [("crv", PStr "P-256"); ("x", PStr "AQ"); ("y", PStr "Ag"); ("d", PStr "Aw"); ("use", PStr "sig")] "T"
  = KOk [("crv", PStr "P-256"); ("x", PStr "AQ"); ("y", PStr "Ag"); ("kty", PStr "EC"); ("kid", PStr "T")].
Proof. vm_compute. reflexivity. Qed.

(* a key set is a list: its export has one entry per key, in the same order, and each entry is that key's own export --
   whatever the kids are (equal kids, absent kids, a kid that equals a sibling's thumbprint collapse nothing) *)
Theorem keyset_export_is_keywise :
  forall is_private ks ds,
  keyset_as_dict is_private ks = KOk ds ->
  Forall2 (fun '(kty, pf, toks, thumb) d => as_dict_core kty pf is_private toks thumb = KOk d) ks ds.
Proof.
  intros is_private ks. induction ks as [|[[[kty pf] toks] thumb] r IH]; simpl; intros ds H.
  - injection H as <-. constructor.
  - destruct (as_dict_core kty pf is_private toks thumb) as [d|] eqn:E; [|discriminate].
    destruct (keyset_as_dict is_private r) as [ds'|]; [|discriminate].
    injection H as <-. constructor; [exact E | apply IH; reflexivity].
Qed.
Print Assumptions keyset_export_is_keywise.

Theorem keyset_export_keeps_every_key :
  forall is_private ks ds, keyset_as_dict is_private ks = KOk ds -> List.length ds = List.length ks.
Proof.
  intros is_private ks ds H. apply keyset_export_is_keywise in H.
  induction H; simpl; congruence.
Qed.
Print Assumptions keyset_export_keeps_every_key.
