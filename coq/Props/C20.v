(* C20 -- untrusted input always ends in a protocol-level outcome, never a crash.
   Model/Robust.v transcribes, over the untyped JSON universe and with Python's TypeError / AttributeError / KeyError /
   ValueError made explicit as the outcome [Exc], the places where values of attacker-chosen type or text enter:
   JOSE header algorithm members, the members of JWS / JWE JSON serializations, client metadata, token claims,
   RFC 7523 assertion claims, error descriptions, OAuth 1 signature comparison.  Theorems: for every value, the
   transcription never reaches [Exc], and what it returns; for the transcription without the guard (the code before the
   repair), a value that does.  The cryptographic stage of JOSE calls is the recorded finding: [..._partial] and
   [..._refuted]. *)
From Coq Require Import List NArith ZArith Bool Ascii String.
From Authlib Require Import Base.Bytes Base.PyVal Model.Robust Proofs.RobustP.
Import ListNotations.
Open Scope string_scope.
Open Scope list_scope.

(* ---- alg / enc / zip of a JOSE header, of any JSON type *)
Theorem header_algorithm_member_never_raises :
  forall member missing unsupported allow registry h,
  is_exc (named_algorithm member missing unsupported allow registry h) = false.
Proof. exact named_algorithm_total. Qed.
Print Assumptions header_algorithm_member_never_raises.

Theorem header_algorithm_member_accepted_iff :
  forall member missing unsupported allow registry h a,
  named_algorithm member missing unsupported allow registry h = Val a <->
  dict_get member h = Some (PStr a) /\ (match allow with Some l => In a l | None => True end) /\ In a registry.
Proof. exact named_algorithm_spec. Qed.
Print Assumptions header_algorithm_member_accepted_iff.

Theorem header_algorithm_member_without_guard_raises :
  named_algorithm_unguarded "alg" "MissingAlgorithmError" "UnsupportedAlgorithmError" None ["HS256"]
                            [("alg", PList [PStr "HS256"])] = Exc ETypeError.
Proof. exact named_algorithm_unguarded_reaches_exc. Qed.
Print Assumptions header_algorithm_member_without_guard_raises.

Theorem header_zip_never_raises : forall allow registry h, is_exc (jwe_zip allow registry h) = false.
Proof. exact jwe_zip_total. Qed.
Print Assumptions header_zip_never_raises.

(* ---- JSON serializations *)
Theorem jws_json_members_of_any_type_never_raise : forall obj, is_exc (jws_json_typing obj) = false.
Proof. exact jws_json_typing_total. Qed.
Print Assumptions jws_json_members_of_any_type_never_raise.

Theorem jws_json_typed_view_is_the_object :
  forall obj pl g es,
  jws_json_typing obj = Val (pl, g, es) ->
  exists d, obj = PDict d /\ dict_get "payload" d = Some (PStr pl) /\
            (g = true -> exists l, dict_get "signatures" d = Some (PList l) /\ List.length l = List.length es).
Proof. exact jws_json_typing_sound. Qed.
Print Assumptions jws_json_typed_view_is_the_object.

Theorem jws_json_without_guards_raises :
  forall repr_num,
  jws_json_typing_unguarded repr_num (PDict [("payload", PList [PStr "a"])]) = Exc ETypeError /\
  jws_json_typing_unguarded repr_num (PDict [("payload", PList [PInt 300])]) = Exc EValueError /\
  jws_json_typing_unguarded repr_num (PDict [("payload", PStr "e30"); ("signatures", PInt 5)]) = Exc ETypeError /\
  jws_json_typing_unguarded repr_num (PDict [("payload", PStr "e30"); ("signatures", PList [PInt 5])]) = Exc EAttributeError /\
  jws_json_typing_unguarded repr_num (PDict [("payload", PStr "e30"); ("protected", PList [PStr "a"]); ("signature", PStr "x")])
  = Exc ETypeError.
Proof. exact jws_json_typing_unguarded_reaches_exc. Qed.
Print Assumptions jws_json_without_guards_raises.

Theorem jwe_json_members_of_any_type_never_raise : forall obj, is_exc (jwe_json_typing obj) = false.
Proof. exact jwe_json_typing_total. Qed.
Print Assumptions jwe_json_members_of_any_type_never_raise.

Theorem jwe_json_typed_view_is_the_object :
  forall obj t,
  jwe_json_typing obj = Val t ->
  exists d, obj = PDict d /\ dict_get "iv" d = Some (PStr (jt_iv t)) /\ dict_get "ciphertext" d = Some (PStr (jt_ciphertext t)) /\
            dict_get "tag" d = Some (PStr (jt_tag t)) /\
            (forall v, dict_get "protected" d = Some v -> jt_protected t = Some (pv_str v) /\ is_str v = true) /\
            (forall v, dict_get "aad" d = Some v -> jt_aad t = Some (pv_str v) /\ is_str v = true).
Proof. exact jwe_json_typing_sound. Qed.
Print Assumptions jwe_json_typed_view_is_the_object.

Theorem to_bytes_raises_on_lists_and_dicts :
  forall repr_num,
  to_bytes repr_num (PList [PStr "a"]) = Exc ETypeError /\ to_bytes repr_num (PList [PInt 300]) = Exc EValueError /\
  to_bytes repr_num (PDict [("a", PInt 1)]) = Exc ETypeError.
Proof. exact to_bytes_reaches_exc. Qed.
Print Assumptions to_bytes_raises_on_lists_and_dicts.

(* ---- client metadata and the registration body *)
Theorem client_metadata_of_any_type_never_raises :
  forall is_valid_url scopes_supported grant_types_supported response_types_supported d,
  is_exc (metadata_validate is_valid_url scopes_supported grant_types_supported response_types_supported d) = false.
Proof. exact metadata_validate_total. Qed.
Print Assumptions client_metadata_of_any_type_never_raises.

Theorem client_metadata_type_refusal_names_a_present_member :
  forall d k, claim_types d = Refuse "invalid_client_metadata" (Some k) ->
  In k (ARRAY_CLAIMS ++ STRING_CLAIMS) /\ member d k <> PNone.
Proof. exact (claim_types_refusal (fun _ => true)). Qed.
Print Assumptions client_metadata_type_refusal_names_a_present_member.

Theorem client_metadata_without_type_check_raises :
  forall is_valid_url scopes_supported grant_types_supported response_types_supported,
  metadata_validate_unguarded is_valid_url scopes_supported grant_types_supported response_types_supported
                              [("redirect_uris", PInt 5)] = Exc ETypeError /\
  metadata_validate_unguarded is_valid_url scopes_supported grant_types_supported response_types_supported
                              [("redirect_uris", PList [PInt 1])] = Exc EAttributeError /\
  metadata_validate_unguarded is_valid_url scopes_supported ("authorization_code" :: grant_types_supported) ("code" :: response_types_supported)
                              [("scope", PInt 5)] = Exc EAttributeError.
Proof. exact metadata_validate_unguarded_reaches_exc. Qed.
Print Assumptions client_metadata_without_type_check_raises.

Theorem registration_body_accepted_iff :
  forall data d, registration_body data = Val d <-> data = Some (PDict d) /\ d <> [].
Proof. exact registration_body_spec. Qed.
Print Assumptions registration_body_accepted_iff.

Theorem registration_body_never_raises : forall data, is_exc (registration_body data) = false.
Proof. exact registration_body_total. Qed.
Print Assumptions registration_body_never_raises.

(* ---- token claims *)
Theorem scope_claim_of_any_type_never_raises :
  forall token_scopes required, is_exc (scope_insufficient scope_to_list token_scopes required) = false.
Proof. exact scope_insufficient_total. Qed.
Print Assumptions scope_claim_of_any_type_never_raises.

Theorem mistyped_scope_claim_grants_nothing :
  forall token_scopes required,
  required <> [] -> is_str token_scopes = false -> is_list token_scopes = false ->
  scope_insufficient scope_to_list token_scopes required = Val true.
Proof. exact scope_insufficient_mistyped. Qed.
Print Assumptions mistyped_scope_claim_grants_nothing.

Theorem scope_claim_without_guard_raises : scope_insufficient scope_to_list_unguarded (PInt 5) ["a"] = Exc EAttributeError.
Proof. exact scope_insufficient_unguarded_reaches_exc. Qed.
Print Assumptions scope_claim_without_guard_raises.

Theorem typ_header_of_any_type_never_raises : forall lower typ, is_exc (validate_typ lower typ) = false.
Proof. exact validate_typ_total. Qed.
Print Assumptions typ_header_of_any_type_never_raises.

Theorem half_hash_claim_of_any_type_never_raises :
  forall repr_num signature expected, is_exc (verify_hash repr_num signature expected) = false.
Proof. exact verify_hash_total. Qed.
Print Assumptions half_hash_claim_of_any_type_never_raises.

Theorem mistyped_half_hash_claim_is_refused :
  forall repr_num signature expected, is_str signature = false -> verify_hash repr_num signature expected = Val false.
Proof. exact verify_hash_mistyped. Qed.
Print Assumptions mistyped_half_hash_claim_is_refused.

Theorem assertion_issuer_accepted_iff :
  forall known payload iss,
  resolve_issuer known payload = Val iss <-> dict_get "iss" payload = Some (PStr iss) /\ In iss known /\ iss <> "".
Proof. exact resolve_issuer_spec. Qed.
Print Assumptions assertion_issuer_accepted_iff.

Theorem assertion_issuer_of_any_type_never_raises : forall known payload, is_exc (resolve_issuer known payload) = false.
Proof. exact resolve_issuer_total. Qed.
Print Assumptions assertion_issuer_of_any_type_never_raises.

Theorem assertion_issuer_without_guard_raises :
  resolve_issuer_unguarded ["c1"] [("sub", PStr "alice")] = Exc EKeyError /\
  resolve_issuer_unguarded ["c1"] [("iss", PList [PStr "c1"])] = Exc ETypeError /\
  resolve_issuer_unguarded ["c1"] [("iss", PStr "nobody")] = Exc EAttributeError.
Proof. exact resolve_issuer_unguarded_reaches_exc. Qed.
Print Assumptions assertion_issuer_without_guard_raises.

Theorem assertion_subject_of_any_type_never_raises : forall known payload, is_exc (resolve_assertion_client known payload) = false.
Proof. exact resolve_assertion_client_total. Qed.
Print Assumptions assertion_subject_of_any_type_never_raises.

(* ---- error descriptions *)
Theorem every_description_sent_is_in_the_rfc6749_set :
  forall code d k sent, oauth2_error code d = Refuse k (Some sent) -> sent = "" \/ desc_ok sent = true.
Proof. exact sent_description_ok. Qed.
Print Assumptions every_description_sent_is_in_the_rfc6749_set.

Theorem redirect_uri_refusal_for_every_uri :
  forall redirect_uri,
  redirect_uri_refusal redirect_uri = Refuse "invalid_request" (Some "Redirect URI is not supported by client.").
Proof. exact redirect_uri_refusal_total. Qed.
Print Assumptions redirect_uri_refusal_for_every_uri.

Theorem redirect_uri_refusal_before_the_repair_refuted :
  exists redirect_uri, redirect_uri_refusal_before redirect_uri = Exc EValueError.
Proof. exact redirect_uri_refusal_before_refuted. Qed.
Print Assumptions redirect_uri_refusal_before_the_repair_refuted.

Theorem assertion_refusal_for_every_jose_description : forall code d, is_exc (assertion_refusal code d) = false.
Proof. exact assertion_refusal_total. Qed.
Print Assumptions assertion_refusal_for_every_jose_description.

Theorem assertion_refusal_before_the_repair_refuted :
  exists d, assertion_refusal_before "invalid_grant" (Some d) = Exc EValueError.
Proof. exact assertion_refusal_before_refuted. Qed.
Print Assumptions assertion_refusal_before_the_repair_refuted.

(* ---- OAuth 1 *)
Theorem plaintext_signature_of_any_text_never_raises :
  forall expected presented, verify_plaintext expected presented = Val (String.eqb expected presented).
Proof. exact verify_plaintext_total. Qed.
Print Assumptions plaintext_signature_of_any_text_never_raises.

Theorem plaintext_signature_before_the_repair_refuted :
  exists presented, verify_plaintext_before "secret&" presented = Exc ETypeError.
Proof. exact verify_plaintext_before_refuted. Qed.
Print Assumptions plaintext_signature_before_the_repair_refuted.

(* ---- the recorded finding: the cryptographic stage passes on whatever class its primitives raise *)
Theorem jose_call_stays_in_the_family_partial :
  forall (K C M : Type) fam (prepare : prim K) unwrap (decrypt : C -> prim M),
  (forall cls, prepare = PRaise cls -> fam cls = true) ->
  (forall k cls, unwrap k = PRaise cls -> fam cls = true) ->
  (forall c cls, decrypt c = PRaise cls -> fam cls = true) ->
  is_exc (crypto_stage fam prepare unwrap decrypt) = false.
Proof. exact @crypto_stage_partial. Qed.
Print Assumptions jose_call_stays_in_the_family_partial.

Theorem jose_call_stays_in_the_family_refuted :
  let fam := fun cls => list_in_str cls ["DecodeError"; "BadSignatureError"; "UnsupportedAlgorithmError"; "InvalidClaimError"] in
  crypto_stage (K := unit) (C := unit) (M := string) fam (PRaise "ValueError") (fun _ => POk tt) (fun _ => POk "") = Exc EValueError /\
  crypto_stage (K := unit) (C := unit) (M := string) fam (POk tt) (fun _ => PRaise "InvalidUnwrap") (fun _ => POk "") = Exc EValueError /\
  crypto_stage (K := unit) (C := unit) (M := string) fam (POk tt) (fun _ => POk tt) (fun _ => PRaise "InvalidTag") = Exc EValueError.
Proof. exact crypto_stage_refuted. Qed.
Print Assumptions jose_call_stays_in_the_family_refuted.

(* ---- the type check of registration metadata, for any lists of member names (RFC 7591 and OpenID Connect registration) *)
Theorem metadata_type_check_never_raises : forall arrays strings d, is_exc (typed_members arrays strings d) = false.
Proof. intros. apply typed_members_total; exact (fun _ => true). Qed.
Print Assumptions metadata_type_check_never_raises.

Theorem metadata_type_check_passes_only_typed_members :
  forall arrays strings d,
  typed_members arrays strings d = Val tt ->
  (forall k, In k arrays -> member d k = PNone \/ str_list (member d k) = true) /\
  (forall k, In k strings -> member d k = PNone \/ is_str (member d k) = true).
Proof. intros arrays strings d. apply typed_members_sound; exact (fun _ => true). Qed.
Print Assumptions metadata_type_check_passes_only_typed_members.
