(* C18 -- authorization-server / OpenID-provider metadata validation. *)
From Coq Require Import List NArith ZArith Bool Ascii String.
From Authlib Require Import Base.Bytes Base.PyVal Base.Url Model.Metadata Spec.MetadataSpec Proofs.MetadataP.
From Authlib Require Import Model.Registration Proofs.RegistrationP.
Import ListNotations.
Open Scope string_scope.

(* accepted => conforming, for EVERY document (members of any JSON type) *)
Theorem as_metadata_accept_sound :
  forall d, as_validate d = MOk -> doc_ok RFC8414_RULES d = true.
Proof. exact as_validate_sound_l. Qed.
Print Assumptions as_metadata_accept_sound.

(* conforming => accepted, for documents whose set-valued members, when present, are arrays of scalars *)
Theorem as_metadata_validate_iff :
  forall d, doc_wf d = true -> (as_validate d = MOk <-> doc_ok RFC8414_RULES d = true).
Proof. intros d Hwf. split; [apply as_validate_sound_l | now apply as_validate_complete_l]. Qed.
Print Assumptions as_metadata_validate_iff.

Theorem op_metadata_accept_sound :
  forall d, op_validate d = MOk -> doc_ok OIDC_RULES d = true.
Proof. exact op_validate_sound_l. Qed.
Print Assumptions op_metadata_accept_sound.

Theorem op_metadata_validate_iff :
  forall d, doc_wf d = true -> (op_validate d = MOk <-> doc_ok OIDC_RULES d = true).
Proof. intros d Hwf. split; [apply op_validate_sound_l | now apply op_validate_complete_l]. Qed.
Print Assumptions op_metadata_validate_iff.

(* named corollaries *)
Corollary none_alg_never_accepted :
  forall d l, as_validate d = MOk ->
  dict_get "token_endpoint_auth_signing_alg_values_supported" d = Some (PList l) ->
  py_in_list (PStr "none") l = false.
Proof.
  intros d l H Hg. apply as_validate_sound_l in H. unfold doc_ok, RFC8414_RULES in H.
  cbn [forallb fst snd] in H. rewrite !andb_true_iff in H.
  destruct H as (_ & _ & _ & _ & _ & _ & _ & _ & _ & _ & H & _).
  unfold rule_ok, member, given in H. rewrite Hg in H. cbn [pv_list] in H.
  destruct l as [|x r]; [reflexivity|]. cbn [py_truthy is_array implb andb] in H.
  rewrite !andb_true_iff in H. destruct H as [_ H]. now apply negb_true_iff in H.
Qed.
Print Assumptions none_alg_never_accepted.

Corollary jwt_auth_requires_alg_list :
  forall d ms, as_validate d = MOk ->
  dict_get "token_endpoint_auth_methods_supported" d = Some (PList ms) ->
  In (PStr "private_key_jwt") ms ->
  py_truthy (member "token_endpoint_auth_signing_alg_values_supported" d) = true.
Proof.
  intros d ms H Hg Hin. apply as_validate_sound_l in H. unfold doc_ok, RFC8414_RULES in H.
  cbn [forallb fst snd] in H. rewrite !andb_true_iff in H.
  destruct H as (_ & _ & _ & _ & _ & _ & _ & _ & _ & _ & H & _).
  unfold rule_ok, given, member_or in H. rewrite Hg in H. rewrite !andb_true_iff in H.
  destruct H as [[_ H] _].
  assert (Hm : mentions (PList ms) ["private_key_jwt"; "client_secret_jwt"] = true).
  { unfold mentions. apply existsb_exists. exists "private_key_jwt". split; [|reflexivity].
    unfold str_elems. apply in_flat_map. exists (PStr "private_key_jwt"). split; [assumption|simpl; auto]. }
  rewrite Hm in H. exact H.
Qed.
Print Assumptions jwt_auth_requires_alg_list.

(* ---- dynamic registration / update: only validated metadata is stored *)
Theorem registration_stored_ok :
  forall tok md jwks_ok payload m,
  register tok md jwks_ok payload = Stored m -> tok = true /\ payload <> [] /\ stored_ok md m = true.
Proof. exact registration_stored_ok_l. Qed.
Print Assumptions registration_stored_ok.

Theorem registration_requires_token :
  forall md jwks_ok payload, register false md jwks_ok payload = Refused 400 "access_denied".
Proof. exact registration_requires_token_l. Qed.
Print Assumptions registration_requires_token.

Theorem update_checks_before_update :
  forall tok ex perm cid sec md jwks_ok payload m,
  update tok ex perm cid sec md jwks_ok payload = Stored m ->
  tok = true /\ ex = true /\ perm = true /\
  (forall k, In k FORBIDDEN -> mhas k payload = false) /\
  py_eq (mget "client_id" payload) (PStr cid) = true /\
  (mhas "client_secret" payload = true -> py_eq (mget "client_secret" payload) (PStr sec) = true) /\
  stored_ok md m = true.
Proof. exact update_checks_before_update_l. Qed.
Print Assumptions update_checks_before_update.

(* every stored redirect URI is a non-empty absolute URI without fragment *)
Theorem stored_redirect_uris_absolute :
  forall md m v, stored_ok md m = true -> In v (pv_list (mget "redirect_uris" m)) ->
  exists s, v = PStr s /\ s <> "" /\ is_valid_url s false = true.
Proof.
  intros md m v H Hin. unfold stored_ok in H. rewrite !andb_true_iff in H.
  destruct H as [[[[[H _] _] _] _] _]. rewrite forallb_forall in H. specialize (H v Hin).
  unfold redirect_entry_ok in H. apply andb_true_iff in H. destruct H as [Ht Hv].
  destruct v; try discriminate. exists s. repeat split; auto.
  intros ->. discriminate.
Qed.
Print Assumptions stored_redirect_uris_absolute.

Example a_valid_document :
  let d := [ ("issuer", PStr "https://as.example");
             ("authorization_endpoint", PStr "https://as.example/authorize");
             ("token_endpoint", PStr "https://as.example/token");
             ("response_types_supported", PList [PStr "code"]);
             ("token_endpoint_auth_methods_supported", PList [PStr "private_key_jwt"]);
             ("token_endpoint_auth_signing_alg_values_supported", PList [PStr "RS256"]) ] in
  as_validate d = MOk /\ doc_wf d = true /\ doc_ok RFC8414_RULES d = true /\
  as_validate (("issuer", PStr "https://as.example?x=1") :: d) = MErr "issuer" /\
  as_validate (("token_endpoint_auth_signing_alg_values_supported", PList [PStr "none"]) :: d)
    = MErr "token_endpoint_auth_signing_alg_values_supported" /\
  as_validate (("grant_types_supported", PInt 5) :: d) = MCrash.
Proof. vm_compute. repeat split. Qed.
