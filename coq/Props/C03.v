(* C03 -- JWE authenticated encryption: round trip and tamper rejection (Model/JWE.v).
   Key management, the content-encryption AEAD, compression and JSON text conversion are parameters; every statement
   holds for every instantiation, header, key, allow-list and serialization. *)
From Coq Require Import List NArith ZArith Bool Ascii String.
From Authlib Require Import Base.Bytes Base.Base64 Base.PyVal Model.JWS Model.JWE Proofs.JWSP Proofs.JWEP.
Import ListNotations.
Open Scope string_scope.
Open Scope list_scope.

Section C03.
Variable json_dumps : hdict -> string.
Variable json_loads : string -> option pv.
Variable alg_registered enc_registered zip_registered : string -> bool.
Variable prepare_key : string -> pv -> option pv.
Variable unwrap : string -> string -> string -> hdict -> pv -> option string.
Variable decrypt : string -> string -> string -> string -> string -> string -> option string.
Variable decompress : string -> string -> option string.

Notation header_alg := (header_alg alg_registered).
Notation header_enc := (header_enc enc_registered).
Notation header_zip := (header_zip zip_registered).
Notation extract_hdr := (extract_hdr json_loads).
Notation finish := (finish decompress).
Notation deserialize_compact :=
  (deserialize_compact json_loads alg_registered enc_registered zip_registered prepare_key unwrap decrypt decompress).
Notation deserialize_json :=
  (deserialize_json json_loads alg_registered enc_registered zip_registered prepare_key unwrap decrypt decompress).

(* the serialization layer loses nothing: what the encrypting side assembles is taken apart into the same header,
   encrypted key, IV, ciphertext and tag, with the protected segment as additional authenticated data *)
Theorem compact_round_trip :
  forall allow protected ek iv ct tag rawkey alg enc zip k cek msg payload,
  (forall d, json_loads (json_dumps d) = Some (PDict d)) ->
  header_alg allow protected = EOk alg -> header_enc allow protected = EOk enc -> header_zip allow protected = EOk zip ->
  prepare_key alg (effective_key protected rawkey) = Some k ->
  unwrap alg enc ek protected k = Some cek ->
  decrypt enc cek iv (b64url_encode (json_dumps protected)) ct tag = Some msg ->
  finish zip msg = EOk payload ->
  deserialize_compact allow (assemble_compact (json_dumps protected) ek iv ct tag) rawkey = EOk (protected, payload).
Proof. exact (compact_roundtrip_l json_dumps json_loads alg_registered enc_registered zip_registered prepare_key unwrap decrypt decompress). Qed.

(* whatever compact JWE yields a plaintext: it has exactly five dot-free segments; the AEAD accepted the decoded IV,
   ciphertext and tag with the RECEIVED protected segment as additional authenticated data under the key that unwrap
   produced from the decoded encrypted key; alg, enc and zip are the protected header's, registered and allowed *)
Theorem compact_decrypted_means_authenticated :
  forall allow s rawkey h payload,
  deserialize_compact allow s rawkey = EOk (h, payload) ->
  exists ps eks ivs cts tags ek iv ct tag alg enc zip k cek msg,
    s = (ps ++ "." ++ eks ++ "." ++ ivs ++ "." ++ cts ++ "." ++ tags)%string /\
    nodot ps /\ nodot eks /\ nodot ivs /\ nodot cts /\ nodot tags /\
    extract_hdr ps = EOk h /\
    urlsafe_b64decode eks = Some ek /\ urlsafe_b64decode ivs = Some iv /\ urlsafe_b64decode cts = Some ct /\
    urlsafe_b64decode tags = Some tag /\
    header_alg allow h = EOk alg /\ header_enc allow h = EOk enc /\ header_zip allow h = EOk zip /\
    prepare_key alg (effective_key h rawkey) = Some k /\
    unwrap alg enc ek h k = Some cek /\
    decrypt enc cek iv ps ct tag = Some msg /\
    finish zip msg = EOk payload.
Proof. exact (compact_accept_sound_l json_loads alg_registered enc_registered zip_registered prepare_key unwrap decrypt decompress). Qed.

(* the converse, so acceptance is characterised exactly: five dot-free segments that pass every stage are accepted
   with the header of the first segment and the finished plaintext -- nothing else is consulted *)
Theorem compact_authenticated_means_decrypted :
  forall allow ps eks ivs cts tags ek iv ct tag alg enc zip k cek msg rawkey h payload,
  nodot ps -> nodot eks -> nodot ivs -> nodot cts -> nodot tags ->
  extract_hdr ps = EOk h ->
  urlsafe_b64decode eks = Some ek -> urlsafe_b64decode ivs = Some iv -> urlsafe_b64decode cts = Some ct ->
  urlsafe_b64decode tags = Some tag ->
  header_alg allow h = EOk alg -> header_enc allow h = EOk enc -> header_zip allow h = EOk zip ->
  prepare_key alg (effective_key h rawkey) = Some k ->
  unwrap alg enc ek h k = Some cek ->
  decrypt enc cek iv ps ct tag = Some msg ->
  finish zip msg = EOk payload ->
  deserialize_compact allow (ps ++ "." ++ eks ++ "." ++ ivs ++ "." ++ cts ++ "." ++ tags)%string rawkey = EOk (h, payload).
Proof. exact (compact_accept_complete_l json_loads alg_registered enc_registered zip_registered prepare_key unwrap decrypt decompress). Qed.

(* anything but exactly five segments is a DecodeError, whatever the key, the allow-list and the cipher *)
Theorem wrong_segment_count_is_refused :
  forall allow s rawkey,
  List.length (split_dots s) <> 5%nat -> deserialize_compact allow s rawkey = EErr (EDecode "segments").
Proof. exact (compact_segment_count_l json_loads alg_registered enc_registered zip_registered prepare_key unwrap decrypt decompress). Qed.

(* an algorithm outside the caller's allow-list never decrypts anything, whatever the key and the cipher say *)
Theorem disallowed_algorithm_never_decrypts :
  forall l s rawkey h payload,
  deserialize_compact (Some l) s rawkey = EOk (h, payload) ->
  exists a e, dict_get "alg" h = Some (PStr a) /\ allowed (Some l) a = true /\
              dict_get "enc" h = Some (PStr e) /\ allowed (Some l) e = true.
Proof.
  intros l s rawkey h payload H.
  destruct (compact_accept_sound_l json_loads alg_registered enc_registered zip_registered prepare_key unwrap decrypt decompress
              _ _ _ _ _ H)
    as (ps & eks & ivs & cts & tags & ek & iv & ct & tag & alg & enc & zip & k & cek & msg & S & N1 & N2 & N3 & N4 & N5 & EH & D1 & D2 & D3 & D4 & HA & HE & HZ & PK & UW & DE & FI).
  destruct (header_alg_sound alg_registered _ _ _ HA) as [A1 [A2 A3]].
  destruct (header_enc_sound enc_registered _ _ _ HE) as [E1 [E2 E3]].
  exists alg, enc. repeat split; assumption.
Qed.

Theorem algorithms_are_the_headers_and_allowed :
  forall allow h a e,
  header_alg allow h = EOk a -> header_enc allow h = EOk e ->
  dict_get "alg" h = Some (PStr a) /\ alg_registered a = true /\ allowed allow a = true /\
  dict_get "enc" h = Some (PStr e) /\ enc_registered e = true /\ allowed allow e = true.
Proof.
  intros allow h a e HA HE.
  destruct (header_alg_sound alg_registered _ _ _ HA) as [A1 [A2 A3]].
  destruct (header_enc_sound enc_registered _ _ _ HE) as [E1 [E2 E3]]. repeat split; assumption.
Qed.

(* JSON serialization: the content key comes from ONE of the listed recipients' encrypted keys (the one whose header
   kid is the key's, else the first that unwraps), and the AEAD accepted the received protected member -- joined with
   "." and the aad member when present -- as additional authenticated data *)
Theorem json_decrypted_means_authenticated :
  forall allow o rawkey key_kid p payload,
  deserialize_json allow o rawkey key_kid = EOk (p, payload) ->
  exists iv ct tag alg enc zip k r ek cek msg,
    (match o_protected o with Some ps => extract_hdr ps | None => EOk [] end) = EOk p /\
    (exists s, o_iv o = Some s /\ urlsafe_b64decode s = Some iv) /\
    (exists s, o_ct o = Some s /\ urlsafe_b64decode s = Some ct) /\
    (exists s, o_tag o = Some s /\ urlsafe_b64decode s = Some tag) /\
    header_alg allow (hmerge p (o_unprotected o)) = EOk alg /\
    header_enc allow (hmerge p (o_unprotected o)) = EOk enc /\
    header_zip allow (hmerge p (o_unprotected o)) = EOk zip /\
    prepare_key alg rawkey = Some k /\
    In r (o_recipients o) /\ (exists seg, r_ek r = Some seg /\ urlsafe_b64decode seg = Some ek) /\
    unwrap alg enc ek (merge3 p (o_unprotected o) (r_header r)) k = Some cek /\
    decrypt enc cek iv (json_aad o) ct tag = Some msg /\
    finish zip msg = EOk payload.
Proof. exact (json_accept_sound_l json_loads alg_registered enc_registered zip_registered prepare_key unwrap decrypt decompress). Qed.

(* tampering: if the AEAD accepts only the original (iv0, aad0, ct0, tag0) and then yields m0 -- what authenticated
   encryption idealises --, every compact serialization that decrypts carries the original protected segment, IV,
   ciphertext and tag octets, hence the original protected header and plaintext: no altered serialization decrypts
   to anything else *)
Theorem altered_serialization_never_decrypts_to_something_else :
  forall allow s' rawkey h' payload' iv0 aad0 ct0 tag0 m0,
  (forall enc cek iv aad ct tag m, decrypt enc cek iv aad ct tag = Some m ->
     iv = iv0 /\ aad = aad0 /\ ct = ct0 /\ tag = tag0 /\ m = m0) ->
  deserialize_compact allow s' rawkey = EOk (h', payload') ->
  exists eks ivs cts tags zip,
    s' = (aad0 ++ "." ++ eks ++ "." ++ ivs ++ "." ++ cts ++ "." ++ tags)%string /\
    extract_hdr aad0 = EOk h' /\
    urlsafe_b64decode ivs = Some iv0 /\ urlsafe_b64decode cts = Some ct0 /\ urlsafe_b64decode tags = Some tag0 /\
    finish zip m0 = EOk payload'.
Proof.
  intros allow s' rawkey h' payload' iv0 aad0 ct0 tag0 m0 U H.
  destruct (compact_accept_sound_l json_loads alg_registered enc_registered zip_registered prepare_key unwrap decrypt decompress
              _ _ _ _ _ H)
    as (ps & eks & ivs & cts & tags & ek & iv & ct & tag & alg & enc & zip & k & cek & msg & S & N1 & N2 & N3 & N4 & N5 & EH & D1 & D2 & D3 & D4 & HA & HE & HZ & PK & UW & DE & FI).
  destruct (U _ _ _ _ _ _ _ DE) as [-> [-> [-> [-> ->]]]].
  exists eks, ivs, cts, tags, zip. repeat split; auto.
Qed.
End C03.

Print Assumptions compact_round_trip.
Print Assumptions compact_decrypted_means_authenticated.
Print Assumptions compact_authenticated_means_decrypted.
Print Assumptions wrong_segment_count_is_refused.
Print Assumptions disallowed_algorithm_never_decrypts.
Print Assumptions algorithms_are_the_headers_and_allowed.
Print Assumptions json_decrypted_means_authenticated.
Print Assumptions altered_serialization_never_decrypts_to_something_else.

(* non-vacuity with a toy cipher *)
Definition t_loads (s : string) : option pv := if String.eqb s "H" then Some (PDict [("alg", PStr "dir"); ("enc", PStr "T")]) else None.
Definition t_unwrap (alg enc ek : string) (h : hdict) (k : pv) : option string := Some (pv_str k).
Definition t_decrypt (enc cek iv aad ct tag : string) : option string :=
  if String.eqb tag (cek ++ aad ++ iv ++ ct) then Some ct else None.
Example toy_jwe :
  let s := assemble_compact "H" "" "iv" "secret text" ("K" ++ b64url_encode "H" ++ "iv" ++ "secret text") in
  deserialize_compact t_loads (fun a => String.eqb a "dir") (fun e => String.eqb e "T") (fun _ => false) (fun _ k => Some k)
                      t_unwrap t_decrypt (fun _ _ => None) None s (PStr "K")
    = EOk ([("alg", PStr "dir"); ("enc", PStr "T")], "secret text") /\
  deserialize_compact t_loads (fun a => String.eqb a "dir") (fun e => String.eqb e "T") (fun _ => false) (fun _ k => Some k)
                      t_unwrap t_decrypt (fun _ _ => None) None s (PStr "L") = EErr EDecrypt.
Proof. vm_compute. split; reflexivity. Qed.
