(* C14 -- client integrations bind the callback to the session that started the flow.
   Model/ClientState.v; `reach mode clears_old o1 n ops` is the state after ANY list of redirects, callbacks and clock
   advances by n user sessions.  Session storage satisfies the property; the cache storage AS IMPLEMENTED does not
   bind the state to a session: the full statement is refuted for it by a concrete history (the known finding), and
   the part that does hold is proved as ..._partial. *)
From Coq Require Import List NArith ZArith Bool Ascii String.
From Authlib Require Import Base.Bytes Model.ClientState Proofs.ClientStateP.
Import ListNotations.
Open Scope string_scope.
Open Scope list_scope.

Definition reach (mode : smode) (clears_old : bool) (o1 : string -> bool) (n : nat) (ops : list cop) : cst :=
  crun_from mode clears_old 3600 o1 (cinit n) ops.

Lemma reach_inv mode clears_old o1 n ops : Inv mode (reach mode clears_old o1 n ops).
Proof. apply Inv_run, Inv_init. Qed.

(* session storage: a callback is exchanged only for the state it names, of the provider it names, created by a
   redirect of the SAME session, with exactly the data that redirect stored (redirect_uri, PKCE, nonce), and the state
   is gone afterwards; anything else is a mismatch (the only other outcome of a callback) *)
Theorem session_callback_bound_to_its_session :
  forall clears_old o1 n ops sess p state e s',
  cstep SessionMode clears_old 3600 o1 (reach SessionMode clears_old o1 n ops) (CCallback sess p state) = (s', OExchanged e) ->
  exists st, state = Some st /\ e_prov e = p /\ e_state e = st /\
    nth_error (rev (c_log (reach SessionMode clears_old o1 n ops))) st = Some e /\
    e_sess e = sess /\
    (forall x, stored s' x -> e_state x <> st).
Proof.
  intros clears_old o1 n ops sess p state e s' H.
  destruct (exchange_sound_l clears_old 3600 o1 SessionMode _ _ _ _ _ _ (reach_inv _ _ _ _ _) H)
    as [st [A [B [C [D [E [_ G]]]]]]].
  exists st. repeat split; auto.
Qed.
Print Assumptions session_callback_bound_to_its_session.

(* cache storage as implemented: everything except the session *)
Theorem cache_callback_bound_to_its_state_partial :
  forall clears_old o1 n ops sess p state e s',
  cstep CacheMode clears_old 3600 o1 (reach CacheMode clears_old o1 n ops) (CCallback sess p state) = (s', OExchanged e) ->
  exists st, state = Some st /\ e_prov e = p /\ e_state e = st /\
    nth_error (rev (c_log (reach CacheMode clears_old o1 n ops))) st = Some e /\
    (c_now (reach CacheMode clears_old o1 n ops) < e_exp e)%Z /\
    (forall x, stored s' x -> e_state x <> st).
Proof.
  intros clears_old o1 n ops sess p state e s' H.
  destruct (exchange_sound_l clears_old 3600 o1 CacheMode _ _ _ _ _ _ (reach_inv _ _ _ _ _) H)
    as [st [A [B [C [D [_ [E G]]]]]]].
  exists st. repeat split; auto. apply E. reflexivity.
Qed.
Print Assumptions cache_callback_bound_to_its_state_partial.

(* ... and the missing part is false: session 1 presents the state that session 0's redirect created *)
Theorem cache_callback_bound_to_its_session_refuted :
  exists ops sess p state e s',
  cstep CacheMode false 3600 (fun _ => false) (reach CacheMode false (fun _ => false) 2 ops) (CCallback sess p state) = (s', OExchanged e) /\
  e_sess e <> sess.
Proof.
  exists [CBegin 0 "oidc" false true (Some "https://rp.example/cb")], 1, "oidc", (Some 0).
  eexists. eexists. split; [vm_compute; reflexivity|]. cbn. discriminate.
Qed.
Print Assumptions cache_callback_bound_to_its_session_refuted.

(* in both storages a state is exchanged at most once, whatever happens in between *)
Theorem state_exchanged_at_most_once :
  forall mode clears_old o1 n ops0 sess p state e s',
  cstep mode clears_old 3600 o1 (reach mode clears_old o1 n ops0) (CCallback sess p state) = (s', OExchanged e) ->
  forall ops sess2 p2 state2 s3 e2,
    cstep mode clears_old 3600 o1 (crun_from mode clears_old 3600 o1 s' ops) (CCallback sess2 p2 state2) = (s3, OExchanged e2) ->
    e_state e2 <> e_state e.
Proof. intros. eapply exchanged_never_again_l; eauto. apply reach_inv. Qed.
Print Assumptions state_exchanged_at_most_once.

(* a callback has exactly two outcomes; the mismatch outcome involves no exchange *)
Theorem callback_outcomes :
  forall mode clears_old o1 s sess p state,
  (exists e, snd (cstep mode clears_old 3600 o1 s (CCallback sess p state)) = OExchanged e) \/
  snd (cstep mode clears_old 3600 o1 s (CCallback sess p state)) = OMismatch \/
  snd (cstep mode clears_old 3600 o1 s (CCallback sess p state)) = ONone.
Proof.
  intros. unfold cstep. destruct mode; [destruct (nth_error (c_sessions s) sess)|]; cbn; auto;
    repeat match goal with |- context [match ?x with _ => _ end] => destruct x end; cbn; eauto.
Qed.
Print Assumptions callback_outcomes.

(* non-vacuity: interleaved flows in two sessions, each callback gets its own data *)
Example interleaved_flows :
  crun_outs SessionMode false 3600 (fun _ => false) (cinit 2)
    [CBegin 0 "both" true true (Some "A"); CBegin 1 "both" true true (Some "B"); CCallback 1 "both" (Some 0);
     CCallback 1 "both" (Some 1); CCallback 0 "both" (Some 0); CCallback 0 "both" (Some 0)]
  = [OBegan 0; OBegan 1; OMismatch;
     OExchanged {| e_prov := "both"; e_state := 1; e_pkce := true; e_openid := true; e_redirect := Some "B"; e_exp := 3600; e_sess := 1 |};
     OExchanged {| e_prov := "both"; e_state := 0; e_pkce := true; e_openid := true; e_redirect := Some "A"; e_exp := 3600; e_sess := 0 |};
     OMismatch].
Proof. vm_compute. reflexivity. Qed.

(* the two protocols differ in WHEN the stored data is cleared: an OAuth 2 callback clears the named state and the
   expired entries before it looks at what it found, an OAuth 1 callback only after it found its request token.  A
   callback naming an unknown state is a mismatch either way; what it leaves behind differs, and the model keeps
   the difference (the same history, once with an OAuth 1 and once with an OAuth 2 provider) *)
Example unknown_state_then_late_callback_oauth1 :
  crun_outs SessionMode false 3600 (fun p => String.eqb p "legacy") (cinit 1)
    [CBegin 0 "legacy" false false (Some "A"); CTick 4000; CCallback 0 "legacy" (Some 7); CCallback 0 "legacy" (Some 0);
     CCallback 0 "legacy" (Some 0)]
  = [OBegan 0; ONone; OMismatch;
     OExchanged {| e_prov := "legacy"; e_state := 0; e_pkce := false; e_openid := false; e_redirect := Some "A"; e_exp := 3600; e_sess := 0 |};
     OMismatch].
Proof. vm_compute. reflexivity. Qed.

Example unknown_state_then_late_callback_oauth2 :
  crun_outs SessionMode false 3600 (fun p => String.eqb p "legacy") (cinit 1)
    [CBegin 0 "oidc" true true (Some "A"); CTick 4000; CCallback 0 "oidc" (Some 7); CCallback 0 "oidc" (Some 0)]
  = [OBegan 0; ONone; OMismatch; OMismatch].
Proof. vm_compute. reflexivity. Qed.
