(* C11 -- OAuth 1.0 signatures: base string, encoding, tamper detection. *)
From Coq Require Import List NArith ZArith Bool Ascii String Sorting.Sorted Permutation.
From Authlib Require Import Base.Bytes Base.Base64 Base.Percent Base.Form Base.Url Model.OAuth1Sig.
From Authlib Require Import Proofs.FormP Proofs.OAuth1SigP.
Import ListNotations.
Open Scope string_scope.

(* RFC 5849 s3.6 percent encoding *)
Theorem escape_charset : forall s, str_all esc_out_char (escape s) = true.
Proof. exact escape_charset_l. Qed.
Print Assumptions escape_charset.

Theorem escape_per_octet : forall c, esc_ok c = true.
Proof. exact esc_ok_all. Qed.
Print Assumptions escape_per_octet.

Theorem unescape_escape : forall s, unescape (escape s) = s.
Proof. exact unescape_escape_l. Qed.
Print Assumptions unescape_escape.

Theorem escape_injective : forall a b, escape a = escape b -> a = b.
Proof. exact escape_injective_l. Qed.
Print Assumptions escape_injective.

(* s3.4.1.3.2: parameters sorted by encoded name, then encoded value; duplicates kept *)
Theorem normalize_parameters_sorted_perm :
  forall ps, Sorted ple (sort_pairs (map esc_pair ps)) /\ Permutation (map esc_pair ps) (sort_pairs (map esc_pair ps)).
Proof. intros. split; [apply sort_pairs_sorted | apply sort_pairs_perm]. Qed.
Print Assumptions normalize_parameters_sorted_perm.

Theorem normalize_parameters_injective :
  forall p1 p2, p1 <> [] -> p2 <> [] ->
  normalize_parameters p1 = normalize_parameters p2 -> Permutation p1 p2.
Proof. exact normalize_parameters_injective_l. Qed.
Print Assumptions normalize_parameters_injective.

(* the three '&'-joined fields of the base string are unambiguous *)
Theorem base_string_injective :
  forall m1 u1 p1 h1 m2 u2 p2 h2 b,
  construct_base_string m1 u1 p1 h1 = Some b -> construct_base_string m2 u2 p2 h2 = Some b ->
  upper m1 = upper m2 /\
  normalize_base_string_uri u1 h1 = normalize_base_string_uri u2 h2 /\
  normalize_parameters (filter (fun kv => negb (sig_excluded (fst kv))) p1) =
  normalize_parameters (filter (fun kv => negb (sig_excluded (fst kv))) p2).
Proof. exact base_string_injective_l. Qed.
Print Assumptions base_string_injective.

Theorem hmac_key_injective :
  forall c1 t1 c2 t2, signing_key c1 t1 = signing_key c2 t2 -> c1 = c2 /\ t1 = t2.
Proof. exact signing_key_injective_l. Qed.
Print Assumptions hmac_key_injective.

(* under an ideal MAC, a signature verifies only for the same method, normalised URI,
   parameter multiset and both secrets *)
Theorem oauth1_tamper :
  forall (hmac_sha1 : string -> string -> string),
  (forall k1 m1 k2 m2, hmac_sha1 k1 m1 = hmac_sha1 k2 m2 -> k1 = k2 /\ m1 = m2) ->
  forall m1 u1 p1 h1 c1 t1 m2 u2 p2 h2 c2 t2 b1 b2,
  construct_base_string m1 u1 p1 h1 = Some b1 -> construct_base_string m2 u2 p2 h2 = Some b2 ->
  verify_hmac_sha1 hmac_sha1 b2 c2 t2 (hmac_sha1_signature hmac_sha1 b1 c1 t1) = true ->
  c1 = c2 /\ t1 = t2 /\ upper m1 = upper m2 /\
  normalize_base_string_uri u1 h1 = normalize_base_string_uri u2 h2 /\
  normalize_parameters (filter (fun kv => negb (sig_excluded (fst kv))) p1) =
  normalize_parameters (filter (fun kv => negb (sig_excluded (fst kv))) p2).
Proof. exact oauth1_tamper_l. Qed.
Print Assumptions oauth1_tamper.

(* RFC 5849 s3.4.1.1: the RFC's own example *)
Example rfc5849_example_base_string :
  construct_base_string "post" "http://EXAMPLE.COM:80/request?b5=%3D%253D&a3=a&c%40=&a2=r%20b"
    [ ("b5", "=%3D"); ("a3", "a"); ("c@", ""); ("a2", "r b");
      ("c2", ""); ("a3", "2 q");
      ("oauth_consumer_key", "9djdj82h48djs9d2"); ("oauth_token", "kkk9d7dh3k39sjv7");
      ("oauth_signature_method", "HMAC-SHA1"); ("oauth_timestamp", "137131201");
      ("oauth_nonce", "7d8f3e4a"); ("realm", "Example"); ("oauth_signature", "bYT5CMsGcbgUdFHObYMEfcx6bsw=") ]
    None
  = Some ("POST&http%3A%2F%2Fexample.com%2Frequest&a2%3Dr%2520b%26a3%3D2%2520q%26a3%3Da%26b5%3D%253D%25253D%26c%2540%3D%26c2%3D%26oauth_consumer_key%3D9djdj82h48djs9d2%26oauth_nonce%3D7d8f3e4a%26oauth_signature_method%3DHMAC-SHA1%26oauth_timestamp%3D137131201%26oauth_token%3Dkkk9d7dh3k39sjv7").
Proof. vm_compute. reflexivity. Qed.

Example normalize_uri_examples :
  normalize_base_string_uri "HTTP://Example.com:80/r/v/X?id=123" None = Some "http://example.com/r/v/X" /\
  normalize_base_string_uri "https://www.example.net:8080/?q=1" None = Some "https://www.example.net:8080/" /\
  normalize_base_string_uri "https://www.example.net:443" None = Some "https://www.example.net/" /\
  normalize_base_string_uri "https://a.example/p" (Some "B.example:443") = Some "https://b.example/p" /\
  normalize_base_string_uri "/relative" None = None.
Proof. vm_compute. repeat split. Qed.

(* the authority of the base string URI: a host without a colon is kept character for character; the port is dropped exactly
   when it is the scheme's default port (so hosts ending in digits of that port, "10.0.0.3:443", keep their last characters) *)
Lemma split_first_colon h port :
  (forall c, In c (list_ascii_of_string h) -> c <> ":"%char) ->
  split_first ":" (h ++ ":" ++ port) = (h, Some port).
Proof.
  induction h as [|d r IH]; intros H; [reflexivity|].
  change ((String d r ++ ":" ++ port)%string) with (String d (r ++ ":" ++ port)%string).
  cbn [split_first]. destruct (Ascii.eqb d ":") eqn:E.
  - apply Ascii.eqb_eq in E. exfalso. apply (H d); [left; reflexivity | exact E].
  - rewrite IH; [reflexivity|]. intros c Hc. apply H. right. exact Hc.
Qed.

Theorem base_string_authority_keeps_the_host :
  forall scheme h port,
  (forall c, In c (list_ascii_of_string h) -> c <> ":"%char) ->
  base_netloc scheme (h ++ ":" ++ port) =
    if (String.eqb scheme "http" && String.eqb port "80") || (String.eqb scheme "https" && String.eqb port "443")
    then h else (h ++ ":" ++ port)%string.
Proof. intros scheme h port H. unfold base_netloc. rewrite split_first_colon by exact H. reflexivity. Qed.
Print Assumptions base_string_authority_keeps_the_host.

Theorem base_string_authority_without_port_is_unchanged :
  forall scheme h, (forall c, In c (list_ascii_of_string h) -> c <> ":"%char) -> base_netloc scheme h = h.
Proof.
  intros scheme h H. unfold base_netloc.
  assert (E : split_first ":" h = (h, None)).
  { induction h as [|d r IH]; [reflexivity|].
    cbn [split_first]. destruct (Ascii.eqb d ":") eqn:E.
    - apply Ascii.eqb_eq in E. exfalso. apply (H d); [left; reflexivity | exact E].
    - rewrite IH; [reflexivity|]. intros c Hc. apply H. right. exact Hc. }
  rewrite E. reflexivity.
Qed.
Print Assumptions base_string_authority_without_port_is_unchanged.

Example hosts_ending_in_port_digits :
  base_netloc "https" "10.0.0.3:443" = "10.0.0.3" /\ base_netloc "https" "api4:443" = "api4" /\ base_netloc "http" "10.0.0.80:80" = "10.0.0.80" /\
  base_netloc "https" "host:4443" = "host:4443" /\ base_netloc "https" "api443" = "api443".
Proof. repeat split. Qed.
