(* C08 -- issued scope never exceeds what was requested, allowed and supported. *)
From Coq Require Import List NArith ZArith Bool Ascii String.
From Authlib Require Import Base.Bytes Base.PyVal Model.Resource Model.Scope Proofs.BytesP Proofs.ScopeP.
Import ListNotations.
Open Scope string_scope.

(* every grant, every token generator, all scope strings: what the response
   reports and what a JWT access token embeds is within the client's allowance,
   within the request (or, for refresh, the original grant) and within the
   server's supported set when one is configured *)
Theorem issued_scope_subset :
  forall gr g sup cs req orig r e,
  issue gr g sup cs req orig = Issued r e ->
  forall s, In s (scopes_of r) \/ In s (scopes_of e) ->
    In s (split_ws cs) /\
    (gr <> GRefresh -> In s (scopes_of req) /\ (sup <> [] -> In s sup)) /\
    (gr = GRefresh -> In s (scopes_of orig) /\ (truthy_s req = true -> In s (scopes_of req))).
Proof. exact issued_scope_subset_l. Qed.
Print Assumptions issued_scope_subset.

Theorem unsupported_scope_invalid_scope :
  forall gr g sup cs req orig x s,
  gr <> GRefresh -> sup <> [] -> req = Some x -> In s (split_ws x) -> ~ In s sup ->
  issue gr g sup cs req orig = InvalidScope.
Proof. exact unsupported_scope_invalid_scope_l. Qed.
Print Assumptions unsupported_scope_invalid_scope.

Theorem refresh_widen_invalid_scope :
  forall g sup cs x orig s,
  In s (split_ws x) -> ~ In s (scopes_of orig) ->
  issue GRefresh g sup cs (Some x) orig = InvalidScope.
Proof. exact refresh_widen_invalid_scope_l. Qed.
Print Assumptions refresh_widen_invalid_scope.

Theorem refresh_keeps_original :
  forall g sup cs orig,
  exists r e, issue GRefresh g sup cs None orig = Issued r e /\
              (forall s, In s (scopes_of r) -> In s (scopes_of orig)).
Proof. exact refresh_keep_l. Qed.
Print Assumptions refresh_keeps_original.

Theorem response_scope_is_embedded_scope :
  forall g cs sc r e,
  generate g cs sc = (r, e) -> g <> GenBearer -> scopes_of r = scopes_of e.
Proof. exact response_scope_is_embedded_l. Qed.
Print Assumptions response_scope_is_embedded_scope.

Theorem split_join_words : forall l, Forall word l -> split_ws (join " " l) = l.
Proof. exact split_ws_join. Qed.
Print Assumptions split_join_words.

Example issue_examples :
  issue GPassword GenBearer ["a"; "b"; "c"] "a c" (Some "c b a") None = Issued (Some "c a") None /\
  issue GPassword GenBearer ["a"; "b"] "a c" (Some "a c") None = InvalidScope /\
  issue GRefresh GenJwt9068 [] "a b" (Some "a") (Some "a b") = Issued (Some "a") (Some "a") /\
  issue GRefresh GenBearer [] "a b" (Some "a c") (Some "a b") = InvalidScope /\
  issue GJwtBearer GenJwt7523 [] "a" (Some "a b") None = Issued (Some "a") (Some "a") /\
  issue GClientCredentials GenBearer [] "" (Some "a") None = Issued None None.
Proof. vm_compute. repeat split. Qed.
