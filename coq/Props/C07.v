(* C07 -- client authentication at the token, revocation, introspection and device endpoints. *)
From Coq Require Import List NArith ZArith Bool Ascii String.
From Authlib Require Import Base.Bytes Base.PyVal Model.Claims Model.Resource Model.ClientAuth.
From Authlib Require Import Proofs.ClientAuthP Model.Transport Proofs.TransportP.
Import ListNotations.
Open Scope string_scope.

(* only-if: a request is treated as coming from client [id] only if it presents
   valid credentials for it through a permitted method the client is registered for *)
Theorem auth_sound :
  forall token_url jti_fresh now reg r methods endpoint id m,
  authenticate token_url jti_fresh now reg r methods endpoint = AOk id m ->
  In m methods /\ exists c, c_id c = id /\ In c reg /\ presents token_url jti_fresh now reg r m c /\
                            check_endpoint_auth_method c m endpoint = true.
Proof. exact auth_sound_l. Qed.
Print Assumptions auth_sound.

(* every other combination: invalid_client with status 400 or 401, nothing else *)
Theorem auth_failure_is_invalid_client :
  forall token_url jti_fresh now reg r methods endpoint st,
  authenticate token_url jti_fresh now reg r methods endpoint = AInvalidClient st ->
  st = 400%N \/ st = 401%N.
Proof. exact auth_failure_is_invalid_client_l. Qed.
Print Assumptions auth_failure_is_invalid_client.

Theorem basic_only_401 :
  forall token_url jti_fresh now reg r methods endpoint st,
  only_basic_attempted r -> In "client_secret_basic" methods ->
  authenticate token_url jti_fresh now reg r methods endpoint = AInvalidClient st -> st = 401%N.
Proof. exact basic_only_401_l. Qed.
Print Assumptions basic_only_401.

Theorem public_with_secret_refused :
  forall reg r, nonempty (r_data_secret r) = true -> m_none reg r = MNone.
Proof. exact public_with_secret_refused_l. Qed.
Print Assumptions public_with_secret_refused.

Theorem method_not_permitted_never_used :
  forall token_url jti_fresh now reg r methods endpoint id m,
  authenticate token_url jti_fresh now reg r methods endpoint = AOk id m -> In m methods.
Proof. exact method_not_permitted_never_used_l. Qed.
Print Assumptions method_not_permitted_never_used.

(* no over-refusal: one valid, permitted, registered mechanism succeeds *)
Theorem auth_complete_basic :
  forall token_url jti_fresh now reg r methods endpoint c id sec,
  extract_basic (r_auth r) = (Some id, Some sec) -> id <> "" -> sec <> "" ->
  find_client reg id = Some c -> c_secret c = sec ->
  check_endpoint_auth_method c "client_secret_basic" endpoint = true ->
  methods = "client_secret_basic" :: tl methods ->
  authenticate token_url jti_fresh now reg r methods endpoint = AOk id "client_secret_basic".
Proof. exact auth_complete_basic_l. Qed.
Print Assumptions auth_complete_basic.

Example auth_examples :
  let reg := [ {| c_id := "c1"; c_secret := "s1"; c_method := "client_secret_basic" |};
               {| c_id := "c2"; c_secret := "s2"; c_method := "client_secret_post" |};
               {| c_id := "pub"; c_secret := ""; c_method := "none" |} ] in
  let base := {| r_auth := None; r_form_id := None; r_form_secret := None; r_data_id := None;
                 r_data_secret := None; r_assertion_type := None; r_assertion := None;
                 r_assertion_sig_ok := false; r_assertion_wellformed := false; r_assertion_claims := [] |} in
  let ms := ["client_secret_basic"; "client_secret_post"; "none"] in
  let au := authenticate "https://as/token" (fun _ => true) 1000 reg in
  (* c1:s1 *)
  au {| r_auth := Some "Basic YzE6czE="; r_form_id := None; r_form_secret := None; r_data_id := None;
        r_data_secret := None; r_assertion_type := None; r_assertion := None;
        r_assertion_sig_ok := false; r_assertion_wellformed := false; r_assertion_claims := [] |} ms "token"
     = AOk "c1" "client_secret_basic" /\
  (* c2:s2 over Basic, but c2 is registered for post *)
  au {| r_auth := Some "Basic YzI6czI="; r_form_id := None; r_form_secret := None; r_data_id := None;
        r_data_secret := None; r_assertion_type := None; r_assertion := None;
        r_assertion_sig_ok := false; r_assertion_wellformed := false; r_assertion_claims := [] |} ms "token"
     = AInvalidClient 401 /\
  au base ms "token" = AInvalidClient 401 /\
  au base ["client_secret_post"] "token" = AInvalidClient 400.
Proof. vm_compute. repeat split. Qed.

(* The credentials the authenticator sees are read out of the request by a wrapper (framework-free, Flask, Django); the
   model's r_form_* / r_data_* fields are those readings.  The three wrappers read every name alike when no name
   occurs twice in query and form together, so the outcome proved above is the outcome behind each of them; and a name in
   both places is read differently by Flask (the example), which is why such requests are compared framework-free only. *)
Theorem request_wrappers_read_alike :
  forall q f k, NoDup (Transport.names (q ++ f)%list) ->
  Transport.flask_data q f k = Transport.neutral_data q f k /\ Transport.django_data q f k = Transport.neutral_data q f k.
Proof. exact TransportP.readings_agree. Qed.
Print Assumptions request_wrappers_read_alike.
