(* C05 -- the authorization endpoint never redirects to an unregistered URI. *)
From Coq Require Import List NArith ZArith Bool Ascii String.
From Authlib Require Import Base.Bytes Base.Form Base.PyVal Model.Resource Model.Scope Model.Wire Model.Authorize.
From Authlib Require Import Proofs.AuthorizeP Proofs.UrlP Proofs.WireP.
Import ListNotations.
Open Scope string_scope.

(* every request (any parameter multiset in query and form), every configuration, approve or deny,
   every registered grant incl. OIDC implicit and hybrid: a 302 / form_post target is the URI the
   identified, existing client registered (the request's if accepted, else the default) *)
Theorem redirect_only_registered :
  forall cfg q f approve t,
  target_of (respond cfg q f approve) = Some t -> registered_target cfg q f t.
Proof. exact redirect_only_registered_l. Qed.
Print Assumptions redirect_only_registered.

Theorem error_local_when_no_valid_target :
  forall cfg q f approve,
  (forall cid c, dget "client_id" (rdata q f) = Some cid -> find_oclient (a_clients cfg) cid = Some c ->
                 valid_target c (rdata q f) = None) ->
  target_of (respond cfg q f approve) = None.
Proof. exact no_client_local_l. Qed.
Print Assumptions error_local_when_no_valid_target.

Theorem state_echo_once :
  forall cfg q f approve t,
  target_of (respond cfg q f approve) = Some t ->
  filter (key_is "state") (params_of (respond cfg q f approve)) = state_of (rdata q f).
Proof. exact state_echo_once_l. Qed.
Print Assumptions state_echo_once.

Theorem credential_only_if_approved :
  forall cfg q f, filter is_cred (params_of (respond cfg q f false)) = [].
Proof. exact credential_only_if_approved_l. Qed.
Print Assumptions credential_only_if_approved.

(* pre-existing query parameters of the registered URI are preserved (from C15's URL theorem) *)
Theorem preexisting_query_preserved :
  forall target ps, comp_wf (Base.Url.urlparse target) = true ->
  parse_qsl true (Base.Url.u_query (Base.Url.urlparse (add_params_to_uri target ps false))) =
  (parse_qsl true (Base.Url.u_query (Base.Url.urlparse target)) ++ ps)%list.
Proof. intros. now apply add_params_to_uri_preserves_l. Qed.
Print Assumptions preexisting_query_preserved.

Example respond_examples :
  let c1 := {| oc_id := "c1"; oc_redirects := ["https://client.example/cb"; "https://client.example/cb2?x=1"];
               oc_response_types := ["code"]; oc_auth_method := "client_secret_basic"; oc_scope := "a openid" |} in
  let p1 := {| oc_id := "p1"; oc_redirects := ["https://client.example/cb"];
               oc_response_types := ["token"; "id_token"; "id_token token"; "code id_token"]; oc_auth_method := "none"; oc_scope := "a openid" |} in
  let cfg := {| a_clients := [c1; p1]; a_scopes_supported := []; a_used_nonces := []; a_require_nonce := false |} in
  respond cfg [("response_type", "code"); ("client_id", "c1"); ("state", "s")] [] true
    = ARedirect "https://client.example/cb" [("code", "*"); ("state", "s")] false /\
  respond cfg [("response_type", "code"); ("client_id", "c1"); ("redirect_uri", "https://evil.example/x")] [] true
    = ALocal 400 "invalid_request" /\
  respond cfg [("response_type", "id_token"); ("client_id", "nobody"); ("redirect_uri", "https://evil.example/x"); ("scope", "a")] [] true
    = ALocal 400 "invalid_client" /\
  respond cfg [("response_type", "id_token"); ("client_id", "p1"); ("scope", "a"); ("state", "s")] [] true
    = ARedirect "https://client.example/cb" [("error", "invalid_scope"); ("state", "s")] true /\
  respond cfg [("response_type", "token id_token"); ("client_id", "p1"); ("scope", "openid"); ("nonce", "n"); ("response_mode", "form_post")] [] true
    = AFormPost "https://client.example/cb"
        [("token_type", "Bearer"); ("access_token", "*"); ("expires_in", "*"); ("scope", "openid"); ("id_token", "*")] /\
  respond cfg [("response_type", "code"); ("client_id", "c1")] [] false
    = ARedirect "https://client.example/cb" [("error", "access_denied")] false.
Proof. vm_compute. repeat split. Qed.
