(* C02 -- algorithm allow-list, key-family matching and key selection policy.
   Model/KeyPolicy.v (symmetric-key safety test, selection by kid, use / key_ops, algorithm/key-kind table, crit) and
   Model/JWS.v (allow-list and registry before any key handling). *)
From Coq Require Import List NArith ZArith Bool Ascii String.
From Authlib Require Import Base.Bytes Base.Base64 Base.PyVal Model.KeyPolicy Model.JWS Proofs.KeyPolicyP Proofs.JWSP.
From Authlib Require Model.JWE.
Import ListNotations.
Open Scope nat_scope.
Open Scope string_scope.
Open Scope list_scope.

(* every text that the asymmetric key classes load is refused as an HMAC secret -- given what the PEM / certificate /
   SSH loaders need to see in their input (a hypothesis about `cryptography`, checked differentially on every run) *)
Theorem asymmetric_text_is_never_an_hmac_secret :
  forall asym_loadable : string -> bool,
  (forall raw, asym_loadable raw = true ->
     (exists m, In m PEM_MARKERS /\ contains m raw = true) \/ (exists p, In p SSH_TYPES /\ starts_with p raw = true)) ->
  forall raw, asym_loadable raw = true -> oct_import_ok raw = false.
Proof. exact asymmetric_text_is_never_an_hmac_secret_l. Qed.
Print Assumptions asymmetric_text_is_never_an_hmac_secret.

(* the test used before the repair is refuted by PEM text after a newline *)
Theorem prefix_test_refuted :
  exists raw, contains "-----BEGIN " raw = true /\ old_prefix_test raw = false /\ oct_import_ok raw = false.
Proof. exists (String "010" "-----BEGIN PUBLIC KEY-----"). vm_compute. repeat split. Qed.
Print Assumptions prefix_test_refuted.

(* key selection: the only key, or the FIRST key whose kid equals the header's; never a trial of other keys *)
Theorem key_is_selected_by_kid :
  forall kids kid i,
  find_by_kid kids kid = Some i ->
  exists k, nth_error kids i = Some k /\
    ((kid = None /\ List.length kids = 1) \/
     (kid_matches k kid = true /\ forall n k', n < i -> nth_error kids n = Some k' -> kid_matches k' kid = false)).
Proof. exact find_by_kid_sound_l. Qed.
Print Assumptions key_is_selected_by_kid.

Theorem unknown_kid_is_an_error :
  forall kids x, (forall k, In k kids -> k <> Some x) ->
  find_by_kid kids (Some x) = None /\ find_in_jwks_dict kids (Some x) = None.
Proof. exact unknown_kid_is_an_error_l. Qed.
Print Assumptions unknown_kid_is_an_error.

Theorem missing_kid_with_several_keys_is_an_error :
  forall kids, 2 <= List.length kids -> (forall k, In k kids -> k <> None) ->
  find_by_kid kids None = None /\ find_in_jwks_dict kids None = None.
Proof. exact missing_kid_with_several_keys_is_an_error_l. Qed.
Print Assumptions missing_kid_with_several_keys_is_an_error.

(* use and key_ops are honoured, and a private operation is refused on a public key *)
Theorem use_and_key_ops_are_honoured :
  forall key_ops use public_only o,
  check_key_op key_ops use public_only o = None <-> key_op_allowed key_ops use public_only o = true.
Proof. exact check_key_op_iff_l. Qed.
Print Assumptions use_and_key_ops_are_honoured.

(* an algorithm takes keys of its own family only; an EC key of another curve is refused *)
Theorem algorithm_takes_only_its_key_family :
  forall alg k,
  alg_family_ok alg k = true <->
  exists kty crv, required_kind alg = Some (kty, crv) /\ kd_kty k = kty /\ (crv = None \/ crv = Some (kd_crv k)).
Proof. exact alg_family_iff_l. Qed.
Print Assumptions algorithm_takes_only_its_key_family.

Example es256_refuses_p384 : alg_family_ok "ES256" {| kd_kty := "EC"; kd_crv := "P-384" |} = false
                             /\ alg_family_ok "HS256" {| kd_kty := "RSA"; kd_crv := "" |} = false
                             /\ alg_family_ok "none" {| kd_kty := "oct"; kd_crv := "" |} = false.
Proof. vm_compute. repeat split. Qed.

(* crit: accepted only when absent, or a non-empty list of names the recipient was told to understand and that are
   present in the protected header *)
Theorem crit_is_enforced :
  forall private protected,
  validate_crit private protected = None <->
  (dict_get "crit" protected = None \/
   exists l, dict_get "crit" protected = Some (PList l) /\ l <> [] /\ forallb (crit_name_ok private protected) l = true).
Proof. exact validate_crit_iff_l. Qed.
Print Assumptions crit_is_enforced.

(* alg none is never accepted; an accepted token's algorithm is registered and on the allow-list; its crit passed *)
Theorem none_is_never_accepted_and_policy_precedes_acceptance :
  forall json_loads registered prepare_key verify allow private s rawkey h payload,
  (forall k m sg, verify "none" k m sg = false) ->
  deserialize_compact json_loads registered prepare_key verify allow private s rawkey = JOk (h, payload) ->
  exists alg, dict_get "alg" h = Some (PStr alg) /\ alg <> "none" /\ registered alg = true /\
              (forall l, allow = Some l -> list_in_str alg l = true) /\
              validate_crit (match private with Some l => l | None => [] end) h = None.
Proof.
  intros json_loads registered prepare_key verify allow private s rawkey h payload NV H.
  destruct (compact_accept_sound_l json_loads registered prepare_key verify _ _ _ _ _ _ H)
    as [pseg [plseg [sigseg [sg [alg [k [_ [_ [_ [CR [_ [_ [P V]]]]]]]]]]]]].
  destruct (prepare_sound registered prepare_key _ _ _ _ _ P) as [A [R [L _]]].
  exists alg. repeat split; auto.
  - intros ->. rewrite NV in V. discriminate.
  - unfold crit_check in CR. destruct (validate_crit _ h); [discriminate|reflexivity].
Qed.
Print Assumptions none_is_never_accepted_and_policy_precedes_acceptance.

(* an allow-list is a list: the empty one admits nothing, at either layer (it is not the absence of a list) *)
Theorem empty_allow_list_admits_nothing :
  forall json_loads registered prepare_key verify private s rawkey,
  (forall r, deserialize_compact json_loads registered prepare_key verify (Some []) private s rawkey <> JOk r).
Proof.
  intros json_loads registered prepare_key verify private s rawkey r H. destruct r as [h payload].
  destruct (compact_accept_sound_l json_loads registered prepare_key verify _ _ _ _ _ _ H)
    as [pseg [plseg [sigseg [sg [alg [k [_ [_ [_ [_ [_ [_ [P _]]]]]]]]]]]]].
  destruct (prepare_sound registered prepare_key _ _ _ _ _ P) as [_ [_ [L _]]].
  specialize (L [] eq_refl). discriminate.
Qed.
Print Assumptions empty_allow_list_admits_nothing.

(* the two layers of a JsonWebToken share one allow-list: a list that names no key-management algorithm admits no encrypted
   token, whatever the registries hold *)
Theorem signature_only_allow_list_admits_no_encrypted_token :
  forall alg_registered (l : list string) h,
  (forall a, In a l -> alg_registered a = false) ->
  forall r, JWE.header_alg alg_registered (Some l) h <> JWE.EOk r.
Proof.
  intros alg_registered l h Hl r. unfold JWE.header_alg, JWE.str_member.
  destruct (dict_get "alg" h) as [v|]; [|discriminate]. destruct v; try discriminate.
  unfold JWE.allowed. destruct (list_in_str s l) eqn:E; simpl; [|discriminate].
  apply list_in_str_In in E. rewrite (Hl s E). discriminate.
Qed.
Print Assumptions signature_only_allow_list_admits_no_encrypted_token.

Theorem empty_allow_list_admits_no_encrypted_token :
  forall alg_registered h r, JWE.header_alg alg_registered (Some []) h <> JWE.EOk r.
Proof. intros. apply signature_only_allow_list_admits_no_encrypted_token. intros a []. Qed.
Print Assumptions empty_allow_list_admits_no_encrypted_token.
