(* C19 -- a storage failure never yields an unpersisted credential or a lost grant.
   `handler q` is the program of the flow that request q addresses (Model/FaultFlow.v); `run_prog p s (Some k)` runs
   it from store s with the k-th storage callback failing.  All statements hold for EVERY store, request and k. *)
From Coq Require Import List NArith ZArith Bool Ascii String Arith.
From Authlib Require Import Base.Bytes Model.FaultFlow Proofs.FaultFlowP Proofs.FaultFlowR.
Import ListNotations.
Open Scope string_scope.
Open Scope list_scope.

(* the failure of a callback that the request reaches surfaces to the caller: no response is produced *)
Theorem fault_surfaces :
  forall p s k s' o tr,
  run_prog p s (Some k) = (s', o, tr) -> k < calls p s -> exists name, o = Raised k name.
Proof. exact fault_surfaces_l. Qed.
Print Assumptions fault_surfaces.

(* a fault point beyond the callbacks of the request changes nothing; without a fault there is always a response *)
Theorem fault_beyond_is_harmless :
  forall p s k, calls p s <= k -> run_prog p s (Some k) = run_prog p s None.
Proof. exact fault_beyond_l. Qed.
Print Assumptions fault_beyond_is_harmless.

Theorem without_fault_always_a_response :
  forall p s i s' o tr, exec p s None i = (s', o, tr) -> exists r, o = Done r.
Proof. exact exec_nofault_done. Qed.
Print Assumptions without_fault_always_a_response.

(* no response hands out a code, token, device code, temporary credential, verifier or token credential that is not
   in the store at that moment -- whether or not a fault point was set *)
Theorem handed_out_is_persisted :
  forall q s f s' r tr, run_prog (handler q) s f = (s', Done r, tr) -> persisted r s' = true.
Proof. exact handed_out_is_persisted_l. Qed.
Print Assumptions handed_out_is_persisted.

(* an authorization code disappears only together with the stored token it was exchanged for *)
Theorem code_consumed_only_after_token_stored :
  forall q s f s' o tr,
  run_prog (h_redeem q) s f = (s', o, tr) ->
  (f_codes s' = f_codes s /\ (f_toks s' = f_toks s \/ exists t, f_toks s' = f_toks s ++ [t])) \/
  (exists t cd, f_toks s' = f_toks s ++ [t] /\ ft_user t = Some (fc_user cd) /\ ft_client t = fc_client cd /\
                find_fcode (f_codes s) (q_ref q) = Some cd /\
                f_codes s' = filter (fun x => negb (Nat.eqb (fc_id x) (fc_id cd))) (f_codes s)).
Proof. exact redeem_shape_l. Qed.
Print Assumptions code_consumed_only_after_token_stored.

(* a refresh token is revoked only in a token table that already holds its replacement *)
Theorem refresh_token_revoked_only_after_token_stored :
  forall q s f s' o tr,
  run_prog (h_refresh q) s f = (s', o, tr) ->
  f_toks s' = f_toks s \/ (exists t, f_toks s' = f_toks s ++ [t]) \/
  (exists t old, find_by_refresh (f_toks s) (q_ref q) = Some old /\ ft_user t = ft_user old /\
                 f_toks s' = revoke_id (f_toks s ++ [t]) (ft_id old)).
Proof. exact refresh_shape_l. Qed.
Print Assumptions refresh_token_revoked_only_after_token_stored.

(* unless the token request is refused by the protocol (which deletes the temporary credential by design), the
   temporary credential disappears only together with the stored token credential *)
Theorem temporary_credential_consumed_only_after_token_stored :
  forall q s f s' o tr,
  run_prog (h1_exchange q) s f = (s', o, tr) -> is_refusal o = false ->
  (f_temps s' = f_temps s /\ (f_tok1 s' = f_tok1 s \/ exists k1, f_tok1 s' = k1 :: f_tok1 s)) \/
  (exists k1 t, find_ftemp (f_temps s) (q_ref q) = Some t /\ f1_from k1 = fp_id t /\ f1_user k1 = fp_user t /\
                f_tok1 s' = k1 :: f_tok1 s /\ f_temps s' = del_ftemp (f_temps s) (q_ref q)).
Proof. exact exchange1_shape_l. Qed.
Print Assumptions temporary_credential_consumed_only_after_token_stored.

(* every other flow removes no code or temporary credential and revokes no token, fault or not *)
Theorem other_flows_consume_nothing :
  forall q s f s' o tr,
  consuming (q_kind q) = false -> run_prog (handler q) s f = (s', o, tr) ->
  (exists x, f_codes s' = x ++ f_codes s) /\ (exists x, f_toks s' = f_toks s ++ x) /\
  (exists x, f_temps s' = x ++ f_temps s) /\ (exists x, f_tok1 s' = x ++ f_tok1 s).
Proof. exact nonconsuming_l. Qed.
Print Assumptions other_flows_consume_nothing.

(* no grant is lost: if the request would have succeeded, then after ANY single storage failure repeating it
   succeeds (OAuth 1: the repeated request is signed afresh, with a nonce that is not yet recorded) *)
Theorem retry_after_fault_succeeds :
  forall q s k,
  oauth2_kind (q_kind q) = true ->
  (exists s0 r0 tr0, run_prog (handler q) s None = (s0, Done r0, tr0) /\ is_ok r0 = true) ->
  forall s' nm tr, run_prog (handler q) s (Some k) = (s', Raised k nm, tr) ->
  exists s2 r2 tr2, run_prog (handler q) s' None = (s2, Done r2, tr2) /\ is_ok r2 = true.
Proof. exact retry_succeeds_l. Qed.
Print Assumptions retry_after_fault_succeeds.

Theorem retry_after_fault_succeeds_oauth1 :
  forall q s k n',
  oauth1_kind (q_kind q) = true ->
  (exists s0 r0 tr0, run_prog (handler q) s None = (s0, Done r0, tr0) /\ is_ok r0 = true) ->
  forall s' nm tr, run_prog (handler q) s (Some k) = (s', Raised k nm, tr) ->
  list_in_str n' (f_nonces s') = false ->
  exists s2 r2 tr2, run_prog (handler (with_nonce q n')) s' None = (s2, Done r2, tr2) /\ is_ok r2 = true.
Proof. exact retry_succeeds_o1_l. Qed.
Print Assumptions retry_after_fault_succeeds_oauth1.

(* non-vacuity: a code is issued and redeemed with the deletion of the code failing: the token is stored, the code is
   still there, the failure surfaced; the retry succeeds *)
Definition ex_q (kind : string) (ref : nat) : freq :=
  {| q_kind := kind; q_client := "c1"; q_bad_secret := false; q_user := Some "alice"; q_flag := false; q_ref := ref;
     q_tref := TUnknown; q_sig_bad := false; q_nonce := ""; q_approve := false |}.
Example delete_fails_token_kept :
  let s1 := fst (fst (run_prog (handler (ex_q "authorize" 0)) finit None)) in
  let '(s2, o2, tr2) := run_prog (handler (ex_q "redeem" 1)) s1 (Some 4) in
  let '(s3, o3, _) := run_prog (handler (ex_q "redeem" 1)) s2 None in
  o2 = Raised 4 "delete_authorization_code" /\ List.length (f_toks s2) = 1 /\ List.length (f_codes s2) = 1 /\
  calls (handler (ex_q "redeem" 1)) s1 = 5 /\
  o3 = Done (ROkToken 4 (Some 5)) /\ List.length (f_codes s3) = 0 /\ List.length (f_toks s3) = 2.
Proof. vm_compute. repeat split. Qed.
