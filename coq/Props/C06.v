(* C06 -- authorization and device codes: client binding, single use, redirect, PKCE. *)
From Coq Require Import List NArith ZArith Bool Ascii String.
From Authlib Require Import Base.Bytes Base.Base64 Model.Resource Model.Scope Model.CodeFlow Proofs.CodeFlowP.
Import ListNotations.
Open Scope string_scope.

(* over EVERY history of authorize / redeem / device-authorize / decide / poll / tick operations *)
Theorem code_redeem_sound :
  forall registry sha256 pkce_required ops tk c,
  In tk (s_tokens (run registry sha256 pkce_required ops)) -> tk_src tk = FromCode c ->
  exists cr, In cr (s_issued (run registry sha256 pkce_required ops)) /\ cr_id cr = c /\
             code_token_ok registry sha256 pkce_required cr tk.
Proof.
  intros registry sha256 pk ops tk c H Hs.
  destruct (Inv_run registry sha256 pk ops) as (_ & _ & _ & I4 & _ & _).
  destruct (I4 tk c H Hs) as [_ Hex]. exact Hex.
Qed.
Print Assumptions code_redeem_sound.

Theorem code_single_use :
  forall registry sha256 pkce_required ops,
  NoDup (code_ids (s_tokens (run registry sha256 pkce_required ops))).
Proof. intros. now destruct (Inv_run registry sha256 pkce_required ops) as (_ & _ & _ & _ & I5 & _). Qed.
Print Assumptions code_single_use.

Theorem redeemed_code_is_gone :
  forall registry sha256 pkce_required ops tk c,
  In tk (s_tokens (run registry sha256 pkce_required ops)) -> tk_src tk = FromCode c ->
  find_code (s_codes (run registry sha256 pkce_required ops)) c = None.
Proof.
  intros registry sha256 pk ops tk c H Hs.
  destruct (Inv_run registry sha256 pk ops) as (_ & _ & _ & I4 & _ & _). now destruct (I4 tk c H Hs).
Qed.
Print Assumptions redeemed_code_is_gone.

Theorem device_only_after_approval :
  forall registry sha256 pkce_required ops tk d,
  In tk (s_tokens (run registry sha256 pkce_required ops)) -> tk_src tk = FromDevice d ->
  device_token_ok registry (run registry sha256 pkce_required ops) d tk.
Proof.
  intros registry sha256 pk ops tk d H Hs.
  destruct (Inv_run registry sha256 pk ops) as (_ & _ & _ & _ & _ & I6). exact (I6 tk d H Hs).
Qed.
Print Assumptions device_only_after_approval.

(* the approval a device token rests on was given for a device code that had been announced: a decision naming a
   device that does not exist (yet) is not kept, so it cannot approve a device code issued later *)
Theorem decisions_name_announced_devices :
  forall registry sha256 pkce_required ops d v,
  In (d, v) (s_decisions (run registry sha256 pkce_required ops)) ->
  exists dv, In dv (s_devices (run registry sha256 pkce_required ops)) /\ dv_id dv = d.
Proof. intros registry sha256 pk ops d v H. exact (DecInv_run registry sha256 pk ops d v H). Qed.
Print Assumptions decisions_name_announced_devices.

(* when a challenge was recorded, or the client is public and PKCE is required, or a verifier
   was presented: it is well formed (RFC 7636 s4.1) and its transform equals the challenge *)
Theorem pkce_transform_checked :
  forall sha256 pkce_required am cr v,
  verifier_error sha256 pkce_required am cr v = "" ->
  (otruthy (cr_challenge cr) = true \/ (pkce_required = true /\ am = "none") \/ otruthy v = true) ->
  exists vs ch, v = Some vs /\ pkce_wf vs = true /\ cr_challenge cr = Some ch /\
                transform sha256 (cr_method cr) vs = Some ch.
Proof. exact verifier_ok_l. Qed.
Print Assumptions pkce_transform_checked.

(* pending / denied / expired device codes never produce a token *)
Theorem device_poll_outcomes :
  forall registry sha256 pk s d cl am dev c,
  authenticate registry c "token" = Some (cl, am) ->
  list_in_str "urn:ietf:params:oauth:grant-type:device_code" (cc_grants cl) = true ->
  find_dev (s_devices s) dev = Some d -> dv_client d = Some (cc_id cl) ->
  snd (step registry sha256 pk s (OPoll (Some dev) c)) =
    if (dv_expires d <? s_now s)%Z then OutError "expired_token"
    else match find_decision (s_decisions s) dev with
         | None => OutError "authorization_pending"
         | Some (_, false) => OutError "access_denied"
         | Some (user, true) => OutToken user (token_scope cl (dv_scope d))
         end.
Proof.
  intros registry sha256 pk s d cl am dev c Ha Hg Hf Hc. cbn [step]. rewrite Ha, Hg, Hf, Hc.
  rewrite String.eqb_refl. cbn [negb]. destruct (dv_expires d <? s_now s)%Z; [reflexivity|].
  destruct (find_decision (s_decisions s) dev) as [[u [|]]|]; reflexivity.
Qed.
Print Assumptions device_poll_outcomes.

Example pkce_wf_examples :
  pkce_wf "aaaaaaaaaaaaaaaaaaaaaaaaaaaaaaaaaaaaaaaaaaa" = true /\
  pkce_wf "aaaaaaaaaaaaaaaaaaaaaaaaaaaaaaaaaaaaaaaaaa" = false /\
  pkce_wf ("aaaaaaaaaaaaaaaaaaaaaaaaaaaaaaaaaaaaaaaaaaa" ++ String (Ascii.ascii_of_nat 10) "") = false /\
  pkce_wf "aaaaaaaaaaaaaaaaaaaaaaaaaaaaaaaaaaaaaaaaaa+" = false.
Proof. vm_compute. repeat split. Qed.
