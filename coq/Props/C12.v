(* C12 -- OAuth 1.0 provider: credential exchange order, single use and replay defence.
   The provider is the state machine of Model/OAuth1Provider.v; HMAC-SHA1, RSA-SHA1 verification and the
   credential generator are parameters (any functions; the generator must not repeat a name).  `reach now0 ops`
   is the state after ANY list of operations (requests to the four endpoints and clock advances). *)
From Coq Require Import List NArith ZArith Bool Ascii String.
From Authlib Require Import Base.Bytes Base.Form Base.PyInt Model.OAuth1Sig Model.OAuth1Provider
  Proofs.OAuth1ProviderP Proofs.OAuth1ProviderH.
Import ListNotations.
Open Scope string_scope.

Section C12.
Variable hmac_sha1 : string -> string -> string.
Variable rsa_verify : string -> string -> string -> bool.
Variable name_of : string -> nat -> string.
Variable registry : list oclient.
Variable supported : list string.
Variable expiry_time nonce_ttl temp_ttl : Z.
Hypothesis name_inj : forall a b, name_of "t" a = name_of "t" b -> a = b.

Notation reach := (reach hmac_sha1 rsa_verify name_of registry supported expiry_time nonce_ttl temp_ttl).
Notation pstep := (pstep hmac_sha1 rsa_verify name_of registry supported expiry_time nonce_ttl temp_ttl).
Notation prun_from := (prun_from hmac_sha1 rsa_verify name_of registry supported expiry_time nonce_ttl temp_ttl).
Notation exchange := (exchange hmac_sha1 rsa_verify name_of registry supported expiry_time nonce_ttl).
Notation access := (access hmac_sha1 rsa_verify registry supported expiry_time nonce_ttl).
Notation verify_sig := (verify_sig hmac_sha1 rsa_verify).

(* token credentials are issued only in exchange for a live temporary credential that was issued to the same
   client, approved by a resource owner, presented with the verifier generated at approval and a valid signature
   (of a configured method) over the client secret and the temporary secret; afterwards it is gone *)
Theorem token_issue_sound :
  forall now0 ops r tok sec s',
  let s := reach now0 ops in
  exchange s r = (s', OToken tok sec) ->
  exists ps c t,
    oauth_params r = Some ps /\
    find_oc registry (sval (getp ps "oauth_consumer_key")) = Some c /\
    find_temp (p_temps s) (p_now s) (sval (getp ps "oauth_token")) = Some t /\
    tp_client t = oc_id c /\
    tp_verifier t = Some (sval (getp ps "oauth_verifier")) /\ tp_user t <> None /\
    list_in_str (sval (getp ps "oauth_signature_method")) supported = true /\
    verify_sig r ps c (tp_secret t) = Some true /\
    find_temp (p_temps s') (p_now s') (tp_token t) = None /\
    exists k, p_toks s' = k :: p_toks s /\ tk_token k = tok /\ tk_client k = oc_id c /\ tk_user k = tp_user t.
Proof. intros. eapply token_issue_sound_l; eauto. Qed.

(* what a verified signature is, per method *)
Theorem verified_signature_meaning :
  forall r ps c sec, verify_sig r ps c sec = Some true ->
  let m := sval (getp ps "oauth_signature_method") in
  let sig := sval (getp ps "oauth_signature") in
  (m = "PLAINTEXT" /\ sig = plaintext_signature (oc_secret c) sec) \/
  (exists base, construct_base_string (q_method r) (q_uri r) (all_params r) (q_host r) = Some base /\
     ((m = "HMAC-SHA1" /\ sig = hmac_sha1_signature hmac_sha1 base (oc_secret c) sec) \/
      (m = "RSA-SHA1" /\ rsa_verify (oc_rsa c) base sig = true))).
Proof. exact (verify_sig_meaning hmac_sha1 rsa_verify). Qed.

(* over every history, no temporary credential is exchanged twice *)
Theorem temporary_credential_single_use :
  forall now0 ops, NoDup (map tk_from (p_toks (reach now0 ops))).
Proof. intros. eapply single_use_l; eauto. Qed.

(* a protected resource is served only for a stored token credential of the requesting client, on a request
   with a valid signature (of a configured method) over the client secret and that credential's secret *)
Theorem resource_served_sound :
  forall s r tok s',
  access s r = (s', OServed tok) ->
  exists ps c k,
    oauth_params r = Some ps /\
    find_oc registry (sval (getp ps "oauth_consumer_key")) = Some c /\
    In k (p_toks s) /\ tk_client k = oc_id c /\ tk_token k = tok /\ tok = sval (getp ps "oauth_token") /\
    list_in_str (sval (getp ps "oauth_signature_method")) supported = true /\
    verify_sig r ps c (tk_secret k) = Some true.
Proof. exact (resource_served_sound_l hmac_sha1 rsa_verify registry supported expiry_time nonce_ttl). Qed.

(* every accepted request used a configured signature method and, unless it is a PLAINTEXT request without
   timestamp and nonce, a timestamp inside the window *)
Theorem accepted_only_configured_method_and_fresh_timestamp :
  forall s o s' out r,
  pstep s o = (s', out) -> accepted out = true -> op_req o = Some r ->
  exists ps, oauth_params r = Some ps /\
    list_in_str (sval (getp ps "oauth_signature_method")) supported = true /\
    (bare ps = true \/
     exists t, py_int (sval (getp ps "oauth_timestamp")) = Some t /\ (0 <= t)%Z /\
               (expiry_time <> 0%Z -> (Z.abs (p_now s - t) <= expiry_time)%Z)).
Proof. exact (accepted_window_method_l hmac_sha1 rsa_verify name_of registry supported expiry_time nonce_ttl temp_ttl). Qed.

(* a client/token/timestamp/nonce combination accepted once is never accepted again, whatever requests and
   clock advances happen in between *)
Theorem replay_refused :
  forall now0 ops0 o1 s1 out1 r1 ps1,
  (0 < expiry_time)%Z -> (2 * expiry_time < nonce_ttl)%Z ->
  pstep (reach now0 ops0) o1 = (s1, out1) -> accepted out1 = true -> op_req o1 = Some r1 ->
  oauth_params r1 = Some ps1 -> bare ps1 = false ->
  forall ops o2 s3 out2 r2 ps2,
    pstep (prun_from s1 ops) o2 = (s3, out2) -> op_req o2 = Some r2 -> oauth_params r2 = Some ps2 ->
    same_combo ps1 ps2 -> accepted out2 = false.
Proof. exact (replay_refused_reach_l hmac_sha1 rsa_verify name_of registry supported expiry_time nonce_ttl temp_ttl). Qed.
End C12.

Print Assumptions token_issue_sound.
Print Assumptions verified_signature_meaning.
Print Assumptions temporary_credential_single_use.
Print Assumptions resource_served_sound.
Print Assumptions accepted_only_configured_method_and_fresh_timestamp.
Print Assumptions replay_refused.

(* the generator used by the correspondence harness never repeats a name *)
Example unary_names_injective : forall a b, ("t" ++ str_repeat "x" a = "t" ++ str_repeat "x" b)%string -> a = b.
Proof.
  intros a b H. injection H as H. revert b H. induction a as [|a IH]; intros [|b] H; cbn in H; try discriminate; auto.
  injection H as H. f_equal. auto.
Qed.

(* non-vacuity: a complete flow, with PLAINTEXT signatures so that no oracle is needed: credentials are issued,
   the resource is served, and the verbatim replay of the resource request is refused *)
Definition ex_reg := [{| oc_id := "c1"; oc_secret := "cs"; oc_rsa := ""; oc_redirect := "https://c/d" |}].
Definition ex_name (p : string) (n : nat) : string := (p ++ str_repeat "x" n)%string.
Definition ex_req (ps : list pair_s) : oreq :=
  {| q_method := "POST"; q_uri := "https://p/e"; q_host := None; q_query := []; q_body := []; q_auth := ps |}.
Definition ex_ops : list oop :=
  [ OInitiate (ex_req [("oauth_consumer_key", "c1"); ("oauth_callback", "oob"); ("oauth_signature_method", "PLAINTEXT");
                       ("oauth_timestamp", "1000"); ("oauth_nonce", "a"); ("oauth_signature", "cs&")]);
    OAuthorize (ex_req [("oauth_token", "t")]) (Some "alice");
    OExchange (ex_req [("oauth_consumer_key", "c1"); ("oauth_token", "t"); ("oauth_verifier", "vx");
                       ("oauth_signature_method", "PLAINTEXT"); ("oauth_timestamp", "1000"); ("oauth_nonce", "b");
                       ("oauth_signature", "cs&s")]);
    OAccess (ex_req [("oauth_consumer_key", "c1"); ("oauth_token", "txx"); ("oauth_signature_method", "PLAINTEXT");
                     ("oauth_timestamp", "1000"); ("oauth_nonce", "c"); ("oauth_signature", "cs&sxx")]);
    OTick 100000;
    OAccess (ex_req [("oauth_consumer_key", "c1"); ("oauth_token", "txx"); ("oauth_signature_method", "PLAINTEXT");
                     ("oauth_timestamp", "1000"); ("oauth_nonce", "c"); ("oauth_signature", "cs&sxx")]) ].
Example full_flow :
  prun_outs (fun _ _ => ""%string) (fun _ _ _ => false) ex_name ex_reg ["PLAINTEXT"] 300 86400 86400 (pinit_at 1000) ex_ops
  = [OTemp "t" "s"; ORedirect "https://c/d?oauth_token=t&oauth_verifier=vx"; OToken "txx" "sxx"; OServed "txx"; ONone;
     OErr 400 "invalid_request"].
Proof. vm_compute. reflexivity. Qed.
