(* C13 -- OpenID Connect ID Tokens: what the provider issues and what the relying party accepts agree.
   `rt_payload sha rt ...` is the payload generate_id_token signs for response type rt (Model/IDToken.v) with the
   integrator's user information (subject plus claims outside the reserved names); `idtoken_validate` is the
   relying-party validation (Model/Claims.v) with the options parse_id_token uses (expected issuer) and the
   parameters the relying party holds (its nonce, client id, the access token and code it received).  SHA-2 is a
   parameter `sha`; signature verification itself is the subject of C01. *)
From Coq Require Import List NArith ZArith Bool Ascii String.
From Authlib Require Import Base.Bytes Base.Base64 Base.PyVal Model.Claims Model.IDToken Proofs.Base64P Proofs.IDTokenP Proofs.IDTokenN.
Import ListNotations.
Open Scope string_scope.
Open Scope list_scope.

Section C13.
Variable vfun : string -> dictT -> pv -> bool.
Variable sha : string -> string -> string.
Notation hh := (create_half_hash sha).
Notation validate := (idtoken_validate vfun hh).
Notation payload := (rt_payload sha).

(* issued with (iss, client, nonce, code, access token), validated with the same values, inside its lifetime *)
Theorem issued_id_token_is_accepted :
  forall rt iss client now e a nonce code atk alg sub extra hdr rp_now lw,
  extra_ok extra = true ->
  cget "alg" hdr = PStr alg -> known_hash (hash_bits alg) = true -> (forall s, hh s alg <> Some "") ->
  (match rt with RTCode | RTCodeToken => True | _ => otruthy nonce = true end) ->
  code <> "" -> atk <> "" -> client <> "" ->
  (now <= rp_now + lw)%Z -> (rp_now - lw <= now + e)%Z ->
  validate (rt_kind rt) (rp_opts iss) hdr (rp_params rt nonce client code atk)
           (payload rt iss client now e a nonce code atk alg (user_info sub extra)) rp_now lw = None.
Proof. intros. rewrite rt_payload_validate by assumption. apply accept_canon; assumption. Qed.

(* ... and refused as soon as one of them differs *)
Theorem other_issuer_is_refused :
  forall rt iss iss' client now e a nonce code atk alg sub extra hdr params rp_now lw,
  extra_ok extra = true -> iss' <> iss ->
  validate (rt_kind rt) (rp_opts iss') hdr params
           (payload rt iss client now e a nonce code atk alg (user_info sub extra)) rp_now lw <> None.
Proof. intros. rewrite rt_payload_validate by assumption. apply reject_issuer_canon; assumption. Qed.

Theorem expired_is_refused :
  forall rt iss iss' client now e a nonce code atk alg sub extra hdr params rp_now lw,
  extra_ok extra = true -> (now + e < rp_now - lw)%Z ->
  validate (rt_kind rt) (rp_opts iss') hdr params
           (payload rt iss client now e a nonce code atk alg (user_info sub extra)) rp_now lw <> None.
Proof. intros. rewrite rt_payload_validate by assumption. apply reject_expired_canon; assumption. Qed.

Theorem other_nonce_is_refused :
  forall rt iss iss' client client' now e a nonce nonce' code code' atk atk' alg sub extra hdr rp_now lw,
  extra_ok extra = true -> nonce' <> "" -> nonce <> Some nonce' ->
  validate (rt_kind rt) (rp_opts iss') hdr (rp_params rt (Some nonce') client' code' atk')
           (payload rt iss client now e a nonce code atk alg (user_info sub extra)) rp_now lw <> None.
Proof. intros. rewrite rt_payload_validate by assumption. apply reject_nonce_canon; assumption. Qed.

Theorem other_client_is_refused :
  forall rt iss iss' client client' now e a nonce nonce' code code' atk atk' alg sub extra hdr rp_now lw,
  extra_ok extra = true -> client <> "" -> client' <> "" -> client' <> client ->
  validate (rt_kind rt) (rp_opts iss') hdr (rp_params rt nonce' client' code' atk')
           (payload rt iss client now e a nonce code atk alg (user_info sub extra)) rp_now lw <> None.
Proof. intros. rewrite rt_payload_validate by assumption. apply reject_client_canon; assumption. Qed.

Theorem other_access_token_is_refused :
  forall rt iss iss' client client' now e a nonce nonce' code code' atk atk' alg sub extra hdr rp_now lw,
  extra_ok extra = true -> has_at_hash rt = true -> cget "alg" hdr = PStr alg -> atk <> "" -> atk' <> "" ->
  (forall s, hh s alg <> Some "") -> hh atk' alg <> hh atk alg ->
  validate (rt_kind rt) (rp_opts iss') hdr (rp_params rt nonce' client' code' atk')
           (payload rt iss client now e a nonce code atk alg (user_info sub extra)) rp_now lw <> None.
Proof. intros. rewrite rt_payload_validate by assumption. apply reject_access_token_canon; assumption. Qed.

Theorem other_code_is_refused :
  forall rt iss iss' client client' now e a nonce nonce' code code' atk atk' alg sub extra hdr rp_now lw,
  extra_ok extra = true -> has_c_hash rt = true -> cget "alg" hdr = PStr alg -> code <> "" -> code' <> "" ->
  (forall s, hh s alg <> Some "") -> hh code' alg <> hh code alg ->
  validate (rt_kind rt) (rp_opts iss') hdr (rp_params rt nonce' client' code' atk')
           (payload rt iss client now e a nonce code atk alg (user_info sub extra)) rp_now lw <> None.
Proof. intros. rewrite rt_payload_validate by assumption. apply reject_code_canon; assumption. Qed.

(* at_hash / c_hash are the base64url of the left half of the digest selected by the algorithm's number *)
Theorem half_hash_is_left_half :
  forall s alg, known_hash (hash_bits alg) = true ->
  hh s alg = Some (b64url_encode (str_take (Nat.div (String.length (sha (hash_bits alg) s)) 2) (sha (hash_bits alg) s))).
Proof. intros. apply half_hash_def. assumption. Qed.

(* the encoding loses nothing: two values get the same at_hash / c_hash only if the left halves of their digests are the same
   octets -- so the hypotheses "hh code' alg <> hh code alg" above hold whenever the digests' left halves differ, i.e. the
   refusal theorems rest on the hash function alone, not on the encoding *)
Theorem equal_half_hashes_mean_equal_digest_halves :
  forall s s' alg, known_hash (hash_bits alg) = true -> hh s alg = hh s' alg ->
  str_take (Nat.div (String.length (sha (hash_bits alg) s)) 2) (sha (hash_bits alg) s) =
  str_take (Nat.div (String.length (sha (hash_bits alg) s')) 2) (sha (hash_bits alg) s').
Proof.
  intros s s' alg K H. rewrite !half_hash_def in H by assumption. injection H as H.
  apply (f_equal urlsafe_b64decode) in H. rewrite !urlsafe_b64decode_encode in H. injection H as H. exact H.
Qed.
End C13.

(* nonce requirement and replay at the authorization endpoint, over every history of requests *)
Theorem missing_nonce_is_refused :
  forall s c n, otruthy n = false -> nonce_step s c n true = (s, NRefused "missing_nonce").
Proof. exact nonce_missing_refused_l. Qed.

Theorem replayed_nonce_is_refused :
  forall s c n req s1 l req2,
  otruthy (Some n) = true -> nonce_step s c (Some n) req = (s1, NIssued) ->
  snd (nonce_step (nrun s1 l) c (Some n) req2) = NRefused "replay".
Proof. exact nonce_replay_refused_l. Qed.

Print Assumptions issued_id_token_is_accepted.
Print Assumptions other_issuer_is_refused.
Print Assumptions expired_is_refused.
Print Assumptions other_nonce_is_refused.
Print Assumptions other_client_is_refused.
Print Assumptions other_access_token_is_refused.
Print Assumptions other_code_is_refused.
Print Assumptions half_hash_is_left_half.
Print Assumptions equal_half_hashes_mean_equal_digest_halves.
Print Assumptions missing_nonce_is_refused.
Print Assumptions replayed_nonce_is_refused.

(* non-vacuity: with a toy digest the whole pipeline computes: issued payload, accepted; other nonce, refused *)
Definition toy_sha (bits s : string) : string := (s ++ s ++ "0123456789abcdef0123456789abcdef")%string.
Definition ex_hdr : dictT := [("alg", PStr "RS384")].
Example hybrid_roundtrip :
  let p := rt_payload toy_sha RTCodeIdTokenToken "https://op" "cl" 1000 3600 None (Some "n-1") "codeX" "atY" "RS384"
                      (user_info "alice" [("email", PStr "a@x")]) in
  idtoken_validate (fun _ _ _ => true) (create_half_hash toy_sha) KHybrid (rp_opts "https://op") ex_hdr
                   (rp_params RTCodeIdTokenToken (Some "n-1") "cl" "codeX" "atY") p 2000 0 = None /\
  idtoken_validate (fun _ _ _ => true) (create_half_hash toy_sha) KHybrid (rp_opts "https://op") ex_hdr
                   (rp_params RTCodeIdTokenToken (Some "n-2") "cl" "codeX" "atY") p 2000 0 = Some (EInvalid "nonce") /\
  idtoken_validate (fun _ _ _ => true) (create_half_hash toy_sha) KHybrid (rp_opts "https://op") ex_hdr
                   (rp_params RTCodeIdTokenToken (Some "n-1") "cl" "codeZ" "atY") p 2000 0 = Some (EInvalid "c_hash") /\
  idtoken_validate (fun _ _ _ => true) (create_half_hash toy_sha) KHybrid (rp_opts "https://op") ex_hdr
                   (rp_params RTCodeIdTokenToken (Some "n-1") "cl" "codeX" "atY") p 4601 0 = Some EExpired.
Proof. vm_compute. repeat split. Qed.
