(* C10 -- protected-resource access decision. *)
From Coq Require Import List NArith ZArith Bool Ascii String.
From Authlib Require Import Base.Bytes Base.PyVal Model.Claims Model.Resource Spec.ClaimsSpec.
From Authlib Require Import Proofs.ClaimsP Proofs.ResourceP.
Import ListNotations.
Open Scope string_scope.

(* scope alternatives: OR of ANDs, for every token scope (None, string, list) *)
Theorem scope_insufficient_iff :
  forall ts required, required_wf required ->
  (scope_insufficient ts required = false <-> scope_ok ts required).
Proof. exact scope_insufficient_iff_l. Qed.
Print Assumptions scope_insufficient_iff.

(* Authorization header: exactly "type SP+ token" after optional leading blanks *)
Theorem header_parse :
  forall a ty ts, split_max1 a = [ty; ts] ->
  exists pre ws, a = pre ++ ty ++ ws ++ ts /\ all_ws pre /\ no_ws ty /\ ty <> "" /\
                 all_ws ws /\ ws <> "" /\ head_not_ws ts.
Proof. exact split_max1_two_l. Qed.
Print Assumptions header_parse.

(* served iff: registered type, known live token, sufficient scope *)
Theorem served_iff :
  forall types st auth required s,
  validate_request types st auth required = Serve s <->
  exists a ty t, auth = Some a /\ split_max1 a = [ty; s] /\ In (lower ty) types /\
                 lookup s st = Some t /\ t_expired t = false /\ t_revoked t = false /\
                 scope_insufficient (t_scope t) required = false.
Proof. exact served_iff_l. Qed.
Print Assumptions served_iff.

Theorem served_scope_contained :
  forall types st auth required s, required_wf required ->
  validate_request types st auth required = Serve s ->
  exists t, lookup s st = Some t /\ scope_ok (t_scope t) required.
Proof.
  intros types st auth required s Hwf H. apply served_iff_l in H.
  destruct H as (a & ty & t & _ & _ & _ & Hl & _ & _ & Hs).
  exists t. split; [assumption|]. now apply scope_insufficient_iff_l.
Qed.
Print Assumptions served_scope_contained.

(* each refusal carries exactly the status and code of its cause *)
Theorem refusal_code_exact :
  forall types st auth required stc code,
  validate_request types st auth required = Refuse stc code ->
  (stc = 401%N /\ code = "missing_authorization" /\ (auth = None \/ auth = Some "")) \/
  (stc = 401%N /\ code = "unsupported_token_type" /\
     exists a, auth = Some a /\ a <> "" /\
       forall ty ts, split_max1 a = [ty; ts] -> ~ In (lower ty) types) \/
  (stc = 401%N /\ code = "invalid_token" /\
     exists a ty ts, auth = Some a /\ split_max1 a = [ty; ts] /\ In (lower ty) types /\
       (lookup ts st = None \/ exists t, lookup ts st = Some t /\ (t_expired t = true \/ t_revoked t = true))) \/
  (stc = 403%N /\ code = "insufficient_scope" /\
     exists a ty ts t, auth = Some a /\ split_max1 a = [ty; ts] /\ In (lower ty) types /\
       lookup ts st = Some t /\ t_expired t = false /\ t_revoked t = false /\
       scope_insufficient (t_scope t) required = true).
Proof. exact refusal_exact_l. Qed.
Print Assumptions refusal_code_exact.

Theorem decision_total : forall types st auth required cls,
  validate_request types st auth required <> Escapes cls.
Proof. exact never_escapes_l. Qed.
Print Assumptions decision_total.

(* RFC 9068: a signature-verified token is served iff issuer, audience,
   essential claims, time window, typ and the scope/groups/roles/entitlements
   requirements all hold *)
Theorem jwt_at_accept_iff :
  forall issuer rs hdr claims now scopes groups roles ents, rs <> "" ->
  (at_validate_request issuer rs (SigOk hdr claims) now scopes groups roles ents = Serve "" <->
   at_explicit issuer rs hdr claims now = true /\ at_scopes_ok claims scopes groups roles ents = true).
Proof. exact jwt_at_accept_iff_l. Qed.
Print Assumptions jwt_at_accept_iff.

Theorem jwt_at_bad_signature_401 :
  forall issuer rs sig now scopes groups roles ents,
  (forall h c, sig <> SigOk h c) ->
  at_validate_request issuer rs sig now scopes groups roles ents = Refuse 401 "invalid_token".
Proof. exact jwt_at_bad_signature_401_l. Qed.
Print Assumptions jwt_at_bad_signature_401.

Example decisions :
  let st := [("tok", {| t_expired := false; t_revoked := false; t_scope := PStr "a b" |});
             ("old", {| t_expired := true; t_revoked := false; t_scope := PStr "a" |})] in
  validate_request ["bearer"] st (Some "Bearer tok") ["a b"; "c"] = Serve "tok" /\
  validate_request ["bearer"] st (Some "  bEARER   tok") ["c"; "b"] = Serve "tok" /\
  validate_request ["bearer"] st (Some "Bearer tok") ["a c"] = Refuse 403 "insufficient_scope" /\
  validate_request ["bearer"] st (Some "Bearer old") [] = Refuse 401 "invalid_token" /\
  validate_request ["bearer"] st (Some "Bearer tok ") [] = Refuse 401 "invalid_token" /\
  validate_request ["bearer"] st (Some "Bearer") [] = Refuse 401 "unsupported_token_type" /\
  validate_request ["bearer"] st (Some "Basic tok") [] = Refuse 401 "unsupported_token_type" /\
  validate_request ["bearer"] st None [] = Refuse 401 "missing_authorization" /\
  required_wf ["a b"; "c"].
Proof.
  vm_compute. repeat split.
  intros r [<-|[<-|[]]]; vm_compute; discriminate.
Qed.
