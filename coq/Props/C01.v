(* C01 -- JWS/JWT signatures: round trip and tamper rejection, for the compact, flattened-JSON and general-JSON
   serializations (Model/JWS.v).  JSON text conversion, key preparation, signing and verification are parameters;
   `json_roundtrip` and `sig_correct` say that loads inverts dumps and that a produced signature verifies.
   Every statement holds for every header, payload, key, allow-list and every such parameter instantiation. *)
From Coq Require Import List NArith ZArith Bool Ascii String.
From Authlib Require Import Base.Bytes Base.Base64 Base.PyVal Model.KeyPolicy Model.JWS Proofs.JWSP.
Import ListNotations.
Open Scope string_scope.
Open Scope list_scope.

Section C01.
Variable json_dumps : hdict -> string.
Variable json_loads : string -> option pv.
Variable registered : string -> bool.
Variable prepare_key : string -> pv -> option pv.
Variable sign : string -> pv -> string -> option string.
Variable verify : string -> pv -> string -> string -> bool.

Notation prepare := (prepare registered prepare_key).
Notation serialize_compact := (serialize_compact json_dumps registered prepare_key sign).
Notation deserialize_compact := (deserialize_compact json_loads registered prepare_key verify).
Notation extract_header := (extract_header json_loads).
Notation deserialize_json := (deserialize_json json_loads registered prepare_key verify).
Notation sign_all := (sign_all json_dumps registered prepare_key sign).

(* what serialize produces, deserialize accepts under the same key and returns exactly the header and payload *)
Theorem compact_round_trip :
  forall allow private protected payload rawkey s,
  json_roundtrip json_dumps json_loads -> sig_correct sign verify -> crit_check private protected = None ->
  serialize_compact allow private protected payload rawkey = JOk s ->
  deserialize_compact allow private s rawkey = JOk (protected, payload).
Proof. exact (compact_roundtrip_l json_dumps json_loads registered prepare_key sign verify). Qed.

Theorem json_round_trip :
  forall allow private payload hs rawkey sigs,
  json_roundtrip json_dumps json_loads -> sig_correct sign verify ->
  (forall d, json_dumps d <> "") -> (forall alg k m, sign alg k m <> Some "") ->
  Forall (fun pu => (py_truthy (snd pu) = true -> exists d, snd pu = PDict d) /\ crit_check private (fst pu) = None) hs ->
  sign_all allow private (b64url_encode payload) hs rawkey = JOk sigs ->
  deserialize_json allow private (Some (b64url_encode payload)) true sigs rawkey =
    JOk (map (fun pu => hmerge (fst pu) (match snd pu with PDict d => d | _ => [] end)) hs, payload).
Proof. exact (json_roundtrip_l json_dumps json_loads registered prepare_key sign verify). Qed.

(* a verifier that ignores nothing: whatever compact token is accepted, its signature verified over EXACTLY the
   text before its last dot, under the algorithm its own header names; header and payload are the decodings of the
   two segments of that text *)
Theorem compact_accepted_means_verified :
  forall allow private s rawkey h payload,
  deserialize_compact allow private s rawkey = JOk (h, payload) ->
  exists pseg plseg sigseg sg alg k,
    rsplit_dot s = Some ((pseg ++ "." ++ plseg)%string, sigseg) /\ nodot pseg /\
    extract_header pseg = JOk h /\ crit_check private h = None /\ urlsafe_b64decode plseg = Some payload /\ urlsafe_b64decode sigseg = Some sg /\
    prepare allow h rawkey = JOk (alg, k) /\
    verify alg k (pseg ++ "." ++ plseg)%string sg = true.
Proof. exact (compact_accept_sound_l json_loads registered prepare_key verify). Qed.

(* the algorithm is the one the header names, it is registered and on the allow-list, and the key is the caller's
   (or, only when the caller passes none, the header's jwk) *)
Theorem algorithm_is_the_headers_and_allowed :
  forall allow h rawkey alg k,
  prepare allow h rawkey = JOk (alg, k) ->
  dict_get "alg" h = Some (PStr alg) /\ registered alg = true /\
  (forall l, allow = Some l -> list_in_str alg l = true) /\
  prepare_key alg (effective_key h rawkey) = Some k.
Proof. exact (prepare_sound registered prepare_key). Qed.

(* a key resolver's answer is the key, whatever it is -- never the key the token carries in its own header *)
Theorem key_resolver_result_is_the_key :
  forall h r, effective_key h (PList [r]) = r.
Proof. reflexivity. Qed.
Print Assumptions key_resolver_result_is_the_key.

Theorem only_an_absent_key_falls_back_to_the_header :
  forall h rawkey, rawkey <> PNone -> (forall r, rawkey <> PList [r]) -> effective_key h rawkey = rawkey.
Proof.
  intros h rawkey H1 H2. destruct rawkey as [| | | | |l|]; try reflexivity; [congruence|].
  destruct l as [|r [|]]; try reflexivity. exfalso. exact (H2 r eq_refl).
Qed.
Print Assumptions only_an_absent_key_falls_back_to_the_header.

(* a JSON JWS is accepted only if EVERY signature verifies, each over its own protected segment and the payload *)
Theorem json_accepted_means_every_signature_verified :
  forall allow private plseg general sigs rawkey hs payload,
  deserialize_json allow private plseg general sigs rawkey = JOk (hs, payload) ->
  exists seg, plseg = Some seg /\ urlsafe_b64decode seg = Some payload /\
    Forall2 (fun o h => exists protected alg k sg,
               extract_header (oval (so_protected o)) = JOk protected /\ crit_check private protected = None /\
               h = hmerge protected (match so_header o with PDict d => d | _ => [] end) /\
               prepare allow h rawkey = JOk (alg, k) /\
               urlsafe_b64decode (oval (so_signature o)) = Some sg /\
               verify alg k (oval (so_protected o) ++ "." ++ seg)%string sg = true) sigs hs.
Proof. exact (json_accept_sound_l json_loads registered prepare_key verify). Qed.

(* tampering: if, for the verification key, only the pair (m0, sg0) verifies (what unforgeability idealises), then
   any accepted token consists of the same signed text and decodes to the same signature, hence yields the same
   header and payload -- a changed protected header or payload segment is refused *)
Theorem tampered_token_is_refused_or_same_content :
  forall allow private s' rawkey h' payload' m0 sg0,
  (forall alg k m sg, verify alg k m sg = true -> m = m0 /\ sg = sg0) ->
  deserialize_compact allow private s' rawkey = JOk (h', payload') ->
  exists sigseg, rsplit_dot s' = Some (m0, sigseg) /\ urlsafe_b64decode sigseg = Some sg0.
Proof.
  intros allow private s' rawkey h' payload' m0 sg0 U H.
  destruct (compact_accept_sound_l json_loads registered prepare_key verify _ _ _ _ _ _ H)
    as [pseg [plseg [sigseg [sg [alg [k [R [_ [_ [_ [_ [D [_ V]]]]]]]]]]]]].
  destruct (U _ _ _ _ V) as [E1 E2]. exists sigseg. rewrite R, D, E1, E2. auto.
Qed.
End C01.

Print Assumptions compact_round_trip.
Print Assumptions json_round_trip.
Print Assumptions compact_accepted_means_verified.
Print Assumptions algorithm_is_the_headers_and_allowed.
Print Assumptions json_accepted_means_every_signature_verified.
Print Assumptions tampered_token_is_refused_or_same_content.

(* non-vacuity with a toy scheme: the signature is the key followed by the message *)
Definition toy_dumps (d : hdict) : string :=
  ("{" ++ String.concat "," (map (fun kv => (fst kv ++ "=" ++ pv_str (snd kv))%string) d) ++ "}")%string.
Definition toy_loads (s : string) : option pv := if String.eqb s "{alg=T}" then Some (PDict [("alg", PStr "T")]) else None.
Definition toy_sign (alg : string) (k : pv) (m : string) : option string := Some (pv_str k ++ m)%string.
Definition toy_verify (alg : string) (k : pv) (m sg : string) : bool := String.eqb sg (pv_str k ++ m).
Example toy_compact :
  match serialize_compact toy_dumps (fun a => String.eqb a "T") (fun _ k => Some k) toy_sign None None [("alg", PStr "T")] "hello" (PStr "K") with
  | JOk s => deserialize_compact toy_loads (fun a => String.eqb a "T") (fun _ k => Some k) toy_verify None None s (PStr "K") = JOk ([("alg", PStr "T")], "hello")
             /\ deserialize_compact toy_loads (fun a => String.eqb a "T") (fun _ k => Some k) toy_verify None None s (PStr "L") = JErr JBadSignature
  | JErr _ => False
  end.
Proof. vm_compute. split; reflexivity. Qed.
