(* C15: what the client half puts on the wire and how the server half reads it
   (authlib/common/urls.py, oauth2/auth.py, rfc6749/parameters.py,
   rfc6750/parameters.py, rfc6749/requests.py, rfc6749/util.py). *)
From Coq Require Import List NArith ZArith Bool Ascii String.
From Authlib Require Import Base.Bytes Base.Base64 Base.Utf8 Base.Percent Base.Form Base.Url Base.PyVal.
From Authlib Require Import Model.Resource Model.ClientAuth.
Import ListNotations.
Open Scope string_scope.

Definition with_query (x : url6) (q : string) : url6 :=
  {| u_scheme := u_scheme x; u_netloc := u_netloc x; u_path := u_path x; u_params := u_params x;
     u_query := q; u_fragment := u_fragment x |}.
Definition with_fragment (x : url6) (f : string) : url6 :=
  {| u_scheme := u_scheme x; u_netloc := u_netloc x; u_path := u_path x; u_params := u_params x;
     u_query := u_query x; u_fragment := f |}.

(* add_params_to_uri(uri, params, fragment=False) *)
Definition add_params_to_uri (uri : string) (params : list pair_s) (fragment : bool) : string :=
  let x := urlparse uri in
  if fragment then urlunparse (with_fragment x (add_params_to_qs (u_fragment x) params))
  else urlunparse (with_query x (add_params_to_qs (u_query x) params)).

Definition opt_param (k : string) (v : option string) : list pair_s :=
  match v with Some s => if String.eqb s "" then [] else [(k, s)] | None => [] end.

(* prepare_grant_uri(uri, client_id, response_type, redirect_uri, scope, state, **kwargs);
   scope already passed through list_to_scope *)
Definition prepare_grant_uri (uri client_id response_type : string)
           (redirect_uri scope state : option string) (extra : list pair_s) : string :=
  add_params_to_uri uri
    ([("response_type", response_type); ("client_id", client_id)]
       ++ opt_param "redirect_uri" redirect_uri ++ opt_param "scope" scope ++ opt_param "state" state
       ++ extra) false.

(* prepare_token_request(grant_type, body, redirect_uri, **kwargs): falsy kwargs are dropped *)
Definition prepare_token_request (grant_type body : string) (redirect_uri : option string)
           (kwargs : list pair_s) : string :=
  add_params_to_qs body
    ([("grant_type", grant_type)] ++ opt_param "redirect_uri" redirect_uri
       ++ filter (fun kv => negb (String.eqb (snd kv) "")) kwargs).

(* client authentication encoders *)
Definition encode_basic (client_id client_secret : string) : string :=
  "Basic " ++ b64std_encode (client_id ++ ":" ++ client_secret).
Definition encode_post (body client_id client_secret : string) : string :=
  add_params_to_qs body [("client_id", client_id); ("client_secret", client_secret)].
Definition encode_none_body (body client_id : string) : string :=
  add_params_to_qs body [("client_id", client_id)].

(* bearer token placement *)
Definition bearer_header (token : string) : string := "Bearer " ++ token.
Definition bearer_body (body token : string) : string := add_params_to_qs body [("access_token", token)].
Definition bearer_uri (uri token : string) : string := add_params_to_uri uri [("access_token", token)] false.

(* dict(pairs): last value wins, first position kept *)
Fixpoint dict_of_pairs (ps : list pair_s) (acc : list pair_s) : list pair_s :=
  match ps with
  | [] => acc
  | (k, v) :: r =>
      let fix upd (l : list pair_s) : list pair_s * bool :=
        match l with
        | [] => ([], false)
        | (k', v') :: t =>
            if String.eqb k k' then ((k, v) :: t, true)
            else let '(t', found) := upd t in ((k', v') :: t', found)
        end in
      let '(acc', found) := upd acc in
      dict_of_pairs r (if found then acc' else acc ++ [(k, v)])
  end.

Fixpoint lookup_pair (k : string) (ps : list pair_s) : option string :=
  match ps with
  | [] => None
  | (k', v) :: r => if String.eqb k k' then Some v else lookup_pair k r
  end.

(* parse_authorization_code_response(uri, state): parse_qsl without blank values *)
Inductive presp := PParams (ps : list pair_s) | PErr (code : string).

Definition state_mismatch (expected : option string) (got : option string) : bool :=
  match expected with
  | Some e => if String.eqb e "" then false
              else match got with Some g => negb (String.eqb g e) | None => true end
  | None => false
  end.

Definition parse_authorization_code_response (uri : string) (state : option string) : presp :=
  let params := dict_of_pairs (parse_qsl false (u_query (urlparse uri))) [] in
  match lookup_pair "code" params with
  | None => PErr "missing_code"
  | Some _ => if state_mismatch state (lookup_pair "state" params) then PErr "mismatching_state"
              else PParams params
  end.

Definition parse_implicit_response (uri : string) (state : option string) : presp :=
  let params := dict_of_pairs (parse_qsl true (u_fragment (urlparse uri))) [] in
  match lookup_pair "access_token" params with
  | None => PErr "missing_token"
  | Some _ =>
      match lookup_pair "token_type" params with
      | None => PErr "missing_token_type"
      | Some _ => if state_mismatch state (lookup_pair "state" params) then PErr "mismatching_state"
                  else PParams params
      end
  end.

(* server side: OAuth2Request.args = dict(url_decode(query)) *)
Definition request_args (uri : string) : option (list pair_s) :=
  option_map (fun ps => dict_of_pairs ps []) (url_decode (u_query (urlparse uri))).
