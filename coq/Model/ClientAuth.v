(* C07: executable model of client authentication
   (oauth2/rfc6749/authenticate_client.py, rfc6749/util.py:extract_basic_authorization,
   rfc7523/client.py:JWTBearerClientAssertion) over the reference client
   (sqla_oauth2 client mixin: secret equality, token-endpoint method equality). *)
From Coq Require Import List NArith ZArith Bool Ascii String.
From Authlib Require Import Base.Bytes Base.Base64 Base.Utf8 Base.Percent Base.PyVal.
From Authlib Require Import Model.Claims Model.Resource.
Import ListNotations.
Open Scope string_scope.

Record client := { c_id : string; c_secret : string; c_method : string }.
Definition registry := list client.

Fixpoint find_client (reg : registry) (id : string) : option client :=
  match reg with
  | [] => None
  | c :: r => if String.eqb (c_id c) id then Some c else find_client r id
  end.

Definition check_secret (c : client) (s : string) : bool := String.eqb (c_secret c) s.
Definition check_endpoint_auth_method (c : client) (method endpoint : string) : bool :=
  if String.eqb endpoint "token" then String.eqb (c_method c) method else true.

(* extract_basic_authorization(headers) -> (username, password) *)
Definition extract_basic (auth : option string) : option string * option string :=
  match auth with
  | None => (None, None)
  | Some a =>
      if String.eqb a "" || negb (str_in " " a) then (None, None) else
      match split_max1 a with
      | [ty; tok] =>
          if negb (String.eqb (lower ty) "basic") then (None, None)
          else if negb (is_ascii_str tok) then (None, None)
          else match a2b_base64_std tok with
               | None => (None, None)
               | Some q =>
                   if negb (utf8_valid q) then (None, None)
                   else match split_first ":" q with
                        | (u, Some p) => (Some (unquote u), Some (unquote p))
                        | (u, None) => (Some q, None)
                        end
               end
      | _ => (None, None)
      end
  end.

Definition nonempty (o : option string) : bool :=
  match o with Some s => negb (String.eqb s "") | None => false end.
Definition oval (o : option string) : string := match o with Some s => s | None => "" end.

(* what a method function does: return a client, return nothing, or raise invalid_client *)
Inductive mres := MClient (c : client) | MNone | MRaise (status : N).

Record creq := {
  r_auth : option string;            (* Authorization header *)
  r_form_id : option string;         (* form client_id *)
  r_form_secret : option string;     (* form client_secret *)
  r_data_id : option string;         (* client_id in query+form (form wins) *)
  r_data_secret : option string;     (* client_secret in query+form *)
  r_assertion_type : option string;
  r_assertion : option string;
  (* what decoding the assertion yields -- signature verification is abstract *)
  r_assertion_sig_ok : bool;         (* verifies under the key resolved for claims.sub *)
  r_assertion_wellformed : bool;     (* three segments, JSON header/payload *)
  r_assertion_claims : dictT
}.

Definition ASSERTION_TYPE := "urn:ietf:params:oauth:client-assertion-type:jwt-bearer".
Definition ASSERTION_METHOD := "client_assertion_jwt".

Definition m_basic (reg : registry) (r : creq) : mres :=
  match extract_basic (r_auth r) with
  | (Some id, Some sec) =>
      if negb (String.eqb id "") && negb (String.eqb sec "") then
        match find_client reg id with
        | None => MRaise 401
        | Some c => if check_secret c sec then MClient c else MNone
        end
      else MNone
  | _ => MNone
  end.

Definition m_post (reg : registry) (r : creq) : mres :=
  if nonempty (r_form_id r) && nonempty (r_form_secret r) then
    match find_client reg (oval (r_form_id r)) with
    | None => MRaise 400
    | Some c => if check_secret c (oval (r_form_secret r)) then MClient c else MNone
    end
  else MNone.

Definition m_none (reg : registry) (r : creq) : mres :=
  if nonempty (r_data_id r) && negb (nonempty (r_data_secret r)) then
    match find_client reg (oval (r_data_id r)) with
    | None => MRaise 400
    | Some c => MClient c
    end
  else MNone.

Section A.
Variable token_url : string.
Variable jti_fresh : string -> bool.      (* integrator's validate_jti *)
Variable now : Z.

Definition assertion_options : dictT :=
  [ ("iss", PDict [("essential", PBool true); ("validate", PStr "iss_eq_sub")]);
    ("sub", PDict [("essential", PBool true)]);
    ("aud", PDict [("essential", PBool true); ("value", PStr token_url)]);
    ("exp", PDict [("essential", PBool true)]);
    ("jti", PDict [("essential", PBool true); ("validate", PStr "jti_fresh")]) ].

Definition assertion_vfun (name : string) (claims : dictT) (v : pv) : bool :=
  if String.eqb name "iss_eq_sub" then py_eq (cget "sub" claims) v
  else if String.eqb name "jti_fresh" then jti_fresh (pv_str v)
  else false.

Definition m_assertion (reg : registry) (r : creq) : mres :=
  if (match r_assertion_type r with Some t => String.eqb t ASSERTION_TYPE | None => false end)
     && nonempty (r_assertion r) then
    if negb (r_assertion_wellformed r) then MRaise 400 else
    match dict_get "sub" (r_assertion_claims r) with
    | Some (PStr sub) =>
        match find_client reg sub with
        | None => MRaise 400
        | Some c =>
            if negb (r_assertion_sig_ok r) then MRaise 400
            else match jwt_validate assertion_vfun assertion_options (r_assertion_claims r) now 60 with
                 | Some _ => MRaise 400
                 | None => if check_endpoint_auth_method c ASSERTION_METHOD "token" then MClient c
                           else MRaise 400
                 end
        end
    | _ => MRaise 400
    end
  else MNone.

Definition run_method (reg : registry) (r : creq) (m : string) : mres :=
  if String.eqb m "client_secret_basic" then m_basic reg r
  else if String.eqb m "client_secret_post" then m_post reg r
  else if String.eqb m "none" then m_none reg r
  else if String.eqb m ASSERTION_METHOD then m_assertion reg r
  else MNone.

Inductive aout :=
| AOk (id method : string)
| AInvalidClient (status : N).    (* 401 carries WWW-Authenticate: Basic *)

Fixpoint auth_loop (reg : registry) (r : creq) (endpoint : string) (ms all : list string) : aout :=
  match ms with
  | [] => if list_in_str "client_secret_basic" all then AInvalidClient 401 else AInvalidClient 400
  | m :: rest =>
      match run_method reg r m with
      | MRaise st => AInvalidClient st
      | MClient c => if check_endpoint_auth_method c m endpoint then AOk (c_id c) m
                     else auth_loop reg r endpoint rest all
      | MNone => auth_loop reg r endpoint rest all
      end
  end.

Definition authenticate (reg : registry) (r : creq) (methods : list string) (endpoint : string) : aout :=
  auth_loop reg r endpoint methods methods.
End A.
