(* C03: JWE compact and JSON serialization and decryption (jose/rfc7516/jwe.py, models.py, jose/util.py).
   Key management (wrap / unwrap), content encryption (the AEAD), compression and JSON text conversion are
   parameters: what is modelled is the segment structure, which octets are the additional authenticated data, where
   alg / enc / zip come from and how they are checked against allow-list and registries, recipient selection, the order
   of the steps and what is returned. *)
From Coq Require Import List NArith ZArith Bool Ascii String.
From Authlib Require Import Base.Bytes Base.Base64 Base.PyVal Model.JWS.
Import ListNotations.
Open Scope string_scope.
Open Scope list_scope.

Inductive eerr :=
| EDecode (why : string)
| EMissingAlg | EMissingEnc
| EUnsupportedAlg | EUnsupportedEnc | EUnsupportedZip
| EKeyError (why : string)          (* prepare_key / unwrap refused *)
| EDecrypt                          (* the AEAD refused: tag mismatch, sizes *)
| EZip                              (* decompression failed *)
| EHeaderName (k : string)
| EKeyMismatch.

Inductive eres (A : Type) := EOk (a : A) | EErr (e : eerr).
Arguments EOk {A} a.
Arguments EErr {A} e.

(* s.split(b"."): all pieces *)
Fixpoint split_dots (s : string) : list string :=
  match s with
  | EmptyString => [EmptyString]
  | String c r =>
      if Ascii.eqb c "." then EmptyString :: split_dots r
      else match split_dots r with
           | h :: t => String c h :: t
           | [] => [String c EmptyString]
           end
  end.

Section E.
Variable json_loads : string -> option pv.
Variable alg_registered enc_registered zip_registered : string -> bool.
Variable prepare_key : string -> pv -> option pv.
(* alg.unwrap(enc, ek, header, key): None = refused (wrong key, wrong size, bad padding, ...) *)
Variable unwrap : string -> string -> string -> hdict -> pv -> option string.
(* enc.decrypt(ciphertext, aad, iv, tag, cek) *)
Variable decrypt : string -> string -> string -> string -> string -> string -> option string.
Variable decompress : string -> string -> option string.

Definition str_member (k : string) (h : hdict) : option (option string) :=
  match dict_get k h with
  | None => None
  | Some (PStr s) => Some (Some s)
  | Some _ => Some None            (* present, not a string: in no allow-list and in no registry *)
  end.

Definition allowed (allow : option (list string)) (name : string) : bool :=
  match allow with Some l => list_in_str name l | None => true end.

(* get_header_alg / get_header_enc / get_header_zip *)
Definition header_alg (allow : option (list string)) (h : hdict) : eres string :=
  match str_member "alg" h with
  | None => EErr EMissingAlg
  | Some None => EErr EUnsupportedAlg
  | Some (Some a) => if allowed allow a && alg_registered a then EOk a else EErr EUnsupportedAlg
  end.
Definition header_enc (allow : option (list string)) (h : hdict) : eres string :=
  match str_member "enc" h with
  | None => EErr EMissingEnc
  | Some None => EErr EUnsupportedEnc
  | Some (Some a) => if allowed allow a && enc_registered a then EOk a else EErr EUnsupportedEnc
  end.
Definition header_zip (allow : option (list string)) (h : hdict) : eres (option string) :=
  match str_member "zip" h with
  | None => EOk None
  | Some None => EErr EUnsupportedZip
  | Some (Some a) => if allowed allow a && zip_registered a then EOk (Some a) else EErr EUnsupportedZip
  end.

Definition extract_hdr (seg : string) : eres hdict :=
  match urlsafe_b64decode seg with
  | None => EErr (EDecode "header")
  | Some data => match json_loads data with Some (PDict d) => EOk d | _ => EErr (EDecode "header") end
  end.
Definition extract_seg (seg what : string) : eres string :=
  match urlsafe_b64decode seg with Some d => EOk d | None => EErr (EDecode what) end.

Definition finish (zip : option string) (msg : string) : eres string :=
  match zip with
  | None => EOk msg
  | Some z => match decompress z msg with Some p => EOk p | None => EErr EZip end
  end.

(* ---------- compact ---------- *)
Definition deserialize_compact (allow : option (list string)) (s : string) (rawkey : pv) : eres (hdict * string) :=
  match split_dots s with
  | [ps; eks; ivs; cts; tags] =>
      match extract_hdr ps with EErr e => EErr e | EOk h =>
      match extract_seg eks "encryption key" with EErr e => EErr e | EOk ek =>
      match extract_seg ivs "initialization vector" with EErr e => EErr e | EOk iv =>
      match extract_seg cts "ciphertext" with EErr e => EErr e | EOk ct =>
      match extract_seg tags "authentication tag" with EErr e => EErr e | EOk tag =>
      match header_alg allow h with EErr e => EErr e | EOk alg =>
      match header_enc allow h with EErr e => EErr e | EOk enc =>
      match header_zip allow h with EErr e => EErr e | EOk zip =>
      match prepare_key alg (effective_key h rawkey) with None => EErr (EKeyError "prepare_key") | Some k =>
      match unwrap alg enc ek h k with None => EErr (EKeyError "unwrap") | Some cek =>
      match decrypt enc cek iv ps ct tag with None => EErr EDecrypt | Some msg =>
      match finish zip msg with EErr e => EErr e | EOk payload => EOk (h, payload)
      end end end end end end end end end end end end
  | _ => EErr (EDecode "segments")
  end.

(* the assembling half of serialize_compact, after the cryptography has produced its outputs *)
Definition assemble_compact (protected_json ek iv ct tag : string) : string :=
  (b64url_encode protected_json ++ "." ++ b64url_encode ek ++ "." ++ b64url_encode iv ++ "." ++
   b64url_encode ct ++ "." ++ b64url_encode tag)%string.

(* ---------- JSON ---------- *)
Record recip := { r_header : hdict; r_ek : option string }.      (* per-recipient header, encrypted_key segment *)

Record jobj := { o_protected : option string;      (* the "protected" member *)
                 o_unprotected : hdict;
                 o_recipients : list recip;
                 o_aad : option string;            (* the "aad" member (base64url text) *)
                 o_iv : option string; o_ct : option string; o_tag : option string }.

(* JWEHeader(protected, unprotected, header): later sources override earlier ones *)
Definition merge3 (p u r : hdict) : hdict := hmerge (hmerge p u) r.

Definition kid_of (h : hdict) : option string := match dict_get "kid" h with Some (PStr s) => Some s | _ => None end.

(* _unwrap_for_matching_recipient: a recipient whose header kid equals the key's kid is used (and only it);
   otherwise every recipient is tried in turn *)
Fixpoint find_kid_recipient (rs : list (recip * string)) (kid : string) : option (recip * string) :=
  match rs with
  | [] => None
  | (r, ek) :: q => match kid_of (r_header r) with
                    | Some k => if String.eqb k kid then Some (r, ek) else find_kid_recipient q kid
                    | None => find_kid_recipient q kid
                    end
  end.

Fixpoint try_all (alg enc : string) (p u : hdict) (k : pv) (rs : list (recip * string)) : option string :=
  match rs with
  | [] => None
  | (r, ek) :: q =>
      match unwrap alg enc ek (merge3 p u (r_header r)) k with
      | Some cek => Some cek
      | None => try_all alg enc p u k q
      end
  end.

Fixpoint decode_eks (rs : list recip) : eres (list (recip * string)) :=
  match rs with
  | [] => EOk []
  | r :: q =>
      match r_ek r with
      | None => EErr (EDecode "encrypted key")
      | Some seg =>
          match extract_seg seg "encrypted key" with
          | EErr e => EErr e
          | EOk ek => match decode_eks q with EErr e => EErr e | EOk l => EOk ((r, ek) :: l) end
          end
      end
  end.

Definition json_aad (o : jobj) : string :=
  let p := match o_protected o with Some s => s | None => "" end in
  match o_aad o with Some a => (p ++ "." ++ a)%string | None => p end.

Definition deserialize_json (allow : option (list string)) (o : jobj) (rawkey : pv) (key_kid : option string)
  : eres (hdict * string) :=
  match (match o_protected o with
         | Some ps => extract_hdr ps
         | None => EOk [] end) with
  | EErr e => EErr e
  | EOk p =>
      match decode_eks (o_recipients o) with EErr e => EErr e | EOk rs =>
      match (match o_aad o with Some a => extract_seg a "JWE AAD" | None => EOk "" end) with EErr e => EErr e | EOk _ =>
      match o_iv o, o_ct o, o_tag o with
      | Some ivs, Some cts, Some tags =>
          match extract_seg ivs "initialization vector" with EErr e => EErr e | EOk iv =>
          match extract_seg cts "ciphertext" with EErr e => EErr e | EOk ct =>
          match extract_seg tags "authentication tag" with EErr e => EErr e | EOk tag =>
          let shared := hmerge p (o_unprotected o) in
          match header_alg allow shared with EErr e => EErr e | EOk alg =>
          match header_enc allow shared with EErr e => EErr e | EOk enc =>
          match header_zip allow shared with EErr e => EErr e | EOk zip =>
          match prepare_key alg rawkey with None => EErr (EKeyError "prepare_key") | Some k =>
          let cek :=
            match (match key_kid with Some kid => find_kid_recipient rs kid | None => None end) with
            | Some (r, ek) => unwrap alg enc ek (merge3 p (o_unprotected o) (r_header r)) k
            | None => try_all alg enc p (o_unprotected o) k rs
            end in
          match cek with None => EErr (EKeyError "unwrap") | Some cek =>
          match decrypt enc cek iv (json_aad o) ct tag with None => EErr EDecrypt | Some msg =>
          match finish zip msg with EErr e => EErr e | EOk payload => EOk (p, payload)
          end end end end end end end end end end
      | _, _, _ => EErr (EDecode "missing member")
      end end end
  end.
End E.
