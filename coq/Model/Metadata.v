(* C18 (part 1): executable model of AuthorizationServerMetadata.validate
   (oauth2/rfc8414/models.py) and OpenIDProviderMetadata.validate
   (oidc/discovery/models.py) on documents whose members have ANY JSON type.
   MCrash = a non-ValueError exception (AttributeError / TypeError / KeyError). *)
From Coq Require Import List NArith ZArith Bool Ascii String.
From Authlib Require Import Base.Bytes Base.PyVal Base.Url.
Import ListNotations.
Open Scope string_scope.

Inductive mres := MOk | MErr (key : string) | MCrash.

Definition doc := list (string * pv).
Definition getd (k : string) (d : doc) : pv := match dict_get k d with Some v => v | None => PNone end.
(* self.get(k, default) *)
Definition get_default (k : string) (dflt : pv) (d : doc) : pv :=
  match dict_get k d with Some v => v | None => dflt end.

Definition strs (l : list string) : pv := PList (map PStr l).

Definition scalar (v : pv) : bool := negb (is_list v || is_dict v).

(* set(x): the elements, or None for TypeError *)
Definition py_set (v : pv) : option (list pv) :=
  match v with
  | PList l => if forallb scalar l then Some l else None
  | PStr s => Some (map (fun c => PStr (String c "")) (list_ascii_of_string s))
  | PDict kvs => Some (map (fun kv => PStr (fst kv)) kvs)
  | _ => None
  end.

Definition intersects (s : list pv) (names : list string) : bool :=
  existsb (fun v => match v with PStr x => list_in_str x names | _ => false end) s.
Definition all_in (s : list pv) (names : list string) : bool :=
  forallb (fun v => match v with PStr x => list_in_str x names | _ => false end) s.

(* sequencing: first non-Ok result *)
Fixpoint first_fail (l : list mres) : mres :=
  match l with
  | [] => MOk
  | MOk :: r => first_fail r
  | x :: _ => x
  end.

(* "url and not is_secure_transport(url)" *)
Definition check_https_opt (key : string) (d : doc) : mres :=
  let url := getd key d in
  if py_truthy url then
    match url with
    | PStr s => if is_secure_transport s then MOk else MErr key
    | _ => MCrash
    end
  else MOk.

Definition check_url_opt (key : string) (d : doc) : mres :=
  let v := getd key d in
  if py_truthy v then
    match v with
    | PStr s => if is_valid_url s true then MOk else MErr key
    | _ => MCrash
    end
  else MOk.

(* validate_array_value *)
Definition check_array_opt (key : string) (d : doc) : mres :=
  match getd key d with
  | PNone | PList _ => MOk
  | _ => MErr key
  end.

Definition check_issuer (d : doc) : mres :=
  let v := getd "issuer" d in
  if negb (py_truthy v) then MErr "issuer" else
  match v with
  | PStr s =>
      let p := urlparse s in
      if negb (is_secure_transport s) then MErr "issuer"
      else if negb (String.eqb (u_query p) "") || negb (String.eqb (u_fragment p) "") then MErr "issuer"
      else MOk
  | _ => MCrash
  end.

Definition AUTHZ_GRANTS := ["authorization_code"; "implicit"].

Definition check_authorization_endpoint (d : doc) : mres :=
  let url := getd "authorization_endpoint" d in
  if py_truthy url then
    match url with
    | PStr s => if is_secure_transport s then MOk else MErr "authorization_endpoint"
    | _ => MCrash
    end
  else
    match py_set (get_default "grant_types_supported" (strs AUTHZ_GRANTS) d) with
    | None => MCrash
    | Some s => if intersects s AUTHZ_GRANTS then MErr "authorization_endpoint" else MOk
    end.

(* grant_types_supported and len(g) == 1 and g[0] == "implicit": Some b, or None for a crash *)
Definition implicit_only (g : pv) : option bool :=
  if negb (py_truthy g) then Some false else
  match g with
  | PList [x] => Some (py_eq x (PStr "implicit"))
  | PList _ => Some false
  | PStr _ => Some false            (* a one-character string never equals "implicit" *)
  | PDict [_] => None               (* g[0] -> KeyError *)
  | PDict _ => Some false
  | _ => None                       (* len() of a number -> TypeError *)
  end.

Definition check_token_endpoint (d : doc) : mres :=
  match implicit_only (getd "grant_types_supported" d) with
  | None => MCrash
  | Some true => MOk
  | Some false =>
      let url := getd "token_endpoint" d in
      if negb (py_truthy url) then MErr "token_endpoint" else
      match url with
      | PStr s => if is_secure_transport s then MOk else MErr "token_endpoint"
      | _ => MCrash
      end
  end.

Definition check_response_types_supported (d : doc) : mres :=
  let v := getd "response_types_supported" d in
  if negb (py_truthy v) then MErr "response_types_supported"
  else if is_list v then MOk else MErr "response_types_supported".

Definition JWT_AUTH_METHODS := ["private_key_jwt"; "client_secret_jwt"].

(* _validate_alg_values(data, key, auth_methods_supported) *)
Definition check_alg_values (key methods_key : string) (d : doc) : mres :=
  let value := getd key d in
  if py_truthy value && negb (is_list value) then MErr key else
  match py_set (get_default methods_key (strs ["client_secret_basic"]) d) with
  | None => MCrash
  | Some ms =>
      if intersects ms JWT_AUTH_METHODS && negb (py_truthy value) then MErr key
      else if py_truthy value && py_in_list (PStr "none") (pv_list value) then MErr key
      else MOk
  end.

Definition as_validate (d : doc) : mres :=
  first_fail [
    check_issuer d;
    check_authorization_endpoint d;
    check_token_endpoint d;
    check_https_opt "jwks_uri" d;
    check_https_opt "registration_endpoint" d;
    check_array_opt "scopes_supported" d;
    check_response_types_supported d;
    check_array_opt "response_modes_supported" d;
    check_array_opt "grant_types_supported" d;
    check_array_opt "token_endpoint_auth_methods_supported" d;
    check_alg_values "token_endpoint_auth_signing_alg_values_supported" "token_endpoint_auth_methods_supported" d;
    check_url_opt "service_documentation" d;
    check_array_opt "ui_locales_supported" d;
    check_url_opt "op_policy_uri" d;
    check_url_opt "op_tos_uri" d;
    check_https_opt "revocation_endpoint" d;
    check_array_opt "revocation_endpoint_auth_methods_supported" d;
    check_alg_values "revocation_endpoint_auth_signing_alg_values_supported" "revocation_endpoint_auth_methods_supported" d;
    check_https_opt "introspection_endpoint" d;
    check_array_opt "introspection_endpoint_auth_methods_supported" d;
    check_alg_values "introspection_endpoint_auth_signing_alg_values_supported" "introspection_endpoint_auth_methods_supported" d;
    check_array_opt "code_challenge_methods_supported" d ].

(* ---- OpenID Connect Discovery *)
Definition check_jwks_uri_required (d : doc) : mres :=
  match getd "jwks_uri" d with
  | PNone => MErr "jwks_uri"
  | _ => check_https_opt "jwks_uri" d
  end.

Definition check_required_enum_array (key : string) (values : list string) (d : doc) : mres :=
  match getd key d with
  | PNone => MErr key
  | PList l => if forallb scalar l then (if all_in l values then MOk else MErr key) else MCrash
  | _ => MErr key
  end.

Definition check_id_token_algs (d : doc) : mres :=
  let key := "id_token_signing_alg_values_supported" in
  match getd key d with
  | PNone => MErr key
  | PList l => if py_in_list (PStr "RS256") l then MOk else MErr key
  | _ => MErr key
  end.

Definition check_array_if_truthy (key : string) (d : doc) : mres :=
  let v := getd key d in
  if negb (py_truthy v) then MOk else if is_list v then MOk else MErr key.

Definition check_enum_array_opt (key : string) (values : list string) (d : doc) : mres :=
  let v := getd key d in
  if negb (py_truthy v) then MOk else
  match v with
  | PList l => if forallb scalar l then (if all_in l values then MOk else MErr key) else MCrash
  | _ => MErr key
  end.

(* _validate_boolean_value: key absent, or metadata[key] in (True, False) by Python equality *)
Definition check_boolean_opt (key : string) (d : doc) : mres :=
  match dict_get key d with
  | None => MOk
  | Some v => if py_eq v (PBool true) || py_eq v (PBool false) then MOk else MErr key
  end.

Definition op_validate (d : doc) : mres :=
  first_fail [
    check_issuer d;
    check_authorization_endpoint d;
    check_token_endpoint d;
    check_jwks_uri_required d;
    check_https_opt "registration_endpoint" d;
    check_array_opt "scopes_supported" d;
    check_response_types_supported d;
    check_array_opt "response_modes_supported" d;
    check_array_opt "grant_types_supported" d;
    check_array_opt "token_endpoint_auth_methods_supported" d;
    check_url_opt "service_documentation" d;
    check_array_opt "ui_locales_supported" d;
    check_url_opt "op_policy_uri" d;
    check_url_opt "op_tos_uri" d;
    check_alg_values "token_endpoint_auth_signing_alg_values_supported" "token_endpoint_auth_methods_supported" d;
    check_array_opt "acr_values_supported" d;
    check_required_enum_array "subject_types_supported" ["pairwise"; "public"] d;
    check_id_token_algs d;
    check_array_opt "id_token_encryption_alg_values_supported" d;
    check_array_opt "id_token_encryption_enc_values_supported" d;
    check_array_opt "userinfo_signing_alg_values_supported" d;
    check_array_opt "userinfo_encryption_alg_values_supported" d;
    check_array_opt "userinfo_encryption_enc_values_supported" d;
    check_array_if_truthy "request_object_signing_alg_values_supported" d;
    check_array_opt "request_object_encryption_alg_values_supported" d;
    check_array_opt "request_object_encryption_enc_values_supported" d;
    check_enum_array_opt "display_values_supported" ["page"; "popup"; "touch"; "wap"] d;
    check_enum_array_opt "claim_types_supported" ["normal"; "aggregated"; "distributed"] d;
    check_array_opt "claims_supported" d;
    check_array_opt "claims_locales_supported" d;
    check_boolean_opt "claims_parameter_supported" d;
    check_boolean_opt "request_parameter_supported" d;
    check_boolean_opt "request_uri_parameter_supported" d;
    check_boolean_opt "require_request_uri_registration" d ].
