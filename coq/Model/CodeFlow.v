(* C06: authorization-code and device-code flows as a state machine over the
   reference integrator (oauth2/rfc6749/grants/authorization_code.py,
   rfc7636/challenge.py, rfc8628/device_code.py + endpoint.py).
   Codes and device codes are named by the order of their creation. *)
From Coq Require Import List NArith ZArith Bool Ascii String.
From Authlib Require Import Base.Bytes Base.Base64 Model.Resource Model.Scope.
Import ListNotations.
Open Scope string_scope.
Open Scope list_scope.

Record cclient := { cc_id : string; cc_secret : string; cc_method : string (* client_secret_basic | none *);
                    cc_redirects : list string; cc_scope : string; cc_grants : list string }.

Record crec := { cr_id : nat; cr_client : string; cr_redirect : option string; cr_scope : option string;
                 cr_user : string; cr_challenge : option string; cr_method : option string; cr_time : Z }.
Record drec := { dv_id : nat; dv_client : option string (* the request's client_id parameter *); dv_scope : option string; dv_expires : Z }.

Inductive tsrc := FromCode (c : nat) | FromDevice (d : nat).
Record trec := { tk_src : tsrc; tk_client : string; tk_user : string; tk_scope : option string;
                 tk_redirect : option string; tk_verifier : option string;
                 tk_auth : string (* client auth method used *); tk_time : Z (* ghost: time of issue *) }.

Record st := {
  s_codes : list crec;          (* live authorization codes *)
  s_issued : list crec;         (* ghost: every code ever issued *)
  s_devices : list drec;
  s_decisions : list (nat * (string * bool));   (* device id -> (user, approved) *)
  s_tokens : list trec;
  s_now : Z;
  s_next : nat
}.

Definition init : st :=
  {| s_codes := []; s_issued := []; s_devices := []; s_decisions := []; s_tokens := []; s_now := 0%Z; s_next := 0 |}.

Inductive cred := CBasic (id secret : string) | CNone (id : string) | CAbsent.

Inductive op :=
| OAuthorize (cid : string) (redirect : option string) (scope : option string)
             (challenge method : option string) (approve : option string)
| ORedeem (code : option nat) (c : cred) (redirect : option string) (verifier : option string)
| ODeviceAuthorize (c : cred) (client_param : option string) (scope : option string)
| ODecide (dev : nat) (user : string) (approve : bool)
| OPoll (dev : option nat) (c : cred)
| OTick (dt : Z).

Inductive out :=
| OutCode (id : nat)            (* redirect carrying a fresh code *)
| OutDevice (id : nat)
| OutToken (user : string) (scope : option string)
| OutError (code : string)
| OutNone.

Section M.
Variable registry : list cclient.
Variable sha256 : string -> string.
Variable pkce_required : bool.

Fixpoint find_cc (l : list cclient) (id : string) : option cclient :=
  match l with [] => None | c :: r => if String.eqb (cc_id c) id then Some c else find_cc r id end.

(* client authentication with methods [basic, post, none] (see C07 for the full model): the Basic
   header first, then a client_id parameter without secret as method "none" *)
Definition method_rule (cl : cclient) (m endpoint : string) : bool :=
  negb (String.eqb endpoint "token") || String.eqb (cc_method cl) m.

Definition authenticate_p (c : cred) (param : option string) (endpoint : string) : option (cclient * string) :=
  let try_none :=
    let pid := match c with CNone id => Some id | _ => param end in
    match pid with
    | Some id =>
        if String.eqb id "" then None else
        match find_cc registry id with
        | Some cl => if method_rule cl "none" endpoint then Some (cl, "none") else None
        | None => None
        end
    | None => None
    end in
  match c with
  | CBasic id sec =>
      if negb (String.eqb id "") && negb (String.eqb sec "") then
        match find_cc registry id with
        | None => None                      (* unknown client: invalid_client is raised at once *)
        | Some cl => if String.eqb (cc_secret cl) sec && method_rule cl "client_secret_basic" endpoint
                     then Some (cl, "client_secret_basic") else try_none
        end
      else try_none
  | _ => try_none
  end.

Definition authenticate (c : cred) (endpoint : string) : option (cclient * string) := authenticate_p c None endpoint.

(* RFC 7636 s4.1 / s4.2 syntax *)
Definition unreserved (c : ascii) : bool := is_alnum c || str_in c "-._~".
Definition pkce_wf (s : string) : bool :=
  Nat.leb 43 (String.length s) && Nat.leb (String.length s) 128 && str_all unreserved s.

Definition s256 (verifier : string) : string := b64url_encode (sha256 verifier).

Definition otruthy (o : option string) : bool := match o with Some s => negb (String.eqb s "") | None => false end.
Definition oval (o : option string) : string := match o with Some s => s | None => "" end.

(* CodeChallenge.validate_code_challenge: None = accepted *)
Definition challenge_error (challenge method : option string) : bool :=
  if negb (otruthy challenge) && negb (otruthy method) then false
  else if negb (otruthy challenge) then true
  else if negb (pkce_wf (oval challenge)) then true
  else otruthy method && negb (list_in_str (oval method) ["plain"; "S256"]).

(* CodeChallenge.validate_code_verifier: "" = accepted, otherwise the error code *)
Definition verifier_error (auth_method : string) (cr : crec) (verifier : option string) : string :=
  if pkce_required && String.eqb auth_method "none" && negb (otruthy verifier) then "invalid_request"
  else if negb (otruthy (cr_challenge cr)) && negb (otruthy verifier) then ""
  else if negb (otruthy verifier) then "invalid_request"
  else if negb (pkce_wf (oval verifier)) then "invalid_request"
  else
    let m := match cr_method cr with Some m => m | None => "plain" end in
    let ok := if String.eqb m "plain" then (match cr_challenge cr with Some ch => String.eqb (oval verifier) ch | None => false end)
              else if String.eqb m "S256" then (match cr_challenge cr with Some ch => String.eqb (s256 (oval verifier)) ch | None => false end)
              else false in
    if ok then "" else "invalid_grant".

Fixpoint find_code (l : list crec) (id : nat) : option crec :=
  match l with [] => None | c :: r => if Nat.eqb (cr_id c) id then Some c else find_code r id end.
Fixpoint find_dev (l : list drec) (id : nat) : option drec :=
  match l with [] => None | d :: r => if Nat.eqb (dv_id d) id then Some d else find_dev r id end.
Fixpoint find_decision (l : list (nat * (string * bool))) (id : nat) : option (string * bool) :=
  match l with [] => None | (k, v) :: r => if Nat.eqb k id then Some v else find_decision r id end.

Definition token_scope (cl : cclient) (sc : option string) : option string :=
  fst (generate GenBearer (cc_scope cl) sc).

Definition set_codes (s : st) (cs : list crec) : st :=
  {| s_codes := cs; s_issued := s_issued s; s_devices := s_devices s; s_decisions := s_decisions s;
     s_tokens := s_tokens s; s_now := s_now s; s_next := s_next s |}.

Definition step (s : st) (o : op) : st * out :=
  match o with
  | OAuthorize cid redirect scope challenge method approve =>
      match find_cc registry cid with
      | None => (s, OutError "invalid_client")
      | Some cl =>
          let target := match redirect with
                        | Some u => if String.eqb u "" then hd_error (cc_redirects cl)
                                    else if list_in_str u (cc_redirects cl) then Some u else None
                        | None => hd_error (cc_redirects cl) end in
          match target with
          | None => (s, OutError "invalid_request")
          | Some _ =>
              if challenge_error challenge method then (s, OutError "invalid_request")
              else match approve with
                   | None => (s, OutError "access_denied")
                   | Some user =>
                       let cr := {| cr_id := s_next s; cr_client := cid; cr_redirect := redirect; cr_scope := scope;
                                    cr_user := user; cr_challenge := challenge; cr_method := method; cr_time := s_now s |} in
                       ({| s_codes := cr :: s_codes s; s_issued := cr :: s_issued s; s_devices := s_devices s;
                           s_decisions := s_decisions s; s_tokens := s_tokens s; s_now := s_now s;
                           s_next := S (s_next s) |}, OutCode (s_next s))
                   end
          end
      end
  | ORedeem code c redirect verifier =>
      match authenticate c "token" with
      | None => (s, OutError "invalid_client")
      | Some (cl, am) =>
          if negb (list_in_str "authorization_code" (cc_grants cl)) then (s, OutError "unauthorized_client") else
          match code with
          | None => (s, OutError "invalid_request")
          | Some cid =>
              match find_code (s_codes s) cid with
              | None => (s, OutError "invalid_grant")
              | Some cr =>
                  if negb (String.eqb (cr_client cr) (cc_id cl)) || Z.ltb (cr_time cr + 300) (s_now s)
                  then (s, OutError "invalid_grant")
                  else if otruthy (cr_redirect cr) && negb (match redirect with Some r => String.eqb r (oval (cr_redirect cr)) | None => false end)
                  then (s, OutError "invalid_grant")
                  else match verifier_error am cr verifier with
                       | EmptyString =>
                           let tk := {| tk_src := FromCode cid; tk_client := cc_id cl; tk_user := cr_user cr;
                                        tk_scope := token_scope cl (cr_scope cr); tk_redirect := redirect; tk_verifier := verifier;
                                        tk_auth := am; tk_time := s_now s |} in
                           ({| s_codes := filter (fun x => negb (Nat.eqb (cr_id x) cid)) (s_codes s); s_issued := s_issued s;
                               s_devices := s_devices s; s_decisions := s_decisions s; s_tokens := tk :: s_tokens s;
                               s_now := s_now s; s_next := s_next s |}, OutToken (cr_user cr) (token_scope cl (cr_scope cr)))
                       | e => (s, OutError e)
                       end
              end
          end
      end
  | ODeviceAuthorize c client_param scope =>
      match authenticate_p c client_param "device_authorization" with
      | None => (s, OutError "invalid_client")
      | Some (cl, _) =>
          let d := {| dv_id := s_next s; dv_client := client_param; dv_scope := scope; dv_expires := (s_now s + 1800)%Z |} in
          ({| s_codes := s_codes s; s_issued := s_issued s; s_devices := d :: s_devices s; s_decisions := s_decisions s;
              s_tokens := s_tokens s; s_now := s_now s; s_next := S (s_next s) |}, OutDevice (s_next s))
      end
  | ODecide dev user approve =>
      (* the end user decides on the page reached with a user code; a device that was never announced has none *)
      match find_dev (s_devices s) dev with
      | None => (s, OutNone)
      | Some _ =>
          ({| s_codes := s_codes s; s_issued := s_issued s; s_devices := s_devices s;
              s_decisions := (dev, (user, approve)) :: s_decisions s; s_tokens := s_tokens s; s_now := s_now s;
              s_next := s_next s |}, OutNone)
      end
  | OPoll dev c =>
      match dev with
      | None => (s, OutError "invalid_request")
      | Some did =>
          match authenticate c "token" with
          | None => (s, OutError "invalid_client")
          | Some (cl, _) =>
              if negb (list_in_str "urn:ietf:params:oauth:grant-type:device_code" (cc_grants cl))
              then (s, OutError "unauthorized_client") else
              match find_dev (s_devices s) did with
              | None => (s, OutError "invalid_request")
              | Some d =>
                  if negb (match dv_client d with Some x => String.eqb x (cc_id cl) | None => false end) then (s, OutError "unauthorized_client")
                  else if Z.ltb (dv_expires d) (s_now s) then (s, OutError "expired_token")
                  else match find_decision (s_decisions s) did with
                       | None => (s, OutError "authorization_pending")
                       | Some (user, false) => (s, OutError "access_denied")
                       | Some (user, true) =>
                           let tk := {| tk_src := FromDevice did; tk_client := cc_id cl; tk_user := user;
                                        tk_scope := token_scope cl (dv_scope d); tk_redirect := None; tk_verifier := None;
                                        tk_auth := ""; tk_time := s_now s |} in
                           ({| s_codes := s_codes s; s_issued := s_issued s; s_devices := s_devices s;
                               s_decisions := s_decisions s; s_tokens := tk :: s_tokens s; s_now := s_now s;
                               s_next := s_next s |}, OutToken user (token_scope cl (dv_scope d)))
                       end
              end
          end
      end
  | OTick dt =>
      ({| s_codes := s_codes s; s_issued := s_issued s; s_devices := s_devices s; s_decisions := s_decisions s;
          s_tokens := s_tokens s; s_now := (s_now s + Z.max 0 dt)%Z; s_next := s_next s |}, OutNone)
  end.

Definition run (ops : list op) : st := fold_left (fun s o => fst (step s o)) ops init.
Fixpoint run_outs (s : st) (ops : list op) : list out :=
  match ops with [] => [] | o :: r => let '(s', x) := step s o in x :: run_outs s' r end.
End M.
