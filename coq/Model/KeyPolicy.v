(* C02: algorithm / key policy
   (jose/rfc7518/oct_key.py: the symmetric-key safety test; jose/rfc7517/key_set.py + rfc7519/jwt.py: selection by
   kid; rfc7517/base_key.py: use / key_ops; rfc7518/jws_algs.py + rfc8037: which key kind each algorithm takes;
   rfc7515/jws.py: crit).  The allow-list / registry part is Model/JWS.v:prepare. *)
From Coq Require Import List NArith ZArith Bool Ascii String.
From Authlib Require Import Base.Bytes Base.PyVal.
Import ListNotations.
Open Scope string_scope.
Open Scope list_scope.

(* ---------- is this text something the asymmetric key classes would load? ---------- *)
Fixpoint contains (needle hay : string) : bool :=
  starts_with needle hay || match hay with EmptyString => false | String _ r => contains needle r end.

Definition PEM_MARKERS := ["-----BEGIN "; "---- BEGIN "].
Definition SSH_TYPES := ["ssh-rsa"; "ssh-dss"; "ssh-ed25519"; "ecdsa-sha2-"].

(* bytes.lstrip(): ASCII white space \t \n \v \f \r and space *)
Definition is_bspace (a : ascii) : bool :=
  let n := N_of_ascii a in ((9 <=? n) && (n <=? 13))%N || (n =? 32)%N.
Fixpoint lstrip_b (s : string) : string :=
  match s with String c r => if is_bspace c then lstrip_b r else s | EmptyString => s end.

Definition looks_asymmetric (raw : string) : bool :=
  existsb (fun m => contains m raw) PEM_MARKERS || existsb (fun p => starts_with p (lstrip_b raw)) SSH_TYPES.

(* OctKey.import_key on bytes / text: true = imported as an HMAC secret *)
Definition oct_import_ok (raw : string) : bool := negb (looks_asymmetric raw).

(* ---------- selection by kid ---------- *)
(* KeySet.find_by_kid / jwt.create_load_key over the kids of the keys (None: the key has no kid) *)
Fixpoint first_with_kid (kids : list (option string)) (kid : option string) (i : nat) : option nat :=
  match kids with
  | [] => None
  | k :: r => if (match k, kid with Some a, Some b => String.eqb a b | None, None => true | _, _ => false end)
              then Some i else first_with_kid r kid (S i)
  end.

(* the KeySet object *)
Definition find_by_kid (kids : list (option string)) (kid : option string) : option nat :=
  match kid, kids with
  | None, [_] => Some 0
  | _, _ => first_with_kid kids kid 0
  end.

(* a dict {"keys": [...]} given to jwt.decode: a present kid is searched; an absent kid takes the only key *)
Definition find_in_jwks_dict (kids : list (option string)) (kid : option string) : option nat :=
  match kid with
  | Some _ => first_with_kid kids kid 0
  | None => match kids with [_] => Some 0 | _ => None end
  end.

(* ---------- use / key_ops ---------- *)
Inductive kop := KSign | KVerify | KEncrypt | KDecrypt | KWrap | KUnwrap.
Definition kop_name (o : kop) : string :=
  match o with KSign => "sign" | KVerify => "verify" | KEncrypt => "encrypt" | KDecrypt => "decrypt"
             | KWrap => "wrapKey" | KUnwrap => "unwrapKey" end.
Definition is_private_op (o : kop) : bool := match o with KSign | KDecrypt | KUnwrap => true | _ => false end.

Inductive kerr := KOpNotListed | KPrivateOpOnPublic | KInvalidUse.

(* Key.check_key_op: None = allowed *)
Definition check_key_op (key_ops : option (list string)) (use : option string) (public_only : bool) (o : kop) : option kerr :=
  if (match key_ops with Some l => negb (list_in_str (kop_name o) l) | None => false end) then Some KOpNotListed
  else if is_private_op o && public_only then Some KPrivateOpOnPublic
  else match use with
       | Some u =>
           if String.eqb u "" then None
           else match o with
                | KSign | KVerify => if String.eqb u "sig" then None else Some KInvalidUse
                | _ => if String.eqb u "enc" then None else Some KInvalidUse
                end
       | None => None
       end.

(* ---------- which key kind each signature algorithm takes ---------- *)
Record kdesc := { kd_kty : string; kd_crv : string }.      (* crv: "" for oct / RSA *)

Definition alg_family_ok (alg : string) (k : kdesc) : bool :=
  if list_in_str alg ["HS256"; "HS384"; "HS512"] then String.eqb (kd_kty k) "oct"
  else if list_in_str alg ["RS256"; "RS384"; "RS512"; "PS256"; "PS384"; "PS512"] then String.eqb (kd_kty k) "RSA"
  else if String.eqb alg "ES256" then String.eqb (kd_kty k) "EC" && String.eqb (kd_crv k) "P-256"
  else if String.eqb alg "ES384" then String.eqb (kd_kty k) "EC" && String.eqb (kd_crv k) "P-384"
  else if String.eqb alg "ES512" then String.eqb (kd_kty k) "EC" && String.eqb (kd_crv k) "P-521"
  else if String.eqb alg "ES256K" then String.eqb (kd_kty k) "EC" && String.eqb (kd_crv k) "secp256k1"
  else if String.eqb alg "EdDSA" then String.eqb (kd_kty k) "OKP"   (* prepare_key takes any OKP key; X25519/X448 keys then fail in sign/verify *)
  else false.

(* ---------- crit (RFC 7515 s4.1.11) ---------- *)
(* None = accepted; Some name = InvalidHeaderParameterNameError(name) *)
Definition validate_crit (private : list string) (protected : list (string * pv)) : option string :=
  match dict_get "crit" protected with
  | None => None
  | Some (PList l) =>
      match l with
      | [] => Some "crit"
      | _ =>
          let bad := filter (fun v => match v with
                                      | PStr k => negb (list_in_str k private
                                                        && match dict_get k protected with Some _ => true | None => false end)
                                      | _ => true end) l in
          match bad with
          | [] => None
          | PStr k :: _ => Some k
          | _ :: _ => Some "?"
          end
      end
  | Some _ => Some "crit"
  end.
