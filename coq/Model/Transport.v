(* How the three request wrappers read one parameter out of a query and a form (the glue between an HTTP request and the
   library's request object).  Each is a list of (name, value) pairs in wire order.
     framework-free  OAuth2Request.data            : dict(query) updated with dict(form)   -- last value, form before query
     Django          DjangoOAuth2Request.data      : GET.dict() updated with POST.dict()   -- the same
     Flask           FlaskOAuth2Request.data       : request.values = CombinedMultiDict([args, form]).get -- first value, query before form
   The harness sends a request through a framework only when all three are bound to read it alike; `readings_agree` is
   the reason that "no name twice" suffices for that. *)
From Coq Require Import List Bool String.
Import ListNotations.
Open Scope string_scope.
Open Scope list_scope.

Definition pairs := list (string * string).

Fixpoint first_of (l : pairs) (k : string) : option string :=
  match l with
  | [] => None
  | (n, v) :: r => if String.eqb n k then Some v else first_of r k
  end.

Fixpoint last_of (l : pairs) (k : string) : option string :=
  match l with
  | [] => None
  | (n, v) :: r => match last_of r k with Some w => Some w | None => if String.eqb n k then Some v else None end
  end.

Definition neutral_data (q f : pairs) (k : string) : option string :=
  match last_of f k with Some v => Some v | None => last_of q k end.

Definition django_data (q f : pairs) (k : string) : option string :=
  match last_of f k with Some v => Some v | None => last_of q k end.

Definition flask_data (q f : pairs) (k : string) : option string :=
  match first_of q k with Some v => Some v | None => first_of f k end.

Definition names (l : pairs) : list string := map fst l.
