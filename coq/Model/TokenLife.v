(* C09: token lifecycle over the repository's SQLAlchemy token mixin semantics
   (oauth2/rfc6749/grants/refresh_token.py, rfc7009/revocation.py, rfc7662/introspection.py,
   rfc6750/validator.py, integrations/sqla_oauth2/{tokens_mixins,functions}.py). *)
From Coq Require Import List NArith ZArith Bool Ascii String.
From Authlib Require Import Base.Bytes Base.PyVal Model.Resource Model.Scope.
Import ListNotations.
Open Scope string_scope.
Open Scope list_scope.

Record tok := { k_client : string; k_user : option string; k_scope : option string;
                k_issued : Z; k_expires_in : Z; k_acc_rev : bool; k_ref_rev : bool; k_has_refresh : bool }.

Record lst := { l_toks : list tok; l_now : Z }.
Definition linit : lst := {| l_toks := []; l_now := 0 |}.

Record lclient := { lc_id : string; lc_secret : string; lc_scope : string; lc_grants : list string }.

(* a token is named by its position; a string presented on the wire is the access or the
   refresh string of token i, or unknown *)
Inductive tref := RAccess (i : nat) | RRefresh (i : nat) | RUnknown.
Inductive lcred := LBasic (id secret : string) | LAbsent.
Inductive hint := HNone | HAccess | HRefresh | HBogus.

Inductive lop :=
| LIssue (password_grant : bool) (c : lcred) (user : string) (scope : option string)
| LRefresh (t : tref) (c : lcred) (scope : option string)
| LRevoke (t : option tref) (c : lcred) (h : hint)
| LIntrospect (t : option tref) (c : lcred) (h : hint)
| LAccess (t : tref) (required : list string)
| LTick (dt : Z).

Inductive lout :=
| LToken (idx : nat) (scope : option string) (has_refresh : bool)
| LOk200                                  (* revocation *)
| LIntro (active : bool) (client : string) (scope : option string)
| LServe (idx : nat)
| LErr (status : N) (code : string)
| LNone.

Section L.
Variable registry : list lclient.
Variable introspector : string.           (* the client allowed to introspect any token *)

Fixpoint find_lc (l : list lclient) (id : string) : option lclient :=
  match l with [] => None | c :: r => if String.eqb (lc_id c) id then Some c else find_lc r id end.

Definition lauth (c : lcred) : option lclient :=
  match c with
  | LBasic id sec =>
      if negb (String.eqb id "") && negb (String.eqb sec "") then
        match find_lc registry id with
        | Some cl => if String.eqb (lc_secret cl) sec then Some cl else None
        | None => None
        end
      else None
  | LAbsent => None
  end.

Definition is_revoked (t : tok) : bool := k_acc_rev t || k_ref_rev t.
Definition is_expired (t : tok) (now : Z) : bool :=
  negb (Z.eqb (k_expires_in t) 0) && Z.ltb (k_issued t + k_expires_in t) now.

(* functions.py:create_query_token_func *)
Definition query_token (toks : list tok) (t : tref) (h : hint) : option nat :=
  match t, h with
  | RAccess i, (HNone | HAccess | HBogus) => if Nat.ltb i (List.length toks) then Some i else None
  | RRefresh i, (HNone | HRefresh | HBogus) =>
      match nth_error toks i with Some tk => if k_has_refresh tk then Some i else None | None => None end
  | _, _ => None
  end.

Fixpoint update_nth (l : list tok) (i : nat) (f : tok -> tok) : list tok :=
  match l, i with
  | [], _ => []
  | x :: r, O => f x :: r
  | x :: r, S k => x :: update_nth r k f
  end.

Definition set_acc_rev (t : tok) : tok :=
  {| k_client := k_client t; k_user := k_user t; k_scope := k_scope t; k_issued := k_issued t;
     k_expires_in := k_expires_in t; k_acc_rev := true; k_ref_rev := k_ref_rev t; k_has_refresh := k_has_refresh t |}.
Definition set_ref_rev (t : tok) : tok :=
  {| k_client := k_client t; k_user := k_user t; k_scope := k_scope t; k_issued := k_issued t;
     k_expires_in := k_expires_in t; k_acc_rev := k_acc_rev t; k_ref_rev := true; k_has_refresh := k_has_refresh t |}.

Definition hint_ok (h : hint) : bool := match h with HBogus => false | _ => true end.

Definition EXPIRES : Z := 864000.

Definition lstep (s : lst) (o : lop) : lst * lout :=
  match o with
  | LIssue pw c user scope =>
      match lauth c with
      | None => (s, LErr 401 "invalid_client")
      | Some cl =>
          let g := if pw then "password" else "client_credentials" in
          if negb (list_in_str g (lc_grants cl)) then (s, LErr 400 "unauthorized_client") else
          let sc := fst (generate GenBearer (lc_scope cl) scope) in
          let t := {| k_client := lc_id cl; k_user := if pw then Some user else None; k_scope := sc;
                      k_issued := l_now s; k_expires_in := EXPIRES; k_acc_rev := false; k_ref_rev := false;
                      k_has_refresh := pw |} in
          ({| l_toks := l_toks s ++ [t]; l_now := l_now s |}, LToken (List.length (l_toks s)) sc pw)
      end
  | LRefresh t c scope =>
      match lauth c with
      | None => (s, LErr 401 "invalid_client")
      | Some cl =>
          if negb (list_in_str "refresh_token" (lc_grants cl)) then (s, LErr 400 "unauthorized_client") else
          let found := match t with
                       | RRefresh i => match nth_error (l_toks s) i with
                                       | Some tk => if k_has_refresh tk && negb (k_ref_rev tk) then Some (i, tk) else None
                                       | None => None end
                       | _ => None end in
          match found with
          | None => (s, LErr 400 "invalid_grant")
          | Some (i, tk) =>
              if negb (String.eqb (k_client tk) (lc_id cl)) then (s, LErr 400 "invalid_grant")
              else if negb (refresh_scope_ok scope (k_scope tk)) then (s, LErr 400 "invalid_scope")
              else match k_user tk with
                   | None => (s, LErr 400 "invalid_request")
                   | Some u =>
                       let sc := fst (generate GenBearer (lc_scope cl) (if truthy_s scope then scope else k_scope tk)) in
                       let nt := {| k_client := lc_id cl; k_user := Some u; k_scope := sc; k_issued := l_now s;
                                    k_expires_in := 3600; k_acc_rev := false; k_ref_rev := false; k_has_refresh := true |} in
                       ({| l_toks := update_nth (l_toks s) i set_ref_rev ++ [nt]; l_now := l_now s |},
                        LToken (List.length (l_toks s)) sc true)
                   end
          end
      end
  | LRevoke t c h =>
      match lauth c with
      | None => (s, LErr 401 "invalid_client")
      | Some cl =>
          match t with
          | None => (s, LErr 400 "invalid_request")
          | Some tr =>
              if negb (hint_ok h) then (s, LErr 401 "unsupported_token_type") else
              match query_token (l_toks s) tr h with
              | None => (s, LOk200)
              | Some i =>
                  match nth_error (l_toks s) i with
                  | None => (s, LOk200)
                  | Some tk =>
                      if negb (String.eqb (k_client tk) (lc_id cl)) then (s, LErr 400 "invalid_grant")
                      else
                        let f := fun x => match h with HAccess => set_acc_rev x | _ => set_ref_rev (set_acc_rev x) end in
                        ({| l_toks := update_nth (l_toks s) i f; l_now := l_now s |}, LOk200)
                  end
              end
          end
      end
  | LIntrospect t c h =>
      match lauth c with
      | None => (s, LErr 401 "invalid_client")
      | Some cl =>
          match t with
          | None => (s, LErr 400 "invalid_request")
          | Some tr =>
              if negb (hint_ok h) then (s, LErr 401 "unsupported_token_type") else
              match query_token (l_toks s) tr h with
              | None => (s, LIntro false "" None)
              | Some i =>
                  match nth_error (l_toks s) i with
                  | None => (s, LIntro false "" None)
                  | Some tk =>
                      if negb (String.eqb (k_client tk) (lc_id cl) || String.eqb (lc_id cl) introspector)
                      then (s, LIntro false "" None)
                      else if is_expired tk (l_now s) || is_revoked tk then (s, LIntro false "" None)
                      else (s, LIntro true (k_client tk) (k_scope tk))
                  end
              end
          end
      end
  | LAccess t required =>
      match t with
      | RAccess i =>
          match nth_error (l_toks s) i with
          | None => (s, LErr 401 "invalid_token")
          | Some tk =>
              if is_expired tk (l_now s) then (s, LErr 401 "invalid_token")
              else if is_revoked tk then (s, LErr 401 "invalid_token")
              else if scope_insufficient (match k_scope tk with Some x => PStr x | None => PNone end) required
              then (s, LErr 403 "insufficient_scope")
              else (s, LServe i)
          end
      | _ => (s, LErr 401 "invalid_token")
      end
  | LTick dt => ({| l_toks := l_toks s; l_now := (l_now s + Z.max 0 dt)%Z |}, LNone)
  end.

Definition lrun_from (s : lst) (ops : list lop) : lst := fold_left (fun s o => fst (lstep s o)) ops s.
Definition lrun (ops : list lop) : lst := lrun_from linit ops.
Fixpoint lrun_outs (s : lst) (ops : list lop) : list lout :=
  match ops with [] => [] | o :: r => let '(s', x) := lstep s o in x :: lrun_outs s' r end.
End L.
