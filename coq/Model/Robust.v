(* C20: the places where values of attacker-chosen JSON type or attacker-chosen text enter the library, written over the
   untyped JSON universe [pv] with Python's own partiality made explicit: every operation that raises TypeError,
   AttributeError, KeyError or ValueError on a value of the wrong type is a function into [out], and [Exc] is the
   unhandled exception.  Each library function below is transcribed statement by statement, guards included; next to
   several of them stands the same function without its guard, for which [Exc] is reachable (the proofs file exhibits the
   witness), so that the "never [Exc]" theorems say something about the guards and not about the encoding.

   anchors: jose/rfc7515/jws.py (_prepare_algorithm_key, deserialize_json, _validate_json_jws), jose/rfc7516/jwe.py
   (get_header_alg / enc / zip, deserialize_json), common/encoding.py (to_bytes), oauth2/rfc7591/claims.py,
   oauth2/rfc7591/endpoint.py, oauth2/rfc7592/endpoint.py, oauth2/rfc6749/util.py (scope_to_list), oauth2/rfc6749/
   resource_protector.py (scope_insufficient), oauth2/rfc9068/claims.py (validate_typ), oidc/core/claims.py (_verify_hash),
   oauth2/rfc7523/jwt_bearer.py, oauth2/rfc7523/client.py, oauth2/base.py (OAuth2Error.__init__), oauth2/rfc6749/grants/
   base.py (validate_authorization_redirect_uri), oauth1/rfc5849/signature.py (verify_plaintext, verify_hmac_sha1). *)
From Coq Require Import List NArith ZArith Bool Ascii String.
From Authlib Require Import Base.Bytes Base.PyVal.
Import ListNotations.
Open Scope string_scope.
Open Scope list_scope.

Inductive pyexc := ETypeError | EAttributeError | EKeyError | EValueError.

(* a value; a refusal inside the protocol (a JoseError class or an OAuth error code, with the description when one is
   sent); an exception that nothing catches *)
Inductive out (A : Type) :=
| Val (a : A)
| Refuse (kind : string) (desc : option string)
| Exc (e : pyexc).
Arguments Val {A} a.
Arguments Refuse {A} kind desc.
Arguments Exc {A} e.

Definition bind {A B} (x : out A) (f : A -> out B) : out B :=
  match x with Val a => f a | Refuse k d => Refuse k d | Exc e => Exc e end.
Notation "'do' x <- a ; b" := (bind a (fun x => b)) (at level 200, x name, a at level 100, b at level 200).

Definition is_exc {A} (x : out A) : bool := match x with Exc _ => true | _ => false end.

(* ------------------------------------------------------------------ Python's operations on a value of any JSON type *)
Definition hashable (v : pv) : bool := match v with PList _ | PDict _ => false | _ => true end.

(* [v in d] for a dict (or set) d whose keys are the strings [names]: hashes v *)
Definition py_in_keys (v : pv) (names : list string) : out bool :=
  match v with
  | PList _ | PDict _ => Exc ETypeError
  | PStr s => Val (list_in_str s names)
  | _ => Val false
  end.

(* [v in l] for a list l of strings: compares, hashes nothing *)
Definition py_in_strs (v : pv) (names : list string) : bool :=
  match v with PStr s => list_in_str s names | _ => false end.

(* [v.get(k)] *)
Definition py_get (v : pv) (k : string) : out (option pv) :=
  match v with PDict d => Val (dict_get k d) | _ => Exc EAttributeError end.

(* [v[k]] with a string k *)
Definition py_item (v : pv) (k : string) : out pv :=
  match v with
  | PDict d => match dict_get k d with Some x => Val x | None => Exc EKeyError end
  | _ => Exc ETypeError
  end.

Fixpoint substring (needle hay : string) : bool :=
  Bytes.starts_with needle hay || match hay with EmptyString => false | String _ r => substring needle r end.

(* [k in v] with a string k *)
Definition py_contains (k : string) (v : pv) : out bool :=
  match v with
  | PDict d => Val (match dict_get k d with Some _ => true | None => false end)
  | PList l => Val (existsb (fun x => match x with PStr s => String.eqb s k | _ => false end) l)
  | PStr s => Val (substring k s)
  | _ => Exc ETypeError
  end.

(* [for x in v] *)
Definition py_iter (v : pv) : out (list pv) :=
  match v with
  | PList l => Val l
  | PStr s => Val (map (fun c => PStr (String c EmptyString)) (list_ascii_of_string s))
  | PDict d => Val (map (fun kv => PStr (fst kv)) d)
  | _ => Exc ETypeError
  end.

(* [v.lower()], [v.strip().split()], [v.decode()]: string methods *)
Definition py_str_method (v : pv) : out string :=
  match v with PStr s => Val s | _ => Exc EAttributeError end.

(* common/encoding.py to_bytes.  Numbers are printed; for anything else Python's bytes(x) runs: a list is consumed element
   by element (an int outside 0..255: ValueError; not an int: TypeError), a dict by its keys, which are strings *)
Section ToBytes.
Variable repr_num : pv -> string.
Fixpoint bytes_of_list (l : list pv) : out string :=
  match l with
  | [] => Val ""
  | PInt z :: r => if (0 <=? z)%Z && (z <? 256)%Z
                   then do s <- bytes_of_list r; Val (String (ascii_of_N (Z.to_N z)) s)
                   else Exc EValueError
  | PBool b :: r => do s <- bytes_of_list r; Val (String (ascii_of_N (if b then 1 else 0)) s)
  | _ :: _ => Exc ETypeError
  end.
Definition to_bytes (v : pv) : out (option string) :=
  match v with
  | PNone => Val None
  | PStr s => Val (Some s)
  | PBool _ | PInt _ | PFloat _ _ => Val (Some (repr_num v))
  | PList l => do s <- bytes_of_list l; Val (Some s)
  | PDict [] => Val (Some "")
  | PDict (_ :: _) => Exc ETypeError
  end.
End ToBytes.

(* ------------------------------------------------------------------ JOSE headers: alg / enc / zip *)
(* jws.py _prepare_algorithm_key up to the key, jwe.py get_header_alg: [header] is a dict (extract_header saw to that) *)
Definition named_algorithm (member missing unsupported : string) (allow : option (list string)) (registry : list string)
           (h : list (string * pv)) : out string :=
  match dict_get member h with
  | None => Refuse missing None
  | Some a =>
      if negb (is_str a) then Refuse unsupported None                      (* the guard *)
      else if (match allow with Some l => negb (py_in_strs a l) | None => false end) then Refuse unsupported None
      else do r <- py_in_keys a registry;
           if negb r then Refuse unsupported None else Val (pv_str a)
  end.
Definition named_algorithm_unguarded (member missing unsupported : string) (allow : option (list string))
           (registry : list string) (h : list (string * pv)) : out string :=
  match dict_get member h with
  | None => Refuse missing None
  | Some a =>
      if (match allow with Some l => negb (py_in_strs a l) | None => false end) then Refuse unsupported None
      else do r <- py_in_keys a registry;
           if negb r then Refuse unsupported None else Val (pv_str a)
  end.

Definition jws_alg := named_algorithm "alg" "MissingAlgorithmError" "UnsupportedAlgorithmError".
Definition jwe_alg := named_algorithm "alg" "MissingAlgorithmError" "UnsupportedAlgorithmError".
Definition jwe_enc := named_algorithm "enc" "MissingEncryptionAlgorithmError" "UnsupportedEncryptionAlgorithmError".
(* get_header_zip: absent is fine *)
Definition jwe_zip (allow : option (list string)) (registry : list string) (h : list (string * pv)) : out (option string) :=
  match dict_get "zip" h with
  | None => Val None
  | Some _ => do z <- named_algorithm "zip" "" "UnsupportedCompressionAlgorithmError" allow registry h; Val (Some z)
  end.

(* ------------------------------------------------------------------ JSON serializations: the typing of the members *)
Definition is_text (v : pv) : bool := is_str v.        (* isinstance(v, (str, bytes)): JSON has no bytes *)

Record sig_entry := { se_protected : string; se_signature : string; se_header : option (list (string * pv)) }.

(* jws.py _validate_json_jws, before anything is decoded *)
Definition jws_entry_typing (o : pv) : out sig_entry :=
  do p <- py_get o "protected";
  let p := match p with Some x => x | None => PNone end in
  if negb (py_truthy p) then Refuse "DecodeError" None else
  do s <- py_get o "signature";
  let s := match s with Some x => x | None => PNone end in
  if negb (py_truthy s) then Refuse "DecodeError" None else
  if negb (is_text p && is_text s) then Refuse "DecodeError" None else      (* the guard *)
  do h <- py_get o "header";
  let h := match h with Some x => x | None => PNone end in
  if py_truthy h && negb (is_dict h) then Refuse "DecodeError" None else
  Val {| se_protected := pv_str p; se_signature := pv_str s;
         se_header := match h with PDict d => Some d | _ => None end |}.

Fixpoint jws_entries_typing (l : list pv) : out (list sig_entry) :=
  match l with
  | [] => Val []
  | o :: r =>
      if negb (is_dict o) then Refuse "DecodeError" None                   (* the guard *)
      else do e <- jws_entry_typing o; do es <- jws_entries_typing r; Val (e :: es)
  end.

(* jws.py deserialize_json on a parsed object: (payload segment, general?, entries) *)
Definition jws_json_typing (obj : pv) : out (string * bool * list sig_entry) :=
  match obj with
  | PDict d =>
      match dict_get "payload" d with
      | None | Some PNone => Refuse "DecodeError" None
      | Some pl =>
          if negb (is_text pl) then Refuse "DecodeError" None              (* the guard *)
          else match dict_get "signatures" d with
               | None => do e <- jws_entry_typing obj; Val (pv_str pl, false, [e])
               | Some sigs =>
                   if negb (is_list sigs) then Refuse "DecodeError" None   (* the guard *)
                   else do es <- jws_entries_typing (pv_list sigs); Val (pv_str pl, true, es)
               end
      end
  | _ => Refuse "DecodeError" None           (* ensure_dict: text that does not parse to an object *)
  end.

(* the same without the four guards: what the members meet is to_bytes, .get and iteration *)
Section Unguarded.
Variable repr_num : pv -> string.
Definition jws_entry_typing_unguarded (o : pv) : out unit :=
  do p <- py_get o "protected";
  let p := match p with Some x => x | None => PNone end in
  if negb (py_truthy p) then Refuse "DecodeError" None else
  do s <- py_get o "signature";
  let s := match s with Some x => x | None => PNone end in
  if negb (py_truthy s) then Refuse "DecodeError" None else
  do _ <- to_bytes repr_num p; do _ <- to_bytes repr_num s; Val tt.
Definition jws_json_typing_unguarded (obj : pv) : out unit :=
  match obj with
  | PDict d =>
      match dict_get "payload" d with
      | None | Some PNone => Refuse "DecodeError" None
      | Some pl =>
          do _ <- to_bytes repr_num pl;
          match dict_get "signatures" d with
          | None => jws_entry_typing_unguarded obj
          | Some sigs => do l <- py_iter sigs;
                         fold_left (fun acc o => do _ <- acc; jws_entry_typing_unguarded o) l (Val tt)
          end
      end
  | _ => Refuse "DecodeError" None
  end.
End Unguarded.

Record jwe_typed := { jt_protected : option string; jt_unprotected : option (list (string * pv));
                      jt_recipients : list (list (string * pv) * string);
                      jt_aad : option string; jt_iv : string; jt_ciphertext : string; jt_tag : string }.

Definition opt_text (d : list (string * pv)) (k : string) : option string :=
  match dict_get k d with Some (PStr s) => Some s | _ => None end.

Fixpoint jwe_recipients_typing (l : list pv) : out (list (list (string * pv) * string)) :=
  match l with
  | [] => Val []
  | r :: q =>
      match r with
      | PDict d =>
          match dict_get "encrypted_key" d with
          | None => Refuse "DecodeError" None
          | Some ek =>
              let h := match dict_get "header" d with Some x => x | None => PDict [] end in
              if negb (is_dict h) then Refuse "DecodeError" None
              else if negb (is_text ek) then Refuse "DecodeError" None
              else do rs <- jwe_recipients_typing q;
                   Val ((match h with PDict hd => hd | _ => [] end, pv_str ek) :: rs)
          end
      | _ => Refuse "DecodeError" None
      end
  end.

Definition all_text_if_present (d : list (string * pv)) (ks : list string) : bool :=
  forallb (fun k => match dict_get k d with Some v => is_text v | None => true end) ks.

(* jwe.py deserialize_json on a parsed object *)
Definition jwe_json_typing (obj : pv) : out jwe_typed :=
  match obj with
  | PDict d =>
      if negb (all_text_if_present d ["protected"; "aad"; "iv"; "ciphertext"; "tag"]) then Refuse "DecodeError" None
      else
      let unprot := match dict_get "unprotected" d with Some x => x | None => PNone end in
      if negb (match unprot with PNone | PDict _ => true | _ => false end) then Refuse "DecodeError" None else
      match dict_get "recipients" d with
      | Some (PList rs) =>
          match dict_get "iv" d, dict_get "ciphertext" d, dict_get "tag" d with
          | Some iv, Some ct, Some tag =>
              do rs' <- jwe_recipients_typing rs;
              Val {| jt_protected := opt_text d "protected";
                     jt_unprotected := match unprot with PDict u => Some u | _ => None end;
                     jt_recipients := rs'; jt_aad := opt_text d "aad";
                     jt_iv := pv_str iv; jt_ciphertext := pv_str ct; jt_tag := pv_str tag |}
          | _, _, _ => Refuse "DecodeError" None
          end
      | _ => Refuse "DecodeError" None
      end
  | _ => Refuse "DecodeError" None
  end.

(* ------------------------------------------------------------------ client metadata (RFC 7591) *)
Definition ARRAY_CLAIMS := ["redirect_uris"; "grant_types"; "response_types"; "contacts"].
Definition STRING_CLAIMS := ["token_endpoint_auth_method"; "client_name"; "client_uri"; "logo_uri"; "scope"; "tos_uri";
                             "policy_uri"; "jwks_uri"; "software_id"; "software_version"].

Definition str_list (v : pv) : bool := match v with PList l => forallb is_str l | _ => false end.

Fixpoint first_bad (ok : pv -> bool) (d : list (string * pv)) (ks : list string) : option string :=
  match ks with
  | [] => None
  | k :: r => match dict_get k d with
              | None | Some PNone => first_bad ok d r
              | Some v => if ok v then first_bad ok d r else Some k
              end
  end.

(* claims.py _validate_claim_types (RFC 7591 and OpenID Connect registration): the members listed as arrays are arrays of
   strings, the members listed as strings are strings; the first member of another type is named *)
Definition typed_members (arrays strings : list string) (d : list (string * pv)) : out unit :=
  match first_bad str_list d arrays with
  | Some k => Refuse "invalid_client_metadata" (Some k)
  | None => match first_bad is_str d strings with
            | Some k => Refuse "invalid_client_metadata" (Some k)
            | None => Val tt
            end
  end.
Definition claim_types := typed_members ARRAY_CLAIMS STRING_CLAIMS.

(* oidc/registration/claims.py *)
Definition OIDC_ARRAY_CLAIMS := ["default_acr_values"; "request_uris"].
Definition OIDC_STRING_CLAIMS :=
  ["token_endpoint_auth_signing_alg"; "application_type"; "sector_identifier_uri"; "subject_type"; "id_token_signed_response_alg";
   "id_token_encrypted_response_alg"; "id_token_encrypted_response_enc"; "userinfo_signed_response_alg"; "userinfo_encrypted_response_alg";
   "userinfo_encrypted_response_enc"; "initiate_login_uri"; "request_object_signing_alg"; "request_object_encryption_alg";
   "request_object_encryption_enc"].
Definition oidc_claim_types := typed_members OIDC_ARRAY_CLAIMS OIDC_STRING_CLAIMS.

Section Metadata.
Variable is_valid_url : string -> bool.
Variable scopes_supported grant_types_supported response_types_supported : list string.

Definition split_ws (s : string) : list string := Bytes.split_ws s.

(* util.py scope_to_list *)
Definition scope_to_list (v : pv) : out (option (list string)) :=
  match v with
  | PList l => Val (Some (map (fun x => match x with PStr s => s | _ => "" end) l))     (* to_unicode of each: total *)
  | PNone => Val None
  | PStr s => Val (Some (split_ws s))
  | _ => Val (Some [])                                                                   (* the guard *)
  end.
Definition scope_to_list_unguarded (v : pv) : out (option (list string)) :=
  match v with
  | PList l => Val (Some (map (fun x => match x with PStr s => s | _ => "" end) l))
  | PNone => Val None
  | _ => do s <- py_str_method v; Val (Some (split_ws s))
  end.

(* is_valid_url(uri) begins with a string method of its argument *)
Definition validate_uri (stl : pv -> out (option (list string))) (key : string) (v : pv) : out unit :=
  if negb (py_truthy v) then Val tt
  else do s <- py_str_method v;
       if is_valid_url s then Val tt else Refuse "invalid_client_metadata" (Some key).

Fixpoint validate_uris (stl : pv -> out (option (list string))) (l : list pv) : out unit :=
  match l with
  | [] => Val tt
  | u :: r => if negb (py_truthy u) then Refuse "invalid_client_metadata" (Some "redirect_uris")
              else do _ <- validate_uri stl "redirect_uris" u; validate_uris stl r
  end.

Definition member (d : list (string * pv)) (k : string) : pv := match dict_get k d with Some v => v | None => PNone end.

(* set(value) hashes every element; issuperset compares *)
Definition py_set_subset (v : pv) (default : list string) (sup : list string) : out bool :=
  if negb (py_truthy v) then Val (forallb (fun s => list_in_str s sup) default)
  else do l <- py_iter v;
       if forallb hashable l then Val (forallb (fun x => py_in_strs x sup) l) else Exc ETypeError.

(* the validators that touch the values, in the order of ClientMetadataClaims.validate, after [types] *)
Definition metadata_validators (stl : pv -> out (option (list string))) (d : list (string * pv)) : out unit :=
  do _ <- (let uris := member d "redirect_uris" in
           if negb (py_truthy uris) then Val tt else do l <- py_iter uris; validate_uris stl l);
  do g <- py_set_subset (member d "grant_types") ["authorization_code"] grant_types_supported;
  if negb g then Refuse "invalid_client_metadata" (Some "grant_types") else
  do r <- py_set_subset (member d "response_types") ["code"] response_types_supported;
  if negb r then Refuse "invalid_client_metadata" (Some "response_types") else
  do _ <- validate_uri stl "client_uri" (member d "client_uri");
  do _ <- validate_uri stl "logo_uri" (member d "logo_uri");
  do sc <- (let v := member d "scope" in
            if negb (py_truthy v) then Val true
            else do l <- stl v; Val (forallb (fun s => list_in_str s scopes_supported) (match l with Some x => x | None => [] end)));
  if negb sc then Refuse "invalid_client_metadata" (Some "scope") else
  do _ <- (let c := member d "contacts" in
           match dict_get "contacts" d with Some v => if is_list v then Val tt else Refuse "invalid_client_metadata" (Some "contacts") | None => Val tt end);
  do _ <- validate_uri stl "tos_uri" (member d "tos_uri");
  do _ <- validate_uri stl "policy_uri" (member d "policy_uri");
  validate_uri stl "jwks_uri" (member d "jwks_uri").

Definition metadata_validate (d : list (string * pv)) : out unit :=
  do _ <- claim_types d; metadata_validators scope_to_list d.
Definition metadata_validate_unguarded (d : list (string * pv)) : out unit :=
  metadata_validators scope_to_list_unguarded d.

(* rfc7591/endpoint.py extract_client_metadata and rfc7592 create_update_client_response: the request body *)
Definition registration_body (data : option pv) : out (list (string * pv)) :=
  match data with
  | None => Refuse "invalid_request" None                      (* not JSON, or another content type *)
  | Some v => if negb (py_truthy v) then Refuse "invalid_request" None
              else match v with PDict d => Val d | _ => Refuse "invalid_request" None end
  end.

(* resource_protector.py scope_insufficient(token_scopes, required): required is the resource's, a list of strings *)
Definition scope_insufficient (stl : pv -> out (option (list string))) (token_scopes : pv) (required : list string) : out bool :=
  match required with
  | [] => Val false
  | _ =>
      do ts <- stl token_scopes;
      match ts with
      | None | Some [] => Val true
      | Some ts => Val (negb (existsb (fun r => forallb (fun s => list_in_str s ts) (split_ws r)) required))
      end
  end.
End Metadata.

(* ------------------------------------------------------------------ claims of signed tokens *)
(* rfc9068/claims.py validate_typ *)
Definition validate_typ (lower : string -> string) (typ : option pv) : out unit :=
  match typ with
  | None => Val tt
  | Some t =>
      if negb (py_truthy t) then Val tt
      else if negb (is_str t) then Refuse "InvalidClaimError" (Some "typ")             (* the guard *)
      else do s <- py_str_method t;
           if list_in_str (lower s) ["at+jwt"; "application/at+jwt"] then Val tt else Refuse "InvalidClaimError" (Some "typ")
  end.
Definition validate_typ_unguarded (lower : string -> string) (typ : option pv) : out unit :=
  match typ with
  | None => Val tt
  | Some t =>
      if negb (py_truthy t) then Val tt
      else do s <- py_str_method t;
           if list_in_str (lower s) ["at+jwt"; "application/at+jwt"] then Val tt else Refuse "InvalidClaimError" (Some "typ")
  end.

(* oidc/core/claims.py _verify_hash(signature, s, alg): [expected] is create_half_hash(s, alg) *)
Definition verify_hash (repr_num : pv -> string) (signature : pv) (expected : option string) : out bool :=
  if negb (is_str signature) then Val false                                            (* the guard *)
  else match expected with
       | None => Val true
       | Some h => do b <- to_bytes repr_num signature;
                   Val (match b with Some b => String.eqb h b | None => false end)
       end.
Definition verify_hash_unguarded (repr_num : pv -> string) (signature : pv) (expected : option string) : out bool :=
  match expected with
  | None => Val true
  | Some h => do b <- to_bytes repr_num signature;
              match b with Some b => Val (String.eqb h b) | None => Exc ETypeError end   (* compare_digest(bytes, None) *)
  end.

(* rfc7523/jwt_bearer.py resolve_public_key: [known] are the issuers the integrator has a client for *)
Definition resolve_issuer (known : list string) (payload : list (string * pv)) : out string :=
  match dict_get "iss" payload with
  | Some (PStr iss) =>
      if String.eqb iss "" then Refuse "invalid_grant" (Some "Invalid 'iss' value in assertion")
      else if list_in_str iss known then Val iss
      else Refuse "invalid_grant" (Some "Invalid 'iss' value in assertion")
  | _ => Refuse "invalid_grant" (Some "Invalid 'iss' value in assertion")
  end.
(* before: payload["iss"], and the integrator's lookup keyed by whatever came *)
Definition resolve_issuer_unguarded (known : list string) (payload : list (string * pv)) : out string :=
  do iss <- py_item (PDict payload) "iss";
  do k <- py_in_keys iss known;
  if k then Val (pv_str iss) else Exc EAttributeError.        (* None.check_grant_type *)

(* rfc7523/client.py create_resolve_key_func *)
Definition resolve_assertion_client (known : list string) (payload : list (string * pv)) : out string :=
  match dict_get "sub" payload with
  | Some (PStr sub) => if list_in_str sub known then Val sub
                       else Refuse "invalid_client" (Some "The client does not exist on this server.")
  | _ => Refuse "invalid_client" (Some "The client does not exist on this server.")
  end.

(* ------------------------------------------------------------------ error descriptions (RFC 6749 section 5.2) *)
Definition desc_char_ok (c : ascii) : bool :=
  let n := N_of_ascii c in
  ((32 <=? n) && (n <=? 33) || (35 <=? n) && (n <=? 91) || (93 <=? n) && (n <=? 126))%N.
Definition desc_ok (s : string) : bool := forallb desc_char_ok (list_ascii_of_string s).

(* OAuth2Error.__init__: a description with a character outside the set raises ValueError instead of building the error *)
Definition oauth2_error (code : string) (desc : option string) : out unit :=
  match desc with
  | Some d => if negb (String.eqb d "") && negb (desc_ok d) then Exc EValueError else Refuse code desc
  | None => Refuse code None
  end.

(* grants/base.py validate_authorization_redirect_uri, refusal branch *)
Definition redirect_uri_refusal (redirect_uri : string) : out unit :=
  oauth2_error "invalid_request" (Some "Redirect URI is not supported by client.").
Definition redirect_uri_refusal_before (redirect_uri : string) : out unit :=
  oauth2_error "invalid_request" (Some ("Redirect URI " ++ redirect_uri ++ " is not supported by client.")%string).

(* rfc7523: the description of a JOSE error is passed on only when it may be *)
Definition safe_description (d : option string) : option string :=
  match d with Some s => if negb (String.eqb s "") && desc_ok s then Some s else None | None => None end.
Definition assertion_refusal (code : string) (jose_description : option string) : out unit :=
  oauth2_error code (safe_description jose_description).
Definition assertion_refusal_before (code : string) (jose_description : option string) : out unit :=
  oauth2_error code jose_description.

(* ------------------------------------------------------------------ OAuth 1 signature comparison *)
Definition is_ascii_str (s : string) : bool := forallb (fun c => (N_of_ascii c <? 128)%N) (list_ascii_of_string s).
(* hmac.compare_digest(str, str) *)
Definition compare_digest_str (a b : string) : out bool :=
  if is_ascii_str a && is_ascii_str b then Val (String.eqb a b) else Exc ETypeError.
Definition compare_digest_bytes (a b : string) : out bool := Val (String.eqb a b).
Definition verify_plaintext (expected presented : string) : out bool := compare_digest_bytes expected presented.
Definition verify_plaintext_before (expected presented : string) : out bool := compare_digest_str expected presented.
