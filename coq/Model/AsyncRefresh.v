(* C17: several coroutines share one AsyncOAuth2Client (integrations/httpx_client/oauth2_client.py:
   request/stream -> ensure_active_token under _token_refresh_lock -> refresh_token/_refresh_token or
   fetch_token/_fetch_token -> parse_response_token; then OAuth2Auth.auth_flow reads the current token).

   The model is a transition system: `step c s i` advances coroutine `i` by one observable event, or is
   `None` when `i` is blocked (waiting for the lock) or has finished.  A schedule is any list of coroutine
   numbers; nothing about the scheduler is assumed (in particular not the FIFO hand-off of anyio's Lock), so
   the behaviours of the model are a superset of those of any asyncio/trio scheduler. *)
From Coq Require Import List Arith Bool.
Import ListNotations.

Record tokrec := { t_acc : nat; t_rt : option nat; t_exp : bool }.

Inductive outcome := OOk (rotate : bool) | OErr | O5xx.
Inductive errkind := KMissing | KInvalid | KOAuth | KHttp.
Inductive cbkw := KwRefresh (rt : option nat) | KwAccess (acc : nat).

Inductive ev :=
| EBegin | EAcquire | ERelease
| ERefreshSend (cc : bool) (rt : option nat)
| ERefreshResp (o : outcome)
| ETokenSet (acc : nat) (rt : option nat)
| ECbStart (acc : nat) (rt : option nat) (kw : cbkw)
| ECbEnd
| ESend (acc : nat) (expired : bool)
| ERecv | EDone
| EError (k : errkind).

Inductive pc :=
| PStart
| PWant (cap : tokrec)
| PHold (cap : tokrec)
| PSent (cap : tokrec) (cc : bool)
| PGot (cap : tokrec) (cc : bool) (o : outcome)
| PSet (cap : tokrec) (cc : bool)
| PCb | PCbDone
| PFailed (k : errkind)
| PReady | PInflight | PRecvd
| PDone | PErr (k : errkind).

(* configuration of the client: is there a token at all, does metadata carry a token endpoint, is the grant
   client_credentials, is there an update_token callback *)
Record cfg := { c_has_token : bool; c_url : bool; c_cc : bool; c_cb : bool }.

Record st := { pcs : list pc; lock : option nat; cur : tokrec; outs : list outcome; natt : nat;
               trace : list (nat * ev) }.     (* newest event first *)

Fixpoint upd {A} (l : list A) (i : nat) (x : A) : list A :=
  match l, i with
  | [], _ => []
  | _ :: t, O => x :: t
  | h :: t, S k => h :: upd t k x
  end.

Definition crit (p : pc) : bool :=
  match p with PHold _ | PSent _ _ | PGot _ _ _ | PSet _ _ | PCb | PCbDone => true | _ => false end.

Definition has_rt (t : tokrec) : bool := match t_rt t with Some _ => true | None => false end.

Definition mk (s : st) (i : nat) (p : pc) (l : option nat) (t : tokrec) (o : list outcome) (a : nat) (e : ev)
  : option (st * ev) :=
  Some ({| pcs := upd (pcs s) i p; lock := l; cur := t; outs := o; natt := a; trace := (i, e) :: trace s |}, e).

Definition step (c : cfg) (s : st) (i : nat) : option (st * ev) :=
  match nth_error (pcs s) i with
  | None => None
  | Some p =>
    match p with
    | PStart =>
        if c_has_token c then mk s i (PWant (cur s)) (lock s) (cur s) (outs s) (natt s) EBegin
        else mk s i (PErr KMissing) (lock s) (cur s) (outs s) (natt s) (EError KMissing)
    | PWant cap =>
        match lock s with
        | None => mk s i (PHold cap) (Some i) (cur s) (outs s) (natt s) EAcquire
        | Some _ => None
        end
    | PHold cap =>
        if t_exp (cur s) then
          if has_rt cap && c_url c then
            mk s i (PSent cap false) (lock s) (cur s) (outs s) (S (natt s)) (ERefreshSend false (t_rt cap))
          else if c_cc c then
            mk s i (PSent cap true) (lock s) (cur s) (outs s) (S (natt s)) (ERefreshSend true None)
          else mk s i (PFailed KInvalid) None (cur s) (outs s) (natt s) ERelease
        else mk s i PReady None (cur s) (outs s) (natt s) ERelease
    | PSent cap cc =>
        let o := match outs s with o :: _ => o | [] => OOk false end in
        mk s i (PGot cap cc o) (lock s) (cur s) (tl (outs s)) (natt s) (ERefreshResp o)
    | PGot cap cc o =>
        match o with
        | OOk rot =>
            let rt_resp := if rot then Some (natt s) else None in
            let rt_final := if rot then Some (natt s) else if cc then None else t_rt cap in
            mk s i (PSet cap cc) (lock s) {| t_acc := natt s; t_rt := rt_final; t_exp := false |}
               (outs s) (natt s) (ETokenSet (natt s) rt_resp)
        | OErr => mk s i (PFailed KOAuth) None (cur s) (outs s) (natt s) ERelease
        | O5xx => mk s i (PFailed KHttp) None (cur s) (outs s) (natt s) ERelease
        end
    | PSet cap cc =>
        if c_cb c then
          mk s i PCb (lock s) (cur s) (outs s) (natt s)
             (ECbStart (t_acc (cur s)) (t_rt (cur s)) (if cc then KwAccess (t_acc cap) else KwRefresh (t_rt cap)))
        else mk s i PReady None (cur s) (outs s) (natt s) ERelease
    | PCb => mk s i PCbDone (lock s) (cur s) (outs s) (natt s) ECbEnd
    | PCbDone => mk s i PReady None (cur s) (outs s) (natt s) ERelease
    | PFailed k => mk s i (PErr k) (lock s) (cur s) (outs s) (natt s) (EError k)
    | PReady => mk s i PInflight (lock s) (cur s) (outs s) (natt s) (ESend (t_acc (cur s)) (t_exp (cur s)))
    | PInflight => mk s i PRecvd (lock s) (cur s) (outs s) (natt s) ERecv
    | PRecvd => mk s i PDone (lock s) (cur s) (outs s) (natt s) EDone
    | PDone | PErr _ => None
    end
  end.

Definition init (n : nat) (t0 : tokrec) (os : list outcome) : st :=
  {| pcs := repeat PStart n; lock := None; cur := t0; outs := os; natt := 0; trace := [] |}.

Definition next (c : cfg) (s : st) (i : nat) : st :=
  match step c s i with Some (s', _) => s' | None => s end.

Definition run (c : cfg) (s : st) (sched : list nat) : st := fold_left (next c) sched s.

(* per-step outputs, for the correspondence check: Some event, or None when the step was not enabled *)
Fixpoint run_outs (c : cfg) (s : st) (sched : list nat) : list (option ev) :=
  match sched with
  | [] => []
  | i :: r => match step c s i with
              | Some (s', e) => Some e :: run_outs c s' r
              | None => None :: run_outs c s r
              end
  end.

Definition terminal (p : pc) : bool := match p with PDone | PErr _ => true | _ => false end.
Definition finished (s : st) : bool := forallb terminal (pcs s).

(* observations on a trace *)
Definition is_succ (e : ev) : bool := match e with ERefreshResp (OOk _) => true | _ => false end.
Definition is_fail (e : ev) : bool := match e with ERefreshResp OErr | ERefreshResp O5xx => true | _ => false end.
Definition is_rsend (e : ev) : bool := match e with ERefreshSend _ _ => true | _ => false end.
Definition is_cb (e : ev) : bool := match e with ECbStart _ _ _ => true | _ => false end.
Definition is_send (e : ev) : bool := match e with ESend _ _ => true | _ => false end.
Definition is_stale_send (e : ev) : bool := match e with ESend _ true => true | _ => false end.
Definition is_err (e : ev) : bool := match e with EError _ => true | _ => false end.

Definition cnt (f : ev -> bool) (tr : list (nat * ev)) : nat :=
  List.length (filter (fun x => f (snd x)) tr).
Definition cnt_of (i : nat) (f : ev -> bool) (tr : list (nat * ev)) : nat :=
  List.length (filter (fun x => Nat.eqb (fst x) i && f (snd x)) tr).
