(* C18 (parts 2, 3): dynamic client registration (oauth2/rfc7591/claims.py,
   rfc7591/endpoint.py) and client configuration update (rfc7592/endpoint.py)
   on well-typed payloads (see payload_wf). *)
From Coq Require Import List NArith ZArith Bool Ascii String.
From Authlib Require Import Base.Bytes Base.PyVal Base.Url Model.Resource.
Import ListNotations.
Open Scope string_scope.

Definition doc := list (string * pv).
Definition mget (k : string) (d : doc) : pv := match dict_get k d with Some v => v | None => PNone end.
Definition mhas (k : string) (d : doc) : bool := match dict_get k d with Some _ => true | None => false end.

(* server metadata: None = member absent (unconfigured) *)
Record server_md := {
  scopes_supported : option (list string);
  response_types_supported : option (list string);
  grant_types_supported : option (list string);
  auth_methods_supported : option (list string)
}.

Definition uri_ok (v : pv) : bool :=           (* "uri and not is_valid_url(uri, False)" negated *)
  negb (py_truthy v) || match v with PStr s => is_valid_url s false | _ => false end.

(* an entry of redirect_uris: a non-empty, absolute, fragment-free URI *)
Definition redirect_entry_ok (v : pv) : bool :=
  py_truthy v && match v with PStr s => is_valid_url s false | _ => false end.

Definition strs_of (v : pv) : list string := map pv_str (pv_list v).

Definition subset_of (xs sup : list string) : bool := forallb (fun x => list_in_str x sup) xs.

Inductive cres := COk | CInvalid (claim : string).

Fixpoint first_bad (l : list cres) : cres :=
  match l with [] => COk | COk :: r => first_bad r | x :: _ => x end.

Definition chk (b : bool) (claim : string) : cres := if b then COk else CInvalid claim.

Definition REGISTERED := ["redirect_uris"; "token_endpoint_auth_method"; "grant_types"; "response_types";
  "client_name"; "client_uri"; "logo_uri"; "scope"; "contacts"; "tos_uri"; "policy_uri"; "jwks_uri"; "jwks";
  "software_id"; "software_version"].

(* validate_token_endpoint_auth_method inserts the default *)
Definition with_default_auth (d : doc) : doc :=
  if mhas "token_endpoint_auth_method" d then d
  else (d ++ [("token_endpoint_auth_method", PStr "client_secret_basic")])%list.

Definition claims_validate (md : server_md) (jwks_ok : bool) (d0 : doc) : cres :=
  let d := with_default_auth d0 in
  first_bad [
    chk (forallb redirect_entry_ok (pv_list (mget "redirect_uris" d))) "redirect_uris";
    chk (match auth_methods_supported md with
         | Some (m :: ms) => py_in_list (mget "token_endpoint_auth_method" d) (map PStr (m :: ms))
         | _ => true end) "token_endpoint_auth_method";
    chk (match grant_types_supported md with
         | Some sup => subset_of (if py_truthy (mget "grant_types" d) then strs_of (mget "grant_types" d)
                                  else ["authorization_code"]) sup
         | None => true end) "grant_types";
    chk (match response_types_supported md with
         | Some sup => subset_of (if py_truthy (mget "response_types" d) then strs_of (mget "response_types" d)
                                  else ["code"]) sup
         | None => true end) "response_types";
    chk (uri_ok (mget "client_uri" d)) "client_uri";
    chk (uri_ok (mget "logo_uri" d)) "logo_uri";
    chk (match scopes_supported md with
         | Some sup => negb (py_truthy (mget "scope" d)) || subset_of (split_ws (pv_str (mget "scope" d))) sup
         | None => true end) "scope";
    chk (negb (mhas "contacts" d) || is_list (mget "contacts" d)) "contacts";
    chk (uri_ok (mget "tos_uri" d)) "tos_uri";
    chk (uri_ok (mget "policy_uri" d)) "policy_uri";
    chk (uri_ok (mget "jwks_uri" d)) "jwks_uri";
    chk (negb (mhas "jwks" d) || (negb (mhas "jwks_uri" d) && jwks_ok)) "jwks" ].

Definition registered_claims (d : doc) : doc :=
  filter (fun kv => list_in_str (fst kv) REGISTERED) d.

Inductive rres :=
| Stored (metadata : doc)                   (* save_client / update_client called with this metadata *)
| Refused (status : N) (error : string).    (* nothing stored *)

(* ClientRegistrationEndpoint.create_registration_response *)
Definition register (token_valid : bool) (md : server_md) (jwks_ok : bool) (payload : doc) : rres :=
  if negb token_valid then Refused 400 "access_denied"
  else match payload with
       | [] => Refused 400 "invalid_request"
       | _ =>
           match claims_validate md jwks_ok payload with
           | CInvalid _ => Refused 400 "invalid_client_metadata"
           | COk => Stored (registered_claims (with_default_auth payload))
           end
       end.

Definition FORBIDDEN := ["registration_access_token"; "registration_client_uri";
                         "client_secret_expires_at"; "client_id_issued_at"].

(* ClientConfigurationEndpoint, PUT *)
Definition update (token_valid client_exists permitted : bool) (client_id client_secret : string)
           (md : server_md) (jwks_ok : bool) (payload : doc) : rres :=
  if negb token_valid then Refused 400 "access_denied"
  else if negb client_exists then Refused 401 "invalid_client"
  else if negb permitted then Refused 403 "unauthorized_client"
  else if existsb (fun k => mhas k payload) FORBIDDEN then Refused 400 "invalid_request"
  else if negb (py_truthy (mget "client_id" payload)) then Refused 400 "invalid_request"
  else if negb (py_eq (mget "client_id" payload) (PStr client_id)) then Refused 400 "invalid_request"
  else if mhas "client_secret" payload && negb (py_eq (mget "client_secret" payload) (PStr client_secret))
       then Refused 400 "invalid_request"
  else match claims_validate md jwks_ok payload with
       | CInvalid _ => Refused 400 "invalid_client_metadata"
       | COk => Stored (registered_claims (with_default_auth payload))
       end.

(* ---- what the property demands of stored metadata *)
Definition URI_MEMBERS := ["client_uri"; "logo_uri"; "tos_uri"; "policy_uri"; "jwks_uri"].

Definition stored_ok (md : server_md) (m : doc) : bool :=
  forallb redirect_entry_ok (pv_list (mget "redirect_uris" m)) &&
  forallb (fun k => uri_ok (mget k m)) URI_MEMBERS &&
  match scopes_supported md with
  | Some sup => negb (py_truthy (mget "scope" m)) || subset_of (split_ws (pv_str (mget "scope" m))) sup
  | None => true end &&
  match grant_types_supported md with
  | Some sup => subset_of (if py_truthy (mget "grant_types" m) then strs_of (mget "grant_types" m)
                           else ["authorization_code"]) sup
  | None => true end &&
  match response_types_supported md with
  | Some sup => subset_of (if py_truthy (mget "response_types" m) then strs_of (mget "response_types" m)
                           else ["code"]) sup
  | None => true end &&
  match auth_methods_supported md with
  | Some (x :: xs) => py_in_list (mget "token_endpoint_auth_method" m) (map PStr (x :: xs))
  | _ => true end.
