(* C16: executable model of authlib's JWK member encoding and export filter
   (authlib/common/encoding.py, jose/rfc7517/base_key.py, asymmetric_key.py,
   key_set.py, rfc7518/{rsa,ec,oct}_key.py, rfc8037/okp_key.py). *)
From Coq Require Import List NArith ZArith Bool Ascii String.
From Authlib Require Import Base.Bytes Base.Base64 Base.BigEndian Base.PyVal.
Import ListNotations.
Open Scope string_scope.

(* int_to_base64: ValueError for negatives is outside (N), minimal big-endian *)
Definition int_to_base64 (n : N) : string := b64url_encode (int_to_bytes_min n).

(* base64_to_int: int("".join(hex), 16) raises ValueError on empty data *)
Definition base64_to_int (s : string) : option N :=
  match urlsafe_b64decode s with
  | Some EmptyString => None
  | Some d => Some (bytes_to_int d)
  | None => None
  end.

Definition dict := list (string * pv).

Fixpoint dict_has (k : string) (d : dict) : bool :=
  match d with [] => false | (k', _) :: r => String.eqb k k' || dict_has k r end.

(* d[k] = v : replace in place, else append (Python dict order) *)
Fixpoint dict_set (k : string) (v : pv) (d : dict) : dict :=
  match d with
  | [] => [(k, v)]
  | (k', v') :: r => if String.eqb k k' then (k, v) :: r else (k', v') :: dict_set k v r
  end.

Definition dict_update (d u : dict) : dict :=
  fold_left (fun acc kv => dict_set (fst kv) (snd kv) acc) u d.

Definition dict_keys (d : dict) : list string := map fst d.

Definition ALLOWED_PARAMS : list string :=
  ["use"; "key_ops"; "alg"; "kid"; "x5u"; "x5c"; "x5t"; "x5t#S256"].

(* Key.tokens: dict(_dict_data) + kty + the allowed option members not already there *)
Definition tokens (kty : string) (dict_data options : dict) : dict :=
  fold_left (fun rv k =>
     if negb (dict_has k rv) && dict_has k options
     then match dict_get k options with Some v => dict_set k v rv | None => rv end
     else rv) ALLOWED_PARAMS (dict_set "kty" (PStr kty) dict_data).

Inductive kres (A : Type) := KOk (a : A) | KErr (msg : string).
Arguments KOk {A} a. Arguments KErr {A} msg.

(* AsymmetricKey.as_dict, before the final tokens.update(params), with the
   thumbprint supplied by the caller (it is only used when kid is falsy) *)
Definition as_dict_core (kty : string) (public_fields : list string)
           (is_private : bool) (toks : dict) (thumb : string) : kres dict :=
  if is_private && negb (dict_has "d" toks) then KErr "This is a public key"
  else
    let kid := dict_get "kid" toks in
    let kid_truthy := match kid with Some v => py_truthy v | None => false end in
    let toks1 :=
      if dict_has "d" toks && negb is_private then
        let f := filter (fun kv => list_in_str (fst kv) public_fields) toks in
        let f := dict_set "kty" (PStr kty) f in
        if kid_truthy then match kid with Some v => dict_set "kid" v f | None => f end else f
      else toks in
    let toks2 := if kid_truthy then toks1 else dict_set "kid" (PStr thumb) toks1 in
    KOk toks2.

Definition as_dict (kty : string) (public_fields : list string)
           (is_private : bool) (toks : dict) (thumb : string) (params : dict) : kres dict :=
  match as_dict_core kty public_fields is_private toks thumb with
  | KOk t => KOk (dict_update t params)
  | KErr m => KErr m
  end.

(* KeySet.as_dict: every key through as_dict *)
Fixpoint keyset_as_dict (is_private : bool)
         (ks : list (string * list string * dict * string)) : kres (list dict) :=
  match ks with
  | [] => KOk []
  | (kty, pf, toks, thumb) :: r =>
      match as_dict_core kty pf is_private toks thumb with
      | KErr m => KErr m
      | KOk d => match keyset_as_dict is_private r with
                 | KErr m => KErr m
                 | KOk ds => KOk (d :: ds)
                 end
      end
  end.

Definition RSA_PUBLIC := ["e"; "n"].
Definition EC_PUBLIC := ["crv"; "x"; "y"].
Definition OKP_PUBLIC := ["crv"; "x"].
(* the members RFC 7518 s6.2.2/s6.3.2 and RFC 8037 s2 call private *)
Definition PRIVATE_MEMBERS := ["d"; "p"; "q"; "dp"; "dq"; "qi"; "oth"; "k"].

(* dumps_* : members computed from the raw numbers/octets of the key object *)
Definition rsa_dumps_public (n e : N) : dict :=
  [("n", PStr (int_to_base64 n)); ("e", PStr (int_to_base64 e))].
Definition rsa_dumps_private (n e d p q dp dq qi : N) : dict :=
  [("n", PStr (int_to_base64 n)); ("e", PStr (int_to_base64 e));
   ("d", PStr (int_to_base64 d)); ("p", PStr (int_to_base64 p));
   ("q", PStr (int_to_base64 q)); ("dp", PStr (int_to_base64 dp));
   ("dq", PStr (int_to_base64 dq)); ("qi", PStr (int_to_base64 qi))].
(* RFC 7518 s6.2.1.2: coordinate octet length for the curve *)
Definition curve_octets (crv : string) : nat :=
  if String.eqb crv "P-256" then 32 else if String.eqb crv "P-384" then 48
  else if String.eqb crv "P-521" then 66 else if String.eqb crv "secp256k1" then 32 else 0.

(* ec_key._coordinate_to_base64: num.to_bytes(curve size) (OverflowError = None) *)
Definition ec_coord (crv : string) (n : N) : option string :=
  option_map b64url_encode (encode_int_fixed (curve_octets crv) n).

Definition ec_dumps_public (crv : string) (x y : N) : kres dict :=
  match ec_coord crv x, ec_coord crv y with
  | Some xs, Some ys => KOk [("crv", PStr crv); ("x", PStr xs); ("y", PStr ys)]
  | _, _ => KErr "OverflowError"
  end.
Definition ec_dumps_private (crv : string) (x y d : N) : kres dict :=
  match ec_coord crv x, ec_coord crv y, ec_coord crv d with
  | Some xs, Some ys, Some ds => KOk [("crv", PStr crv); ("x", PStr xs); ("y", PStr ys); ("d", PStr ds)]
  | _, _, _ => KErr "OverflowError"
  end.
Definition okp_dumps_public (crv x : string) : dict :=
  [("crv", PStr crv); ("x", PStr (b64url_encode x))].
Definition okp_dumps_private (crv x d : string) : dict :=
  [("crv", PStr crv); ("x", PStr (b64url_encode x)); ("d", PStr (b64url_encode d))].
Definition oct_dumps (k : string) : dict :=
  [("kty", PStr "oct"); ("k", PStr (b64url_encode k))].

(* has_all_prime_factors *)
Definition has_all_prime_factors (obj : dict) : kres bool :=
  let found := map (fun p => dict_has p obj) ["p"; "q"; "dp"; "dq"; "qi"] in
  if forallb (fun b => b) found then KOk true
  else if existsb (fun b => b) found
  then KErr "RSA key must include all parameters if any are present besides d"
  else KOk false.

(* thumbprint input: json_dumps of the required members + kty, sorted by name.
   Members are emitted as "name":"value"; faithful to json.dumps for values
   that need no JSON escaping (base64url text, curve names). *)
Fixpoint insert_sorted (k : string) (l : list string) : list string :=
  match l with
  | [] => [k]
  | x :: r => if String.leb k x then k :: l else x :: insert_sorted k r
  end.
Definition sort_strs (l : list string) : list string := fold_right insert_sorted [] l.

Definition q (s : string) : string := """" ++ s ++ """".

Fixpoint thumb_go (toks : dict) (fs : list string) (acc : list string) : kres string :=
  match fs with
  | [] => KOk ("{" ++ join "," (rev acc) ++ "}")
  | f :: r => match dict_get f toks with
              | Some (PStr v) => thumb_go toks r ((q f ++ ":" ++ q v) :: acc)
              | Some _ => KErr "non-string member"
              | None => KErr "KeyError"
              end
  end.

Definition thumbprint_input (kty : string) (required : list string) (toks : dict) : kres string :=
  thumb_go (dict_set "kty" (PStr kty) toks) (sort_strs (required ++ ["kty"])) [].
