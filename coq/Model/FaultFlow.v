(* C19: every provider flow as a PROGRAM over the integrator's storage callbacks, so that a storage failure can be
   injected at the k-th callback of a request.
   (oauth2/rfc6749/grants/{authorization_code,refresh_token,implicit,client_credentials,
    resource_owner_password_credentials}.py, rfc8628/device_code.py, rfc7009/revocation.py,
    rfc6749/authorization_server.py, oauth1/rfc5849/authorization_server.py + flask_oauth1/cache.py.)

   A program is a tree: [Cb name eff k] invokes a storage callback (which may fail BEFORE having any effect --
   storage operations are atomic), [Pure eff k] is library code that cannot fail (credential generation),
   [Ret r] is the response.  Request validation that does not touch storage is abstracted to flags of the request;
   C05/C06/C07/C09/C12 model it in full. *)
From Coq Require Import List NArith ZArith Bool Ascii String.
From Authlib Require Import Base.Bytes.
Import ListNotations.
Open Scope string_scope.
Open Scope list_scope.

Record fcode := { fc_id : nat; fc_client : string; fc_user : string }.
Record ftok := { ft_id : nat; ft_refresh : option nat; ft_client : string; ft_user : option string; ft_revoked : bool }.
Record fdev := { fd_id : nat; fd_ucode : nat; fd_client : string }.
Record ftemp := { fp_id : nat; fp_client : string; fp_verifier : option nat; fp_user : option string }.
Record ftok1 := { f1_id : nat; f1_client : string; f1_user : option string; f1_from : nat }.

Record fstore := {
  f_codes : list fcode;
  f_toks : list ftok;                          (* oldest first, as the integrator's table *)
  f_devs : list fdev;
  f_grants : list (nat * (string * bool));     (* user code -> (user, approved); newest first *)
  f_temps : list ftemp;                        (* the cache; newest entry of a key first *)
  f_tok1 : list ftok1;
  f_nonces : list string;
  f_ctr : nat                                  (* the generators' counter *)
}.

Definition finit : fstore :=
  {| f_codes := []; f_toks := []; f_devs := []; f_grants := []; f_temps := []; f_tok1 := []; f_nonces := []; f_ctr := 0 |}.

Record fclient := { fl_id : string; fl_public : bool }.
Definition fregistry : list fclient :=
  [ {| fl_id := "c1"; fl_public := false |}; {| fl_id := "c2"; fl_public := false |}; {| fl_id := "pub"; fl_public := true |} ].
Fixpoint find_fl (l : list fclient) (id : string) : option fclient :=
  match l with [] => None | c :: r => if String.eqb (fl_id c) id then Some c else find_fl r id end.

(* callback results *)
Inductive cbv :=
| VUnit
| VClient (c : option fclient)
| VCode (c : option fcode)
| VTok (t : option ftok)
| VDev (d : option fdev)
| VGrant (g : option (string * bool))
| VTemp (t : option ftemp)
| VTok1 (t : option ftok1)
| VBool (b : bool)
| VNat (n : nat).

Inductive fresp :=
| ROkCode (id : nat)
| ROkToken (access : nat) (refresh : option nat)
| ROkDevice (dev ucode : nat)
| ROkNone
| ROkTemp (id : nat)
| ROkVerifier (temp verifier : nat)
| ROkToken1 (id : nat)
| ROkServed (id : nat)
| RErr (code : string).

Inductive prog :=
| Ret (r : fresp)
| Cb (name : string) (eff : fstore -> fstore * cbv) (k : cbv -> prog)
| Pure (eff : fstore -> fstore * cbv) (k : cbv -> prog).

Inductive outcome := Done (r : fresp) | Raised (index : nat) (name : string).

(* [fault] = Some i: the callback with 0-based index i fails.  Returns final store, outcome, callback names in order *)
Fixpoint exec (p : prog) (s : fstore) (fault : option nat) (idx : nat) : fstore * outcome * list string :=
  match p with
  | Ret r => (s, Done r, [])
  | Cb name eff k =>
      if (match fault with Some i => Nat.eqb i idx | None => false end) then (s, Raised idx name, [name])
      else let '(s1, v) := eff s in
           let '(s2, o, tr) := exec (k v) s1 fault (S idx) in (s2, o, name :: tr)
  | Pure eff k => let '(s1, v) := eff s in exec (k v) s1 fault idx
  end.

Definition run_prog (p : prog) (s : fstore) (fault : option nat) := exec p s fault 0.

(* ---------- store primitives ---------- *)
Definition upd_ctr (s : fstore) (n : nat) : fstore :=
  {| f_codes := f_codes s; f_toks := f_toks s; f_devs := f_devs s; f_grants := f_grants s; f_temps := f_temps s;
     f_tok1 := f_tok1 s; f_nonces := f_nonces s; f_ctr := n |}.
Definition set_codes (s : fstore) (l : list fcode) : fstore :=
  {| f_codes := l; f_toks := f_toks s; f_devs := f_devs s; f_grants := f_grants s; f_temps := f_temps s;
     f_tok1 := f_tok1 s; f_nonces := f_nonces s; f_ctr := f_ctr s |}.
Definition set_toks (s : fstore) (l : list ftok) : fstore :=
  {| f_codes := f_codes s; f_toks := l; f_devs := f_devs s; f_grants := f_grants s; f_temps := f_temps s;
     f_tok1 := f_tok1 s; f_nonces := f_nonces s; f_ctr := f_ctr s |}.
Definition set_devs (s : fstore) (l : list fdev) : fstore :=
  {| f_codes := f_codes s; f_toks := f_toks s; f_devs := l; f_grants := f_grants s; f_temps := f_temps s;
     f_tok1 := f_tok1 s; f_nonces := f_nonces s; f_ctr := f_ctr s |}.
Definition set_grants (s : fstore) (l : list (nat * (string * bool))) : fstore :=
  {| f_codes := f_codes s; f_toks := f_toks s; f_devs := f_devs s; f_grants := l; f_temps := f_temps s;
     f_tok1 := f_tok1 s; f_nonces := f_nonces s; f_ctr := f_ctr s |}.
Definition set_temps (s : fstore) (l : list ftemp) : fstore :=
  {| f_codes := f_codes s; f_toks := f_toks s; f_devs := f_devs s; f_grants := f_grants s; f_temps := l;
     f_tok1 := f_tok1 s; f_nonces := f_nonces s; f_ctr := f_ctr s |}.
Definition set_tok1 (s : fstore) (l : list ftok1) : fstore :=
  {| f_codes := f_codes s; f_toks := f_toks s; f_devs := f_devs s; f_grants := f_grants s; f_temps := f_temps s;
     f_tok1 := l; f_nonces := f_nonces s; f_ctr := f_ctr s |}.
Definition set_nonces (s : fstore) (l : list string) : fstore :=
  {| f_codes := f_codes s; f_toks := f_toks s; f_devs := f_devs s; f_grants := f_grants s; f_temps := f_temps s;
     f_tok1 := f_tok1 s; f_nonces := l; f_ctr := f_ctr s |}.

Fixpoint find_fcode (l : list fcode) (id : nat) : option fcode :=
  match l with [] => None | c :: r => if Nat.eqb (fc_id c) id then Some c else find_fcode r id end.
Fixpoint find_by_refresh (l : list ftok) (r : nat) : option ftok :=
  match l with
  | [] => None
  | t :: q => if (match ft_refresh t with Some x => Nat.eqb x r | None => false end) && negb (ft_revoked t)
              then Some t else find_by_refresh q r
  end.
(* revocation's query_token: by access or refresh string *)
Inductive tref := TAccess (n : nat) | TRefresh (n : nat) | TUnknown.
Fixpoint find_by_ref (l : list ftok) (r : tref) : option ftok :=
  match l with
  | [] => None
  | t :: q =>
      if (match r with
          | TAccess n => Nat.eqb (ft_id t) n
          | TRefresh n => match ft_refresh t with Some x => Nat.eqb x n | None => false end
          | TUnknown => false
          end) then Some t else find_by_ref q r
  end.
Definition revoke_id (l : list ftok) (id : nat) : list ftok :=
  map (fun t => if Nat.eqb (ft_id t) id
                then {| ft_id := ft_id t; ft_refresh := ft_refresh t; ft_client := ft_client t; ft_user := ft_user t;
                        ft_revoked := true |} else t) l.
Fixpoint find_fdev (l : list fdev) (id : nat) : option fdev :=
  match l with [] => None | d :: r => if Nat.eqb (fd_id d) id then Some d else find_fdev r id end.
Fixpoint find_grant (l : list (nat * (string * bool))) (u : nat) : option (string * bool) :=
  match l with [] => None | (k, v) :: r => if Nat.eqb k u then Some v else find_grant r u end.
Fixpoint find_ftemp (l : list ftemp) (id : nat) : option ftemp :=
  match l with [] => None | t :: r => if Nat.eqb (fp_id t) id then Some t else find_ftemp r id end.
Definition del_ftemp (l : list ftemp) (id : nat) : list ftemp := filter (fun t => negb (Nat.eqb (fp_id t) id)) l.
Fixpoint find_ftok1 (l : list ftok1) (client : string) (id : nat) : option ftok1 :=
  match l with
  | [] => None
  | t :: r => if String.eqb (f1_client t) client && Nat.eqb (f1_id t) id then Some t else find_ftok1 r client id
  end.

(* ---------- callbacks ---------- *)
Definition cb_query_client (id : string) (k : cbv -> prog) : prog :=
  Cb "query_client" (fun s => (s, VClient (find_fl fregistry id))) k.
Definition gen (n : nat) (k : cbv -> prog) : prog :=          (* the generators advance the counter by n *)
  Pure (fun s => (upd_ctr s (f_ctr s + n), VNat (f_ctr s))) k.
Definition ctr_of (v : cbv) : nat := match v with VNat n => n | _ => 0 end.

(* ---------- requests ---------- *)
Record freq := {
  q_kind : string;
  q_client : string;
  q_bad_secret : bool;
  q_user : option string;          (* resource owner: approving user, or user name for the password grant *)
  q_flag : bool;                   (* the flow's own validation defect: bad redirect / wrong redirect / bad scope / bad password / bad verifier *)
  q_ref : nat;                     (* code, refresh, device, user code, temp or token reference *)
  q_tref : tref;                   (* revocation *)
  q_sig_bad : bool;                (* OAuth 1: signature does not verify *)
  q_nonce : string;                (* OAuth 1: nonce key *)
  q_approve : bool
}.

Definition client_ok (q : freq) (v : cbv) : option fclient :=
  match v with VClient (Some c) => if q_bad_secret q then None else Some c | _ => None end.

Definition new_token (client : string) (user : option string) (base : nat) (with_refresh : bool) : ftok :=
  {| ft_id := base + 1; ft_refresh := if with_refresh then Some (base + 2) else None; ft_client := client;
     ft_user := user; ft_revoked := false |}.

Definition save_token_then (client : string) (user : option string) (with_refresh : bool)
           (after : ftok -> prog) : prog :=
  gen (if with_refresh then 2 else 1) (fun v =>
    let t := new_token client user (ctr_of v) with_refresh in
    Cb "save_token" (fun s => (set_toks s (f_toks s ++ [t]), VUnit)) (fun _ => after t)).

(* authorization endpoint, response_type=code *)
Definition h_authorize (q : freq) : prog :=
  cb_query_client (q_client q) (fun v =>
    match v with
    | VClient (Some c) =>
        if q_flag q then Ret (RErr "invalid_request") else
        match q_user q with
        | None => Ret (RErr "access_denied")
        | Some u =>
            gen 1 (fun n =>
              let code := {| fc_id := ctr_of n + 1; fc_client := fl_id c; fc_user := u |} in
              Cb "save_authorization_code" (fun s => (set_codes s (code :: f_codes s), VUnit))
                 (fun _ => Ret (ROkCode (fc_id code))))
        end
    | _ => Ret (RErr "invalid_client")
    end).

(* authorization endpoint, response_type=token (public client) *)
Definition h_implicit (q : freq) : prog :=
  cb_query_client (q_client q) (fun v =>
    match v with
    | VClient (Some c) =>
        if negb (fl_public c) then Ret (RErr "invalid_client")
        else if q_flag q then Ret (RErr "invalid_request") else
        match q_user q with
        | None => Ret (RErr "access_denied")
        | Some u => save_token_then (fl_id c) (Some u) false (fun t => Ret (ROkToken (ft_id t) None))
        end
    | _ => Ret (RErr "invalid_client")
    end).

(* token endpoint, authorization_code *)
Definition h_redeem (q : freq) : prog :=
  cb_query_client (q_client q) (fun v =>
    match client_ok q v with
    | None => Ret (RErr "invalid_client")
    | Some c =>
        Cb "query_authorization_code"
           (fun s => (s, VCode (match find_fcode (f_codes s) (q_ref q) with
                                | Some cd => if String.eqb (fc_client cd) (fl_id c) then Some cd else None
                                | None => None end)))
           (fun v2 =>
              match v2 with
              | VCode (Some cd) =>
                  if q_flag q then Ret (RErr "invalid_grant") else
                  Cb "authenticate_user" (fun s => (s, VUnit)) (fun _ =>
                    save_token_then (fl_id c) (Some (fc_user cd)) true (fun t =>
                      Cb "delete_authorization_code"
                         (fun s => (set_codes s (filter (fun x => negb (Nat.eqb (fc_id x) (fc_id cd))) (f_codes s)), VUnit))
                         (fun _ => Ret (ROkToken (ft_id t) (ft_refresh t)))))
              | _ => Ret (RErr "invalid_grant")
              end)
    end).

(* token endpoint, refresh_token *)
Definition h_refresh (q : freq) : prog :=
  cb_query_client (q_client q) (fun v =>
    match client_ok q v with
    | None => Ret (RErr "invalid_client")
    | Some c =>
        Cb "authenticate_refresh_token" (fun s => (s, VTok (find_by_refresh (f_toks s) (q_ref q))))
           (fun v2 =>
              match v2 with
              | VTok (Some old) =>
                  if negb (String.eqb (ft_client old) (fl_id c)) then Ret (RErr "invalid_grant")
                  else if q_flag q then Ret (RErr "invalid_scope") else
                  Cb "authenticate_user" (fun s => (s, VUnit)) (fun _ =>
                    match ft_user old with
                    | None => Ret (RErr "invalid_request")
                    | Some u =>
                        save_token_then (fl_id c) (Some u) true (fun t =>
                          Cb "revoke_old_credential" (fun s => (set_toks s (revoke_id (f_toks s) (ft_id old)), VUnit))
                             (fun _ => Ret (ROkToken (ft_id t) (ft_refresh t))))
                    end)
              | _ => Ret (RErr "invalid_grant")
              end)
    end).

Definition h_password (q : freq) : prog :=
  cb_query_client (q_client q) (fun v =>
    match client_ok q v with
    | None => Ret (RErr "invalid_client")
    | Some c =>
        Cb "authenticate_user" (fun s => (s, VBool (negb (q_flag q)))) (fun v2 =>
          match v2, q_user q with
          | VBool true, Some u =>
              save_token_then (fl_id c) (Some u) true (fun t => Ret (ROkToken (ft_id t) (ft_refresh t)))
          | _, _ => Ret (RErr "invalid_request")
          end)
    end).

Definition h_client_credentials (q : freq) : prog :=
  cb_query_client (q_client q) (fun v =>
    match client_ok q v with
    | None => Ret (RErr "invalid_client")
    | Some c => save_token_then (fl_id c) None false (fun t => Ret (ROkToken (ft_id t) None))
    end).

(* RFC 7523 JWT-bearer grant: the issuer's client is looked up twice (for the key, then for the grant), the assertion's own
   validity is the request flag, only c1 is registered for the grant type; no refresh token is issued *)
Definition client_may_jwt (c : fclient) : bool := String.eqb (fl_id c) "c1".
Definition h_jwt_bearer (q : freq) : prog :=
  cb_query_client (q_client q) (fun v1 =>
    match v1 with
    | VClient (Some _) =>
        if q_flag q then Ret (RErr "invalid_grant") else
        cb_query_client (q_client q) (fun v2 =>
          match v2 with
          | VClient (Some c) =>
              if negb (client_may_jwt c) then Ret (RErr "unauthorized_client") else
              match q_user q with
              | Some u =>
                  Cb "authenticate_user" (fun s => (s, VBool true)) (fun _ =>
                    save_token_then (fl_id c) (Some u) false (fun t => Ret (ROkToken (ft_id t) None)))
              | None => save_token_then (fl_id c) None false (fun t => Ret (ROkToken (ft_id t) None))
              end
          | _ => Ret (RErr "invalid_grant")
          end)
    | _ => Ret (RErr "invalid_grant")
    end).

Definition h_device_authorize (q : freq) : prog :=
  cb_query_client (q_client q) (fun v =>
    match client_ok q v with
    | None => Ret (RErr "invalid_client")
    | Some c =>
        gen 2 (fun n =>
          let d := {| fd_id := ctr_of n + 1; fd_ucode := ctr_of n + 2; fd_client := fl_id c |} in
          Cb "save_device_credential" (fun s => (set_devs s (d :: f_devs s), VUnit))
             (fun _ => Ret (ROkDevice (fd_id d) (fd_ucode d))))
    end).

(* the resource owner's decision is recorded by the integrator's own page, not through the library *)
Definition h_decide (q : freq) : prog :=
  Pure (fun s => (set_grants s ((q_ref q, (match q_user q with Some u => u | None => "" end, q_approve q)) :: f_grants s), VUnit))
       (fun _ => Ret ROkNone).

Definition h_poll (q : freq) : prog :=
  cb_query_client (q_client q) (fun v =>
    match client_ok q v with
    | None => Ret (RErr "invalid_client")
    | Some c =>
        Cb "query_device_credential" (fun s => (s, VDev (find_fdev (f_devs s) (q_ref q)))) (fun v2 =>
          match v2 with
          | VDev (Some d) =>
              if negb (String.eqb (fd_client d) (fl_id c)) then Ret (RErr "unauthorized_client") else
              Cb "query_user_grant" (fun s => (s, VGrant (find_grant (f_grants s) (fd_ucode d)))) (fun v3 =>
                match v3 with
                | VGrant (Some (u, true)) =>
                    save_token_then (fl_id c) (Some u) true (fun t => Ret (ROkToken (ft_id t) (ft_refresh t)))
                | VGrant (Some (_, false)) => Ret (RErr "access_denied")
                | _ => Ret (RErr "authorization_pending")
                end)
          | _ => Ret (RErr "invalid_request")
          end)
    end).

Definition h_revoke (q : freq) : prog :=
  cb_query_client (q_client q) (fun v =>
    match client_ok q v with
    | None => Ret (RErr "invalid_client")
    | Some c =>
        Cb "query_token" (fun s => (s, VTok (find_by_ref (f_toks s) (q_tref q)))) (fun v2 =>
          match v2 with
          | VTok (Some t) =>
              if negb (String.eqb (ft_client t) (fl_id c)) then Ret (RErr "invalid_grant") else
              Cb "revoke_token" (fun s => (set_toks s (revoke_id (f_toks s) (ft_id t)), VUnit)) (fun _ => Ret ROkNone)
          | _ => Ret ROkNone
          end)
    end).

(* ---------- OAuth 1 (flask_oauth1 cache hooks) ---------- *)
Definition nonce_check (key : string) (k : bool -> prog) : prog :=
  Cb "cache.has:nonce" (fun s => (s, VBool (list_in_str key (f_nonces s)))) (fun v =>
    Cb "cache.set:nonce" (fun s => (set_nonces s (key :: f_nonces s), VUnit)) (fun _ =>
      k (match v with VBool b => b | _ => false end))).

Definition h1_initiate (q : freq) : prog :=
  cb_query_client (q_client q) (fun v =>
    match v with
    | VClient (Some c) =>
        nonce_check (q_nonce q) (fun seen =>
          if seen then Ret (RErr "invalid_nonce")
          else if q_sig_bad q then Ret (RErr "invalid_signature")
          else gen 1 (fun n =>
                 let t := {| fp_id := ctr_of n + 1; fp_client := fl_id c; fp_verifier := None; fp_user := None |} in
                 Cb "cache.set:temporary_credential" (fun s => (set_temps s (t :: f_temps s), VUnit))
                    (fun _ => Ret (ROkTemp (fp_id t)))))
    | _ => Ret (RErr "invalid_client")
    end).

Definition h1_authorize (q : freq) : prog :=
  Cb "cache.get:temporary_credential" (fun s => (s, VTemp (find_ftemp (f_temps s) (q_ref q)))) (fun v =>
    match v with
    | VTemp (Some t) =>
        match q_user q with
        | None => Ret (RErr "access_denied")
        | Some u =>
            gen 1 (fun n =>
              let t' := {| fp_id := fp_id t; fp_client := fp_client t; fp_verifier := Some (ctr_of n + 1); fp_user := Some u |} in
              Cb "cache.set:temporary_credential" (fun s => (set_temps s (t' :: f_temps s), VUnit))
                 (fun _ => Ret (ROkVerifier (fp_id t) (ctr_of n + 1))))
        end
    | _ => Ret (RErr "invalid_token")
    end).

(* every protocol refusal of the token request deletes the temporary credential named in it *)
Definition refuse_and_delete (id : nat) (code : string) : prog :=
  Cb "cache.delete:temporary_credential" (fun s => (set_temps s (del_ftemp (f_temps s) id), VUnit))
     (fun _ => Ret (RErr code)).

Definition h1_exchange (q : freq) : prog :=
  cb_query_client (q_client q) (fun v =>
    match v with
    | VClient (Some c) =>
        Cb "cache.get:temporary_credential" (fun s => (s, VTemp (find_ftemp (f_temps s) (q_ref q)))) (fun v2 =>
          match v2 with
          | VTemp (Some t) =>
              if negb (String.eqb (fp_client t) (fl_id c)) then refuse_and_delete (q_ref q) "invalid_token"
              else if q_flag q || (match fp_verifier t with None => true | Some _ => false end)
                   then refuse_and_delete (q_ref q) "invalid_request"
              else nonce_check (q_nonce q) (fun seen =>
                     if seen then refuse_and_delete (q_ref q) "invalid_nonce"
                     else if q_sig_bad q then refuse_and_delete (q_ref q) "invalid_signature"
                     else gen 1 (fun n =>
                            let k1 := {| f1_id := ctr_of n + 1; f1_client := fp_client t; f1_user := fp_user t; f1_from := fp_id t |} in
                            Cb "create_token_credential" (fun s => (set_tok1 s (k1 :: f_tok1 s), VUnit)) (fun _ =>
                              Cb "cache.delete:temporary_credential"
                                 (fun s => (set_temps s (del_ftemp (f_temps s) (q_ref q)), VUnit))
                                 (fun _ => Ret (ROkToken1 (f1_id k1))))))
          | _ => refuse_and_delete (q_ref q) "invalid_token"
          end)
    | _ => refuse_and_delete (q_ref q) "invalid_client"
    end).

Definition h1_access (q : freq) : prog :=
  cb_query_client (q_client q) (fun v =>
    match v with
    | VClient (Some c) =>
        Cb "query_token" (fun s => (s, VTok1 (find_ftok1 (f_tok1 s) (fl_id c) (q_ref q)))) (fun v2 =>
          match v2 with
          | VTok1 (Some t) =>
              nonce_check (q_nonce q) (fun seen =>
                if seen then Ret (RErr "invalid_nonce")
                else if q_sig_bad q then Ret (RErr "invalid_signature")
                else Ret (ROkServed (f1_id t)))
          | _ => Ret (RErr "invalid_token")
          end)
    | _ => Ret (RErr "invalid_client")
    end).

Definition handler (q : freq) : prog :=
  let k := q_kind q in
  if String.eqb k "authorize" then h_authorize q
  else if String.eqb k "implicit" then h_implicit q
  else if String.eqb k "redeem" then h_redeem q
  else if String.eqb k "refresh" then h_refresh q
  else if String.eqb k "password" then h_password q
  else if String.eqb k "client_credentials" then h_client_credentials q
  else if String.eqb k "device_authorize" then h_device_authorize q
  else if String.eqb k "decide" then h_decide q
  else if String.eqb k "poll" then h_poll q
  else if String.eqb k "revoke" then h_revoke q
  else if String.eqb k "jwt_bearer" then h_jwt_bearer q
  else if String.eqb k "o1_initiate" then h1_initiate q
  else if String.eqb k "o1_authorize" then h1_authorize q
  else if String.eqb k "o1_exchange" then h1_exchange q
  else if String.eqb k "o1_access" then h1_access q
  else Ret (RErr "unknown_kind").

(* a history: requests, each with an optional fault point *)
Definition fstep (s : fstore) (qf : freq * option nat) : fstore * outcome * list string :=
  run_prog (handler (fst qf)) s (snd qf).
Fixpoint frun_outs (s : fstore) (l : list (freq * option nat)) : list (outcome * list string * fstore) :=
  match l with
  | [] => []
  | qf :: r => let '(s', o, tr) := fstep s qf in (o, tr, s') :: frun_outs s' r
  end.
