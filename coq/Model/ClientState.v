(* C14: how the Flask / Django / Starlette client integrations keep the per-flow state between the authorization
   redirect and the callback (integrations/base_client/framework_integration.py, starlette_client/integration.py,
   {flask,django,starlette}_client/apps.py: save_authorize_data, authorize_access_token, _format_state_params).

   A state is named by the order of its creation.  `mode` says where the data lives (the user's session, or a cache
   shared by all users); `clears_old` is Starlette's habit of dropping a provider's older states from the session
   when a new flow begins. *)
From Coq Require Import List NArith ZArith Bool Ascii String.
From Authlib Require Import Base.Bytes.
Import ListNotations.
Open Scope string_scope.
Open Scope list_scope.

Inductive smode := SessionMode | CacheMode.

Record entry := { e_prov : string; e_state : nat; e_pkce : bool; e_openid : bool; e_redirect : option string; e_exp : Z;
                  e_sess : nat (* ghost: the session whose redirect created it; no decision reads it *) }.

Record cst := { c_sessions : list (list entry);     (* one store per user session *)
                c_cache : list entry;
                c_now : Z;
                c_next : nat;
                c_log : list entry }.                (* ghost: every entry ever created, newest first *)

Definition cinit (nsessions : nat) : cst :=
  {| c_sessions := repeat [] nsessions; c_cache := []; c_now := 0; c_next := 0; c_log := [] |}.

Inductive cop :=
| CBegin (sess : nat) (prov : string) (pkce openid : bool) (redirect : option string)
| CCallback (sess : nat) (prov : string) (state : option nat)       (* None: absent or garbage *)
| CTick (dt : Z).

Inductive cout :=
| OBegan (state : nat)
| OExchanged (e : entry)          (* the token request and ID-token validation use exactly this entry's data *)
| OMismatch                       (* MismatchingStateError / OAuthError before any request to the provider *)
| ONone.

Section M.
Variable mode : smode.
Variable clears_old : bool.
Variable expires_in : Z.          (* 3600 *)
(* which providers are OAuth 1: their callback clears the state entry (and with it the expired entries of the session) only
   after the entry was found; the OAuth 2 callback clears before it looks at what it found *)
Variable oauth1_prov : string -> bool.

Definition same_key (p : string) (st : nat) (e : entry) : bool := String.eqb (e_prov e) p && Nat.eqb (e_state e) st.

Fixpoint find_entry (l : list entry) (p : string) (st : nat) : option entry :=
  match l with
  | [] => None
  | e :: r => if same_key p st e then Some e else find_entry r p st
  end.

Definition remove_key (l : list entry) (p : string) (st : nat) : list entry :=
  filter (fun e => negb (same_key p st e)) l.

(* _clear_session_state: entries whose exp has passed are dropped *)
Definition purge (l : list entry) (now : Z) : list entry := filter (fun e => negb (Z.ltb (e_exp e) now)) l.

(* clear_state_data: the named entry goes, and with it the expired entries of the session; when it is not called nothing changes *)
Definition after_callback (cleared : bool) (l : list entry) (p : string) (state : option nat) (now : Z) : list entry :=
  if cleared then purge (match state with Some st => remove_key l p st | None => l end) now else l.

Fixpoint upd_nth {A} (l : list A) (i : nat) (f : A -> A) : list A :=
  match l, i with
  | [], _ => []
  | x :: r, O => f x :: r
  | x :: r, S k => x :: upd_nth r k f
  end.

Definition live_in_cache (now : Z) (e : entry) : bool := Z.ltb now (e_exp e).

Definition cstep (s : cst) (o : cop) : cst * cout :=
  match o with
  | CBegin sess p pkce openid redirect =>
      let e := {| e_prov := p; e_state := c_next s; e_pkce := pkce; e_openid := openid; e_redirect := redirect;
                  e_exp := (c_now s + expires_in)%Z; e_sess := sess |} in
      match mode with
      | SessionMode =>
          match nth_error (c_sessions s) sess with
          | None => (s, ONone)
          | Some _ =>
              ({| c_sessions := upd_nth (c_sessions s) sess
                                  (fun l => e :: (if clears_old then filter (fun x => negb (String.eqb (e_prov x) p)) l else l));
                  c_cache := c_cache s; c_now := c_now s; c_next := S (c_next s); c_log := e :: c_log s |}, OBegan (c_next s))
          end
      | CacheMode =>
          ({| c_sessions := c_sessions s; c_cache := e :: c_cache s; c_now := c_now s; c_next := S (c_next s);
              c_log := e :: c_log s |},
           OBegan (c_next s))
      end
  | CCallback sess p state =>
      match mode with
      | SessionMode =>
          match nth_error (c_sessions s) sess with
          | None => (s, ONone)
          | Some l =>
              let found := match state with Some st => find_entry l p st | None => None end in
              let cleared := negb (oauth1_prov p) || (match found with Some _ => true | None => false end) in
              let l' := after_callback cleared l p state (c_now s) in
              ({| c_sessions := upd_nth (c_sessions s) sess (fun _ => l'); c_cache := c_cache s; c_now := c_now s;
                  c_next := c_next s; c_log := c_log s |},
               match found with Some e => OExchanged e | None => OMismatch end)
          end
      | CacheMode =>
          (* the lookup does not involve the session at all *)
          let found := match state with
                       | Some st => match find_entry (c_cache s) p st with
                                    | Some e => if live_in_cache (c_now s) e then Some e else None
                                    | None => None end
                       | None => None end in
          ({| c_sessions := c_sessions s;
              c_cache := match state with Some st => remove_key (c_cache s) p st | None => c_cache s end;
              c_now := c_now s; c_next := c_next s; c_log := c_log s |},
           match found with Some e => OExchanged e | None => OMismatch end)
      end
  | CTick dt => ({| c_sessions := c_sessions s; c_cache := c_cache s; c_now := (c_now s + Z.max 0 dt)%Z; c_next := c_next s;
                    c_log := c_log s |}, ONone)
  end.

Fixpoint crun_outs (s : cst) (ops : list cop) : list cout :=
  match ops with
  | [] => []
  | o :: r => let '(s', x) := cstep s o in x :: crun_outs s' r
  end.
Definition crun_from (s : cst) (ops : list cop) : cst := fold_left (fun s o => fst (cstep s o)) ops s.
End M.
