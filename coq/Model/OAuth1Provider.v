(* C12: OAuth 1.0 provider as a state machine
   (oauth1/rfc5849/{authorization_server,base_server,resource_protector,wrapper,models}.py with the bundled
   integration integrations/flask_oauth1/{authorization_server,resource_protector,cache}.py: temporary credentials
   and nonces live in a cache with time-outs, token credentials in the integrator's table). *)
From Coq Require Import List NArith ZArith Bool Ascii String.
From Authlib Require Import Base.Bytes Base.Form Base.Url Base.PyInt Model.OAuth1Sig Model.Wire.
Import ListNotations.
Open Scope string_scope.
Open Scope list_scope.

Record oclient := { oc_id : string; oc_secret : string; oc_rsa : string; oc_redirect : string }.

Record temp := { tp_token : string; tp_secret : string; tp_client : string; tp_callback : string;
                 tp_verifier : option string; tp_user : option string; tp_expires : Z }.
Record tokc := { tk_token : string; tk_secret : string; tk_client : string; tk_user : option string;
                 tk_from : string }.          (* tk_from: the temporary credential it was exchanged for (ghost) *)

Record pst := { p_temps : list temp;           (* the cache: newest entry for a key first *)
                p_toks : list tokc;
                p_nonces : list (string * Z);  (* key, expiry *)
                p_now : Z;
                p_ctr : nat }.                  (* number of generated credentials / verifiers so far *)

Definition pinit_at (now0 : Z) : pst := {| p_temps := []; p_toks := []; p_nonces := []; p_now := now0; p_ctr := 0 |}.
Definition pinit : pst := pinit_at 0.

(* a request as authlib's OAuth1Request sees it after parsing: the three parameter sources *)
Record oreq := { q_method : string; q_uri : string; q_host : option string;
                 q_query : list pair_s; q_body : list pair_s; q_auth : list pair_s }.

Inductive oop :=
| OInitiate (r : oreq)
| OAuthorize (r : oreq) (user : option string)      (* user = None: the resource owner denies *)
| OExchange (r : oreq)
| OAccess (r : oreq)
| OTick (dt : Z).

Inductive oout :=
| OTemp (token secret : string)
| ORedirect (location : string)
| OToken (token secret : string)
| OServed (token : string)
| OErr (status : N) (code : string)
| ONone.

Section P.
Variable hmac_sha1 : string -> string -> string.
Variable rsa_verify : string -> string -> string -> bool.     (* public key, message, base64 signature *)
Variable name_of : string -> nat -> string.                   (* deterministic generators: prefix, counter *)
Variable registry : list oclient.
Variable supported : list string.                              (* SUPPORTED_SIGNATURE_METHODS *)
Variable expiry_time : Z.                                      (* EXPIRY_TIME (300) *)
Variable nonce_ttl : Z.                                        (* cache time-outs (86400) *)
Variable temp_ttl : Z.

Fixpoint find_oc (l : list oclient) (id : string) : option oclient :=
  match l with [] => None | c :: r => if String.eqb (oc_id c) id then Some c else find_oc r id end.

Definition is_oauth_k (kv : pair_s) : bool := starts_with "oauth_" (fst kv).

(* dict(list): the last value of a key wins *)
Fixpoint last_of (k : string) (l : list pair_s) (acc : option string) : option string :=
  match l with
  | [] => acc
  | (k', v) :: r => last_of k r (if String.eqb k k' then Some v else acc)
  end.

(* wrapper._parse_oauth_params: protocol parameters must come from exactly one source *)
Definition oauth_params (r : oreq) : option (list pair_s) :=
  let q := filter is_oauth_k (q_query r) in
  let b := filter is_oauth_k (q_body r) in
  let a := filter is_oauth_k (q_auth r) in
  let ne (l : list pair_s) := match l with [] => false | _ => true end in
  match ne q, ne b, ne a with
  | true, false, false => Some q
  | false, true, false => Some b
  | false, false, true => Some a
  | false, false, false => Some []
  | _, _, _ => None
  end.

Definition getp (ps : list pair_s) (k : string) : option string := last_of k ps None.
Definition truthy (o : option string) : bool :=
  match o with Some s => negb (String.eqb s "") | None => false end.
Definition sval (o : option string) : string := match o with Some s => s | None => "" end.

Definition all_params (r : oreq) : list pair_s := q_query r ++ q_body r ++ q_auth r.

(* cache *)
Definition live_temp (now : Z) (t : temp) : bool := Z.ltb now (tp_expires t).
Fixpoint find_temp (l : list temp) (now : Z) (tok : string) : option temp :=
  match l with
  | [] => None
  | t :: r => if String.eqb (tp_token t) tok then (if live_temp now t then Some t else None)
              else find_temp r now tok
  end.
Definition del_temp (l : list temp) (tok : string) : list temp :=
  filter (fun t => negb (String.eqb (tp_token t) tok)) l.

Fixpoint nonce_seen (l : list (string * Z)) (now : Z) (key : string) : bool :=
  match l with
  | [] => false
  | (k, e) :: r => if String.eqb k key then Z.ltb now e else nonce_seen r now key
  end.

Definition nonce_key (nonce ts client : string) (token : option string) : string :=
  let k := (nonce ++ "-" ++ ts ++ "-" ++ client)%string in
  if truthy token then (k ++ "-" ++ sval token)%string else k.

Inductive chk := COk (s : pst) | CErr (status : N) (code : string) (s : pst).

(* base_server.validate_timestamp_and_nonce; registers the nonce key as a side effect of looking it up *)
Definition check_ts_nonce (s : pst) (ps : list pair_s) : chk :=
  let ts := getp ps "oauth_timestamp" in
  let nonce := getp ps "oauth_nonce" in
  let meth := getp ps "oauth_signature_method" in
  if (match meth with Some m => String.eqb m "PLAINTEXT" | None => false end)
       && negb (truthy ts) && negb (truthy nonce) then COk s
  else if negb (truthy ts) then CErr 400%N "missing_required_parameter" s
  else match py_int (sval ts) with
  | None => CErr 400%N "invalid_request" s
  | Some t =>
      if Z.ltb t 0 then CErr 400%N "invalid_request" s
      else if negb (Z.eqb expiry_time 0) && Z.ltb expiry_time (Z.abs (p_now s - t)%Z) then CErr 400%N "invalid_request" s
      else if negb (truthy nonce) then CErr 400%N "missing_required_parameter" s
      else
        let key := nonce_key (sval nonce) (sval ts) (sval (getp ps "oauth_consumer_key")) (getp ps "oauth_token") in
        let s' := {| p_temps := p_temps s; p_toks := p_toks s;
                     p_nonces := (key, (p_now s + nonce_ttl)%Z) :: p_nonces s; p_now := p_now s; p_ctr := p_ctr s |} in
        if nonce_seen (p_nonces s) (p_now s) key then CErr 401%N "invalid_nonce" s' else COk s'
  end.

Definition verify_sig (r : oreq) (ps : list pair_s) (c : oclient) (token_secret : string) : option bool :=
  let m := sval (getp ps "oauth_signature_method") in
  let sig := sval (getp ps "oauth_signature") in
  if String.eqb m "PLAINTEXT" then Some (String.eqb (plaintext_signature (oc_secret c) token_secret) sig)
  else match construct_base_string (q_method r) (q_uri r) (all_params r) (q_host r) with
       | None => None
       | Some base =>
           if String.eqb m "HMAC-SHA1" then Some (verify_hmac_sha1 hmac_sha1 base (oc_secret c) token_secret sig)
           else if String.eqb m "RSA-SHA1" then Some (rsa_verify (oc_rsa c) base sig)
           else Some false
       end.

(* base_server.validate_oauth_signature: None = passes *)
Definition check_sig (r : oreq) (ps : list pair_s) (c : oclient) (token_secret : string) : option (N * string) :=
  let m := getp ps "oauth_signature_method" in
  if negb (truthy m) then Some (400%N, "missing_required_parameter")
  else if negb (list_in_str (sval m) supported) then Some (400%N, "unsupported_signature_method")
  else if negb (truthy (getp ps "oauth_signature")) then Some (400%N, "missing_required_parameter")
  else if negb (list_in_str (sval m) ["HMAC-SHA1"; "RSA-SHA1"; "PLAINTEXT"]) then Some (400%N, "unsupported_signature_method")
  else match verify_sig r ps c token_secret with
       | Some true => None
       | Some false => Some (401%N, "invalid_signature")
       | None => Some (500%N, "crash")
       end.

(* --- temporary credential request *)
Definition initiate (s : pst) (r : oreq) : pst * oout :=
  match oauth_params r with
  | None => (s, OErr 400%N "duplicated_oauth_protocol_parameter")
  | Some ps =>
    if negb (String.eqb (upper (q_method r)) "POST") then (s, OErr 405%N "method_not_allowed")
    else if negb (truthy (getp ps "oauth_consumer_key")) then (s, OErr 400%N "missing_required_parameter")
    else if negb (truthy (getp ps "oauth_callback")) then (s, OErr 400%N "missing_required_parameter")
    else if negb (String.eqb (sval (getp ps "oauth_callback")) "oob")
            && negb (is_valid_url (sval (getp ps "oauth_callback")) true) then (s, OErr 400%N "invalid_request")
    else match find_oc registry (sval (getp ps "oauth_consumer_key")) with
    | None => (s, OErr 401%N "invalid_client")
    | Some c =>
      match check_ts_nonce s ps with
      | CErr st code s1 => (s1, OErr st code)
      | COk s1 =>
        match check_sig r ps c "" with
        | Some (st, code) => (s1, OErr st code)
        | None =>
            let tok := name_of "t" (p_ctr s1) in
            let sec := name_of "s" (p_ctr s1) in
            ({| p_temps := {| tp_token := tok; tp_secret := sec; tp_client := oc_id c;
                              tp_callback := sval (getp ps "oauth_callback"); tp_verifier := None; tp_user := None;
                              tp_expires := (p_now s1 + temp_ttl)%Z |} :: p_temps s1;
                p_toks := p_toks s1; p_nonces := p_nonces s1; p_now := p_now s1; p_ctr := S (p_ctr s1) |},
             OTemp tok sec)
        end
      end
    end
  end.

(* --- resource owner authorization *)
Definition authorize (s : pst) (r : oreq) (user : option string) : pst * oout :=
  match oauth_params r with
  | None => (s, OErr 400%N "duplicated_oauth_protocol_parameter")
  | Some ps =>
    if negb (truthy (getp ps "oauth_token")) then (s, OErr 400%N "missing_required_parameter")
    else match find_temp (p_temps s) (p_now s) (sval (getp ps "oauth_token")) with
    | None => (s, OErr 401%N "invalid_token")
    | Some t =>
      let redirect :=
        if String.eqb (tp_callback t) "" || String.eqb (tp_callback t) "oob"
        then match find_oc registry (tp_client t) with Some c => oc_redirect c | None => "" end
        else tp_callback t in
      match user with
      | None => (s, ORedirect (add_params_to_uri redirect [("error", "access_denied");
                     ("error_description", "The resource owner or authorization server denied the request")] false))
      | Some u =>
          let v := name_of "v" (p_ctr s) in
          ({| p_temps := {| tp_token := tp_token t; tp_secret := tp_secret t; tp_client := tp_client t;
                            tp_callback := tp_callback t; tp_verifier := Some v; tp_user := Some u;
                            tp_expires := (p_now s + temp_ttl)%Z |} :: p_temps s;
              p_toks := p_toks s; p_nonces := p_nonces s; p_now := p_now s; p_ctr := S (p_ctr s) |},
           ORedirect (add_params_to_uri redirect [("oauth_token", sval (getp ps "oauth_token")); ("oauth_verifier", v)] false))
      end
    end
  end.

(* --- token request.  Every refusal after parsing deletes the temporary credential named in the request. *)
Definition drop_temp (s : pst) (ps : list pair_s) : pst :=
  if truthy (getp ps "oauth_token")
  then {| p_temps := del_temp (p_temps s) (sval (getp ps "oauth_token")); p_toks := p_toks s;
          p_nonces := p_nonces s; p_now := p_now s; p_ctr := p_ctr s |}
  else s.

Definition exchange (s : pst) (r : oreq) : pst * oout :=
  match oauth_params r with
  | None => (s, OErr 400%N "duplicated_oauth_protocol_parameter")
  | Some ps =>
    if negb (truthy (getp ps "oauth_consumer_key")) then (drop_temp s ps, OErr 400%N "missing_required_parameter")
    else match find_oc registry (sval (getp ps "oauth_consumer_key")) with
    | None => (drop_temp s ps, OErr 401%N "invalid_client")
    | Some c =>
      if negb (truthy (getp ps "oauth_token")) then (s, OErr 400%N "missing_required_parameter")
      else match find_temp (p_temps s) (p_now s) (sval (getp ps "oauth_token")) with
      | None => (drop_temp s ps, OErr 401%N "invalid_token")
      | Some t =>
        if negb (String.eqb (tp_client t) (oc_id c)) then (drop_temp s ps, OErr 401%N "invalid_token")
        else if negb (truthy (getp ps "oauth_verifier")) then (drop_temp s ps, OErr 400%N "missing_required_parameter")
        else if negb (match tp_verifier t with Some v => String.eqb v (sval (getp ps "oauth_verifier")) | None => false end)
        then (drop_temp s ps, OErr 400%N "invalid_request")
        else match check_ts_nonce s ps with
        | CErr st code s1 => (drop_temp s1 ps, OErr st code)
        | COk s1 =>
          match check_sig r ps c (tp_secret t) with
          | Some (st, code) => (drop_temp s1 ps, OErr st code)
          | None =>
              let tok := name_of "t" (p_ctr s1) in
              let sec := name_of "s" (p_ctr s1) in
              (drop_temp {| p_temps := p_temps s1;
                            p_toks := {| tk_token := tok; tk_secret := sec; tk_client := tp_client t;
                                         tk_user := tp_user t; tk_from := tp_token t |} :: p_toks s1;
                            p_nonces := p_nonces s1; p_now := p_now s1; p_ctr := S (p_ctr s1) |} ps,
               OToken tok sec)
          end
        end
      end
    end
  end.

(* --- protected resource *)
Fixpoint find_tok (l : list tokc) (client tok : string) : option tokc :=
  match l with
  | [] => None
  | t :: r => if String.eqb (tk_client t) client && String.eqb (tk_token t) tok then Some t else find_tok r client tok
  end.

Definition access (s : pst) (r : oreq) : pst * oout :=
  match oauth_params r with
  | None => (s, OErr 400%N "duplicated_oauth_protocol_parameter")
  | Some ps =>
    if negb (truthy (getp ps "oauth_consumer_key")) then (s, OErr 400%N "missing_required_parameter")
    else match find_oc registry (sval (getp ps "oauth_consumer_key")) with
    | None => (s, OErr 401%N "invalid_client")
    | Some c =>
      if negb (truthy (getp ps "oauth_token")) then (s, OErr 400%N "missing_required_parameter")
      else match find_tok (p_toks s) (oc_id c) (sval (getp ps "oauth_token")) with
      | None => (s, OErr 401%N "invalid_token")
      | Some t =>
        match check_ts_nonce s ps with
        | CErr st code s1 => (s1, OErr st code)
        | COk s1 =>
          match check_sig r ps c (tk_secret t) with
          | Some (st, code) => (s1, OErr st code)
          | None => (s1, OServed (tk_token t))
          end
        end
      end
    end
  end.

Definition pstep (s : pst) (o : oop) : pst * oout :=
  match o with
  | OInitiate r => initiate s r
  | OAuthorize r u => authorize s r u
  | OExchange r => exchange s r
  | OAccess r => access s r
  | OTick dt => ({| p_temps := p_temps s; p_toks := p_toks s; p_nonces := p_nonces s;
                    p_now := (p_now s + Z.max 0 dt)%Z; p_ctr := p_ctr s |}, ONone)
  end.

Definition prun_from (s : pst) (ops : list oop) : pst := fold_left (fun s o => fst (pstep s o)) ops s.
Definition prun (ops : list oop) : pst := prun_from pinit ops.

Fixpoint prun_outs (s : pst) (ops : list oop) : list oout :=
  match ops with
  | [] => []
  | o :: r => let '(s', x) := pstep s o in x :: prun_outs s' r
  end.
End P.
