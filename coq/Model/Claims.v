(* C04: executable model of authlib's claims validation
   (jose/rfc7519/claims.py, oidc/core/claims.py, oauth2/rfc9068/claims.py).
   Claims, header, params and options are JSON dictionaries (assoc lists in
   Python dict order).  A validator callable is represented by its name and
   interpreted by the Section variable [vfun]. *)
From Coq Require Import List NArith ZArith Bool Ascii String.
From Authlib Require Import Base.Bytes Base.PyVal.
Import ListNotations.
Open Scope string_scope.

Inductive verr :=
| EMissing (k : string)          (* MissingClaimError(k) *)
| EInvalid (k : string)          (* InvalidClaimError(k) *)
| EExpired                       (* ExpiredTokenError *)
| EInvalidToken (why : string).  (* InvalidTokenError: "nbf" / "iat" *)

Definition dictT := list (string * pv).

Definition oget (k : string) (o : pv) : pv := arg k o.      (* option.get(k) *)
Definition cget (k : string) (c : dictT) : pv :=             (* claims.get(k) *)
  match dict_get k c with Some v => v | None => PNone end.
Definition chas (k : string) (c : dictT) : bool :=
  match dict_get k c with Some _ => true | None => false end.

(* first failing check wins *)
Fixpoint first_err (l : list (option verr)) : option verr :=
  match l with
  | [] => None
  | Some e :: _ => Some e
  | None :: r => first_err r
  end.

Section V.
Variable vfun : string -> dictT -> pv -> bool.          (* option["validate"](claims, value) *)
Variable half_hash : string -> string -> option string.  (* create_half_hash(s, alg) *)

(* _validate_essential_claims: for k in self.options *)
Fixpoint essential_loop (opts : dictT) (ks : list string) (claims : dictT) : option verr :=
  match ks with
  | [] => None
  | k :: r =>
      match dict_get k opts with
      | Some o =>
          if py_truthy (oget "essential" o) then
            match dict_get k claims with
            | None => Some (EMissing k)
            | Some v => if py_truthy v then essential_loop opts r claims else Some (EInvalid k)
            end
          else essential_loop opts r claims
      | None => essential_loop opts r claims
      end
  end.
Definition check_essential (opts claims : dictT) : option verr :=
  essential_loop opts (map fst opts) claims.

(* _validate_claim_value(name) *)
Definition check_claim_value (opts claims : dictT) (name : string) : option verr :=
  match dict_get name opts with
  | None => None
  | Some o =>
      if negb (py_truthy o) then None else
      let value := cget name claims in
      let ov := oget "value" o in
      if py_truthy ov && negb (py_eq value ov) then Some (EInvalid name) else
      let ovs := oget "values" o in
      if py_truthy ovs && negb (py_in_list value (pv_list ovs)) then Some (EInvalid name) else
      let vd := oget "validate" o in
      if py_truthy vd && negb (vfun (pv_str vd) claims value) then Some (EInvalid name) else
      None
  end.

(* validate_aud *)
Definition check_aud (opts claims : dictT) : option verr :=
  match dict_get "aud" opts with
  | None => None
  | Some o =>
      let aud := cget "aud" claims in
      if negb (py_truthy o) || negb (chas "aud" claims) then None else
      let vs := oget "values" o in
      let aud_values :=
        if py_truthy vs then pv_list vs
        else let v := oget "value" o in if py_truthy v then [v] else [] in
      match aud_values with
      | [] => None
      | _ =>
          let aud_list := match aud with PList l => l | _ => [aud] end in
          if existsb (fun v => py_in_list v aud_list) aud_values then None
          else Some (EInvalid "aud")
      end
  end.

Definition check_exp (claims : dictT) (now leeway : Z) : option verr :=
  match dict_get "exp" claims with
  | None => None
  | Some v => if negb (is_number v) then Some (EInvalid "exp")
              else if num_lt_int v (now - leeway) then Some EExpired else None
  end.
Definition check_nbf (claims : dictT) (now leeway : Z) : option verr :=
  match dict_get "nbf" claims with
  | None => None
  | Some v => if negb (is_number v) then Some (EInvalid "nbf")
              else if num_gt_int v (now + leeway) then Some (EInvalidToken "nbf") else None
  end.
Definition check_iat (claims : dictT) (now leeway : Z) : option verr :=
  match dict_get "iat" claims with
  | None => None
  | Some v => if negb (is_number v) then Some (EInvalid "iat")
              else if num_gt_int v (now + leeway) then Some (EInvalidToken "iat") else None
  end.

(* for key in self.options.keys(): if key not in REGISTERED_CLAIMS: _validate_claim_value(key) *)
Fixpoint private_loop (registered : list string) (opts : dictT) (ks : list string) (claims : dictT)
  : option verr :=
  match ks with
  | [] => None
  | k :: r =>
      if list_in_str k registered then private_loop registered opts r claims
      else match check_claim_value opts claims k with
           | Some e => Some e
           | None => private_loop registered opts r claims
           end
  end.

Definition JWT_REGISTERED := ["iss"; "sub"; "aud"; "exp"; "nbf"; "iat"; "jti"].

(* JWTClaims.validate(now, leeway) with the class's REGISTERED_CLAIMS *)
Definition jwt_validate_with (registered : list string) (opts claims : dictT) (now leeway : Z)
  : option verr :=
  first_err [ check_essential opts claims;
              check_claim_value opts claims "iss";
              check_claim_value opts claims "sub";
              check_aud opts claims;
              check_exp claims now leeway;
              check_nbf claims now leeway;
              check_iat claims now leeway;
              check_claim_value opts claims "jti";
              private_loop registered opts (map fst opts) claims ].

Definition jwt_validate := jwt_validate_with JWT_REGISTERED.

(* ---- OpenID Connect ID Token *)
Fixpoint check_present (ks : list string) (claims : dictT) : option verr :=
  match ks with
  | [] => None
  | k :: r => if chas k claims then check_present r claims else Some (EMissing k)
  end.

Definition check_auth_time (params claims : dictT) : option verr :=
  let auth_time := cget "auth_time" claims in
  if py_truthy (cget "max_age" params) && negb (py_truthy auth_time) then Some (EMissing "auth_time")
  else if py_truthy auth_time && negb (is_number auth_time) then Some (EInvalid "auth_time")
  else None.

Definition check_nonce (params claims : dictT) : option verr :=
  let nv := cget "nonce" params in
  if py_truthy nv then
    match dict_get "nonce" claims with
    | None => Some (EMissing "nonce")
    | Some v => if py_eq nv v then None else Some (EInvalid "nonce")
    end
  else None.

Definition check_amr (claims : dictT) : option verr :=
  let amr := cget "amr" claims in
  if py_truthy amr && negb (is_list amr) then Some (EInvalid "amr") else None.

Definition check_azp (params claims : dictT) : option verr :=
  let aud := cget "aud" claims in
  let client_id := cget "client_id" params in
  let required :=
    if py_truthy aud && py_truthy client_id then
      let aud' := match aud with PList [x] => x | _ => aud end in
      negb (py_eq aud' client_id)
    else false in
  let azp := cget "azp" claims in
  if required && negb (py_truthy azp) then Some (EMissing "azp")
  else if py_truthy azp && py_truthy client_id && negb (py_eq azp client_id) then Some (EInvalid "azp")
  else None.

(* _verify_hash(signature, s, alg) for text signatures *)
Definition verify_hash (sig s alg : string) : bool :=
  match half_hash s alg with
  | None => true
  | Some h => String.eqb h sig
  end.

Definition check_at_hash (hdr params claims : dictT) : option verr :=
  let access_token := cget "access_token" params in
  let at_hash := cget "at_hash" claims in
  if py_truthy at_hash && py_truthy access_token then
    if verify_hash (pv_str at_hash) (pv_str access_token) (pv_str (cget "alg" hdr)) then None
    else Some (EInvalid "at_hash")
  else None.

Definition check_at_hash_implicit (hdr params claims : dictT) : option verr :=
  if py_truthy (cget "access_token" params) && negb (chas "at_hash" claims)
  then Some (EMissing "at_hash") else check_at_hash hdr params claims.

Definition check_c_hash (hdr params claims : dictT) : option verr :=
  let code := cget "code" params in
  let c_hash := cget "c_hash" claims in
  if py_truthy code then
    if negb (py_truthy c_hash) then Some (EMissing "c_hash")
    else if verify_hash (pv_str c_hash) (pv_str code) (pv_str (cget "alg" hdr)) then None
    else Some (EInvalid "c_hash")
  else None.

Inductive idt_kind := KCode | KImplicit | KHybrid.

Definition idt_essential (k : idt_kind) : list string :=
  match k with
  | KCode => ["iss"; "sub"; "aud"; "exp"; "iat"]
  | _ => ["iss"; "sub"; "aud"; "exp"; "iat"; "nonce"]
  end.

Definition idtoken_validate (kind : idt_kind) (opts hdr params claims : dictT) (now leeway : Z)
  : option verr :=
  first_err [ check_present (idt_essential kind) claims;
              check_essential opts claims;
              check_claim_value opts claims "iss";
              check_claim_value opts claims "sub";
              check_aud opts claims;
              check_exp claims now leeway;
              check_nbf claims now leeway;
              check_iat claims now leeway;
              check_auth_time params claims;
              check_nonce params claims;
              check_claim_value opts claims "acr";
              check_amr claims;
              check_azp params claims;
              match kind with
              | KCode => check_at_hash hdr params claims
              | _ => check_at_hash_implicit hdr params claims
              end;
              match kind with
              | KHybrid => check_c_hash hdr params claims
              | _ => None
              end ].

(* ---- RFC 9068 JWT access token claims *)
Definition AT_REGISTERED := (JWT_REGISTERED ++
  ["client_id"; "auth_time"; "acr"; "amr"; "scope"; "groups"; "roles"; "entitlements"])%list.

Definition check_typ (hdr : dictT) : option verr :=
  let typ := cget "typ" hdr in
  if py_truthy typ then
    let t := lower (pv_str typ) in
    if String.eqb t "at+jwt" || String.eqb t "application/at+jwt" then None
    else Some (EInvalid "typ")
  else None.

Definition check_auth_time_at (claims : dictT) : option verr :=
  let auth_time := cget "auth_time" claims in
  if py_truthy auth_time && negb (is_number auth_time) then Some (EInvalid "auth_time") else None.

Definition at_validate (opts hdr claims : dictT) (now leeway : Z) : option verr :=
  first_err [ check_typ hdr;
              jwt_validate_with AT_REGISTERED opts claims now leeway;
              check_claim_value opts claims "client_id";
              check_auth_time_at claims;
              check_claim_value opts claims "acr";
              check_amr claims;
              check_claim_value opts claims "scope";
              check_claim_value opts claims "groups";
              check_claim_value opts claims "roles";
              check_claim_value opts claims "entitlements" ].
End V.
