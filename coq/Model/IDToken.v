(* C13: the provider side of OpenID Connect ID Tokens (oidc/core/grants/util.py:generate_id_token,
   oidc/core/util.py:create_half_hash, grants/{code,implicit,hybrid}.py: which of nonce / code / access token
   enter the token for each response type; validate_nonce and the integrator's nonce record), to be composed with
   the relying-party validation of Model/Claims.v (oidc/core/claims.py). *)
From Coq Require Import List NArith ZArith Bool Ascii String.
From Authlib Require Import Base.Bytes Base.Base64 Base.PyVal Model.Claims.
Import ListNotations.
Open Scope string_scope.
Open Scope list_scope.

Section G.
Variable sha : string -> string -> string.      (* hashlib.sha<bits>(message).digest(), bits as text *)

(* create_half_hash(s, alg): getattr(hashlib, "sha" + alg[2:]) *)
Definition hash_bits (alg : string) : string := str_drop 2 alg.
Definition known_hash (bits : string) : bool :=
  list_in_str bits ["1"; "224"; "256"; "384"; "512"; "3_224"; "3_256"; "3_384"; "3_512"].
Definition create_half_hash (s alg : string) : option string :=
  let b := hash_bits alg in
  if known_hash b then
    let d := sha b s in Some (b64url_encode (str_take (Nat.div (String.length d) 2) d))
  else None.

Definition otruthy (o : option string) : bool := match o with Some s => negb (String.eqb s "") | None => false end.
Definition oval (o : option string) : string := match o with Some s => s | None => "" end.

(* dict.update *)
Fixpoint dict_set (k : string) (v : pv) (d : dictT) : dictT :=
  match d with
  | [] => [(k, v)]
  | (k', v') :: r => if String.eqb k k' then (k, v) :: r else (k', v') :: dict_set k v r
  end.
Definition dict_update (d u : dictT) : dictT := fold_left (fun acc kv => dict_set (fst kv) (snd kv) acc) u d.

(* generate_id_token: the payload that is signed *)
Definition id_token_payload (iss : string) (aud : list string) (now exp_in : Z) (auth_time : option Z)
           (nonce code access_token : option string) (alg : string) (user_info : dictT) : dictT :=
  dict_update
    ([("iss", PStr iss); ("aud", PList (map PStr aud)); ("iat", PInt now); ("exp", PInt (now + exp_in));
      ("auth_time", PInt (match auth_time with Some t => t | None => now end))]
     ++ (if otruthy nonce then [("nonce", PStr (oval nonce))] else [])
     ++ (if otruthy code then [("c_hash", opt_pv PStr (create_half_hash (oval code) alg))] else [])
     ++ (if otruthy access_token then [("at_hash", opt_pv PStr (create_half_hash (oval access_token) alg))] else []))
    user_info.

(* which values each response type puts into the ID Token, and which claims class the relying party uses *)
Inductive rtype := RTCode | RTIdToken | RTIdTokenToken | RTCodeIdToken | RTCodeToken | RTCodeIdTokenToken.

(* RTCode and RTCodeToken: the ID Token of the token response (code flow); the others: of the authorization response *)
Definition rt_payload (rt : rtype) (iss client : string) (now exp_in : Z) (auth_time : option Z)
           (nonce : option string) (code access_token alg : string) (user_info : dictT) : dictT :=
  match rt with
  | RTCode | RTCodeToken =>
      id_token_payload iss [client] now exp_in auth_time nonce None (Some access_token) alg user_info
  | RTIdToken => id_token_payload iss [client] now exp_in None nonce None None alg user_info
  | RTIdTokenToken => id_token_payload iss [client] now exp_in None nonce None (Some access_token) alg user_info
  | RTCodeIdToken => id_token_payload iss [client] now exp_in None nonce (Some code) None alg user_info
  | RTCodeIdTokenToken => id_token_payload iss [client] now exp_in None nonce (Some code) (Some access_token) alg user_info
  end.

Definition rt_kind (rt : rtype) : idt_kind :=
  match rt with
  | RTCode | RTCodeToken => KCode
  | RTIdToken | RTIdTokenToken => KImplicit
  | _ => KHybrid
  end.

(* what the relying party knows when it validates: its expected nonce, its client id, the access token and code it
   received next to the ID Token *)
Definition rp_params (rt : rtype) (nonce : option string) (client code access_token : string) : dictT :=
  [("nonce", opt_pv PStr nonce); ("client_id", PStr client)]
  ++ (match rt with RTCode | RTCodeToken | RTIdTokenToken | RTCodeIdTokenToken => [("access_token", PStr access_token)] | _ => [] end)
  ++ (match rt with RTCodeIdToken | RTCodeIdTokenToken => [("code", PStr code)] | _ => [] end).

Definition rp_opts (iss : string) : dictT := [("iss", PDict [("values", PList [PStr iss])])].
End G.

(* ---------- nonce requirement and replay at the authorization endpoint ---------- *)
(* the provider's record of (client, nonce) pairs it has issued a code or an ID Token for *)
Record nst := { n_used : list (string * string) }.
Inductive nout := NIssued | NRefused (why : string).

Definition pair_in (c n : string) (l : list (string * string)) : bool :=
  existsb (fun p => String.eqb (fst p) c && String.eqb (snd p) n) l.

(* validate_nonce(request, exists_nonce, required) followed, on approval, by the integrator recording the nonce *)
Definition nonce_step (s : nst) (client : string) (nonce : option string) (required : bool) : nst * nout :=
  if negb (otruthy nonce) then
    if required then (s, NRefused "missing_nonce") else (s, NIssued)
  else if pair_in client (oval nonce) (n_used s) then (s, NRefused "replay")
  else ({| n_used := (client, oval nonce) :: n_used s |}, NIssued).

Definition nonce_required (rt : rtype) (code_requires : bool) : bool :=
  match rt with RTCode => code_requires | _ => true end.
