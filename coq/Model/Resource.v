(* C10: executable model of the protected-resource decision
   (oauth2/rfc6749/resource_protector.py, rfc6750/validator.py,
   rfc6749/util.py:scope_to_list, rfc9068/token_validator.py). *)
From Coq Require Import List NArith ZArith Bool Ascii String.
From Authlib Require Import Base.Bytes Base.PyVal Model.Claims.
Import ListNotations.
Open Scope string_scope.

(* str.split(None, 1): at most two parts; the rest keeps its trailing blanks *)
Fixpoint take_word (s : string) : string * string :=
  match s with
  | EmptyString => ("", "")
  | String c r => if is_ws c then ("", s)
                  else let '(w, rest) := take_word r in (String c w, rest)
  end.

Definition split_max1 (s : string) : list string :=
  let s1 := lstrip_ws s in
  match s1 with
  | EmptyString => []
  | _ => let '(w, rest) := take_word s1 in
         match lstrip_ws rest with
         | EmptyString => [w]
         | r => [w; r]
         end
  end.

(* scope_to_list on a token scope: None | str | list of str *)
Definition scope_to_list (v : pv) : option (list string) :=
  match v with
  | PNone => None
  | PStr s => Some (split_ws s)
  | PList l => Some (map pv_str l)
  | _ => Some []
  end.

Fixpoint subset_strs (a b : list string) : bool :=
  match a with [] => true | x :: r => list_in_str x b && subset_strs r b end.

(* TokenValidator.scope_insufficient(token_scopes, required_scopes) *)
Definition scope_insufficient (token_scopes : pv) (required : list string) : bool :=
  match required with
  | [] => false
  | _ =>
      match scope_to_list token_scopes with
      | None | Some [] => true
      | Some ts => negb (existsb (fun r => subset_strs (split_ws r) ts) required)
      end
  end.

(* the integrations wrap a str into a one-element list; None means no requirement *)
Definition norm_required (spec : pv) : list string :=
  match spec with
  | PStr s => [s]
  | PList l => map pv_str l
  | _ => []
  end.

Record tok := { t_expired : bool; t_revoked : bool; t_scope : pv }.

Inductive outcome :=
| Serve (token_string : string)
| Refuse (status : N) (code : string)
| Escapes (cls : string).

Definition store := list (string * tok).
Fixpoint lookup (k : string) (s : store) : option tok :=
  match s with
  | [] => None
  | (k', t) :: r => if String.eqb k k' then Some t else lookup k r
  end.

(* ResourceProtector.validate_request with registered token types [types]
   (lower-case) and BearerTokenValidator over [st] *)
Definition validate_request (types : list string) (st : store)
           (auth : option string) (required : list string) : outcome :=
  match auth with
  | None | Some EmptyString => Refuse 401 "missing_authorization"
  | Some a =>
      match split_max1 a with
      | [ty; ts] =>
          if negb (list_in_str (lower ty) types) then Refuse 401 "unsupported_token_type"
          else
            match lookup ts st with
            | None => Refuse 401 "invalid_token"
            | Some t =>
                if t_expired t then Refuse 401 "invalid_token"
                else if t_revoked t then Refuse 401 "invalid_token"
                else if scope_insufficient (t_scope t) required then Refuse 403 "insufficient_scope"
                else Serve ts
            end
      | _ => Refuse 401 "unsupported_token_type"
      end
  end.

(* ---- RFC 9068 JWTBearerTokenValidator *)
Inductive sigres :=
| SigOk (hdr claims : dictT)   (* jwt.decode verified the signature and returned these *)
| SigMalformed                 (* DecodeError *)
| SigBad                       (* BadSignatureError and other JoseError *)
| SigKeyError.                 (* ValueError: unknown kid / key set problems *)

Definition at_options (resource_server : string) : dictT :=
  [ ("iss", PDict [("essential", PBool true); ("validate", PStr "validate_iss")]);
    ("exp", PDict [("essential", PBool true)]);
    ("aud", PDict [("essential", PBool true); ("value", PStr resource_server)]);
    ("sub", PDict [("essential", PBool true)]);
    ("client_id", PDict [("essential", PBool true)]);
    ("iat", PDict [("essential", PBool true)]);
    ("jti", PDict [("essential", PBool true)]);
    ("auth_time", PDict [("essential", PBool false)]);
    ("acr", PDict [("essential", PBool false)]);
    ("amr", PDict [("essential", PBool false)]);
    ("scope", PDict [("essential", PBool false)]);
    ("groups", PDict [("essential", PBool false)]);
    ("roles", PDict [("essential", PBool false)]);
    ("entitlements", PDict [("essential", PBool false)]) ].

Definition iss_vfun (issuer : string) (name : string) (_ : dictT) (v : pv) : bool :=
  py_eq v (PStr issuer).

Definition cget_or (k : string) (c : dictT) (dflt : pv) : pv :=
  match dict_get k c with Some v => v | None => dflt end.

(* authenticate_token + validate_token; [catch_all] = true after the fix
   (JoseError and ValueError are answered with 401 invalid_token) *)
Definition at_validate_request (issuer resource_server : string) (sig : sigres) (now : Z)
           (scopes groups roles entitlements : list string) : outcome :=
  match sig with
  | SigMalformed => Refuse 401 "invalid_token"
  | SigBad => Refuse 401 "invalid_token"
  | SigKeyError => Refuse 401 "invalid_token"
  | SigOk hdr claims =>
      match at_validate (iss_vfun issuer) (at_options resource_server) hdr claims now 0 with
      | Some _ => Refuse 401 "invalid_token"
      | None =>
          if scope_insufficient (cget_or "scope" claims (PList [])) scopes
          then Refuse 403 "insufficient_scope"
          else if scope_insufficient (cget "groups" claims) groups then Refuse 401 "invalid_token"
          else if scope_insufficient (cget "roles" claims) roles then Refuse 401 "invalid_token"
          else if scope_insufficient (cget "entitlements" claims) entitlements then Refuse 401 "invalid_token"
          else Serve ""
      end
  end.
