(* C08: which scope reaches the token, per grant and token generator
   (oauth2/rfc6749/authorization_server.py:validate_requested_scope,
   rfc6750/token.py, rfc7523/token.py, rfc9068/token.py, the grants'
   create_token_response, grants/refresh_token.py, sqla client_mixin). *)
From Coq Require Import List NArith ZArith Bool Ascii String.
From Authlib Require Import Base.Bytes Base.PyVal Model.Resource.
Import ListNotations.
Open Scope string_scope.

Definition truthy_s (o : option string) : bool :=
  match o with Some s => negb (String.eqb s "") | None => false end.

(* AuthorizationServer.validate_requested_scope: true = accepted *)
Definition validate_requested_scope (supported : list string) (scope : option string) : bool :=
  match scope, supported with
  | Some s, _ :: _ => if String.eqb s "" then true else subset_strs (split_ws s) supported
  | _, _ => true
  end.

(* sqla_oauth2 OAuth2ClientMixin.get_allowed_scope *)
Definition client_allowed_scope (client_scope : string) (scope : string) : string :=
  if String.eqb scope "" then ""
  else join " " (filter (fun s => list_in_str s (split_ws client_scope)) (split_ws scope)).

(* BearerTokenGenerator.get_allowed_scope(client, scope) *)
Definition gen_allowed (client_scope : string) (scope : option string) : option string :=
  if truthy_s scope then option_map (client_allowed_scope client_scope) scope else scope.

Inductive generator := GenBearer | GenJwt7523 | GenJwt9068.

(* (scope member of the response, scope claim embedded in a JWT access token) *)
Definition generate (g : generator) (client_scope : string) (scope : option string)
  : option string * option string :=
  let filtered := gen_allowed client_scope scope in
  let resp := if truthy_s filtered then filtered else None in
  match g with
  | GenBearer => (resp, None)
  | GenJwt7523 => (resp, Some (match filtered with Some s => s | None => "" end))
  | GenJwt9068 => (resp, Some (match filtered with Some s => s | None => "" end))
  end.

Inductive grant := GCode | GImplicit | GPassword | GClientCredentials | GRefresh | GDevice | GJwtBearer.

Inductive issue_result :=
| Issued (response_scope embedded_scope : option string)
| InvalidScope.

(* RefreshTokenGrant._validate_token_scope: true = accepted *)
Definition refresh_scope_ok (requested original : option string) : bool :=
  if negb (truthy_s requested) then true
  else if negb (truthy_s original) then false
  else match requested, original with
       | Some r, Some o => subset_strs (split_ws r) (split_ws o)
       | _, _ => false
       end.

(* the scope handed to generate_token by each grant, after its validation.
   Code and device grants validate at the authorization step and replay the
   stored scope at the token step. *)
Definition issue (gr : grant) (g : generator) (supported : list string) (client_scope : string)
           (requested original : option string) : issue_result :=
  match gr with
  | GRefresh =>
      if refresh_scope_ok requested original then
        let sc := if truthy_s requested then requested else original in
        let '(r, e) := generate g client_scope sc in Issued r e
      else InvalidScope
  | _ =>
      if validate_requested_scope supported requested then
        let '(r, e) := generate g client_scope requested in Issued r e
      else InvalidScope
  end.

Definition scopes_of (o : option string) : list string :=
  match o with Some s => split_ws s | None => [] end.
