(* C01: JWS compact, flattened-JSON and general-JSON serialization and verification
   (jose/rfc7515/jws.py, models.py, jose/util.py, common/encoding.py).
   JSON text <-> value conversion, key preparation, signing and verification are parameters of the model: what is
   modelled is which octets are signed, how segments are split and decoded, which header decides the algorithm, the
   order of the checks and what is returned. *)
From Coq Require Import List NArith ZArith Bool Ascii String.
From Authlib Require Import Base.Bytes Base.Base64 Base.PyVal Model.KeyPolicy.
Import ListNotations.
Open Scope string_scope.
Open Scope list_scope.

Definition hdict := list (string * pv).

Inductive jerr :=
| JDecode (why : string)            (* DecodeError *)
| JMissingAlg                       (* MissingAlgorithmError *)
| JUnsupportedAlg                   (* UnsupportedAlgorithmError *)
| JBadSignature                     (* BadSignatureError *)
| JKeyError (why : string)          (* the algorithm's prepare_key / sign refused the key *)
| JHeaderName (k : string).         (* InvalidHeaderParameterNameError *)

Inductive jres (A : Type) := JOk (a : A) | JErr (e : jerr).
Arguments JOk {A} a.
Arguments JErr {A} e.

(* the last "." of a string: s.rsplit(b".", 1) *)
Fixpoint rsplit_dot (s : string) : option (string * string) :=
  match s with
  | EmptyString => None
  | String c r =>
      match rsplit_dot r with
      | Some (a, b) => Some (String c a, b)
      | None => if Ascii.eqb c "." then Some (EmptyString, r) else None
      end
  end.

Section J.
Variable json_dumps : hdict -> string.                 (* json.dumps(obj, separators=(",", ":")) as UTF-8 *)
Variable json_loads : string -> option pv.             (* None: not UTF-8 / not JSON *)
Variable registered : string -> bool.                  (* ALGORITHMS_REGISTRY *)
Variable prepare_key : string -> pv -> option pv.      (* algorithm.prepare_key(raw); None: refused *)
Variable sign : string -> pv -> string -> option string.
Variable verify : string -> pv -> string -> string -> bool.

Definition REGISTERED_HEADER_NAMES :=
  ["alg"; "jku"; "jwk"; "kid"; "x5u"; "x5c"; "x5t"; "x5t#S256"; "typ"; "cty"; "crit"].

(* JWSHeader(protected, header): dict(protected) updated with header *)
Fixpoint hset (k : string) (v : pv) (d : hdict) : hdict :=
  match d with
  | [] => [(k, v)]
  | (k', v') :: r => if String.eqb k k' then (k, v) :: r else (k', v') :: hset k v r
  end.
Definition hmerge (protected header : hdict) : hdict := fold_left (fun acc kv => hset (fst kv) (snd kv) acc) header protected.

Definition validate_private_headers (private : option (list string)) (h : hdict) : option jerr :=
  match private with
  | None => None
  | Some names =>
      match filter (fun kv => negb (list_in_str (fst kv) (REGISTERED_HEADER_NAMES ++ names))) h with
      | [] => None
      | (k, _) :: _ => Some (JHeaderName k)
      end
  end.

(* the key that is prepared.  The caller's key argument is a value, or a callable, written [PList [r]] with r what the
   callable returns for this header and payload: a callable's result is used whatever it is (None included); only when the
   caller passes no key at all is the header's own "jwk" member used *)
Definition effective_key (h : hdict) (rawkey : pv) : pv :=
  match rawkey with
  | PList [r] => r
  | PNone => match dict_get "jwk" h with Some j => j | None => PNone end
  | _ => rawkey
  end.

(* _prepare_algorithm_key: the algorithm named by the (merged) header, allow-list, registry, key *)
Definition prepare (allow : option (list string)) (h : hdict) (rawkey : pv) : jres (string * pv) :=
  match dict_get "alg" h with
  | None => JErr JMissingAlg
  | Some a =>
      match a with
      | PStr alg =>
          if (match allow with Some l => negb (list_in_str alg l) | None => false end) then JErr JUnsupportedAlg
          else if negb (registered alg) then JErr JUnsupportedAlg
          else
            match prepare_key alg (effective_key h rawkey) with
            | Some k => JOk (alg, k)
            | None => JErr (JKeyError "prepare_key")
            end
      | _ => JErr JUnsupportedAlg       (* a non-string alg is in no allow-list and not in the registry *)
      end
  end.

Definition signing_input (protected_segment payload_segment : string) : string :=
  (protected_segment ++ "." ++ payload_segment)%string.

(* ---------- compact ---------- *)
Definition serialize_compact (allow : option (list string)) (private : option (list string))
           (protected : hdict) (payload : string) (rawkey : pv) : jres string :=
  match validate_private_headers private protected with
  | Some e => JErr e
  | None =>
      match prepare allow protected rawkey with
      | JErr e => JErr e
      | JOk (alg, k) =>
          let ps := b64url_encode (json_dumps protected) in
          let pl := b64url_encode payload in
          match sign alg k (signing_input ps pl) with
          | Some sg => JOk (signing_input ps pl ++ "." ++ b64url_encode sg)%string
          | None => JErr (JKeyError "sign")
          end
      end
  end.

Definition extract_header (seg : string) : jres hdict :=
  match urlsafe_b64decode seg with
  | None => JErr (JDecode "header padding")
  | Some data =>
      match json_loads data with
      | Some (PDict d) => JOk d
      | Some _ => JErr (JDecode "header object")
      | None => JErr (JDecode "header json")
      end
  end.

Definition extract_segment (seg what : string) : jres string :=
  match urlsafe_b64decode seg with Some d => JOk d | None => JErr (JDecode what) end.

Definition crit_check (private : option (list string)) (h : hdict) : option jerr :=
  match validate_crit (match private with Some l => l | None => [] end) h with
  | Some k => Some (JHeaderName k)
  | None => None
  end.

Definition deserialize_compact (allow private : option (list string)) (s : string) (rawkey : pv) : jres (hdict * string) :=
  match rsplit_dot s with
  | None => JErr (JDecode "segments")
  | Some (sinput, sigseg) =>
      match split_first "." sinput with
      | (_, None) => JErr (JDecode "segments")
      | (pseg, Some plseg) =>
          match extract_header pseg with
          | JErr e => JErr e
          | JOk h =>
              match crit_check private h with
              | Some e => JErr e
              | None =>
              match extract_segment plseg "payload" with
              | JErr e => JErr e
              | JOk payload =>
                  match extract_segment sigseg "signature" with
                  | JErr e => JErr e
                  | JOk sg =>
                      match prepare allow h rawkey with
                      | JErr e => JErr e
                      | JOk (alg, k) =>
                          if verify alg k sinput sg then JOk (h, payload) else JErr JBadSignature
                      end
                  end
              end
              end
          end
      end
  end.

(* ---------- JSON ---------- *)
Record sigobj := { so_protected : option string;      (* the "protected" member when it is a string *)
                   so_signature : option string;
                   so_header : pv }.                   (* the "header" member, PNone if absent *)

Definition otruthy (o : option string) : bool := match o with Some s => negb (String.eqb s "") | None => false end.
Definition oval (o : option string) : string := match o with Some s => s | None => "" end.

(* _validate_json_jws: Ok (merged header, valid?) *)
Definition validate_json_jws (allow private : option (list string)) (payload_segment : string) (o : sigobj) (rawkey : pv)
  : jres (hdict * bool) :=
  if negb (otruthy (so_protected o)) then JErr (JDecode "missing protected")
  else if negb (otruthy (so_signature o)) then JErr (JDecode "missing signature")
  else match extract_header (oval (so_protected o)) with
  | JErr e => JErr e
  | JOk protected =>
      match crit_check private protected with
      | Some e => JErr e
      | None =>
      if py_truthy (so_header o) && negb (match so_header o with PDict _ => true | _ => false end)
      then JErr (JDecode "invalid header")
      else
        let unprot := match so_header o with PDict d => d | _ => [] end in
        let h := hmerge protected unprot in
        match prepare allow h rawkey with
        | JErr e => JErr e
        | JOk (alg, k) =>
            match extract_segment (oval (so_signature o)) "signature" with
            | JErr e => JErr e
            | JOk sg => JOk (h, verify alg k (signing_input (oval (so_protected o)) payload_segment) sg)
            end
        end
      end
  end.

(* deserialize_json on {"payload": .., "signatures": [...]} (general) or a single signature object (flattened):
   every signature is checked; any invalid one makes the whole object invalid *)
Fixpoint validate_all (allow private : option (list string)) (payload_segment : string) (l : list sigobj) (rawkey : pv)
  : jres (list hdict * bool) :=
  match l with
  | [] => JOk ([], true)
  | o :: r =>
      match validate_json_jws allow private payload_segment o rawkey with
      | JErr e => JErr e
      | JOk (h, v) =>
          match validate_all allow private payload_segment r rawkey with
          | JErr e => JErr e
          | JOk (hs, vs) => JOk (h :: hs, v && vs)
          end
      end
  end.

Definition deserialize_json (allow private : option (list string)) (payload_segment : option string) (general : bool)
           (sigs : list sigobj) (rawkey : pv) : jres (list hdict * string) :=
  match payload_segment with
  | None => JErr (JDecode "missing payload")
  | Some plseg =>
      match extract_segment plseg "payload" with
      | JErr e => JErr e
      | JOk payload =>
          match validate_all allow private plseg sigs rawkey with
          | JErr e => JErr e
          | JOk (hs, true) => JOk (hs, payload)
          | JOk (_, false) => JErr JBadSignature
          end
      end
  end.

(* serialize_json: one signature object per header {protected, header} *)
Definition sign_json (allow private : option (list string)) (payload_segment : string) (protected : hdict) (unprot : pv)
           (rawkey : pv) : jres sigobj :=
  let h := hmerge protected (match unprot with PDict d => d | _ => [] end) in
  match validate_private_headers private h with
  | Some e => JErr e
  | None =>
      match prepare allow h rawkey with
      | JErr e => JErr e
      | JOk (alg, k) =>
          let ps := b64url_encode (json_dumps protected) in
          match sign alg k (signing_input ps payload_segment) with
          | Some sg => JOk {| so_protected := Some ps; so_signature := Some (b64url_encode sg); so_header := unprot |}
          | None => JErr (JKeyError "sign")
          end
      end
  end.

Fixpoint sign_all (allow private : option (list string)) (payload_segment : string) (hs : list (hdict * pv)) (rawkey : pv)
  : jres (list sigobj) :=
  match hs with
  | [] => JOk []
  | (p, u) :: r =>
      match sign_json allow private payload_segment p u rawkey with
      | JErr e => JErr e
      | JOk o => match sign_all allow private payload_segment r rawkey with
                 | JErr e => JErr e
                 | JOk os => JOk (o :: os)
                 end
      end
  end.
End J.
