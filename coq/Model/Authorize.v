(* C05: the authorization endpoint decision
   (oauth2/rfc6749/authorization_server.py:create_authorization_response,
   grants/authorization_code.py, grants/implicit.py, grants/base.py,
   oidc/core/grants/{implicit,hybrid,code,util}.py, oauth2/base.py:OAuth2Error.__call__). *)
From Coq Require Import List NArith ZArith Bool Ascii String.
From Authlib Require Import Base.Bytes Base.Form Base.PyVal Model.JWK Model.Resource Model.Scope Model.Wire.
Import ListNotations.
Open Scope string_scope.
Open Scope list_scope.

Record oclient := {
  oc_id : string;
  oc_redirects : list string;
  oc_response_types : list string;
  oc_auth_method : string;
  oc_scope : string
}.

Record acfg := {
  a_clients : list oclient;
  a_scopes_supported : list string;
  a_used_nonces : list (string * string);   (* (client_id, nonce) already used *)
  a_require_nonce : bool                    (* OpenIDCode(require_nonce) *)
}.

Fixpoint find_oclient (cs : list oclient) (id : string) : option oclient :=
  match cs with
  | [] => None
  | c :: r => if String.eqb (oc_id c) id then Some c else find_oclient r id
  end.

(* request.data: query then form, later values win *)
Definition rdata (query form : list pair_s) : list pair_s := dict_of_pairs (query ++ form) [].
Definition dget (k : string) (d : list pair_s) : option string := lookup_pair k d.
Definition dtruthy (o : option string) : bool := match o with Some s => negb (String.eqb s "") | None => false end.

(* OAuth2Request.response_type: sorted when it contains a space *)
Definition response_type_of (d : list pair_s) : option string :=
  match dget "response_type" d with
  | Some rt => if dtruthy (Some rt) && str_in " " rt then Some (join " " (sort_strs (split_ws rt))) else Some rt
  | None => None
  end.

Inductive aresp :=
| ALocal (status : N) (error : string)
| ARedirect (target : string) (params : list pair_s) (fragment : bool)
| AFormPost (target : string) (params : list pair_s).

Definition with_state (d : list pair_s) (ps : list pair_s) : list pair_s :=
  match dget "state" d with
  | Some s => if String.eqb s "" then ps else ps ++ [("state", s)]
  | None => ps
  end.

(* an OAuth2Error carrying redirect_uri: error + state (error_description elided) *)
Definition err_redirect (d : list pair_s) (target code : string) (fragment : bool) : aresp :=
  ARedirect target (with_state d [("error", code)]) fragment.

(* AuthorizationEndpointMixin.validate_authorization_redirect_uri *)
Definition valid_target (c : oclient) (d : list pair_s) : option string :=
  match dget "redirect_uri" d with
  | Some u => if String.eqb u "" then hd_error (oc_redirects c)
              else if list_in_str u (oc_redirects c) then Some u else None
  | None => hd_error (oc_redirects c)
  end.

Definition is_openid_scope (d : list pair_s) : bool :=
  match dget "scope" d with Some s => list_in_str "openid" (split_ws s) | None => false end.

Definition scope_supported (cfg : acfg) (d : list pair_s) : bool :=
  validate_requested_scope (a_scopes_supported cfg) (dget "scope" d).

Inductive nonce_res := NonceOk | NonceMissing | NonceReplay.
Definition check_nonce (cfg : acfg) (cid : string) (d : list pair_s) (required : bool) : nonce_res :=
  match dget "nonce" d with
  | Some n => if String.eqb n "" then (if required then NonceMissing else NonceOk)
              else if existsb (fun p => String.eqb (fst p) cid && String.eqb (snd p) n) (a_used_nonces cfg)
              then NonceReplay else NonceOk
  | None => if required then NonceMissing else NonceOk
  end.

Inductive vres := VOk (c : oclient) (target : string) | VResp (r : aresp).

(* validate_code_authorization_request, with the nonce hook of the flow *)
Definition validate_code_request (cfg : acfg) (d : list pair_s) (rt : string)
           (nonce_hook : bool) (nonce_required : bool) : vres :=
  match dget "client_id" d with
  | None => VResp (ALocal 400 "invalid_client")
  | Some cid =>
      match find_oclient (a_clients cfg) cid with
      | None => VResp (ALocal 400 "invalid_client")
      | Some c =>
          match valid_target c d with
          | None => VResp (ALocal 400 "invalid_request")
          | Some t =>
              if negb (list_in_str rt (oc_response_types c)) then VResp (err_redirect d t "unauthorized_client" false)
              else if negb (scope_supported cfg d) then VResp (err_redirect d t "invalid_scope" false)
              else if nonce_hook then
                match check_nonce cfg cid d nonce_required with
                | NonceOk => VOk c t
                | _ => VResp (err_redirect d t "invalid_request" false)
                end
              else VOk c t
          end
      end
  end.

(* ImplicitGrant.validate_authorization_request *)
Definition validate_implicit_request (cfg : acfg) (d : list pair_s) (rt : string) : vres :=
  if dtruthy (dget "client_id" d) && negb (dtruthy (dget "client_secret" d)) then
    match find_oclient (a_clients cfg) (match dget "client_id" d with Some s => s | None => "" end) with
    | None => VResp (ALocal 400 "invalid_client")
    | Some c =>
        if negb (String.eqb (oc_auth_method c) "none") then VResp (ALocal 400 "invalid_client") else
        match valid_target c d with
        | None => VResp (ALocal 400 "invalid_request")
        | Some t =>
            if negb (list_in_str rt (oc_response_types c)) then VResp (err_redirect d t "unauthorized_client" true)
            else if negb (scope_supported cfg d) then VResp (err_redirect d t "invalid_scope" true)
            else VOk c t
        end
    end
  else VResp (ALocal 400 "invalid_client").

(* the scope member of an issued bearer token for this client *)
Definition granted_scope (c : oclient) (d : list pair_s) : option string :=
  fst (generate GenBearer (oc_scope c) (dget "scope" d)).

Definition token_params (c : oclient) (d : list pair_s) : list pair_s :=
  [("token_type", "Bearer"); ("access_token", "*"); ("expires_in", "*")]
    ++ match granted_scope c d with Some s => [("scope", s)] | None => [] end.

(* create_response_mode_response *)
Definition mode_response (d : list pair_s) (target : string) (params : list pair_s) : aresp :=
  match dget "response_mode" d with
  | None => ARedirect target params true
  | Some m =>
      if String.eqb m "form_post" then AFormPost target params
      else if String.eqb m "query" then ARedirect target params false
      else if String.eqb m "fragment" then ARedirect target params true
      else ALocal 400 "invalid_request"
  end.

Definition respond (cfg : acfg) (query form : list pair_s) (approve : bool) : aresp :=
  let d := rdata query form in
  match response_type_of d with
  | None => ALocal 400 "unsupported_response_type"
  | Some rt =>
      if String.eqb rt "code" then
        match validate_code_request cfg d rt (is_openid_scope d) (a_require_nonce cfg) with
        | VResp r => r
        | VOk c t =>
            if approve then ARedirect t (with_state d [("code", "*")]) false
            else err_redirect d t "access_denied" false
        end
      else if String.eqb rt "token" then
        match validate_implicit_request cfg d rt with
        | VResp r => r
        | VOk c t =>
            if approve then ARedirect t (with_state d (token_params c d)) true
            else err_redirect d t "access_denied" true
        end
      else if String.eqb rt "id_token" || String.eqb rt "id_token token" then
        match validate_implicit_request cfg d rt with
        | VResp r => r
        | VOk c t =>
            if negb (is_openid_scope d) then err_redirect d t "invalid_scope" true else
            match check_nonce cfg (oc_id c) d true with
            | NonceOk =>
                if approve then
                  let ps := if String.eqb rt "id_token"
                            then [("expires_in", "*")] ++ match granted_scope c d with Some s => [("scope", s)] | None => [] end
                                 ++ [("id_token", "*")]
                            else token_params c d ++ [("id_token", "*")] in
                  mode_response d t (with_state d ps)
                else mode_response d t (with_state d [("error", "access_denied")])
            | _ => err_redirect d t "invalid_request" true
            end
        end
      else if String.eqb rt "code id_token" || String.eqb rt "code token" || String.eqb rt "code id_token token" then
        match validate_code_request cfg d rt true true with
        | VResp r => r
        | VOk c t =>
            if negb (is_openid_scope d) then err_redirect d t "invalid_scope" true else
            if approve then
              let tail :=
                if String.eqb rt "code token" then token_params c d
                else if String.eqb rt "code id_token token" then token_params c d ++ [("id_token", "*")]
                else [("expires_in", "*")] ++ match granted_scope c d with Some s => [("scope", s)] | None => [] end
                     ++ [("id_token", "*")] in
              mode_response d t (with_state d ([("code", "*")] ++ tail))
            else mode_response d t (with_state d [("error", "access_denied")])
        end
      else ALocal 400 "unsupported_response_type"
  end.

(* the targets the identified, existing client has registered for this request *)
Definition registered_target (cfg : acfg) (query form : list pair_s) (t : string) : Prop :=
  let d := rdata query form in
  exists cid c, dget "client_id" d = Some cid /\ find_oclient (a_clients cfg) cid = Some c /\
                valid_target c d = Some t.
