(* C11: OAuth 1.0 signature base string and signatures
   (oauth1/rfc5849/signature.py, util.py, parameters.py, wrapper.py). *)
From Coq Require Import List NArith ZArith Bool Ascii String.
From Authlib Require Import Base.Bytes Base.Base64 Base.Percent Base.Form Base.Url.
Import ListNotations.
Open Scope string_scope.

(* util.escape = quote(s, safe=b"~"), util.unescape = unquote *)
Definition escape (s : string) : string := quote "" s.
Definition unescape (s : string) : string := unquote s.

(* tuple ordering of (key, value): byte-lexicographic on the key, then on the value *)
Definition pair_leb (a b : pair_s) : bool :=
  match String.compare (fst a) (fst b) with
  | Lt => true
  | Gt => false
  | Eq => String.leb (snd a) (snd b)
  end.

Fixpoint insert_pair (x : pair_s) (l : list pair_s) : list pair_s :=
  match l with
  | [] => [x]
  | y :: r => if pair_leb x y then x :: l else y :: insert_pair x r
  end.
Definition sort_pairs (l : list pair_s) : list pair_s := fold_right insert_pair [] l.

(* normalize_parameters *)
Definition normalize_parameters (params : list pair_s) : string :=
  join "&" (map (fun kv => fst kv ++ "=" ++ snd kv)
                (sort_pairs (map (fun kv => (escape (fst kv), escape (snd kv))) params))).

(* RFC 5849 section 3.4.1.2: the port is dropped when, and only when, it is the scheme's default; nothing else of the authority changes *)
Definition base_netloc (scheme netloc : string) : string :=
  match split_first ":" netloc with
  | (h, Some port) =>
      if (String.eqb scheme "http" && String.eqb port "80") || (String.eqb scheme "https" && String.eqb port "443")
      then h else netloc
  | (_, None) => netloc
  end.

(* normalize_base_string_uri(uri, host): None = ValueError *)
Definition normalize_base_string_uri (uri : string) (host : option string) : option string :=
  let p := urlparse uri in
  if String.eqb (u_scheme p) "" || String.eqb (u_netloc p) "" then None else
  let path := if String.eqb (u_path p) "" then "/" else u_path p in
  let scheme := lower (u_scheme p) in
  let netloc := match host with Some h => lower h | None => lower (u_netloc p) end in
  let netloc := base_netloc scheme netloc in
  Some (urlunparse {| u_scheme := scheme; u_netloc := netloc; u_path := path; u_params := u_params p;
                      u_query := ""; u_fragment := "" |}).

Definition sig_excluded (k : string) : bool := String.eqb k "oauth_signature" || String.eqb k "realm".

(* construct_base_string(method, uri, params, host) *)
Definition construct_base_string (method uri : string) (params : list pair_s) (host : option string)
  : option string :=
  match normalize_base_string_uri uri host with
  | None => None
  | Some base_uri =>
      let ps := filter (fun kv => negb (sig_excluded (fst kv))) params in
      Some (escape (upper method) ++ "&" ++ escape base_uri ++ "&" ++ escape (normalize_parameters ps))
  end.

Definition signing_key (client_secret token_secret : string) : string :=
  escape client_secret ++ "&" ++ escape token_secret.

Section Sig.
Variable hmac_sha1 : string -> string -> string.   (* key, message -> 20 octets *)

Definition hmac_sha1_signature (base client_secret token_secret : string) : string :=
  b64std_encode (hmac_sha1 (signing_key client_secret token_secret) base).
Definition plaintext_signature (client_secret token_secret : string) : string :=
  signing_key client_secret token_secret.

Definition verify_hmac_sha1 (base client_secret token_secret signature : string) : bool :=
  String.eqb (hmac_sha1_signature base client_secret token_secret) signature.
End Sig.

(* ---- rendering / parsing of the three placements *)
Definition is_oauth (k : string) : bool := starts_with "oauth_" k.

(* prepare_headers *)
Definition render_header (oauth_params : list pair_s) (realm : option string) : string :=
  let body := join ", " (map (fun kv => escape (fst kv) ++ "=""" ++ escape (snd kv) ++ """")
                             (filter (fun kv => is_oauth (fst kv)) oauth_params)) in
  "OAuth " ++ match realm with
              | Some r => if String.eqb r "" then body else "realm=""" ++ r ++ """, " ++ body
              | None => body
              end.

(* _append_params: stable sort putting oauth_ parameters last *)
Definition append_params (oauth_params params : list pair_s) : list pair_s :=
  let merged := (params ++ oauth_params)%list in
  (filter (fun kv => negb (is_oauth (fst kv))) merged ++ filter (fun kv => is_oauth (fst kv)) merged)%list.

Definition render_body (oauth_params body_params : list pair_s) : string :=
  urlencode (append_params oauth_params body_params).
