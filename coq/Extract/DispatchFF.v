(* C19 entry of the correspondence dispatcher. *)
From Coq Require Import List NArith ZArith Bool Ascii String.
From Authlib Require Import Base.Bytes Base.PyVal Model.FaultFlow.
Import ListNotations.
Open Scope string_scope.

Definition ff_nat (v : pv) : nat := Z.to_nat (pv_int v).
Definition ff_pv_nat (n : nat) : pv := PInt (Z.of_nat n).
Definition ff_onat (o : option nat) : pv := opt_pv ff_pv_nat o.
Definition ff_ostr (o : option string) : pv := opt_pv PStr o.

Definition tref_of (v : pv) : tref :=
  match v with
  | PList [PStr k; n] => if String.eqb k "access" then TAccess (ff_nat n)
                         else if String.eqb k "refresh" then TRefresh (ff_nat n) else TUnknown
  | _ => TUnknown
  end.

Definition freq_of (v : pv) : freq :=
  {| q_kind := arg_s "kind" v; q_client := arg_s "client" v; q_bad_secret := arg_b "bad_secret" v;
     q_user := arg_opt_s "user" v; q_flag := arg_b "flag" v; q_ref := ff_nat (arg "ref" v);
     q_tref := tref_of (arg "tref" v); q_sig_bad := arg_b "sig_bad" v; q_nonce := arg_s "nonce" v;
     q_approve := arg_b "approve" v |}.

Definition pv_of_fresp (r : fresp) : pv :=
  match r with
  | ROkCode n => PList [PStr "ok"; PStr "code"; ff_pv_nat n]
  | ROkToken a r => PList [PStr "ok"; PStr "token"; ff_pv_nat a; ff_onat r]
  | ROkDevice d u => PList [PStr "ok"; PStr "device"; ff_pv_nat d; ff_pv_nat u]
  | ROkNone => PList [PStr "ok"; PStr "none"]
  | ROkTemp n => PList [PStr "ok"; PStr "temp"; ff_pv_nat n]
  | ROkVerifier t n => PList [PStr "ok"; PStr "verifier"; ff_pv_nat t; ff_pv_nat n]
  | ROkToken1 n => PList [PStr "ok"; PStr "token1"; ff_pv_nat n]
  | ROkServed n => PList [PStr "ok"; PStr "served"; ff_pv_nat n]
  | RErr c => PList [PStr "error"; PStr c]
  end.

Definition pv_of_outcome (o : outcome) : pv :=
  match o with
  | Done r => pv_of_fresp r
  | Raised i n => PList [PStr "raised"; ff_pv_nat i; PStr n]
  end.

(* the cache shows one entry per key: the newest *)
Fixpoint first_per_key (l : list ftemp) (seen : list nat) : list ftemp :=
  match l with
  | [] => []
  | t :: r => if existsb (Nat.eqb (fp_id t)) seen then first_per_key r seen
              else t :: first_per_key r (fp_id t :: seen)
  end.

Definition pv_of_fstore (s : fstore) : pv :=
  PDict [("codes", PList (map (fun c => PList [ff_pv_nat (fc_id c); PStr (fc_client c); PStr (fc_user c)]) (f_codes s)));
         ("tokens", PList (map (fun t => PList [ff_pv_nat (ft_id t); ff_onat (ft_refresh t); PStr (ft_client t);
                                                ff_ostr (ft_user t); PBool (ft_revoked t)]) (f_toks s)));
         ("devices", PList (map (fun d => PList [ff_pv_nat (fd_id d); ff_pv_nat (fd_ucode d); PStr (fd_client d)]) (f_devs s)));
         ("temps", PList (map (fun t => PList [ff_pv_nat (fp_id t); PStr (fp_client t); ff_onat (fp_verifier t); ff_ostr (fp_user t)])
                              (first_per_key (f_temps s) [])));
         ("tok1", PList (map (fun t => PList [ff_pv_nat (f1_id t); PStr (f1_client t); ff_ostr (f1_user t)]) (f_tok1 s)));
         ("nonces", PList (map PStr (f_nonces s)));
         ("counter", ff_pv_nat (f_ctr s))].

Definition dispatch_faultflow (fn : string) (a : pv) : option pv :=
  if String.eqb fn "faultflow_run" then
    let ops := map (fun v => (freq_of (arg "req" v),
                              match arg "fault" v with PInt z => Some (Z.to_nat z) | _ => None end)) (arg_l "ops" a) in
    Some (PList (map (fun x => match x with (o, tr, s) => PList [pv_of_outcome o; PList (map PStr tr); pv_of_fstore s] end)
                     (frun_outs finit ops)))
  else None.
