(* C13 entry of the correspondence dispatcher. *)
From Coq Require Import List NArith ZArith Bool Ascii String.
From Authlib Require Import Base.Bytes Base.PyVal Model.Claims Model.IDToken.
Import ListNotations.
Open Scope string_scope.

Section D.
Variable oracle : string -> pv -> pv.

Definition id_sha (bits s : string) : string := pv_str (oracle "sha" (PList [PStr bits; PStr s])).

Definition rtype_of (s : string) : rtype :=
  if String.eqb s "code" then RTCode else if String.eqb s "id_token" then RTIdToken
  else if String.eqb s "id_token token" then RTIdTokenToken else if String.eqb s "code id_token" then RTCodeIdToken
  else if String.eqb s "code token" then RTCodeToken else RTCodeIdTokenToken.

Definition id_dict (v : pv) : dictT := match v with PDict d => d | _ => [] end.
Definition id_verr (e : option verr) : pv :=
  match e with
  | None => PNone
  | Some (EMissing k) => PList [PStr "missing_claim"; PStr k]
  | Some (EInvalid k) => PList [PStr "invalid_claim"; PStr k]
  | Some EExpired => PList [PStr "expired_token"; PStr "exp"]
  | Some (EInvalidToken w) => PList [PStr "invalid_token"; PStr w]
  end.
Definition id_oz (v : pv) : option Z := match v with PInt z => Some z | _ => None end.

Definition dispatch_idtoken (fn : string) (a : pv) : option pv :=
  if String.eqb fn "idtoken_payload" then
    Some (PDict (rt_payload id_sha (rtype_of (arg_s "rt" a)) (arg_s "iss" a) (arg_s "client" a) (arg_z "now" a)
                            (arg_z "exp_in" a) (id_oz (arg "auth_time" a)) (arg_opt_s "nonce" a) (arg_s "code" a)
                            (arg_s "access_token" a) (arg_s "alg" a) (id_dict (arg "user_info" a))))
  else if String.eqb fn "idtoken_rp" then
    let rt := rtype_of (arg_s "rt" a) in
    Some (id_verr (idtoken_validate (fun _ _ _ => true) (create_half_hash id_sha) (rt_kind rt) (rp_opts (arg_s "iss" a))
                                    (id_dict (arg "header" a))
                                    (rp_params rt (arg_opt_s "nonce" a) (arg_s "client" a) (arg_s "code" a) (arg_s "access_token" a))
                                    (id_dict (arg "claims" a)) (arg_z "now" a) (arg_z "leeway" a)))
  else if String.eqb fn "half_hash" then
    Some (opt_pv PStr (create_half_hash id_sha (arg_s "s" a) (arg_s "alg" a)))
  else if String.eqb fn "nonce_run" then
    let steps := map (fun v => match v with
                               | PList [PStr c; n; PBool r] => (c, match n with PStr x => Some x | _ => None end, r)
                               | _ => ("", None, false) end) (arg_l "steps" a) in
    let fix go (s : nst) (l : list (string * option string * bool)) : list pv :=
        match l with
        | [] => []
        | (c, n, r) :: q => let '(s', o) := nonce_step s c n r in
                            (match o with NIssued => PStr "issued" | NRefused w => PStr w end) :: go s' q
        end in
    Some (PList (go {| n_used := [] |} steps))
  else None.
End D.
