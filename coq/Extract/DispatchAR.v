(* C17 entry of the correspondence dispatcher; kept in its own file because Model/AsyncRefresh.v reuses short
   names (st, step, run, ...) that other models also define. *)
From Coq Require Import List NArith ZArith Bool Ascii String.
From Authlib Require Import Base.PyVal Model.AsyncRefresh.
Import ListNotations.
Open Scope string_scope.

(* C17 *)
Definition pv_of_onat (o : option nat) : pv := opt_pv (fun n => PInt (Z.of_nat n)) o.
Definition pv_nat (v : pv) : nat := Z.to_nat (pv_int v).
Definition ar_outcome_of (v : pv) : outcome :=
  let s := pv_str v in
  if String.eqb s "rot" then OOk true else if String.eqb s "err" then OErr
  else if String.eqb s "5xx" then O5xx else OOk false.
Definition pv_of_ar_outcome (o : outcome) : pv :=
  PStr (match o with OOk true => "rot" | OOk false => "ok" | OErr => "err" | O5xx => "5xx" end).
Definition pv_of_errkind (k : errkind) : pv :=
  PStr (match k with KMissing => "missing" | KInvalid => "invalid" | KOAuth => "oauth" | KHttp => "http" end).
Definition pv_of_ar_ev (e : ev) : pv :=
  match e with
  | EBegin => PList [PStr "begin"]
  | EAcquire => PList [PStr "acquire"]
  | ERelease => PList [PStr "release"]
  | ERefreshSend cc rt => PList [PStr "refresh_send"; PBool cc; pv_of_onat rt]
  | ERefreshResp o => PList [PStr "refresh_resp"; pv_of_ar_outcome o]
  | ETokenSet a rt => PList [PStr "token_set"; PInt (Z.of_nat a); pv_of_onat rt]
  | ECbStart a rt (KwRefresh r) => PList [PStr "cb_start"; PInt (Z.of_nat a); pv_of_onat rt; PStr "refresh_token"; pv_of_onat r]
  | ECbStart a rt (KwAccess r) => PList [PStr "cb_start"; PInt (Z.of_nat a); pv_of_onat rt; PStr "access_token"; PInt (Z.of_nat r)]
  | ECbEnd => PList [PStr "cb_end"]
  | ESend a x => PList [PStr "send"; PInt (Z.of_nat a); PBool x]
  | ERecv => PList [PStr "recv"]
  | EDone => PList [PStr "done"]
  | EError k => PList [PStr "error"; pv_of_errkind k]
  end.
Definition dispatch_asyncrefresh (fn : string) (a : pv) : option pv :=
  if String.eqb fn "asyncrefresh_run" then
    let c := {| c_has_token := arg_b "has_token" a; c_url := arg_b "has_url" a; c_cc := arg_b "cc" a;
                c_cb := arg_b "has_cb" a |} in
    let t0 := {| t_acc := 0; t_rt := if arg_b "has_rt" a then Some 0%nat else None;
                 t_exp := arg_b "init_expired" a |} in
    let s0 := init (pv_nat (arg "n" a)) t0 (map ar_outcome_of (arg_l "outcomes" a)) in
    let sched := map pv_nat (arg_l "sched" a) in
    let fin := run c s0 sched in
    Some (PDict [("events", PList (map (opt_pv pv_of_ar_ev) (run_outs c s0 sched)));
                 ("finished", PBool (finished fin));
                 ("lock_free", PBool (match lock fin with None => true | Some _ => false end));
                 ("final", PList [PInt (Z.of_nat (t_acc (cur fin))); pv_of_onat (t_rt (cur fin));
                                  PBool (t_exp (cur fin))])])
  else None.

