(* Hand-written glue (trusted): converts between the wire format and the
   extracted inductive types, dispatches one command per line, implements the
   oracle by asking the harness on stdout/stdin.
   Wire format (space separated tokens):
     N | T | F | I[-]<hex> | R[-]<hex>p[-]<dec> | S<hex octets> | L<n> v.. | D<n> S<key> v .. *)
open Model

let coq_ascii_of_char (c : char) : ascii =
  let n = Char.code c in
  let b i = (n lsr i) land 1 = 1 in
  Ascii (b 0, b 1, b 2, b 3, b 4, b 5, b 6, b 7)

let char_of_coq_ascii (a : ascii) : char =
  match a with
  | Ascii (b0, b1, b2, b3, b4, b5, b6, b7) ->
    let v b i = if b then 1 lsl i else 0 in
    Char.chr (v b0 0 + v b1 1 + v b2 2 + v b3 3 + v b4 4 + v b5 5 + v b6 6 + v b7 7)

let coq_string_of_ocaml (s : Stdlib.String.t) : string =
  let r = ref EmptyString in
  for i = Stdlib.String.length s - 1 downto 0 do
    r := String (coq_ascii_of_char s.[i], !r)
  done; !r

let ocaml_of_coq_string (s : string) : Stdlib.String.t =
  let b = Buffer.create 64 in
  let rec go = function
    | EmptyString -> ()
    | String (a, r) -> Buffer.add_char b (char_of_coq_ascii a); go r in
  go s; Buffer.contents b

let hexval c = match c with
  | '0'..'9' -> Char.code c - 48
  | 'a'..'f' -> Char.code c - 87
  | 'A'..'F' -> Char.code c - 55
  | _ -> failwith "bad hex"

(* positive from a list of bits, most significant first, leading 1 consumed *)
let z_of_hex (h : Stdlib.String.t) : z =
  let neg, h = if Stdlib.String.length h > 0 && h.[0] = '-'
    then true, Stdlib.String.sub h 1 (Stdlib.String.length h - 1) else false, h in
  let p = ref None in
  Stdlib.String.iter (fun c ->
      let v = hexval c in
      for i = 3 downto 0 do
        let bit = (v lsr i) land 1 = 1 in
        p := (match !p with
            | None -> if bit then Some XH else None
            | Some q -> Some (if bit then XI q else XO q))
      done) h;
  match !p with
  | None -> Z0
  | Some q -> if neg then Zneg q else Zpos q

let hex_of_z (x : z) : Stdlib.String.t =
  let rec bits p acc = match p with
    | XH -> true :: acc
    | XO q -> bits q (false :: acc)
    | XI q -> bits q (true :: acc) in
  let render p =
    let bs = bits p [] in (* most significant first *)
    let n = List.length bs in
    let pad = (4 - n mod 4) mod 4 in
    let bs = (List.init pad (fun _ -> false)) @ bs in
    let b = Buffer.create 16 in
    let rec go = function
      | a :: b1 :: c :: d :: r ->
        let v = (if a then 8 else 0) + (if b1 then 4 else 0) + (if c then 2 else 0) + (if d then 1 else 0) in
        Buffer.add_char b "0123456789abcdef".[v]; go r
      | [] -> ()
      | _ -> failwith "bits" in
    go bs; Buffer.contents b in
  match x with
  | Z0 -> "0"
  | Zpos p -> render p
  | Zneg p -> "-" ^ render p

let z_of_dec (s : Stdlib.String.t) : z =
  (* small exponents only *)
  let n = int_of_string s in
  z_of_hex (if n < 0 then Printf.sprintf "-%x" (-n) else Printf.sprintf "%x" n)

let dec_of_z (x : z) : Stdlib.String.t =
  let h = hex_of_z x in
  if Stdlib.String.length h > 0 && h.[0] = '-'
  then "-" ^ string_of_int (int_of_string ("0x" ^ Stdlib.String.sub h 1 (Stdlib.String.length h - 1)))
  else string_of_int (int_of_string ("0x" ^ h))

let unhex (h : Stdlib.String.t) : Stdlib.String.t =
  let n = Stdlib.String.length h / 2 in
  Stdlib.String.init n (fun i -> Char.chr (hexval h.[2*i] * 16 + hexval h.[2*i+1]))

let hex (s : Stdlib.String.t) : Stdlib.String.t =
  let b = Buffer.create (2 * Stdlib.String.length s) in
  Stdlib.String.iter (fun c -> Buffer.add_string b (Printf.sprintf "%02x" (Char.code c))) s;
  Buffer.contents b

let rec parse (toks : Stdlib.String.t list) : pv * Stdlib.String.t list =
  match toks with
  | [] -> failwith "eof"
  | t :: rest ->
    let body = Stdlib.String.sub t 1 (Stdlib.String.length t - 1) in
    (match t.[0] with
     | 'N' -> PNone, rest
     | 'T' -> PBool true, rest
     | 'F' -> PBool false, rest
     | 'I' -> PInt (z_of_hex body), rest
     | 'R' ->
       let i = Stdlib.String.index body 'p' in
       let m = Stdlib.String.sub body 0 i in
       let e = Stdlib.String.sub body (i+1) (Stdlib.String.length body - i - 1) in
       PFloat (z_of_hex m, z_of_dec e), rest
     | 'S' -> PStr (coq_string_of_ocaml (unhex body)), rest
     | 'L' ->
       let n = int_of_string body in
       let rec items k toks acc =
         if k = 0 then List.rev acc, toks
         else let v, toks = parse toks in items (k-1) toks (v :: acc) in
       let l, rest = items n rest [] in PList l, rest
     | 'D' ->
       let n = int_of_string body in
       let rec items k toks acc =
         if k = 0 then List.rev acc, toks
         else
           let kv, toks = parse toks in
           let key = (match kv with PStr s -> s | _ -> failwith "dict key") in
           let v, toks = parse toks in items (k-1) toks ((key, v) :: acc) in
       let l, rest = items n rest [] in PDict l, rest
     | _ -> failwith ("bad token " ^ t))

let rec render (b : Buffer.t) (v : pv) : unit =
  match v with
  | PNone -> Buffer.add_string b "N"
  | PBool true -> Buffer.add_string b "T"
  | PBool false -> Buffer.add_string b "F"
  | PInt z -> Buffer.add_string b ("I" ^ hex_of_z z)
  | PFloat (m, e) -> Buffer.add_string b ("R" ^ hex_of_z m ^ "p" ^ dec_of_z e)
  | PStr s -> Buffer.add_string b ("S" ^ hex (ocaml_of_coq_string s))
  | PList l ->
    Buffer.add_string b ("L" ^ string_of_int (List.length l));
    List.iter (fun x -> Buffer.add_char b ' '; render b x) l
  | PDict l ->
    Buffer.add_string b ("D" ^ string_of_int (List.length l));
    List.iter (fun (k, x) ->
        Buffer.add_string b (" S" ^ hex (ocaml_of_coq_string k));
        Buffer.add_char b ' '; render b x) l

let to_wire v = let b = Buffer.create 256 in render b v; Buffer.contents b
let of_wire s =
  let toks = List.filter (fun t -> t <> "") (Stdlib.String.split_on_char ' ' s) in
  fst (parse toks)

let oracle (name : string) (a : pv) : pv =
  print_string ("Q " ^ ocaml_of_coq_string name ^ " " ^ to_wire a ^ "\n");
  flush stdout;
  of_wire (input_line stdin)

let () =
  try
    while true do
      let line = input_line stdin in
      let i = Stdlib.String.index line ' ' in
      let fn = Stdlib.String.sub line 0 i in
      let a = Stdlib.String.sub line (i+1) (Stdlib.String.length line - i - 1) in
      (try
         let r = dispatch oracle (coq_string_of_ocaml fn) (of_wire a) in
         print_string ("R " ^ to_wire r ^ "\n")
       with
       | Stack_overflow -> print_string "E stack_overflow\n"
       | Failure m -> print_string ("E " ^ m ^ "\n")
       | Not_found -> print_string "E not_found\n");
      flush stdout
    done
  with End_of_file -> ()
