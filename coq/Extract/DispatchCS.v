(* C14 entry of the correspondence dispatcher. *)
From Coq Require Import List NArith ZArith Bool Ascii String.
From Authlib Require Import Base.Bytes Base.PyVal Model.ClientState Model.Transport.
Import ListNotations.
Open Scope string_scope.

Definition cs_nat (v : pv) : nat := Z.to_nat (pv_int v).
Definition cop_of (v : pv) : cop :=
  let k := arg_s "op" v in
  if String.eqb k "begin" then CBegin (cs_nat (arg "sess" v)) (arg_s "prov" v) (arg_b "pkce" v) (arg_b "openid" v) (arg_opt_s "redirect" v)
  else if String.eqb k "callback" then
    CCallback (cs_nat (arg "sess" v)) (arg_s "prov" v) (match arg "state" v with PInt z => Some (Z.to_nat z) | _ => None end)
  else CTick (arg_z "dt" v).

Definition pv_of_entry (e : entry) : pv :=
  PList [PStr (e_prov e); PInt (Z.of_nat (e_state e)); PBool (e_pkce e); PBool (e_openid e); opt_pv PStr (e_redirect e)].

Definition pv_of_cout (o : cout) : pv :=
  match o with
  | OBegan st => PList [PStr "began"; PInt (Z.of_nat st)]
  | OExchanged e => PList [PStr "exchanged"; pv_of_entry e]
  | OMismatch => PList [PStr "mismatch"]
  | ONone => PList [PStr "none"]
  end.

Definition dispatch_clientstate (fn : string) (a : pv) : option pv :=
  if String.eqb fn "clientstate_run" then
    let mode := if arg_b "cache" a then CacheMode else SessionMode in
    let ops := map cop_of (arg_l "ops" a) in
    let s0 := cinit (cs_nat (arg "sessions" a)) in
    let o1 := fun p => existsb (String.eqb p) (arg_strs "oauth1" a) in
    let fin := crun_from mode (arg_b "clears_old" a) (arg_z "expires_in" a) o1 s0 ops in
    Some (PDict [("outs", PList (map pv_of_cout (crun_outs mode (arg_b "clears_old" a) (arg_z "expires_in" a) o1 s0 ops)));
                 ("sessions", PList (map (fun l => PList (map pv_of_entry l)) (c_sessions fin)));
                 ("cache", PList (map pv_of_entry (c_cache fin)))])
  else if String.eqb fn "request_reading" then
    (* Model/Transport.v: what a request wrapper reads for one name out of the query and the form *)
    let prs := fun k => map (fun p => match pv_list p with [x; y] => (pv_str x, pv_str y) | _ => ("", "") end) (arg_l k a) in
    let w := arg_s "wrapper" a in
    Some (opt_pv PStr ((if String.eqb w "flask" then flask_data else if String.eqb w "django" then django_data else neutral_data)
                         (prs "query") (prs "form") (arg_s "name" a)))
  else None.
