(* C02 entry of the correspondence dispatcher. *)
From Coq Require Import List NArith ZArith Bool Ascii String.
From Authlib Require Import Base.Bytes Base.PyVal Model.KeyPolicy.
Import ListNotations.
Open Scope string_scope.

Definition kp_ostr (v : pv) : option string := match v with PStr s => Some s | _ => None end.
Definition kp_kop (s : string) : kop :=
  if String.eqb s "sign" then KSign else if String.eqb s "verify" then KVerify else if String.eqb s "encrypt" then KEncrypt
  else if String.eqb s "decrypt" then KDecrypt else if String.eqb s "wrapKey" then KWrap else KUnwrap.

Definition dispatch_keypolicy (fn : string) (a : pv) : option pv :=
  if String.eqb fn "kp_oct_import_ok" then Some (PBool (oct_import_ok (pv_str a)))
  else if String.eqb fn "kp_find_by_kid" then
    Some (opt_pv (fun n => PInt (Z.of_nat n)) (find_by_kid (map kp_ostr (arg_l "kids" a)) (kp_ostr (arg "kid" a))))
  else if String.eqb fn "kp_find_in_jwks_dict" then
    Some (opt_pv (fun n => PInt (Z.of_nat n)) (find_in_jwks_dict (map kp_ostr (arg_l "kids" a)) (kp_ostr (arg "kid" a))))
  else if String.eqb fn "kp_check_key_op" then
    Some (match check_key_op (match arg "key_ops" a with PList l => Some (map pv_str l) | _ => None end) (kp_ostr (arg "use" a))
                             (arg_b "public_only" a) (kp_kop (arg_s "op" a)) with
          | None => PStr "ok" | Some KOpNotListed => PStr "key_ops" | Some KPrivateOpOnPublic => PStr "public" | Some KInvalidUse => PStr "use" end)
  else if String.eqb fn "kp_alg_family_ok" then
    Some (PBool (alg_family_ok (arg_s "alg" a) {| kd_kty := arg_s "kty" a; kd_crv := arg_s "crv" a |}))
  else if String.eqb fn "kp_validate_crit" then
    Some (opt_pv PStr (validate_crit (arg_strs "private" a) (match arg "protected" a with PDict d => d | _ => [] end)))
  else None.
