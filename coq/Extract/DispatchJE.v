(* C03 entry of the correspondence dispatcher. *)
From Coq Require Import List NArith ZArith Bool Ascii String.
From Authlib Require Import Base.Bytes Base.PyVal Model.JWS Model.JWE.
Import ListNotations.
Open Scope string_scope.

Section D.
Variable oracle : string -> pv -> pv.

Definition je_loads (s : string) : option pv :=
  match oracle "json_loads" (PStr s) with PList [v] => Some v | _ => None end.
Definition je_prepare (alg : string) (k : pv) : option pv :=
  match oracle "jwe_prepare_key" (PList [PStr alg; k]) with PNone => None | v => Some v end.
Definition je_unwrap (alg enc ek : string) (h : hdict) (k : pv) : option string :=
  match oracle "jwe_unwrap" (PList [PStr alg; PStr enc; PStr ek; PDict h; k]) with PStr s => Some s | _ => None end.
Definition je_decrypt (enc cek iv aad ct tag : string) : option string :=
  match oracle "jwe_decrypt" (PList [PStr enc; PStr cek; PStr iv; PStr aad; PStr ct; PStr tag]) with PStr s => Some s | _ => None end.
Definition je_decompress (z msg : string) : option string :=
  match oracle "jwe_decompress" (PList [PStr z; PStr msg]) with PStr s => Some s | _ => None end.

Definition je_err (e : eerr) : pv :=
  match e with
  | EDecode w => PList [PStr "decode"; PStr w]
  | EMissingAlg => PList [PStr "missing_alg"]
  | EMissingEnc => PList [PStr "missing_enc"]
  | EUnsupportedAlg => PList [PStr "unsupported_alg"]
  | EUnsupportedEnc => PList [PStr "unsupported_enc"]
  | EUnsupportedZip => PList [PStr "unsupported_zip"]
  | EKeyError w => PList [PStr "key_error"; PStr w]
  | EDecrypt => PList [PStr "decrypt"]
  | EZip => PList [PStr "zip"]
  | EHeaderName k => PList [PStr "header_name"; PStr k]
  | EKeyMismatch => PList [PStr "key_mismatch"]
  end.
Definition je_res (r : eres (hdict * string)) : pv :=
  match r with EOk (h, p) => PList [PStr "ok"; PDict h; PStr p] | EErr e => je_err e end.

Definition je_allow (v : pv) : option (list string) := match v with PList l => Some (map pv_str l) | _ => None end.
Definition je_ostr (v : pv) : option string := match v with PStr s => Some s | _ => None end.
Definition je_dict (v : pv) : hdict := match v with PDict d => d | _ => [] end.

Definition dispatch_jwe (fn : string) (a : pv) : option pv :=
  let areg := fun x => list_in_str x (arg_strs "alg_registry" a) in
  let ereg := fun x => list_in_str x (arg_strs "enc_registry" a) in
  let zreg := fun x => list_in_str x (arg_strs "zip_registry" a) in
  if String.eqb fn "jwe_deserialize_compact" then
    Some (je_res (deserialize_compact je_loads areg ereg zreg je_prepare je_unwrap je_decrypt je_decompress
                                      (je_allow (arg "allow" a)) (arg_s "s" a) (arg "key" a)))
  else if String.eqb fn "jwe_deserialize_json" then
    let o := {| o_protected := je_ostr (arg "protected" a); o_unprotected := je_dict (arg "unprotected" a);
                o_recipients := map (fun v => {| r_header := je_dict (arg "header" v); r_ek := je_ostr (arg "encrypted_key" v) |})
                                    (arg_l "recipients" a);
                o_aad := je_ostr (arg "aad" a); o_iv := je_ostr (arg "iv" a); o_ct := je_ostr (arg "ciphertext" a);
                o_tag := je_ostr (arg "tag" a) |} in
    Some (je_res (deserialize_json je_loads areg ereg zreg je_prepare je_unwrap je_decrypt je_decompress
                                   (je_allow (arg "allow" a)) o (arg "key" a) (je_ostr (arg "key_kid" a))))
  else None.
End D.
