(* Extraction: ExtrOcamlBasic only (bool, option, unit, list, prod, sumbool,
   sumor, andb/orb mapped to OCaml's).  Z, N, positive, nat, ascii, string
   stay the extracted inductive types.  No Extract Constant of ours. *)
From Coq Require Import Extraction ExtrOcamlBasic.
From Authlib Require Import Extract.Dispatch.
Extraction Language OCaml.
Extraction "Extract/out/model.ml" dispatch.
