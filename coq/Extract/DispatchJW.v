(* C01 entry of the correspondence dispatcher. *)
From Coq Require Import List NArith ZArith Bool Ascii String.
From Authlib Require Import Base.Bytes Base.PyVal Model.JWS.
Import ListNotations.
Open Scope string_scope.

Section D.
Variable oracle : string -> pv -> pv.

Definition jw_dumps (d : hdict) : string := pv_str (oracle "json_dumps" (PDict d)).
Definition jw_loads (s : string) : option pv :=
  match oracle "json_loads" (PStr s) with PList [v] => Some v | _ => None end.
Definition jw_prepare (alg : string) (k : pv) : option pv :=
  match oracle "prepare_key" (PList [PStr alg; k]) with PNone => None | v => Some v end.
Definition jw_sign (alg : string) (k : pv) (m : string) : option string :=
  match oracle "sign" (PList [PStr alg; k; PStr m]) with PStr s => Some s | _ => None end.
Definition jw_verify (alg : string) (k : pv) (m sg : string) : bool :=
  pv_bool (oracle "verify" (PList [PStr alg; k; PStr m; PStr sg])).

Definition jw_err (e : jerr) : pv :=
  match e with
  | JDecode w => PList [PStr "decode"; PStr w]
  | JMissingAlg => PList [PStr "missing_alg"]
  | JUnsupportedAlg => PList [PStr "unsupported_alg"]
  | JBadSignature => PList [PStr "bad_signature"]
  | JKeyError w => PList [PStr "key_error"; PStr w]
  | JHeaderName k => PList [PStr "header_name"; PStr k]
  end.
Definition jw_res {A} (f : A -> pv) (r : jres A) : pv :=
  match r with JOk a => PList [PStr "ok"; f a] | JErr e => jw_err e end.

Definition jw_allow (v : pv) : option (list string) := match v with PList l => Some (map pv_str l) | _ => None end.
Definition jw_dict (v : pv) : hdict := match v with PDict d => d | _ => [] end.
Definition jw_ostr (v : pv) : option string := match v with PStr s => Some s | _ => None end.

Definition sigobj_of (v : pv) : sigobj :=
  {| so_protected := jw_ostr (arg "protected" v); so_signature := jw_ostr (arg "signature" v); so_header := arg "header" v |}.
Definition pv_of_sigobj (o : sigobj) : pv :=
  PDict [("protected", opt_pv PStr (so_protected o)); ("signature", opt_pv PStr (so_signature o)); ("header", so_header o)].

Definition dispatch_jws (fn : string) (a : pv) : option pv :=
  let registered := fun alg => list_in_str alg (arg_strs "registry" a) in
  let allow := jw_allow (arg "allow" a) in
  let private := jw_allow (arg "private" a) in
  if String.eqb fn "jws_serialize_compact" then
    Some (jw_res PStr (serialize_compact jw_dumps registered jw_prepare jw_sign allow private (jw_dict (arg "protected" a))
                                         (arg_s "payload" a) (arg "key" a)))
  else if String.eqb fn "jws_deserialize_compact" then
    Some (jw_res (fun hp => PList [PDict (fst hp); PStr (snd hp)])
                 (deserialize_compact jw_loads registered jw_prepare jw_verify allow private (arg_s "s" a) (arg "key" a)))
  else if String.eqb fn "jws_deserialize_json" then
    Some (jw_res (fun hp => PList [PList (map PDict (fst hp)); PStr (snd hp)])
                 (deserialize_json jw_loads registered jw_prepare jw_verify allow private (jw_ostr (arg "payload" a)) (arg_b "general" a)
                                   (map sigobj_of (arg_l "signatures" a)) (arg "key" a)))
  else if String.eqb fn "jws_sign_all" then
    Some (jw_res (fun l => PList (map pv_of_sigobj l))
                 (sign_all jw_dumps registered jw_prepare jw_sign allow private (arg_s "payload_segment" a)
                           (map (fun v => (jw_dict (arg "protected" v), arg "header" v)) (arg_l "headers" a)) (arg "key" a)))
  else None.
End D.
