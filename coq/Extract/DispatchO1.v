(* C12 entry of the correspondence dispatcher (own file: Model/OAuth1Provider.v uses short names). *)
From Coq Require Import List NArith ZArith Bool Ascii String.
From Authlib Require Import Base.Bytes Base.Form Base.PyVal Model.OAuth1Provider.
Import ListNotations.
Open Scope string_scope.

Section D.
Variable oracle : string -> pv -> pv.

Definition o1p_hmac (k m : string) : string := pv_str (oracle "hmac_sha1" (PList [PStr k; PStr m])).
Definition o1p_rsa (key msg sig : string) : bool := pv_bool (oracle "rsa_verify" (PList [PStr key; PStr msg; PStr sig])).

(* the deterministic generators of the harness: prefix followed by n times "x" *)
Definition unary_name (prefix : string) (n : nat) : string := prefix ++ str_repeat "x" n.

Definition o1_pairs (v : pv) : list pair_s :=
  map (fun x => match x with PList [PStr k; PStr w] => (k, w) | _ => ("", "") end) (pv_list v).

Definition oreq_of (v : pv) : oreq :=
  {| q_method := arg_s "method" v; q_uri := arg_s "uri" v; q_host := arg_opt_s "host" v;
     q_query := o1_pairs (arg "query" v); q_body := o1_pairs (arg "body" v); q_auth := o1_pairs (arg "auth" v) |}.

Definition oop_of (v : pv) : oop :=
  let k := arg_s "op" v in
  if String.eqb k "initiate" then OInitiate (oreq_of (arg "req" v))
  else if String.eqb k "authorize" then OAuthorize (oreq_of (arg "req" v)) (arg_opt_s "user" v)
  else if String.eqb k "exchange" then OExchange (oreq_of (arg "req" v))
  else if String.eqb k "access" then OAccess (oreq_of (arg "req" v))
  else OTick (arg_z "dt" v).

Definition pv_of_oout (o : oout) : pv :=
  match o with
  | OTemp t s => PList [PStr "temp"; PStr t; PStr s]
  | ORedirect l => PList [PStr "redirect"; PStr l]
  | OToken t s => PList [PStr "token"; PStr t; PStr s]
  | OServed t => PList [PStr "served"; PStr t]
  | OErr st c => PList [PStr "error"; PInt (Z.of_N st); PStr c]
  | ONone => PList [PStr "none"]
  end.

Definition dispatch_o1provider (fn : string) (a : pv) : option pv :=
  if String.eqb fn "o1provider_run" then
    let reg := map (fun c => {| oc_id := arg_s "id" c; oc_secret := arg_s "secret" c; oc_rsa := arg_s "rsa" c;
                                oc_redirect := arg_s "redirect" c |}) (arg_l "registry" a) in
    let ops := map oop_of (arg_l "ops" a) in
    let sup := arg_strs "supported" a in
    let et := arg_z "expiry_time" a in let nt := arg_z "nonce_ttl" a in let tt := arg_z "temp_ttl" a in
    let s0 := pinit_at (arg_z "now0" a) in
    let fin := prun_from o1p_hmac o1p_rsa unary_name reg sup et nt tt s0 ops in
    Some (PDict [("outs", PList (map pv_of_oout (prun_outs o1p_hmac o1p_rsa unary_name reg sup et nt tt s0 ops)));
                 ("tokens", PList (map (fun t => PList [PStr (tk_token t); PStr (tk_client t); opt_pv PStr (tk_user t)])
                                       (p_toks fin)));
                 ("live_temps", PList (map (fun t => PStr (tp_token t))
                                           (filter (fun t => match find_temp (p_temps fin) (p_now fin) (tp_token t) with
                                                             | Some _ => true | None => false end) (p_temps fin))))])
  else None.
End D.
