(* C20 entry of the correspondence dispatcher. *)
From Coq Require Import List NArith ZArith Bool Ascii String.
From Authlib Require Import Base.Bytes Base.PyVal Model.Robust.
Import ListNotations.
Open Scope string_scope.

Section D.
Variable oracle : string -> pv -> pv.

Definition rb_exc (e : pyexc) : pv :=
  PList [PStr "exc"; PStr (match e with ETypeError => "TypeError" | EAttributeError => "AttributeError"
                                   | EKeyError => "KeyError" | EValueError => "ValueError" end)].
Definition rb_out {A} (f : A -> pv) (x : out A) : pv :=
  match x with
  | Val a => PList [PStr "val"; f a]
  | Refuse k d => PList [PStr "refuse"; PStr k; opt_pv PStr d]
  | Exc e => rb_exc e
  end.
Definition rb_allow (v : pv) : option (list string) := match v with PList l => Some (map pv_str l) | _ => None end.
Definition rb_dict (v : pv) : list (string * pv) := match v with PDict d => d | _ => [] end.
Definition rb_opt (v : pv) : option pv := match v with PList [x] => Some x | _ => None end.
Definition rb_ostr (v : pv) : option string := match v with PStr s => Some s | _ => None end.
Definition rb_repr (v : pv) : string := pv_str (oracle "repr_num" v).
Definition rb_lower (s : string) : string := pv_str (oracle "lower" (PStr s)).
Definition rb_url (s : string) : bool := pv_bool (oracle "is_valid_url" (PStr s)).
Definition rb_unit (_ : unit) : pv := PNone.
Definition rb_ostrs (o : option (list string)) : pv := match o with Some l => PList (map PStr l) | None => PNone end.

Definition dispatch_robust (fn : string) (a : pv) : option pv :=
  if String.eqb fn "rb_named_algorithm" then
    Some (rb_out PStr (named_algorithm (arg_s "member" a) (arg_s "missing" a) (arg_s "unsupported" a) (rb_allow (arg "allow" a))
                                       (arg_strs "registry" a) (rb_dict (arg "header" a))))
  else if String.eqb fn "rb_jwe_zip" then
    Some (rb_out (opt_pv PStr) (jwe_zip (rb_allow (arg "allow" a)) (arg_strs "registry" a) (rb_dict (arg "header" a))))
  else if String.eqb fn "rb_to_bytes" then
    Some (rb_out (opt_pv PStr) (to_bytes rb_repr (arg "v" a)))
  else if String.eqb fn "rb_jws_json_typing" then
    Some (rb_out (fun r => PList [PStr (fst (fst r)); PBool (snd (fst r));
                                  PList (map (fun e => PList [PStr (se_protected e); PStr (se_signature e)]) (snd r))])
                 (jws_json_typing (arg "obj" a)))
  else if String.eqb fn "rb_jwe_json_typing" then
    Some (rb_out (fun t => PList [opt_pv PStr (jt_protected t); opt_pv PStr (jt_aad t); PStr (jt_iv t); PStr (jt_ciphertext t); PStr (jt_tag t);
                                  PList (map (fun r => PStr (snd r)) (jt_recipients t))])
                 (jwe_json_typing (arg "obj" a)))
  else if String.eqb fn "rb_claim_types" then
    Some (rb_out rb_unit (claim_types (rb_dict (arg "claims" a))))
  else if String.eqb fn "rb_oidc_claim_types" then
    Some (rb_out rb_unit (oidc_claim_types (rb_dict (arg "claims" a))))
  else if String.eqb fn "rb_metadata_validate" then
    Some (rb_out rb_unit (metadata_validate rb_url (arg_strs "scopes_supported" a) (arg_strs "grant_types_supported" a)
                                            (arg_strs "response_types_supported" a) (rb_dict (arg "claims" a))))
  else if String.eqb fn "rb_registration_body" then
    Some (rb_out PDict (registration_body (rb_opt (arg "data" a))))
  else if String.eqb fn "rb_scope_to_list" then
    Some (rb_out rb_ostrs (scope_to_list (arg "v" a)))
  else if String.eqb fn "rb_scope_insufficient" then
    Some (rb_out PBool (scope_insufficient scope_to_list (arg "token_scopes" a) (arg_strs "required" a)))
  else if String.eqb fn "rb_validate_typ" then
    Some (rb_out rb_unit (validate_typ rb_lower (rb_opt (arg "typ" a))))
  else if String.eqb fn "rb_verify_hash" then
    Some (rb_out PBool (verify_hash rb_repr (arg "signature" a) (rb_ostr (arg "expected" a))))
  else if String.eqb fn "rb_resolve_issuer" then
    Some (rb_out PStr (resolve_issuer (arg_strs "known" a) (rb_dict (arg "payload" a))))
  else if String.eqb fn "rb_resolve_assertion_client" then
    Some (rb_out PStr (resolve_assertion_client (arg_strs "known" a) (rb_dict (arg "payload" a))))
  else if String.eqb fn "rb_oauth2_error" then
    Some (rb_out rb_unit (oauth2_error (arg_s "code" a) (rb_ostr (arg "description" a))))
  else if String.eqb fn "rb_redirect_uri_refusal" then
    Some (rb_out rb_unit (redirect_uri_refusal (arg_s "redirect_uri" a)))
  else if String.eqb fn "rb_assertion_refusal" then
    Some (rb_out rb_unit (assertion_refusal (arg_s "code" a) (rb_ostr (arg "description" a))))
  else if String.eqb fn "rb_verify_plaintext" then
    Some (rb_out PBool (verify_plaintext (arg_s "expected" a) (arg_s "presented" a)))
  else if String.eqb fn "rb_desc_ok" then
    Some (PBool (desc_ok (arg_s "s" a)))
  else None.
End D.
