(* One entry point for the correspondence harness: name + argument -> result,
   all over [pv].  [oracle] answers questions about primitives that the models
   take as Section variables (hash, MAC, ...); the driver implements it by
   asking the harness over the pipe. *)
From Coq Require Import List NArith ZArith Bool Ascii String.
From Authlib Require Import Base.Bytes Base.Base64 Base.BigEndian Base.PyVal Base.Url Base.Percent Base.Utf8 Base.Form.
From Authlib Require Proofs.UrlP.
From Authlib Require Import Extract.DispatchAR Extract.DispatchO1 Extract.DispatchFF Extract.DispatchID Extract.DispatchCS Extract.DispatchJW Extract.DispatchKP Extract.DispatchJE Extract.DispatchRB.
From Authlib Require Import Model.JWK Model.Claims Spec.ClaimsSpec Model.Resource Model.Scope Model.ClientAuth Model.Metadata Spec.MetadataSpec Model.Registration Model.Wire Model.OAuth1Sig Model.Authorize Model.CodeFlow Model.TokenLife.
Import ListNotations.
Open Scope string_scope.

Definition pv_of_dict (d : dict) : pv := PDict d.
Definition dict_of_pv (v : pv) : dict := match v with PDict d => d | _ => [] end.
Definition pv_of_strs (l : list string) : pv := PList (map PStr l).
Definition ok (v : pv) : pv := PDict [("ok", v)].
Definition err (m : string) : pv := PDict [("err", PStr m)].
Definition pv_of_kres {A} (f : A -> pv) (r : kres A) : pv :=
  match r with KOk a => ok (f a) | KErr m => err m end.
Definition pv_of_ostr (o : option string) : pv := opt_pv PStr o.

Section D.
Variable oracle : string -> pv -> pv.

Definition dispatch_jwk (fn : string) (a : pv) : option pv :=
  if String.eqb fn "int_to_base64" then Some (PStr (int_to_base64 (pv_N a)))
  else if String.eqb fn "base64_to_int" then
    Some (opt_pv (fun n => PInt (Z.of_N n)) (base64_to_int (pv_str a)))
  else if String.eqb fn "urlsafe_b64decode" then Some (pv_of_ostr (urlsafe_b64decode (pv_str a)))
  else if String.eqb fn "urlsafe_b64encode" then Some (PStr (b64url_encode (pv_str a)))
  else if String.eqb fn "b64std_decode" then Some (pv_of_ostr (a2b_base64_std (pv_str a)))
  else if String.eqb fn "as_dict" then
    Some (pv_of_kres pv_of_dict
      (as_dict (arg_s "kty" a) (arg_strs "public_fields" a) (arg_b "is_private" a)
               (dict_of_pv (arg "tokens" a)) (arg_s "thumb" a) (dict_of_pv (arg "params" a))))
  else if String.eqb fn "tokens" then
    Some (PDict (tokens (arg_s "kty" a) (dict_of_pv (arg "dict_data" a)) (dict_of_pv (arg "options" a))))
  else if String.eqb fn "rsa_dumps_public" then
    Some (PDict (rsa_dumps_public (pv_N (arg "n" a)) (pv_N (arg "e" a))))
  else if String.eqb fn "rsa_dumps_private" then
    Some (PDict (rsa_dumps_private (pv_N (arg "n" a)) (pv_N (arg "e" a)) (pv_N (arg "d" a))
                   (pv_N (arg "p" a)) (pv_N (arg "q" a)) (pv_N (arg "dp" a))
                   (pv_N (arg "dq" a)) (pv_N (arg "qi" a))))
  else if String.eqb fn "ec_dumps_public" then
    Some (pv_of_kres pv_of_dict (ec_dumps_public (arg_s "crv" a) (pv_N (arg "x" a)) (pv_N (arg "y" a))))
  else if String.eqb fn "ec_dumps_private" then
    Some (pv_of_kres pv_of_dict (ec_dumps_private (arg_s "crv" a) (pv_N (arg "x" a)) (pv_N (arg "y" a)) (pv_N (arg "d" a))))
  else if String.eqb fn "ec_coord" then
    Some (pv_of_ostr (ec_coord (arg_s "crv" a) (pv_N (arg "n" a))))
  else if String.eqb fn "okp_dumps_public" then
    Some (PDict (okp_dumps_public (arg_s "crv" a) (arg_s "x" a)))
  else if String.eqb fn "okp_dumps_private" then
    Some (PDict (okp_dumps_private (arg_s "crv" a) (arg_s "x" a) (arg_s "d" a)))
  else if String.eqb fn "oct_dumps" then Some (PDict (oct_dumps (pv_str a)))
  else if String.eqb fn "has_all_prime_factors" then
    Some (pv_of_kres PBool (has_all_prime_factors (dict_of_pv a)))
  else if String.eqb fn "thumbprint_input" then
    Some (pv_of_kres PStr (thumbprint_input (arg_s "kty" a) (arg_strs "required" a) (dict_of_pv (arg "tokens" a))))
  else None.

Definition pv_of_verr (e : option verr) : pv :=
  match e with
  | None => PNone
  | Some (EMissing k) => PList [PStr "missing_claim"; PStr k]
  | Some (EInvalid k) => PList [PStr "invalid_claim"; PStr k]
  | Some EExpired => PList [PStr "expired_token"; PStr "exp"]
  | Some (EInvalidToken w) => PList [PStr "invalid_token"; PStr w]
  end.

Definition o_vfun (name : string) (claims : dictT) (v : pv) : bool :=
  pv_bool (oracle "validate" (PList [PStr name; PDict claims; v])).
Definition o_half_hash (s alg : string) : option string :=
  match oracle "half_hash" (PList [PStr s; PStr alg]) with PStr h => Some h | _ => None end.

Definition dispatch_claims (fn : string) (a : pv) : option pv :=
  let opts := dict_of_pv (arg "options" a) in
  let claims := dict_of_pv (arg "claims" a) in
  let hdr := dict_of_pv (arg "header" a) in
  let params := dict_of_pv (arg "params" a) in
  let now := arg_z "now" a in
  let lw := arg_z "leeway" a in
  if String.eqb fn "jwt_validate" then Some (pv_of_verr (jwt_validate o_vfun opts claims now lw))
  else if String.eqb fn "idtoken_validate" then
    let kind := arg_s "kind" a in
    let k := if String.eqb kind "code" then KCode else if String.eqb kind "implicit" then KImplicit else KHybrid in
    Some (pv_of_verr (idtoken_validate o_vfun o_half_hash k opts hdr params claims now lw))
  else if String.eqb fn "at_validate" then Some (pv_of_verr (at_validate o_vfun opts hdr claims now lw))
  else if String.eqb fn "jwt_spec" then Some (PBool (jwt_claims_ok o_vfun JWT_REGISTERED opts claims now lw))
  else if String.eqb fn "idtoken_spec" then
    let kind := arg_s "kind" a in
    let k := if String.eqb kind "code" then FCode else if String.eqb kind "implicit" then FImplicit else FHybrid in
    Some (PBool (idtoken_ok o_vfun o_half_hash k opts hdr params claims now lw))
  else if String.eqb fn "at_spec" then Some (PBool (at_claims_ok o_vfun opts hdr claims now lw))
  else None.

Definition pv_of_outcome (o : outcome) : pv :=
  match o with
  | Serve s => PList [PStr "serve"; PStr s]
  | Refuse st c => PList [PStr "refuse"; PInt (Z.of_N st); PStr c]
  | Escapes c => PList [PStr "escapes"; PStr c]
  end.

Definition store_of_pv (v : pv) : store :=
  map (fun kv => (fst kv, {| t_expired := arg_b "expired" (snd kv);
                             t_revoked := arg_b "revoked" (snd kv);
                             t_scope := arg "scope" (snd kv) |})) (dict_of_pv v).

Definition dispatch_resource (fn : string) (a : pv) : option pv :=
  if String.eqb fn "validate_request" then
    Some (pv_of_outcome (validate_request (arg_strs "types" a) (store_of_pv (arg "store" a))
                           (arg_opt_s "auth" a) (norm_required (arg "required" a))))
  else if String.eqb fn "scope_insufficient" then
    Some (PBool (scope_insufficient (arg "token_scope" a) (norm_required (arg "required" a))))
  else if String.eqb fn "split_max1" then Some (pv_of_strs (split_max1 (pv_str a)))
  else if String.eqb fn "at_validate_request" then
    let sg := match arg "sig" a with
              | PList [PStr _; h; c] => SigOk (dict_of_pv h) (dict_of_pv c)
              | PStr k => if String.eqb k "malformed" then SigMalformed
                          else if String.eqb k "bad" then SigBad else SigKeyError
              | _ => SigMalformed
              end in
    Some (pv_of_outcome (at_validate_request (arg_s "issuer" a) (arg_s "resource_server" a) sg
                           (arg_z "now" a) (norm_required (arg "scopes" a)) (norm_required (arg "groups" a))
                           (norm_required (arg "roles" a)) (norm_required (arg "entitlements" a))))
  else None.

Definition dispatch_scope (fn : string) (a : pv) : option pv :=
  if String.eqb fn "issue" then
    let gn := arg_s "grant" a in
    let gr := if String.eqb gn "code" then GCode else if String.eqb gn "implicit" then GImplicit
              else if String.eqb gn "password" then GPassword
              else if String.eqb gn "client_credentials" then GClientCredentials
              else if String.eqb gn "refresh" then GRefresh else if String.eqb gn "device" then GDevice
              else GJwtBearer in
    let tn := arg_s "generator" a in
    let g := if String.eqb tn "bearer" then GenBearer else if String.eqb tn "jwt7523" then GenJwt7523 else GenJwt9068 in
    Some (match issue gr g (arg_strs "supported" a) (arg_s "client_scope" a)
                      (arg_opt_s "requested" a) (arg_opt_s "original" a) with
          | Issued r e => PList [PStr "issued"; pv_of_ostr r; pv_of_ostr e]
          | InvalidScope => PList [PStr "error"; PStr "invalid_scope"]
          end)
  else None.

Definition creq_of_pv (a : pv) : creq :=
  {| r_auth := arg_opt_s "auth" a; r_form_id := arg_opt_s "form_id" a; r_form_secret := arg_opt_s "form_secret" a;
     r_data_id := arg_opt_s "data_id" a; r_data_secret := arg_opt_s "data_secret" a;
     r_assertion_type := arg_opt_s "assertion_type" a; r_assertion := arg_opt_s "assertion" a;
     r_assertion_sig_ok := arg_b "assertion_sig_ok" a; r_assertion_wellformed := arg_b "assertion_wellformed" a;
     r_assertion_claims := dict_of_pv (arg "assertion_claims" a) |}.

Definition dispatch_clientauth (fn : string) (a : pv) : option pv :=
  if String.eqb fn "extract_basic" then
    Some (let '(u, p) := extract_basic (arg_opt_s "auth" a) in PList [pv_of_ostr u; pv_of_ostr p])
  else if String.eqb fn "authenticate" then
    let reg := map (fun c => {| c_id := arg_s "id" c; c_secret := arg_s "secret" c; c_method := arg_s "method" c |})
                   (arg_l "registry" a) in
    let used := arg_strs "used_jti" a in
    Some (match Model.ClientAuth.authenticate (arg_s "token_url" a) (fun j => negb (list_in_str j used)) (arg_z "now" a)
                  reg (creq_of_pv (arg "request" a)) (arg_strs "methods" a) (arg_s "endpoint" a) with
          | AOk id m => PList [PStr "ok"; PStr id; PStr m]
          | AInvalidClient st => PList [PStr "invalid_client"; PInt (Z.of_N st)]
          end)
  else None.

Definition pv_of_url (u : url6) : pv :=
  PList [PStr (u_scheme u); PStr (u_netloc u); PStr (u_path u); PStr (u_params u); PStr (u_query u); PStr (u_fragment u)].

Definition dispatch_url (fn : string) (a : pv) : option pv :=
  if String.eqb fn "urlparse" then Some (pv_of_url (urlparse (pv_str a)))
  else if String.eqb fn "urlunparse" then
    match pv_list a with
    | [s; n; p; pa; q; f] => Some (PStr (urlunparse {| u_scheme := pv_str s; u_netloc := pv_str n; u_path := pv_str p;
                                                        u_params := pv_str pa; u_query := pv_str q; u_fragment := pv_str f |}))
    | _ => None
    end
  else if String.eqb fn "is_valid_url" then Some (PBool (is_valid_url (arg_s "url" a) (arg_b "fragments_allowed" a)))
  else if String.eqb fn "is_secure_transport" then Some (PBool (is_secure_transport (pv_str a)))
  else if String.eqb fn "hostname" then Some (pv_of_ostr (hostname (pv_str a)))
  else if String.eqb fn "unquote" then Some (PStr (unquote (pv_str a)))
  else if String.eqb fn "quote" then Some (PStr (quote (arg_s "safe" a) (arg_s "s" a)))
  else if String.eqb fn "quote_plus" then Some (PStr (quote_plus (pv_str a)))
  else if String.eqb fn "utf8_valid" then Some (PBool (utf8_valid (pv_str a)))
  else None.

Definition pv_of_mres (r : mres) : pv :=
  match r with MOk => PList [PStr "ok"] | MErr k => PList [PStr "error"; PStr k] | MCrash => PList [PStr "crash"] end.

Definition dispatch_metadata (fn : string) (a : pv) : option pv :=
  if String.eqb fn "as_validate" then Some (pv_of_mres (as_validate (dict_of_pv a)))
  else if String.eqb fn "op_validate" then Some (pv_of_mres (op_validate (dict_of_pv a)))
  else if String.eqb fn "as_spec" then Some (PList [PBool (doc_ok RFC8414_RULES (dict_of_pv a)); PBool (doc_wf (dict_of_pv a))])
  else if String.eqb fn "op_spec" then Some (PList [PBool (doc_ok OIDC_RULES (dict_of_pv a)); PBool (doc_wf (dict_of_pv a))])
  else None.

Definition opt_strs (v : pv) : option (list string) :=
  match v with PList l => Some (map pv_str l) | _ => None end.
Definition server_md_of (a : pv) : server_md :=
  {| scopes_supported := opt_strs (arg "scopes_supported" a);
     response_types_supported := opt_strs (arg "response_types_supported" a);
     grant_types_supported := opt_strs (arg "grant_types_supported" a);
     auth_methods_supported := opt_strs (arg "token_endpoint_auth_methods_supported" a) |}.
Definition pv_of_rres (r : rres) : pv :=
  match r with
  | Stored m => PList [PStr "stored"; PDict m]
  | Refused st e => PList [PStr "refused"; PInt (Z.of_N st); PStr e]
  end.
Definition dispatch_registration (fn : string) (a : pv) : option pv :=
  if String.eqb fn "register" then
    Some (pv_of_rres (register (arg_b "token_valid" a) (server_md_of (arg "server" a)) (arg_b "jwks_ok" a)
                               (dict_of_pv (arg "payload" a))))
  else if String.eqb fn "update" then
    Some (pv_of_rres (update (arg_b "token_valid" a) (arg_b "client_exists" a) (arg_b "permitted" a)
                             (arg_s "client_id" a) (arg_s "client_secret" a)
                             (server_md_of (arg "server" a)) (arg_b "jwks_ok" a) (dict_of_pv (arg "payload" a))))
  else if String.eqb fn "stored_ok" then
    Some (PBool (stored_ok (server_md_of (arg "server" a)) (dict_of_pv (arg "metadata" a))))
  else None.

Definition pairs_of_pv (v : pv) : list pair_s :=
  map (fun x => match pv_list x with [k; w] => (pv_str k, pv_str w) | _ => ("", "") end) (pv_list v).
Definition pv_of_pairs (l : list pair_s) : pv := PList (map (fun kv => PList [PStr (fst kv); PStr (snd kv)]) l).
Definition pv_of_presp (r : presp) : pv :=
  match r with PParams ps => PList [PStr "params"; pv_of_pairs ps] | PErr c => PList [PStr "error"; PStr c] end.

Definition dispatch_wire (fn : string) (a : pv) : option pv :=
  if String.eqb fn "urlencode" then Some (PStr (urlencode (pairs_of_pv a)))
  else if String.eqb fn "parse_qsl" then Some (pv_of_pairs (parse_qsl (arg_b "keep_blank" a) (arg_s "qs" a)))
  else if String.eqb fn "url_decode" then Some (opt_pv pv_of_pairs (url_decode (pv_str a)))
  else if String.eqb fn "add_params_to_qs" then Some (PStr (add_params_to_qs (arg_s "query" a) (pairs_of_pv (arg "params" a))))
  else if String.eqb fn "add_params_to_uri" then
    Some (PStr (add_params_to_uri (arg_s "uri" a) (pairs_of_pv (arg "params" a)) (arg_b "fragment" a)))
  else if String.eqb fn "prepare_grant_uri" then
    Some (PStr (prepare_grant_uri (arg_s "uri" a) (arg_s "client_id" a) (arg_s "response_type" a)
                  (arg_opt_s "redirect_uri" a) (arg_opt_s "scope" a) (arg_opt_s "state" a) (pairs_of_pv (arg "extra" a))))
  else if String.eqb fn "prepare_token_request" then
    Some (PStr (prepare_token_request (arg_s "grant_type" a) (arg_s "body" a) (arg_opt_s "redirect_uri" a)
                  (pairs_of_pv (arg "kwargs" a))))
  else if String.eqb fn "encode_basic" then Some (PStr (encode_basic (arg_s "id" a) (arg_s "secret" a)))
  else if String.eqb fn "parse_code_response" then
    Some (pv_of_presp (parse_authorization_code_response (arg_s "uri" a) (arg_opt_s "state" a)))
  else if String.eqb fn "parse_implicit_response" then
    Some (pv_of_presp (parse_implicit_response (arg_s "uri" a) (arg_opt_s "state" a)))
  else if String.eqb fn "request_args" then Some (opt_pv pv_of_pairs (request_args (pv_str a)))
  else if String.eqb fn "comp_wf" then Some (PBool (Proofs.UrlP.comp_wf (urlparse (pv_str a))))
  else None.

Definition o_hmac_sha1 (k m : string) : string := pv_str (oracle "hmac_sha1" (PList [PStr k; PStr m])).

Definition dispatch_oauth1sig (fn : string) (a : pv) : option pv :=
  if String.eqb fn "o1_escape" then Some (PStr (escape (pv_str a)))
  else if String.eqb fn "o1_unescape" then Some (PStr (unescape (pv_str a)))
  else if String.eqb fn "o1_normalize_uri" then Some (pv_of_ostr (normalize_base_string_uri (arg_s "uri" a) (arg_opt_s "host" a)))
  else if String.eqb fn "o1_normalize_parameters" then Some (PStr (normalize_parameters (pairs_of_pv a)))
  else if String.eqb fn "o1_base_string" then
    Some (pv_of_ostr (construct_base_string (arg_s "method" a) (arg_s "uri" a) (pairs_of_pv (arg "params" a)) (arg_opt_s "host" a)))
  else if String.eqb fn "o1_hmac_signature" then
    Some (PStr (hmac_sha1_signature o_hmac_sha1 (arg_s "base" a) (arg_s "client_secret" a) (arg_s "token_secret" a)))
  else if String.eqb fn "o1_plaintext_signature" then
    Some (PStr (plaintext_signature (arg_s "client_secret" a) (arg_s "token_secret" a)))
  else if String.eqb fn "o1_render_header" then
    Some (PStr (render_header (pairs_of_pv (arg "oauth_params" a)) (arg_opt_s "realm" a)))
  else if String.eqb fn "o1_render_body" then
    Some (PStr (render_body (pairs_of_pv (arg "oauth_params" a)) (pairs_of_pv (arg "body_params" a))))
  else None.

Definition oclient_of (c : pv) : oclient :=
  {| oc_id := arg_s "id" c; oc_redirects := arg_strs "redirect_uris" c; oc_response_types := arg_strs "response_types" c;
     oc_auth_method := arg_s "auth_method" c; oc_scope := arg_s "scope" c |}.
Definition acfg_of (a : pv) : acfg :=
  {| a_clients := map oclient_of (arg_l "clients" a); a_scopes_supported := arg_strs "scopes_supported" a;
     a_used_nonces := pairs_of_pv (arg "used_nonces" a); a_require_nonce := arg_b "require_nonce" a |}.
Definition pv_of_aresp (r : aresp) : pv :=
  match r with
  | ALocal st e => PList [PStr "local"; PInt (Z.of_N st); PStr e]
  | ARedirect t ps fr => PList [PStr "redirect"; PStr t; pv_of_pairs ps; PBool fr]
  | AFormPost t ps => PList [PStr "form_post"; PStr t; pv_of_pairs ps]
  end.
Definition dispatch_authorize (fn : string) (a : pv) : option pv :=
  if String.eqb fn "authorize_respond" then
    Some (pv_of_aresp (respond (acfg_of (arg "config" a)) (pairs_of_pv (arg "query" a)) (pairs_of_pv (arg "form" a)) (arg_b "approve" a)))
  else None.

Definition o_sha256 (m : string) : string := pv_str (oracle "sha256" (PStr m)).

Definition cred_of (v : pv) : cred :=
  match v with
  | PList [PStr k; PStr id; PStr sec] => if String.eqb k "basic" then CBasic id sec else CAbsent
  | PList [PStr k; PStr id] => if String.eqb k "none" then CNone id else CAbsent
  | _ => CAbsent
  end.
Definition onat (v : pv) : option nat := match v with PInt z => Some (Z.to_nat z) | _ => None end.
Definition ostr (v : pv) : option string := match v with PStr s => Some s | _ => None end.

Definition cf_op_of (v : pv) : op :=
  let k := arg_s "op" v in
  if String.eqb k "authorize" then
    OAuthorize (arg_s "client" v) (ostr (arg "redirect" v)) (ostr (arg "scope" v)) (ostr (arg "challenge" v))
               (ostr (arg "method" v)) (ostr (arg "approve" v))
  else if String.eqb k "redeem" then ORedeem (onat (arg "code" v)) (cred_of (arg "cred" v)) (ostr (arg "redirect" v)) (ostr (arg "verifier" v))
  else if String.eqb k "device_authorize" then ODeviceAuthorize (cred_of (arg "cred" v)) (ostr (arg "client_param" v)) (ostr (arg "scope" v))
  else if String.eqb k "decide" then ODecide (pv_nat (arg "device" v)) (arg_s "user" v) (arg_b "approve" v)
  else if String.eqb k "poll" then OPoll (onat (arg "device" v)) (cred_of (arg "cred" v))
  else OTick (arg_z "dt" v).

Definition pv_of_out (o : out) : pv :=
  match o with
  | OutCode n => PList [PStr "code"; PInt (Z.of_nat n)]
  | OutDevice n => PList [PStr "device"; PInt (Z.of_nat n)]
  | OutToken u sc => PList [PStr "token"; PStr u; pv_of_ostr sc]
  | OutError e => PList [PStr "error"; PStr e]
  | OutNone => PList [PStr "none"]
  end.

Definition dispatch_codeflow (fn : string) (a : pv) : option pv :=
  if String.eqb fn "codeflow_run" then
    let reg := map (fun c => {| cc_id := arg_s "id" c; cc_secret := arg_s "secret" c; cc_method := arg_s "method" c;
                                cc_redirects := arg_strs "redirect_uris" c; cc_scope := arg_s "scope" c;
                                cc_grants := arg_strs "grants" c |}) (arg_l "registry" a) in
    let ops := map cf_op_of (arg_l "ops" a) in
    let outs := run_outs reg o_sha256 (arg_b "pkce_required" a) CodeFlow.init ops in
    let fin := CodeFlow.run reg o_sha256 (arg_b "pkce_required" a) ops in
    Some (PDict [("outs", PList (map pv_of_out outs));
                 ("live_codes", PList (map (fun c => PInt (Z.of_nat (cr_id c))) (s_codes fin)));
                 ("tokens", PInt (Z.of_nat (List.length (s_tokens fin))))])
  else if String.eqb fn "pkce_wf" then Some (PBool (pkce_wf (pv_str a)))
  else None.

Definition tref_of (v : pv) : option tref :=
  match v with
  | PList [PStr k; PInt i] => if String.eqb k "access" then Some (RAccess (Z.to_nat i)) else Some (RRefresh (Z.to_nat i))
  | PStr _ => Some RUnknown
  | _ => None
  end.
Definition lcred_of (v : pv) : lcred :=
  match v with PList [PStr id; PStr sec] => LBasic id sec | _ => LAbsent end.
Definition hint_of (v : pv) : hint :=
  match v with
  | PStr h => if String.eqb h "access_token" then HAccess else if String.eqb h "refresh_token" then HRefresh
              else if String.eqb h "" then HNone else HBogus
  | _ => HNone
  end.
Definition lop_of (v : pv) : lop :=
  let k := arg_s "op" v in
  if String.eqb k "issue" then LIssue (arg_b "password" v) (lcred_of (arg "cred" v)) (arg_s "user" v) (ostr (arg "scope" v))
  else if String.eqb k "refresh" then
    LRefresh (match tref_of (arg "token" v) with Some t => t | None => RUnknown end) (lcred_of (arg "cred" v)) (ostr (arg "scope" v))
  else if String.eqb k "revoke" then LRevoke (tref_of (arg "token" v)) (lcred_of (arg "cred" v)) (hint_of (arg "hint" v))
  else if String.eqb k "introspect" then LIntrospect (tref_of (arg "token" v)) (lcred_of (arg "cred" v)) (hint_of (arg "hint" v))
  else if String.eqb k "access" then
    LAccess (match tref_of (arg "token" v) with Some t => t | None => RUnknown end) (norm_required (arg "required" v))
  else LTick (arg_z "dt" v).
Definition pv_of_lout (o : lout) : pv :=
  match o with
  | LToken i sc hr => PList [PStr "token"; PInt (Z.of_nat i); pv_of_ostr sc; PBool hr]
  | LOk200 => PList [PStr "ok"]
  | LIntro a c sc => PList [PStr "introspect"; PBool a; PStr c; pv_of_ostr sc]
  | LServe i => PList [PStr "serve"; PInt (Z.of_nat i)]
  | LErr st c => PList [PStr "error"; PInt (Z.of_N st); PStr c]
  | LNone => PList [PStr "none"]
  end.
Definition dispatch_tokenlife (fn : string) (a : pv) : option pv :=
  if String.eqb fn "tokenlife_run" then
    let reg := map (fun c => {| lc_id := arg_s "id" c; lc_secret := arg_s "secret" c; lc_scope := arg_s "scope" c;
                                lc_grants := arg_strs "grants" c |}) (arg_l "registry" a) in
    let ops := map lop_of (arg_l "ops" a) in
    let fin := lrun reg (arg_s "introspector" a) ops in
    Some (PDict [("outs", PList (map pv_of_lout (lrun_outs reg (arg_s "introspector" a) linit ops)));
                 ("tokens", PList (map (fun t => PList [PStr (k_client t); pv_of_ostr (k_scope t); PBool (k_acc_rev t);
                                                        PBool (k_ref_rev t)]) (l_toks fin)))])
  else None.


Definition dispatch (fn : string) (a : pv) : pv :=
  if String.eqb fn "oracle_echo" then oracle "echo" a else
  match dispatch_jwk fn a with
  | Some r => r
  | None =>
  match dispatch_claims fn a with
  | Some r => r
  | None =>
  match dispatch_resource fn a with
  | Some r => r
  | None =>
  match dispatch_scope fn a with
  | Some r => r
  | None =>
  match dispatch_clientauth fn a with
  | Some r => r
  | None =>
  match dispatch_url fn a with
  | Some r => r
  | None =>
  match dispatch_metadata fn a with
  | Some r => r
  | None =>
  match dispatch_registration fn a with
  | Some r => r
  | None =>
  match dispatch_wire fn a with
  | Some r => r
  | None =>
  match dispatch_oauth1sig fn a with
  | Some r => r
  | None =>
  match dispatch_authorize fn a with
  | Some r => r
  | None =>
  match dispatch_codeflow fn a with
  | Some r => r
  | None =>
  match dispatch_tokenlife fn a with
  | Some r => r
  | None =>
  match dispatch_asyncrefresh fn a with
  | Some r => r
  | None =>
  match dispatch_o1provider oracle fn a with
  | Some r => r
  | None =>
  match dispatch_faultflow fn a with
  | Some r => r
  | None =>
  match dispatch_idtoken oracle fn a with
  | Some r => r
  | None =>
  match dispatch_clientstate fn a with
  | Some r => r
  | None =>
  match dispatch_jws oracle fn a with
  | Some r => r
  | None =>
  match dispatch_keypolicy fn a with
  | Some r => r
  | None =>
  match dispatch_jwe oracle fn a with
  | Some r => r
  | None =>
  match dispatch_robust oracle fn a with
  | Some r => r
  | None => err ("unknown function " ++ fn)
  end end end end end end end end end end end end end end end end end end end end end end.
End D.
