(* The three request wrappers read alike what has no name twice -- the reason why the correspondence harness may send such
   requests through any of them (harness/impl/transports.py: usable). *)
From Coq Require Import List Bool String.
From Authlib Require Import Model.Transport.
Import ListNotations.
Open Scope string_scope.
Open Scope list_scope.

Lemma first_of_None l k : ~ In k (names l) -> first_of l k = None.
Proof.
  induction l as [|[n v] r IH]; cbn; intros H; [reflexivity|].
  destruct (String.eqb_spec n k) as [E|E]; [exfalso; apply H; left; exact E|].
  apply IH. intros Hin. apply H. right. exact Hin.
Qed.

Lemma last_of_None l k : ~ In k (names l) -> last_of l k = None.
Proof.
  induction l as [|[n v] r IH]; cbn; intros H; [reflexivity|].
  rewrite IH by (intros Hin; apply H; right; exact Hin).
  destruct (String.eqb_spec n k) as [E|E]; [exfalso; apply H; left; exact E|reflexivity].
Qed.

Lemma first_of_In l k v : first_of l k = Some v -> In k (names l).
Proof.
  induction l as [|[n w] r IH]; cbn; [discriminate|].
  destruct (String.eqb_spec n k) as [E|E]; intros H; [left; exact E|right; apply IH; exact H].
Qed.

Lemma first_last_nodup l k : NoDup (names l) -> first_of l k = last_of l k.
Proof.
  induction l as [|[n v] r IH]; cbn; intros H; [reflexivity|].
  inversion H as [|x xs Hn Hr]; subst.
  destruct (String.eqb_spec n k) as [E|E].
  - subst. rewrite last_of_None by exact Hn. reflexivity.
  - rewrite IH by exact Hr. destruct (last_of r k); reflexivity.
Qed.

Lemma NoDup_app_l {A} (a b : list A) : NoDup (a ++ b) -> NoDup a.
Proof. induction a as [|x a IH]; cbn; intros H; [constructor|]. inversion H; subst. constructor; [|auto]. intros Hin. apply H2. apply in_or_app. left. exact Hin. Qed.

Lemma NoDup_app_r {A} (a b : list A) : NoDup (a ++ b) -> NoDup b.
Proof. induction a as [|x a IH]; cbn; intros H; [exact H|]. inversion H; subst. auto. Qed.

Lemma NoDup_app_disj {A} (a b : list A) x : NoDup (a ++ b) -> In x a -> ~ In x b.
Proof.
  induction a as [|y a IH]; cbn; intros H Ha; [contradiction|].
  inversion H; subst. destruct Ha as [E|Ha]; [subst; intros Hb; apply H2; apply in_or_app; right; exact Hb|auto].
Qed.

(* when no name occurs twice (within the query, within the form, or across the two) the three wrappers read every
   parameter alike *)
Theorem readings_agree q f k :
  NoDup (names (q ++ f)) -> flask_data q f k = neutral_data q f k /\ django_data q f k = neutral_data q f k.
Proof.
  unfold names. rewrite map_app. intros H. split; [|reflexivity].
  unfold flask_data, neutral_data.
  rewrite (first_last_nodup q k (NoDup_app_l _ _ H)), (first_last_nodup f k (NoDup_app_r _ _ H)).
  destruct (last_of q k) as [v|] eqn:Eq; destruct (last_of f k) as [w|] eqn:Ef; try reflexivity.
  exfalso. rewrite <- (first_last_nodup q k (NoDup_app_l _ _ H)) in Eq. rewrite <- (first_last_nodup f k (NoDup_app_r _ _ H)) in Ef.
  exact (NoDup_app_disj _ _ k H (first_of_In _ _ _ Eq) (first_of_In _ _ _ Ef)).
Qed.

(* and the restriction is needed: a name in both places is read differently by Flask *)
Example readings_differ : flask_data [("client_id", "a")] [("client_id", "b")] "client_id" <> neutral_data [("client_id", "a")] [("client_id", "b")] "client_id".
Proof. cbn. discriminate. Qed.
Print Assumptions readings_agree.
