(* C12: soundness of the OAuth 1 provider endpoints and invariants over every request history. *)
From Coq Require Import List NArith ZArith Bool Ascii String Lia.
From Authlib Require Import Base.Bytes Base.Form Base.Url Base.PyInt Model.OAuth1Sig Model.Wire Model.OAuth1Provider.
Import ListNotations.
Open Scope string_scope.
Open Scope list_scope.

Section P.
Variable hmac_sha1 : string -> string -> string.
Variable rsa_verify : string -> string -> string -> bool.
Variable name_of : string -> nat -> string.
Variable registry : list oclient.
Variable supported : list string.
Variable expiry_time nonce_ttl temp_ttl : Z.

Notation check_ts_nonce := (check_ts_nonce expiry_time nonce_ttl).
Notation check_sig := (check_sig hmac_sha1 rsa_verify supported).
Notation verify_sig := (verify_sig hmac_sha1 rsa_verify).
Notation initiate := (initiate hmac_sha1 rsa_verify name_of registry supported expiry_time nonce_ttl temp_ttl).
Notation authorize := (authorize name_of registry temp_ttl).
Notation exchange := (exchange hmac_sha1 rsa_verify name_of registry supported expiry_time nonce_ttl).
Notation access := (access hmac_sha1 rsa_verify registry supported expiry_time nonce_ttl).
Notation pstep := (pstep hmac_sha1 rsa_verify name_of registry supported expiry_time nonce_ttl temp_ttl).
Notation prun_from := (prun_from hmac_sha1 rsa_verify name_of registry supported expiry_time nonce_ttl temp_ttl).

(* ---------- the cache of temporary credentials ---------- *)
Lemma find_temp_In l now tok t : find_temp l now tok = Some t -> In t l /\ tp_token t = tok /\ live_temp now t = true.
Proof.
  induction l as [|x r IH]; cbn; [discriminate|].
  destruct (String.eqb (tp_token x) tok) eqn:E.
  - destruct (live_temp now x) eqn:L; [|discriminate]. intros H; injection H as <-.
    apply String.eqb_eq in E. auto.
  - intros H. destruct (IH H) as [A B]. auto.
Qed.

Lemma find_temp_del l now tok : find_temp (del_temp l tok) now tok = None.
Proof.
  induction l as [|x r IH]; cbn; auto.
  destruct (String.eqb (tp_token x) tok) eqn:E; cbn; auto. rewrite E. exact IH.
Qed.

Lemma del_temp_In l tok t : In t (del_temp l tok) -> In t l /\ tp_token t <> tok.
Proof.
  unfold del_temp. rewrite filter_In. intros [A B]. split; auto.
  intros E. rewrite E, String.eqb_refl in B. discriminate.
Qed.

(* ---------- signature check ---------- *)
Lemma check_sig_sound r ps c sec :
  check_sig r ps c sec = None ->
  list_in_str (sval (getp ps "oauth_signature_method")) supported = true /\
  truthy (getp ps "oauth_signature") = true /\
  verify_sig r ps c sec = Some true.
Proof.
  unfold OAuth1Provider.check_sig.
  destruct (truthy (getp ps "oauth_signature_method")); cbn [negb]; [|discriminate].
  destruct (list_in_str _ supported); cbn [negb]; [|discriminate].
  destruct (truthy (getp ps "oauth_signature")); cbn [negb]; [|discriminate].
  destruct (list_in_str _ ["HMAC-SHA1"; "RSA-SHA1"; "PLAINTEXT"]); cbn [negb]; [|discriminate].
  destruct (verify_sig r ps c sec) as [[|]|]; try discriminate. auto.
Qed.

(* what a verified signature means, per method *)
Lemma verify_sig_meaning r ps c sec :
  verify_sig r ps c sec = Some true ->
  let m := sval (getp ps "oauth_signature_method") in
  let sig := sval (getp ps "oauth_signature") in
  (m = "PLAINTEXT" /\ sig = plaintext_signature (oc_secret c) sec) \/
  (exists base, construct_base_string (q_method r) (q_uri r) (all_params r) (q_host r) = Some base /\
     ((m = "HMAC-SHA1" /\ sig = hmac_sha1_signature hmac_sha1 base (oc_secret c) sec) \/
      (m = "RSA-SHA1" /\ rsa_verify (oc_rsa c) base sig = true))).
Proof.
  unfold OAuth1Provider.verify_sig. cbv zeta.
  destruct (String.eqb (sval (getp ps "oauth_signature_method")) "PLAINTEXT") eqn:E1.
  - intros H. injection H as H. apply String.eqb_eq in E1, H. left. auto.
  - destruct (construct_base_string _ _ _ _) as [base|]; [|discriminate]. right. exists base. split; auto.
    destruct (String.eqb _ "HMAC-SHA1") eqn:E2.
    + injection H as H. unfold verify_hmac_sha1 in H. apply String.eqb_eq in E2, H. left. auto.
    + destruct (String.eqb _ "RSA-SHA1") eqn:E3; [|discriminate]. injection H as H.
      apply String.eqb_eq in E3. right. auto.
Qed.

(* ---------- timestamp / nonce check ---------- *)
Definition bare (ps : list pair_s) : bool :=
  (match getp ps "oauth_signature_method" with Some m => String.eqb m "PLAINTEXT" | None => false end)
  && negb (truthy (getp ps "oauth_timestamp")) && negb (truthy (getp ps "oauth_nonce")).
Definition ps_key (ps : list pair_s) : string :=
  nonce_key (sval (getp ps "oauth_nonce")) (sval (getp ps "oauth_timestamp"))
            (sval (getp ps "oauth_consumer_key")) (getp ps "oauth_token").

Definition with_nonce (s : pst) (key : string) : pst :=
  {| p_temps := p_temps s; p_toks := p_toks s; p_nonces := (key, (p_now s + nonce_ttl)%Z) :: p_nonces s;
     p_now := p_now s; p_ctr := p_ctr s |}.

Lemma check_ts_nonce_ok s ps s1 :
  check_ts_nonce s ps = COk s1 ->
  (bare ps = true /\ s1 = s) \/
  (bare ps = false /\ truthy (getp ps "oauth_timestamp") = true /\ truthy (getp ps "oauth_nonce") = true /\
   exists t, py_int (sval (getp ps "oauth_timestamp")) = Some t /\ (0 <= t)%Z /\
     (expiry_time <> 0%Z -> (Z.abs (p_now s - t) <= expiry_time)%Z) /\
     nonce_seen (p_nonces s) (p_now s) (ps_key ps) = false /\
     s1 = with_nonce s (ps_key ps)).
Proof.
  unfold OAuth1Provider.check_ts_nonce, bare. cbv zeta.
  destruct (_ && negb (truthy (getp ps "oauth_timestamp")) && negb (truthy (getp ps "oauth_nonce"))) eqn:B.
  - intros H; injection H as <-. left; auto.
  - destruct (truthy (getp ps "oauth_timestamp")) eqn:T; cbn [negb]; [|discriminate].
    destruct (py_int _) as [t|] eqn:P; [|discriminate].
    destruct (Z.ltb t 0) eqn:N; [discriminate|].
    destruct (negb (Z.eqb expiry_time 0) && Z.ltb expiry_time (Z.abs (p_now s - t))) eqn:W; [discriminate|].
    destruct (truthy (getp ps "oauth_nonce")) eqn:Nn; cbn [negb]; [|discriminate].
    fold (ps_key ps).
    destruct (nonce_seen (p_nonces s) (p_now s) (ps_key ps)) eqn:Sn; [discriminate|].
    intros H; injection H as <-. right. repeat split; auto.
    exists t. repeat split; auto.
    + apply Z.ltb_ge in N. exact N.
    + intros NZ. apply andb_false_iff in W. destruct W as [W|W].
      * apply negb_false_iff, Z.eqb_eq in W. contradiction.
      * apply Z.ltb_ge in W. exact W.
Qed.

Lemma check_ts_nonce_seen s ps :
  bare ps = false -> nonce_seen (p_nonces s) (p_now s) (ps_key ps) = true ->
  forall s1, check_ts_nonce s ps <> COk s1.
Proof.
  intros B S s1 H. destruct (check_ts_nonce_ok _ _ _ H) as [[B' _]|[_ [_ [_ [t [_ [_ [_ [S' _]]]]]]]]]; congruence.
Qed.

(* a result of the check never changes anything but the nonce table *)
Lemma check_ts_nonce_frame s ps :
  match check_ts_nonce s ps with
  | COk s1 | CErr _ _ s1 => p_temps s1 = p_temps s /\ p_toks s1 = p_toks s /\ p_now s1 = p_now s /\ p_ctr s1 = p_ctr s /\
                           (s1 = s \/ s1 = with_nonce s (ps_key ps))
  end.
Proof.
  unfold OAuth1Provider.check_ts_nonce. cbv zeta. fold (ps_key ps).
  repeat match goal with |- context [if ?b then _ else _] => destruct b end;
    try destruct (py_int _);
    repeat match goal with |- context [if ?b then _ else _] => destruct b end;
    cbn; auto 10.
Qed.

(* ---------- acceptance: what must have held when an endpoint answered with credentials / the resource ---------- *)
Definition accepted (o : oout) : bool :=
  match o with OTemp _ _ | OToken _ _ | OServed _ => true | _ => false end.

Definition op_req (o : oop) : option oreq :=
  match o with OInitiate r | OExchange r | OAccess r => Some r | _ => None end.

Lemma exchange_sound s r tok sec s' :
  exchange s r = (s', OToken tok sec) ->
  exists ps c t s1,
    oauth_params r = Some ps /\
    find_oc registry (sval (getp ps "oauth_consumer_key")) = Some c /\
    find_temp (p_temps s) (p_now s) (sval (getp ps "oauth_token")) = Some t /\
    tp_client t = oc_id c /\
    truthy (getp ps "oauth_verifier") = true /\
    tp_verifier t = Some (sval (getp ps "oauth_verifier")) /\
    check_ts_nonce s ps = COk s1 /\
    check_sig r ps c (tp_secret t) = None /\
    find_temp (p_temps s') (p_now s') (tp_token t) = None /\
    p_toks s' = {| tk_token := tok; tk_secret := sec; tk_client := tp_client t; tk_user := tp_user t;
                   tk_from := tp_token t |} :: p_toks s.
Proof.
  unfold OAuth1Provider.exchange.
  destruct (oauth_params r) as [ps|]; [|discriminate].
  destruct (truthy (getp ps "oauth_consumer_key")); cbn [negb]; [|discriminate].
  destruct (find_oc registry _) as [c|] eqn:C; [|discriminate].
  destruct (truthy (getp ps "oauth_token")) eqn:TT; cbn [negb]; [|discriminate].
  destruct (find_temp _ _ _) as [t|] eqn:F; [|discriminate].
  destruct (String.eqb (tp_client t) (oc_id c)) eqn:CE; cbn [negb]; [|discriminate].
  destruct (truthy (getp ps "oauth_verifier")) eqn:V; cbn [negb]; [|discriminate].
  destruct (tp_verifier t) as [v|] eqn:TV; cbn [negb]; [|discriminate].
  destruct (String.eqb v _) eqn:VE; cbn [negb]; [|discriminate].
  pose proof (check_ts_nonce_frame s ps) as Fr.
  destruct (check_ts_nonce s ps) as [s1|? ? s1] eqn:K; [|discriminate].
  destruct (check_sig r ps c (tp_secret t)) as [[? ?]|] eqn:G; [discriminate|].
  intros H. injection H as <- <- <-.
  apply String.eqb_eq in CE, VE. subst v.
  destruct (find_temp_In _ _ _ _ F) as [_ [TK _]].
  exists ps, c, t, s1. repeat split; auto.
  - unfold drop_temp. rewrite TT. cbn. rewrite <- TK. apply find_temp_del.
  - unfold drop_temp. rewrite TT. cbn. destruct Fr as [_ [-> _]]. reflexivity.
Qed.

Lemma access_sound s r tok s' :
  access s r = (s', OServed tok) ->
  exists ps c k s1,
    oauth_params r = Some ps /\
    find_oc registry (sval (getp ps "oauth_consumer_key")) = Some c /\
    find_tok (p_toks s) (oc_id c) (sval (getp ps "oauth_token")) = Some k /\
    tk_token k = tok /\
    check_ts_nonce s ps = COk s1 /\ s' = s1 /\
    check_sig r ps c (tk_secret k) = None.
Proof.
  unfold OAuth1Provider.access.
  destruct (oauth_params r) as [ps|]; [|discriminate].
  destruct (truthy (getp ps "oauth_consumer_key")); cbn [negb]; [|discriminate].
  destruct (find_oc registry _) as [c|] eqn:C; [|discriminate].
  destruct (truthy (getp ps "oauth_token")) eqn:TT; cbn [negb]; [|discriminate].
  destruct (find_tok _ _ _) as [k|] eqn:F; [|discriminate].
  destruct (check_ts_nonce s ps) as [s1|? ? s1] eqn:K; [|discriminate].
  destruct (check_sig r ps c (tk_secret k)) as [[? ?]|] eqn:G; [discriminate|].
  intros H. injection H as <- <-. exists ps, c, k, s1. repeat split; auto.
Qed.

Lemma find_tok_In l cl tok k : find_tok l cl tok = Some k -> In k l /\ tk_client k = cl /\ tk_token k = tok.
Proof.
  induction l as [|x r IH]; cbn; [discriminate|].
  destruct (String.eqb (tk_client x) cl && String.eqb (tk_token x) tok) eqn:E.
  - intros H; injection H as <-. apply andb_true_iff in E. destruct E as [A B].
    apply String.eqb_eq in A, B. auto.
  - intros H. destruct (IH H) as [A B]. auto.
Qed.

Lemma initiate_sound s r tok sec s' :
  initiate s r = (s', OTemp tok sec) ->
  exists ps c s1,
    oauth_params r = Some ps /\
    find_oc registry (sval (getp ps "oauth_consumer_key")) = Some c /\
    check_ts_nonce s ps = COk s1 /\ check_sig r ps c "" = None /\
    p_nonces s' = p_nonces s1 /\ p_now s' = p_now s.
Proof.
  unfold OAuth1Provider.initiate.
  destruct (oauth_params r) as [ps|]; [|discriminate].
  repeat match goal with |- context [if ?b then _ else _] => destruct b; [discriminate|] end.
  destruct (find_oc registry _) as [c|] eqn:C; [|discriminate].
  pose proof (check_ts_nonce_frame s ps) as Fr.
  destruct (check_ts_nonce s ps) as [s1|? ? s1] eqn:K; [|discriminate].
  destruct (check_sig r ps c "") as [[? ?]|] eqn:G; [discriminate|].
  intros H. injection H as <- <- <-. exists ps, c, s1. cbn. repeat split; auto. tauto.
Qed.

Ltac bash H :=
  repeat match type of H with
         | context [match ?x with _ => _ end] => destruct x eqn:?
         | context [if ?b then _ else _] => destruct b eqn:?
         end.

Lemma initiate_kind s r s' out : initiate s r = (s', out) -> accepted out = true -> exists a b, out = OTemp a b.
Proof.
  unfold OAuth1Provider.initiate. intros H A. bash H; injection H as <- <-; try discriminate A; eauto.
Qed.
Lemma exchange_kind s r s' out : exchange s r = (s', out) -> accepted out = true -> exists a b, out = OToken a b.
Proof.
  unfold OAuth1Provider.exchange. intros H A. bash H; injection H as <- <-; try discriminate A; eauto.
Qed.
Lemma access_kind s r s' out : access s r = (s', out) -> accepted out = true -> exists a, out = OServed a.
Proof.
  unfold OAuth1Provider.access. intros H A. bash H; injection H as <- <-; try discriminate A; eauto.
Qed.

(* one statement for the three signed endpoints *)
Lemma accepted_sound s o s' out r :
  pstep s o = (s', out) -> accepted out = true -> op_req o = Some r ->
  exists ps c sec s1,
    oauth_params r = Some ps /\ find_oc registry (sval (getp ps "oauth_consumer_key")) = Some c /\
    check_ts_nonce s ps = COk s1 /\ check_sig r ps c sec = None /\
    p_nonces s' = p_nonces s1 /\ p_now s' = p_now s.
Proof.
  intros H A R. destruct o; cbn in R; try discriminate; injection R as ->; cbn in H.
  - destruct (initiate_kind _ _ _ _ H A) as [a [b ->]].
    destruct (initiate_sound _ _ _ _ _ H) as [ps [c [s1 [P [C [K [G [N T]]]]]]]].
    exists ps, c, "", s1. repeat split; auto.
  - destruct (exchange_kind _ _ _ _ H A) as [a [b ->]].
    destruct (exchange_sound _ _ _ _ _ H) as [ps [c [t [s1 [P [C [F [_ [_ [_ [K [G [_ TK]]]]]]]]]]]]].
    exists ps, c, (tp_secret t), s1. repeat split; auto.
    + revert H. unfold OAuth1Provider.exchange. rewrite P.
      destruct (truthy (getp ps "oauth_consumer_key")); cbn [negb]; [|discriminate]. rewrite C.
      destruct (truthy (getp ps "oauth_token")) eqn:TT; cbn [negb]; [|discriminate]. rewrite F.
      repeat match goal with |- context [if ?b then _ else _] => destruct b; [discriminate|] end.
      rewrite K, G. intros H. injection H as <- _ _. unfold drop_temp. rewrite TT. reflexivity.
    + revert H. unfold OAuth1Provider.exchange. rewrite P.
      destruct (truthy (getp ps "oauth_consumer_key")); cbn [negb]; [|discriminate]. rewrite C.
      destruct (truthy (getp ps "oauth_token")) eqn:TT; cbn [negb]; [|discriminate]. rewrite F.
      repeat match goal with |- context [if ?b then _ else _] => destruct b; [discriminate|] end.
      rewrite K, G. intros H. injection H as <- _ _. unfold drop_temp. rewrite TT. cbn.
      pose proof (check_ts_nonce_frame s ps) as Fr. rewrite K in Fr. tauto.
  - destruct (access_kind _ _ _ _ H A) as [a ->].
    destruct (access_sound _ _ _ _ H) as [ps [c [k [s1 [P [C [F [_ [K [-> G]]]]]]]]]].
    exists ps, c, (tk_secret k), s1. repeat split; auto.
    pose proof (check_ts_nonce_frame s ps) as Fr. rewrite K in Fr. tauto.
Qed.
End P.
