From Coq Require Import List NArith ZArith Bool Ascii String Lia.
From Authlib Require Import Base.Bytes Base.PyVal Model.Resource Model.Scope Model.TokenLife Proofs.ScopeP.
From Authlib Require Proofs.ResourceP.
Import ListNotations.
Open Scope string_scope.
Open Scope list_scope.

Lemma nth_error_update_nth l i f j :
  nth_error (update_nth l i f) j =
  if Nat.eqb i j then option_map f (nth_error l j) else nth_error l j.
Proof.
  revert i j. induction l as [|x r IH]; intros i j.
  - destruct i, j; simpl; try reflexivity; destruct (Nat.eqb _ _); reflexivity.
  - destruct i, j; simpl; try reflexivity. apply IH.
Qed.

Lemma length_update_nth l i f : List.length (update_nth l i f) = List.length l.
Proof. revert i. induction l as [|x r IH]; intros [|i]; simpl; auto. Qed.

Section P.
Variable registry : list lclient.
Variable introspector : string.
Notation lstep := (lstep registry introspector).
Notation lrun_from := (lrun_from registry introspector).

(* the same token, possibly with more revocation marks *)
Definition extends (a b : tok) : Prop :=
  k_client a = k_client b /\ k_user a = k_user b /\ k_scope a = k_scope b /\ k_issued a = k_issued b /\
  k_expires_in a = k_expires_in b /\ k_has_refresh a = k_has_refresh b /\
  (k_acc_rev a = true -> k_acc_rev b = true) /\ (k_ref_rev a = true -> k_ref_rev b = true).

Lemma extends_refl a : extends a a.
Proof. unfold extends; tauto. Qed.
Lemma extends_trans a b c : extends a b -> extends b c -> extends a c.
Proof. unfold extends; intuition congruence. Qed.
Lemma extends_set_acc a : extends a (set_acc_rev a).
Proof. unfold extends, set_acc_rev; simpl; tauto. Qed.
Lemma extends_set_ref a : extends a (set_ref_rev a).
Proof. unfold extends, set_ref_rev; simpl; tauto. Qed.

Lemma update_keeps l i f j tk :
  (forall x, extends x (f x)) -> nth_error l j = Some tk ->
  exists tk', nth_error (update_nth l i f) j = Some tk' /\ extends tk tk'.
Proof.
  intros Hf H. rewrite nth_error_update_nth. destruct (Nat.eqb i j).
  - rewrite H. simpl. eauto.
  - eauto using extends_refl.
Qed.

Lemma app_keeps (l : list tok) x j tk :
  nth_error l j = Some tk -> nth_error (l ++ [x]) j = Some tk.
Proof. intros H. rewrite nth_error_app1; [exact H|]. apply nth_error_Some. congruence. Qed.

(* no operation ever removes a token, changes its identity or clears a revocation mark; time only advances *)
Lemma step_monotone s o j tk :
  nth_error (l_toks s) j = Some tk ->
  (exists tk', nth_error (l_toks (fst (lstep s o))) j = Some tk' /\ extends tk tk') /\
  (l_now s <= l_now (fst (lstep s o)))%Z.
Proof.
  intros H. assert (Hsame : (exists tk', nth_error (l_toks s) j = Some tk' /\ extends tk tk') /\ (l_now s <= l_now s)%Z).
  { split; [eauto using extends_refl|lia]. }
  destruct o as [pw c user scope | t c scope | t c h | t c h | t required | dt]; cbn [TokenLife.lstep].
  - destruct (lauth registry c) as [cl|]; [|exact Hsame].
    destruct (negb (list_in_str _ (lc_grants cl))); [exact Hsame|].
    cbn [fst l_toks l_now]. split; [|lia]. exists tk. split; [now apply app_keeps|apply extends_refl].
  - destruct (lauth registry c) as [cl|]; [|exact Hsame].
    destruct (negb (list_in_str _ (lc_grants cl))); [exact Hsame|].
    destruct (match t with RRefresh i => _ | _ => None end) as [[i tk0]|]; [|exact Hsame].
    destruct (negb (k_client tk0 =? lc_id cl)); [exact Hsame|].
    destruct (negb (refresh_scope_ok scope (k_scope tk0))); [exact Hsame|].
    destruct (k_user tk0); [|exact Hsame].
    cbn [fst l_toks l_now]. split; [|lia].
    destruct (update_keeps (l_toks s) i set_ref_rev j tk extends_set_ref H) as (tk' & H1 & H2).
    exists tk'. split; [now apply app_keeps|exact H2].
  - destruct (lauth registry c) as [cl|]; [|exact Hsame].
    destruct t as [tr|]; [|exact Hsame].
    destruct (negb (hint_ok h)); [exact Hsame|].
    destruct (query_token (l_toks s) tr h) as [i|]; [|exact Hsame].
    destruct (nth_error (l_toks s) i) as [tk0|]; [|exact Hsame].
    destruct (negb (k_client tk0 =? lc_id cl)); [exact Hsame|].
    cbn [fst l_toks l_now]. split; [|lia].
    apply update_keeps; [|exact H]. intros x. destruct h; eauto using extends_set_acc, extends_set_ref, extends_trans.
  - destruct (lauth registry c) as [cl|]; [|exact Hsame].
    destruct t as [tr|]; [|exact Hsame].
    destruct (negb (hint_ok h)); [exact Hsame|].
    destruct (query_token (l_toks s) tr h) as [i|]; [|exact Hsame].
    destruct (nth_error (l_toks s) i) as [tk0|]; [|exact Hsame].
    destruct (negb _); [exact Hsame|]. destruct (_ || _); exact Hsame.
  - destruct t as [i| |]; try exact Hsame.
    destruct (nth_error (l_toks s) i) as [tk0|]; [|exact Hsame].
    destruct (is_expired tk0 (l_now s)); [exact Hsame|]. destruct (is_revoked tk0); [exact Hsame|].
    destruct (scope_insufficient _ _); exact Hsame.
  - cbn [fst l_toks l_now]. split; [eauto using extends_refl|lia].
Qed.

Lemma run_monotone ops : forall s j tk,
  nth_error (l_toks s) j = Some tk ->
  (exists tk', nth_error (l_toks (lrun_from s ops)) j = Some tk' /\ extends tk tk') /\
  (l_now s <= l_now (lrun_from s ops))%Z.
Proof.
  induction ops as [|o r IH]; intros s j tk H; simpl.
  - split; [eauto using extends_refl|lia].
  - destruct (step_monotone s o j tk H) as [(tk1 & H1 & E1) Hn1].
    destruct (IH _ j tk1 H1) as [(tk2 & H2 & E2) Hn2].
    split; [exists tk2; eauto using extends_trans|lia].
Qed.

Lemma extends_revoked a b : extends a b -> is_revoked a = true -> is_revoked b = true.
Proof.
  unfold is_revoked. intros (_ & _ & _ & _ & _ & _ & Ha & Hr) H. apply orb_true_iff in H.
  apply orb_true_iff. destruct H; auto.
Qed.

(* a token carrying a revocation mark is from then on refused and reported inactive, whatever happens in between *)
Theorem revoked_then_refused_and_inactive_l s j tk ops :
  nth_error (l_toks s) j = Some tk -> is_revoked tk = true ->
  let s' := lrun_from s ops in
  (forall required, snd (lstep s' (LAccess (RAccess j) required)) = LErr 401 "invalid_token") /\
  (forall c h tr cl sc, query_token (l_toks s') tr h = Some j ->
     snd (lstep s' (LIntrospect (Some tr) c h)) <> LIntro true cl sc).
Proof.
  intros H Hr s'. destruct (run_monotone ops s j tk H) as [(tk' & H' & E) _]. fold s' in H'.
  pose proof (extends_revoked _ _ E Hr) as Hr'. split.
  - intros required. cbn [TokenLife.lstep]. rewrite H'. destruct (is_expired tk' (l_now s')); [reflexivity|].
    now rewrite Hr'.
  - intros c h tr cl sc Hq. cbn [TokenLife.lstep].
    destruct (lauth registry c) as [cl0|]; [|discriminate].
    destruct (negb (hint_ok h)); [discriminate|]. rewrite Hq, H'.
    destruct (negb _); [discriminate|]. rewrite Hr', orb_true_r. discriminate.
Qed.

(* revocation by the owning client sets the mark *)
Theorem owner_revoke_marks_l s tr c h cl j tk :
  lauth registry c = Some cl -> hint_ok h = true ->
  query_token (l_toks s) tr h = Some j -> nth_error (l_toks s) j = Some tk -> k_client tk = lc_id cl ->
  snd (lstep s (LRevoke (Some tr) c h)) = LOk200 /\
  exists tk', nth_error (l_toks (fst (lstep s (LRevoke (Some tr) c h)))) j = Some tk' /\ is_revoked tk' = true.
Proof.
  intros Ha Hh Hq Hn Hc. cbn [TokenLife.lstep]. rewrite Ha, Hh, Hq, Hn, Hc, String.eqb_refl. cbn [negb fst snd l_toks].
  split; [reflexivity|]. rewrite nth_error_update_nth, Nat.eqb_refl, Hn. cbn [option_map].
  eexists; split; [reflexivity|]. destruct h; reflexivity.
Qed.

(* a different client: refused, token untouched; unknown token: 200, nothing changes *)
Theorem foreign_revoke_refused_unchanged_l s tr c h cl j tk :
  lauth registry c = Some cl -> hint_ok h = true ->
  query_token (l_toks s) tr h = Some j -> nth_error (l_toks s) j = Some tk -> k_client tk <> lc_id cl ->
  lstep s (LRevoke (Some tr) c h) = (s, LErr 400 "invalid_grant").
Proof.
  intros Ha Hh Hq Hn Hc. cbn [TokenLife.lstep]. rewrite Ha, Hh, Hq, Hn.
  destruct (String.eqb_spec (k_client tk) (lc_id cl)); [contradiction|reflexivity].
Qed.

Theorem unknown_revoke_200_l s tr c h cl :
  lauth registry c = Some cl -> hint_ok h = true -> query_token (l_toks s) tr h = None ->
  lstep s (LRevoke (Some tr) c h) = (s, LOk200).
Proof. intros Ha Hh Hq. cbn [TokenLife.lstep]. now rewrite Ha, Hh, Hq. Qed.

Theorem foreign_introspect_inactive_l s tr c h cl j tk :
  lauth registry c = Some cl -> hint_ok h = true ->
  query_token (l_toks s) tr h = Some j -> nth_error (l_toks s) j = Some tk ->
  k_client tk <> lc_id cl -> lc_id cl <> introspector ->
  lstep s (LIntrospect (Some tr) c h) = (s, LIntro false "" None).
Proof.
  intros Ha Hh Hq Hn Hc Hi. cbn [TokenLife.lstep]. rewrite Ha, Hh, Hq, Hn.
  destruct (String.eqb_spec (k_client tk) (lc_id cl)); [contradiction|].
  destruct (String.eqb_spec (lc_id cl) introspector); [contradiction|]. reflexivity.
Qed.

Theorem expired_unknown_inactive_refused_l s i required :
  (nth_error (l_toks s) i = None \/ exists tk, nth_error (l_toks s) i = Some tk /\ is_expired tk (l_now s) = true) ->
  snd (lstep s (LAccess (RAccess i) required)) = LErr 401 "invalid_token".
Proof.
  intros [H|(tk & H & He)]; cbn [TokenLife.lstep]; rewrite H; [reflexivity|]. now rewrite He.
Qed.

(* a refresh succeeds only for an unrevoked refresh token of the requesting client, marks the old
   credential and never widens the scope *)
Theorem refresh_sound_l s t c scope s' n sc hr :
  lstep s (LRefresh t c scope) = (s', LToken n sc hr) ->
  exists i tk cl, t = RRefresh i /\ nth_error (l_toks s) i = Some tk /\ lauth registry c = Some cl /\
    k_client tk = lc_id cl /\ k_has_refresh tk = true /\ k_ref_rev tk = false /\
    (exists tk', nth_error (l_toks s') i = Some tk' /\ k_ref_rev tk' = true) /\
    (forall x, In x (scopes_of sc) -> In x (scopes_of (k_scope tk)) /\ In x (split_ws (lc_scope cl))).
Proof.
  cbn [TokenLife.lstep]. destruct (lauth registry c) as [cl|] eqn:Ea; [|discriminate].
  destruct (negb (list_in_str _ (lc_grants cl))); [discriminate|].
  destruct t as [i|i|]; try discriminate.
  destruct (nth_error (l_toks s) i) as [tk|] eqn:En; [|discriminate].
  destruct (k_has_refresh tk && negb (k_ref_rev tk)) eqn:Eh; [|discriminate].
  destruct (negb (k_client tk =? lc_id cl)) eqn:Ec; [discriminate|].
  destruct (negb (refresh_scope_ok scope (k_scope tk))) eqn:Es; [discriminate|].
  destruct (k_user tk) as [u|]; [|discriminate].
  destruct (generate GenBearer (lc_scope cl) (if truthy_s scope then scope else k_scope tk)) as [r e] eqn:Eg.
  cbn [fst]. intros H. injection H as <- <- <- <-.
  apply andb_true_iff in Eh. destruct Eh as [Eh1 Eh2]. apply negb_true_iff in Eh2.
  apply negb_false_iff, String.eqb_eq in Ec. apply negb_false_iff in Es.
  exists i, tk, cl. repeat split; auto.
  - cbn [l_toks]. exists (set_ref_rev tk). split; [|reflexivity].
    apply app_keeps. rewrite nth_error_update_nth, Nat.eqb_refl, En. reflexivity.
  - destruct (generate_scopes _ _ _ _ _ Eg x (or_introl H)) as [H1 _].
    unfold refresh_scope_ok in Es. destruct (truthy_s scope) eqn:Et; cbn [negb] in Es; [|exact H1].
    destruct (truthy_s (k_scope tk)); cbn [negb] in Es; [|discriminate].
    destruct scope as [rq|]; [|discriminate]. destruct (k_scope tk) as [og|]; [|discriminate].
    apply Proofs.ResourceP.subset_strs_incl in Es. simpl in *. now apply Es.
  - now destruct (generate_scopes _ _ _ _ _ Eg x (or_introl H)).
Qed.
End P.
