(* C02: key policy lemmas. *)
From Coq Require Import List NArith ZArith Bool Ascii String Lia.
From Authlib Require Import Base.Bytes Base.PyVal Model.KeyPolicy.
Import ListNotations.
Open Scope string_scope.
Open Scope list_scope.

(* ---------- HMAC secrets vs asymmetric key text ---------- *)
Lemma lstrip_b_nonspace c r : is_bspace c = false -> lstrip_b (String c r) = String c r.
Proof. intros H. cbn. rewrite H. reflexivity. Qed.

Lemma ssh_type_survives_lstrip p raw :
  In p SSH_TYPES -> starts_with p raw = true -> starts_with p (lstrip_b raw) = true.
Proof.
  intros I H. destruct raw as [|c r]; [exact H|].
  assert (is_bspace c = false).
  { cbn in I. destruct I as [<-|[<-|[<-|[<-|[]]]]]; cbn [starts_with] in H;
      apply andb_true_iff in H; destruct H as [E _]; apply Ascii.eqb_eq in E; subst c; reflexivity. }
  rewrite lstrip_b_nonspace; auto.
Qed.

Section Oct.
Variable asym_loadable : string -> bool.      (* RSAKey / ECKey / OKPKey.import_key accepts this text *)
(* what cryptography's PEM, certificate and SSH loaders need to see (checked differentially on every run) *)
Hypothesis loaders_need_marker :
  forall raw, asym_loadable raw = true ->
  (exists m, In m PEM_MARKERS /\ contains m raw = true) \/ (exists p, In p SSH_TYPES /\ starts_with p raw = true).

Theorem asymmetric_text_is_never_an_hmac_secret_l raw : asym_loadable raw = true -> oct_import_ok raw = false.
Proof.
  intros H. unfold oct_import_ok, looks_asymmetric. apply negb_false_iff.
  destruct (loaders_need_marker raw H) as [[m [I C]]|[p [I S]]].
  - apply orb_true_iff. left. apply existsb_exists. eauto.
  - apply orb_true_iff. right. apply existsb_exists. exists p. split; auto. apply ssh_type_survives_lstrip; auto.
Qed.
End Oct.

(* the test the library used before the repair looked only at the first octets *)
Definition old_prefix_test (raw : string) : bool :=
  existsb (fun p => starts_with p raw) ["-----BEGIN "; "---- BEGIN "; "ssh-rsa "; "ssh-dss "; "ssh-ed25519 "; "ecdsa-sha2-"].

(* ---------- selection by kid ---------- *)
Definition kid_matches (k kid : option string) : bool :=
  match k, kid with Some a, Some b => String.eqb a b | None, None => true | _, _ => false end.

Lemma first_with_kid_sound kids kid : forall i j,
  first_with_kid kids kid i = Some j ->
  i <= j /\ exists k, nth_error kids (j - i) = Some k /\ kid_matches k kid = true /\
  (forall n k', n < j - i -> nth_error kids n = Some k' -> kid_matches k' kid = false).
Proof.
  induction kids as [|k r IH]; cbn; intros i j H; [discriminate|].
  fold (kid_matches k kid) in H. destruct (kid_matches k kid) eqn:M.
  - injection H as <-. split; [lia|]. rewrite Nat.sub_diag. exists k. repeat split; auto. intros n k' L. lia.
  - destruct (IH (S i) j H) as [L [k0 [N [M0 F]]]]. split; [lia|].
    replace (j - i) with (S (j - S i)) by lia. exists k0. repeat split; auto.
    intros n k' Ln Hn. destruct n as [|n]; cbn in Hn.
    + injection Hn as <-. exact M.
    + apply (F n k'); [lia|exact Hn].
Qed.

Lemma first_with_kid_none kids kid : forall i,
  first_with_kid kids kid i = None <-> (forall k, In k kids -> kid_matches k kid = false).
Proof.
  induction kids as [|k r IH]; cbn; intros i; [split; [intros _ k []|reflexivity]|].
  fold (kid_matches k kid). destruct (kid_matches k kid) eqn:M.
  - split; [discriminate|]. intros H. specialize (H k (or_introl eq_refl)). congruence.
  - rewrite IH. split.
    + intros H k' [<-|I]; auto.
    + intros H k' I. apply H. right. exact I.
Qed.

(* the key a KeySet hands out: the only key when no kid is asked for and there is exactly one key, otherwise the
   FIRST key whose kid equals the one asked for (both absent counts as equal); never another key *)
Theorem find_by_kid_sound_l kids kid i :
  find_by_kid kids kid = Some i ->
  exists k, nth_error kids i = Some k /\
    ((kid = None /\ List.length kids = 1) \/
     (kid_matches k kid = true /\ forall n k', n < i -> nth_error kids n = Some k' -> kid_matches k' kid = false)).
Proof.
  unfold find_by_kid. destruct kid as [x|].
  - intros H. destruct (first_with_kid_sound _ _ _ _ H) as [_ [k [N [M F]]]]. rewrite Nat.sub_0_r in *. exists k. auto.
  - destruct kids as [|k [|k2 r]].
    + discriminate.
    + intros H. injection H as <-. exists k. split; auto.
    + intros H. destruct (first_with_kid_sound _ _ _ _ H) as [_ [k0 [N [M F]]]]. rewrite Nat.sub_0_r in *. exists k0. auto.
Qed.

Theorem unknown_kid_is_an_error_l kids x :
  (forall k, In k kids -> k <> Some x) -> find_by_kid kids (Some x) = None /\ find_in_jwks_dict kids (Some x) = None.
Proof.
  intros H. assert (E : first_with_kid kids (Some x) 0 = None).
  { apply first_with_kid_none. intros k I. specialize (H k I). destruct k as [a|]; cbn; auto.
    destruct (String.eqb_spec a x); [subst; congruence|reflexivity]. }
  split; [exact E|exact E].
Qed.

Theorem missing_kid_with_several_keys_is_an_error_l kids :
  2 <= List.length kids -> (forall k, In k kids -> k <> None) ->
  find_by_kid kids None = None /\ find_in_jwks_dict kids None = None.
Proof.
  intros L H. split.
  - unfold find_by_kid. destruct kids as [|k [|k2 r]]; cbn in L; try lia.
    apply first_with_kid_none. intros k0 I. specialize (H k0 I). destruct k0; [reflexivity|congruence].
  - unfold find_in_jwks_dict. destruct kids as [|k [|k2 r]]; cbn in L; try lia. reflexivity.
Qed.

(* ---------- use / key_ops ---------- *)
Definition key_op_allowed (key_ops : option (list string)) (use : option string) (public_only : bool) (o : kop) : bool :=
  (match key_ops with Some l => list_in_str (kop_name o) l | None => true end) &&
  negb (is_private_op o && public_only) &&
  (match use with
   | Some u => String.eqb u "" || (match o with KSign | KVerify => String.eqb u "sig" | _ => String.eqb u "enc" end)
   | None => true end).

Theorem check_key_op_iff_l key_ops use public_only o :
  check_key_op key_ops use public_only o = None <-> key_op_allowed key_ops use public_only o = true.
Proof.
  unfold check_key_op, key_op_allowed.
  destruct key_ops as [l|]; [destruct (list_in_str (kop_name o) l)|]; cbn [negb andb];
    destruct (is_private_op o && public_only); cbn [negb andb];
    try (split; [discriminate|intros H; discriminate]).
  all: destruct use as [u|]; try tauto.
  all: destruct (String.eqb u ""); cbn [orb]; try tauto.
  all: destruct o; destruct (String.eqb u "sig"); destruct (String.eqb u "enc"); split; (discriminate || reflexivity || tauto).
Qed.

(* ---------- crit ---------- *)
Definition crit_name_ok (private : list string) (protected : list (string * pv)) (v : pv) : bool :=
  match v with
  | PStr k => list_in_str k private && match dict_get k protected with Some _ => true | None => false end
  | _ => false
  end.

Theorem validate_crit_iff_l private protected :
  validate_crit private protected = None <->
  (dict_get "crit" protected = None \/
   exists l, dict_get "crit" protected = Some (PList l) /\ l <> [] /\ forallb (crit_name_ok private protected) l = true).
Proof.
  unfold validate_crit. destruct (dict_get "crit" protected) as [v|]; [|tauto].
  destruct v as [| | | | |l|]; try (split; [discriminate|intros [H|[l0 [H _]]]; discriminate]).
  destruct l as [|x r].
  - split; [discriminate|]. intros [H|[l0 [H [N _]]]]; [discriminate|]. injection H as <-. congruence.
  - set (bad := filter _ (x :: r)).
    assert (B : bad = [] <-> forallb (crit_name_ok private protected) (x :: r) = true).
    { unfold bad. generalize (x :: r) as l. induction l as [|y q IH]; cbn; [tauto|].
      unfold crit_name_ok at 1. destruct y as [| | | |k| |]; cbn; try (split; [discriminate|intros H; discriminate]).
      destruct (list_in_str k private && _); cbn; [exact IH|split; [discriminate|intros H; discriminate]]. }
    split.
    + intros H. right. exists (x :: r). repeat split; [discriminate|]. apply B.
      destruct bad as [|[| | | |k| |] q]; auto; discriminate.
    + intros [H|[l0 [H [_ F]]]]; [discriminate|]. injection H as <-. apply B in F. rewrite F. reflexivity.
Qed.

(* ---------- algorithm / key kind ---------- *)
Definition required_kind (alg : string) : option (string * option string) :=
  if list_in_str alg ["HS256"; "HS384"; "HS512"] then Some ("oct", None)
  else if list_in_str alg ["RS256"; "RS384"; "RS512"; "PS256"; "PS384"; "PS512"] then Some ("RSA", None)
  else if String.eqb alg "ES256" then Some ("EC", Some "P-256")
  else if String.eqb alg "ES384" then Some ("EC", Some "P-384")
  else if String.eqb alg "ES512" then Some ("EC", Some "P-521")
  else if String.eqb alg "ES256K" then Some ("EC", Some "secp256k1")
  else if String.eqb alg "EdDSA" then Some ("OKP", None)
  else None.

Theorem alg_family_iff_l alg k :
  alg_family_ok alg k = true <->
  exists kty crv, required_kind alg = Some (kty, crv) /\ kd_kty k = kty /\ (crv = None \/ crv = Some (kd_crv k)).
Proof.
  unfold alg_family_ok, required_kind.
  repeat match goal with |- context [if ?b then _ else _] => destruct b end.
  all: split.
  all: try (intros H; try (apply andb_true_iff in H; destruct H as [H1 H2]; apply String.eqb_eq in H1, H2);
            try (apply String.eqb_eq in H); do 2 eexists; split; [reflexivity|]; split; auto; fail).
  all: try (intros [kty [crv [E [K C]]]]; injection E as <- <-; rewrite K;
            destruct C as [C|C]; try discriminate; try (injection C as <-); rewrite ?String.eqb_refl; reflexivity).
  all: try (intros H; discriminate H).
  all: try (intros [kty [crv [E _]]]; discriminate E).
  all: intros H; apply andb_true_iff in H; destruct H as [H1 H2]; apply String.eqb_eq in H1, H2;
    do 2 eexists; split; [reflexivity|]; split; [exact H1|right; rewrite H2; reflexivity].
Qed.
