(* C14: which callbacks the client integrations exchange, over every history of redirects, callbacks and clock
   advances -- in session mode, and in cache mode as implemented. *)
From Coq Require Import List NArith ZArith Bool Ascii String Lia Arith.
From Authlib Require Import Base.Bytes Model.ClientState.
Import ListNotations.
Open Scope string_scope.
Open Scope list_scope.

Lemma nth_error_upd_nth {A} (l : list A) i f j :
  nth_error (upd_nth l i f) j = if Nat.eqb i j then option_map f (nth_error l j) else nth_error l j.
Proof.
  revert i j. induction l as [|x r IH]; intros [|i] [|j]; cbn; auto.
  all: try (destruct (Nat.eqb i j); reflexivity).
  all: try (destruct (Nat.eqb _ _); reflexivity).
Qed.

Lemma find_entry_In l p st e : find_entry l p st = Some e -> In e l /\ e_prov e = p /\ e_state e = st.
Proof.
  induction l as [|x r IH]; cbn; [discriminate|].
  destruct (same_key p st x) eqn:K.
  - intros H; injection H as <-. unfold same_key in K. apply andb_true_iff in K. destruct K as [A B].
    apply String.eqb_eq in A. apply Nat.eqb_eq in B. auto.
  - intros H. destruct (IH H) as [A B]. auto.
Qed.

Lemma remove_key_In l p st e : In e (remove_key l p st) -> In e l /\ same_key p st e = false.
Proof. unfold remove_key. rewrite filter_In. intros [A B]. split; auto. apply negb_true_iff in B. exact B. Qed.

Lemma purge_In l now e : In e (purge l now) -> In e l.
Proof. unfold purge. rewrite filter_In. tauto. Qed.

Lemma after_callback_In c l p state now e : In e (after_callback c l p state now) -> In e l.
Proof.
  unfold after_callback. destruct c; [|auto]. intros H. apply purge_In in H.
  destruct state; [unfold remove_key in H; apply filter_In in H; tauto | exact H].
Qed.

Section P.
Variable clears_old : bool.
Variable expires_in : Z.
Variable oauth1_prov : string -> bool.
Notation cstep m := (ClientState.cstep m clears_old expires_in oauth1_prov).
Notation crun_from m := (ClientState.crun_from m clears_old expires_in oauth1_prov).

Definition stored (s : cst) (e : entry) : Prop :=
  In e (c_cache s) \/ exists i l, nth_error (c_sessions s) i = Some l /\ In e l.

Definition new_entry (s : cst) (o : cop) : option entry :=
  match o with
  | CBegin sess p pkce openid redirect =>
      Some {| e_prov := p; e_state := c_next s; e_pkce := pkce; e_openid := openid; e_redirect := redirect;
              e_exp := (c_now s + expires_in)%Z; e_sess := sess |}
  | _ => None
  end.

(* a step stores nothing but what was stored, plus possibly the entry of the redirect it performs;
   what a callback names is removed from where it is looked up *)
Lemma stored_sub mode s o x :
  stored (fst (cstep mode s o)) x -> stored s x \/ new_entry s o = Some x.
Proof.
  destruct o as [sess p pkce openid redirect|sess p state|dt]; unfold ClientState.cstep, new_entry.
  - destruct mode.
    + destruct (nth_error (c_sessions s) sess) as [l0|] eqn:N; cbn [fst]; [|auto].
      intros [H|[i [l [H1 H2]]]]; [left; left; exact H|].
      cbn [c_sessions] in H1. rewrite nth_error_upd_nth in H1. destruct (Nat.eqb_spec sess i) as [->|NE].
      * rewrite N in H1. cbn in H1. injection H1 as <-. destruct H2 as [<-|H2]; [right; reflexivity|].
        left. right. exists i, l0. split; auto. destruct clears_old; [apply filter_In in H2; tauto|exact H2].
      * left. right. eauto.
    + cbn [fst]. intros [[<-|H]|H]; [right; reflexivity|left; left; exact H|left; right; exact H].
  - destruct mode.
    + destruct (nth_error (c_sessions s) sess) as [l0|] eqn:N; cbn [fst]; [|auto].
      intros [H|[i [l [H1 H2]]]]; [left; left; exact H|].
      cbn [c_sessions] in H1. rewrite nth_error_upd_nth in H1. destruct (Nat.eqb_spec sess i) as [->|NE].
      * rewrite N in H1. cbn in H1. injection H1 as <-. apply after_callback_In in H2.
        left. right. exists i, l0. split; auto.
      * left. right. eauto.
    + cbn [fst]. intros [H|H]; left; [left|right; exact H].
      cbn [c_cache] in H. destruct state; [apply remove_key_In in H; tauto|exact H].
  - cbn [fst]. auto.
Qed.

Record Inv (mode : smode) (s : cst) : Prop := {
  v_len : List.length (c_log s) = c_next s;
  v_log : forall e, In e (c_log s) -> e_state e < c_next s /\ nth_error (rev (c_log s)) (e_state e) = Some e;
  v_stored : forall e, stored s e -> In e (c_log s);
  v_sess : forall i l e, nth_error (c_sessions s) i = Some l -> In e l -> e_sess e = i;
  v_mode : match mode with
           | SessionMode => c_cache s = []
           | CacheMode => forall i l, nth_error (c_sessions s) i = Some l -> l = []
           end
}.

Lemma Inv_init mode n : Inv mode (cinit n).
Proof.
  constructor; cbn; try tauto.
  - intros e [[]|[i [l [H I]]]]. apply nth_error_In in H. apply repeat_spec in H. subst l. destruct I.
  - intros i l e H I. apply nth_error_In in H. apply repeat_spec in H. subst l. destruct I.
  - destruct mode; auto. intros i l H. apply nth_error_In in H. apply repeat_spec in H. exact H.
Qed.

Lemma log_extend mode s e :
  Inv mode s -> e_state e = c_next s ->
  (forall x, In x (e :: c_log s) -> e_state x < S (c_next s) /\ nth_error (rev (e :: c_log s)) (e_state x) = Some x).
Proof.
  intros I E x [<-|H].
  - split; [lia|]. cbn [rev]. rewrite nth_error_app2 by (rewrite rev_length, (v_len _ s I); lia).
    rewrite rev_length, (v_len _ s I), E, Nat.sub_diag. reflexivity.
  - destruct (v_log _ s I x H) as [L N]. split; [lia|]. cbn [rev]. rewrite nth_error_app1; [exact N|].
    rewrite rev_length, (v_len _ s I). exact L.
Qed.

Lemma Inv_step mode s o : Inv mode s -> Inv mode (fst (cstep mode s o)).
Proof.
  intros I. pose proof (v_mode _ s I) as M.
  destruct o as [sess p pkce openid redirect|sess p state|dt]; unfold ClientState.cstep.
  - (* begin *)
    set (e := {| e_prov := p; e_state := c_next s; e_pkce := pkce; e_openid := openid; e_redirect := redirect;
                 e_exp := (c_now s + expires_in)%Z; e_sess := sess |}).
    destruct mode.
    + destruct (nth_error (c_sessions s) sess) as [l0|] eqn:N; cbn [fst]; [|exact I].
      constructor; cbn [c_log c_next c_sessions c_cache].
      * cbn. f_equal. apply (v_len _ s I).
      * eapply log_extend; eauto.
      * intros x [H|[i [l [H1 H2]]]].
        { right. apply (v_stored _ s I). left. exact H. }
        cbn [c_sessions] in H1; rewrite nth_error_upd_nth in H1. destruct (Nat.eqb_spec sess i) as [->|NE].
        { rewrite N in H1. cbn in H1. injection H1 as <-. destruct H2 as [<-|H2]; [left; reflexivity|].
          right. apply (v_stored _ s I). right. exists i, l0. split; auto.
          destruct clears_old; [apply filter_In in H2; tauto|exact H2]. }
        { right. apply (v_stored _ s I). right. eauto. }
      * intros i l x H1 H2. cbn [c_sessions] in H1; rewrite nth_error_upd_nth in H1. destruct (Nat.eqb_spec sess i) as [->|NE].
        { rewrite N in H1. cbn in H1. injection H1 as <-. destruct H2 as [<-|H2]; [reflexivity|].
          apply (v_sess _ s I i l0); auto. destruct clears_old; [apply filter_In in H2; tauto|exact H2]. }
        { eapply (v_sess _ s I); eauto. }
      * exact M.
    + cbn [fst]. constructor; cbn [c_log c_next c_sessions c_cache].
      * cbn. f_equal. apply (v_len _ s I).
      * eapply log_extend; eauto.
      * intros x [[<-|H]|H]; [left; reflexivity| |]; right; apply (v_stored _ s I); [left|right]; auto.
      * apply (v_sess _ s I).
      * exact M.
  - (* callback *)
    destruct mode.
    + destruct (nth_error (c_sessions s) sess) as [l0|] eqn:N; cbn [fst]; [|exact I].
      constructor; cbn [c_log c_next c_sessions c_cache]; try apply I; try exact M.
      * intros x [H|[i [l [H1 H2]]]]; apply (v_stored _ s I); [left; exact H|].
        cbn [c_sessions] in H1; rewrite nth_error_upd_nth in H1. destruct (Nat.eqb_spec sess i) as [->|NE].
        { rewrite N in H1. cbn in H1. injection H1 as <-. apply after_callback_In in H2.
          right. exists i, l0. split; auto. }
        { right. eauto. }
      * intros i l x H1 H2. cbn [c_sessions] in H1; rewrite nth_error_upd_nth in H1. destruct (Nat.eqb_spec sess i) as [->|NE].
        { rewrite N in H1. cbn in H1. injection H1 as <-. apply after_callback_In in H2.
          apply (v_sess _ s I i l0); auto. }
        { eapply (v_sess _ s I); eauto. }
    + cbn [fst]. constructor; cbn [c_log c_next c_sessions c_cache]; try apply I; try exact M.
      * intros x [H|H]; apply (v_stored _ s I); [left|right; exact H].
        cbn [c_cache] in H. destruct state; [apply remove_key_In in H; tauto|exact H].
  - cbn [fst]. constructor; cbn [c_log c_next c_sessions c_cache]; try apply I; try exact M.
Qed.

Lemma Inv_run mode ops : forall s, Inv mode s -> Inv mode (crun_from mode s ops).
Proof.
  induction ops as [|o r IH]; intros s I; [exact I|]. unfold ClientState.crun_from. cbn [fold_left].
  apply IH, Inv_step, I.
Qed.

Lemma c_next_mono mode s o : c_next s <= c_next (fst (cstep mode s o)).
Proof.
  destruct o as [sess p pkce openid redirect|sess p state|dt]; unfold ClientState.cstep;
    destruct mode; try destruct (nth_error (c_sessions s) sess); cbn; lia.
Qed.

Lemma log_unique mode s x y : Inv mode s -> In x (c_log s) -> In y (c_log s) -> e_state x = e_state y -> x = y.
Proof.
  intros I Hx Hy E. destruct (v_log _ s I x Hx) as [_ A]. destruct (v_log _ s I y Hy) as [_ B].
  rewrite E in A. congruence.
Qed.

(* an exchange: the named state of the named provider, exactly the entry its redirect stored (hence its
   redirect_uri, PKCE and nonce), removed from every store; in session mode created by the same session *)
Lemma exchange_sound_l mode s sess p state e s' :
  Inv mode s -> cstep mode s (CCallback sess p state) = (s', OExchanged e) ->
  exists st, state = Some st /\ e_prov e = p /\ e_state e = st /\
    nth_error (rev (c_log s)) st = Some e /\
    (mode = SessionMode -> e_sess e = sess) /\
    (mode = CacheMode -> In e (c_cache s) /\ (c_now s < e_exp e)%Z) /\
    (forall x, stored s' x -> e_state x <> st).
Proof.
  intros I H. pose proof (Inv_step mode s (CCallback sess p state) I) as I'. rewrite H in I'. cbn [fst] in I'.
  revert H. unfold ClientState.cstep. destruct mode.
  - destruct (nth_error (c_sessions s) sess) as [l0|] eqn:N; [|discriminate].
    destruct state as [st|]; [|discriminate].
    destruct (find_entry l0 p st) as [e0|] eqn:F; [|discriminate].
    intros H. injection H as <- <-. destruct (find_entry_In _ _ _ _ F) as [In0 [P S]].
    assert (L : In e0 (c_log s)) by (apply (v_stored _ s I); right; eauto).
    exists st. split; [reflexivity|]. split; [exact P|]. split; [exact S|].
    split; [destruct (v_log _ s I e0 L) as [_ X]; rewrite S in X; exact X|].
    split; [intros _; eapply (v_sess _ s I); eauto|]. split; [discriminate|].
    intros x Hx E. pose proof (v_stored _ _ I' x Hx) as Lx. cbn [c_log] in Lx.
      assert (x = e0) by (eapply log_unique; eauto; congruence). subst x.
      destruct Hx as [Hx|[i [l [H1 H2]]]].
      * pose proof (v_mode _ _ I') as M. cbn in M. cbn in Hx. rewrite M in Hx. destruct Hx.
      * pose proof (v_sess _ _ I' i l e0 H1 H2) as SI. pose proof (v_sess _ s I sess l0 e0 N In0) as SS.
        assert (i = sess) by congruence. subst i.
        cbn [c_sessions] in H1. rewrite nth_error_upd_nth in H1. rewrite ?SS in H1. rewrite Nat.eqb_refl, N in H1. cbn in H1. injection H1 as <-.
        rewrite orb_true_r in H2. unfold after_callback in H2.
        apply purge_In in H2. apply remove_key_In in H2. destruct H2 as [_ K].
        unfold same_key in K. rewrite P, S, String.eqb_refl, Nat.eqb_refl in K. discriminate.
  - destruct state as [st|]; [|discriminate].
    destruct (find_entry (c_cache s) p st) as [e0|] eqn:F; [|discriminate].
    destruct (live_in_cache (c_now s) e0) eqn:LV; [|discriminate].
    intros H. injection H as <- <-. destruct (find_entry_In _ _ _ _ F) as [In0 [P S]].
    assert (L : In e0 (c_log s)) by (apply (v_stored _ s I); left; auto).
    exists st. split; [reflexivity|]. split; [exact P|]. split; [exact S|].
    split; [destruct (v_log _ s I e0 L) as [_ X]; rewrite S in X; exact X|].
    split; [discriminate|].
    split; [intros _; split; [exact In0|unfold live_in_cache in LV; apply Z.ltb_lt in LV; exact LV]|].
    intros x Hx E. pose proof (v_stored _ _ I' x Hx) as Lx. cbn [c_log] in Lx.
      assert (x = e0) by (eapply log_unique; eauto; congruence). subst x.
      destruct Hx as [Hx|[i [l [H1 H2]]]].
      * cbn [c_cache] in Hx. apply remove_key_In in Hx. destruct Hx as [_ K].
        unfold same_key in K. rewrite P, S, String.eqb_refl, Nat.eqb_refl in K. discriminate.
      * pose proof (v_mode _ _ I') as M. cbn in M. rewrite (M i l H1) in H2. destruct H2.
Qed.

Lemma absent_preserved mode st ops : forall s,
  (forall x, stored s x -> e_state x <> st) -> st < c_next s ->
  (forall x, stored (crun_from mode s ops) x -> e_state x <> st).
Proof.
  induction ops as [|o r IH]; intros s A L; [exact A|]. unfold ClientState.crun_from. cbn [fold_left].
  apply IH.
  - intros x Hx. destruct (stored_sub mode s o x Hx) as [H|H]; [apply A, H|].
    destruct o; cbn in H; try discriminate. injection H as <-. cbn. lia.
  - pose proof (c_next_mono mode s o). lia.
Qed.

(* a state is exchanged at most once, whatever happens afterwards *)
Lemma exchanged_never_again_l mode s sess p state e s' :
  Inv mode s -> cstep mode s (CCallback sess p state) = (s', OExchanged e) ->
  forall ops sess2 p2 state2 s3 e2,
    cstep mode (crun_from mode s' ops) (CCallback sess2 p2 state2) = (s3, OExchanged e2) ->
    e_state e2 <> e_state e.
Proof.
  intros I H ops sess2 p2 state2 s3 e2 H2.
  destruct (exchange_sound_l _ _ _ _ _ _ _ I H) as [st [-> [P [S [LG [_ [_ GONE]]]]]]].
  pose proof (Inv_step mode s (CCallback sess p (Some st)) I) as I1. rewrite H in I1. cbn [fst] in I1.
  pose proof (Inv_run mode ops s' I1) as I2.
  assert (LT : st < c_next s').
  { assert (In e (c_log s)) by (apply nth_error_In in LG; apply in_rev; exact LG).
    destruct (v_log _ s I e H0) as [A _]. rewrite S in A. pose proof (c_next_mono mode s (CCallback sess p (Some st))) as M.
    rewrite H in M. cbn [fst] in M. lia. }
  pose proof (absent_preserved mode st ops s' GONE LT) as AB.
  intros E. rewrite S in E.
  revert H2. unfold ClientState.cstep. destruct mode.
  - destruct (nth_error (c_sessions _) sess2) as [l0|] eqn:N; [|discriminate].
    destruct state2 as [st2|]; [|discriminate].
    destruct (find_entry l0 p2 st2) as [e0|] eqn:F; [|discriminate].
    intros X. injection X as _ <-. destruct (find_entry_In _ _ _ _ F) as [In0 _].
    apply (AB e0); [right; eauto|exact E].
  - destruct state2 as [st2|]; [|discriminate].
    destruct (find_entry (c_cache _) p2 st2) as [e0|] eqn:F; [|discriminate].
    destruct (live_in_cache _ e0); [|discriminate].
    intros X. injection X as _ <-. destruct (find_entry_In _ _ _ _ F) as [In0 _].
    apply (AB e0); [left; auto|exact E].
Qed.
End P.
