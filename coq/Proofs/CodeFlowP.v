From Coq Require Import List NArith ZArith Bool Ascii String Lia.
From Authlib Require Import Base.Bytes Base.Base64 Model.Resource Model.Scope Model.CodeFlow.
Import ListNotations.
Open Scope string_scope.
Open Scope list_scope.

Section P.
Variable registry : list cclient.
Variable sha256 : string -> string.
Variable pkce_required : bool.

Notation step := (step registry sha256 pkce_required).
Notation run := (run registry sha256 pkce_required).

Definition code_ids (ts : list trec) : list nat :=
  flat_map (fun tk => match tk_src tk with FromCode c => [c] | FromDevice _ => [] end) ts.

(* what a token issued for a code must satisfy with respect to the code's record *)
Definition code_token_ok (cr : crec) (tk : trec) : Prop :=
  tk_client tk = cr_client cr /\ tk_user tk = cr_user cr /\
  (tk_time tk <= cr_time cr + 300)%Z /\
  (otruthy (cr_redirect cr) = true -> tk_redirect tk = cr_redirect cr) /\
  verifier_error sha256 pkce_required (tk_auth tk) cr (tk_verifier tk) = "" /\
  (exists cl, find_cc registry (tk_client tk) = Some cl /\ tk_scope tk = token_scope cl (cr_scope cr)).

Definition device_token_ok (s : st) (d : nat) (tk : trec) : Prop :=
  exists dv, In dv (s_devices s) /\ dv_id dv = d /\ dv_client dv = Some (tk_client tk) /\
             In (d, (tk_user tk, true)) (s_decisions s) /\ (tk_time tk <= dv_expires dv)%Z /\
             (exists cl, find_cc registry (tk_client tk) = Some cl /\ tk_scope tk = token_scope cl (dv_scope dv)).

Definition Inv (s : st) : Prop :=
  (forall cr, In cr (s_codes s) -> In cr (s_issued s)) /\
  (forall cr, In cr (s_issued s) -> (cr_id cr < s_next s)%nat) /\
  NoDup (map cr_id (s_issued s)) /\
  (forall tk c, In tk (s_tokens s) -> tk_src tk = FromCode c ->
     find_code (s_codes s) c = None /\
     exists cr, In cr (s_issued s) /\ cr_id cr = c /\ code_token_ok cr tk) /\
  NoDup (code_ids (s_tokens s)) /\
  (forall tk d, In tk (s_tokens s) -> tk_src tk = FromDevice d -> device_token_ok s d tk).

Lemma find_code_In l id cr : find_code l id = Some cr -> In cr l /\ cr_id cr = id.
Proof.
  induction l as [|x r IH]; simpl; [discriminate|].
  destruct (Nat.eqb_spec (cr_id x) id) as [E|E].
  - intros H. injection H as <-. auto.
  - intros H. destruct (IH H). auto.
Qed.

Lemma find_code_filter l id id' :
  find_code (filter (fun x => negb (Nat.eqb (cr_id x) id)) l) id' =
  if Nat.eqb id' id then None else find_code l id'.
Proof.
  induction l as [|x r IH]; simpl; [now destruct (Nat.eqb id' id)|].
  destruct (Nat.eqb_spec (cr_id x) id) as [E|E]; simpl.
  - rewrite IH. destruct (Nat.eqb_spec id' id) as [E2|E2]; [reflexivity|].
    destruct (Nat.eqb_spec (cr_id x) id'); [congruence|reflexivity].
  - destruct (Nat.eqb_spec (cr_id x) id') as [E3|E3].
    + destruct (Nat.eqb_spec id' id); [congruence|reflexivity].
    + exact IH.
Qed.

Lemma find_code_none_notin l id : find_code l id = None -> forall cr, In cr l -> cr_id cr <> id.
Proof.
  induction l as [|x r IH]; simpl; [intros _ ? []|].
  destruct (Nat.eqb_spec (cr_id x) id); [discriminate|].
  intros H cr [<-|Hin]; auto.
Qed.

Lemma find_dev_In l id d : find_dev l id = Some d -> In d l /\ dv_id d = id.
Proof.
  induction l as [|x r IH]; simpl; [discriminate|].
  destruct (Nat.eqb_spec (dv_id x) id) as [E|E].
  - intros H. injection H as <-. auto.
  - intros H. destruct (IH H). auto.
Qed.

Lemma find_decision_In l id v : find_decision l id = Some v -> In (id, v) l.
Proof.
  induction l as [|[k w] r IH]; simpl; [discriminate|].
  destruct (Nat.eqb_spec k id) as [->|E].
  - intros H. injection H as <-. auto.
  - auto.
Qed.

Lemma find_cc_id l id x : find_cc l id = Some x -> cc_id x = id.
Proof.
  induction l as [|y r IH]; simpl; [discriminate|].
  destruct (String.eqb_spec (cc_id y) id) as [E|E]; [intros H; injection H as <-; exact E|apply IH].
Qed.

Lemma authenticate_p_client c param ep cl am :
  authenticate_p registry c param ep = Some (cl, am) -> find_cc registry (cc_id cl) = Some cl.
Proof.
  unfold authenticate_p.
  set (tn := match (match c with CNone id => Some id | _ => param end) with Some id => _ | None => None end).
  assert (Htn : tn = Some (cl, am) -> find_cc registry (cc_id cl) = Some cl).
  { unfold tn. destruct (match c with CNone id => Some id | _ => param end) as [id|]; [|discriminate].
    destruct (id =? ""); [discriminate|]. destruct (find_cc registry id) as [x|] eqn:E; [|discriminate].
    destruct (method_rule x "none" ep); [|discriminate]. intros H. injection H as <- <-.
    now rewrite (find_cc_id _ _ _ E). }
  destruct c as [id sec|id|]; try exact Htn.
  destruct (negb (id =? "") && negb (sec =? "")); [|exact Htn].
  destruct (find_cc registry id) as [x|] eqn:E; [|discriminate].
  destruct ((cc_secret x =? sec) && method_rule x "client_secret_basic" ep); [|exact Htn].
  intros H. injection H as <- <-. now rewrite (find_cc_id _ _ _ E).
Qed.

Lemma authenticate_client c ep cl am :
  authenticate registry c ep = Some (cl, am) -> find_cc registry (cc_id cl) = Some cl.
Proof. apply authenticate_p_client. Qed.

Lemma Inv_init : Inv init.
Proof. unfold Inv, init; simpl. repeat split; try (intros; contradiction); constructor. Qed.

Lemma device_ok_mono s s' d tk :
  device_token_ok s d tk ->
  (forall x, In x (s_devices s) -> In x (s_devices s')) ->
  (forall x, In x (s_decisions s) -> In x (s_decisions s')) ->
  device_token_ok s' d tk.
Proof.
  intros (dv & H1 & H2 & H3 & H4 & H5 & H6) Hd Hc. exists dv. repeat split; auto.
Qed.

Lemma Inv_step s o : Inv s -> Inv (fst (step s o)).
Proof.
  intros Hs. pose proof Hs as (I1 & I2 & I3 & I4 & I5 & I6).
  destruct o as [cid redirect scope challenge method approve | code c redirect verifier | c cparam scope | dev user approve | dev c | dt];
    cbn [CodeFlow.step].
  - (* authorize *)
    destruct (find_cc registry cid) as [cl|]; [|exact Hs].
    destruct (match redirect with Some u => _ | None => _ end); [|exact Hs].
    destruct (challenge_error challenge method); [exact Hs|].
    destruct approve as [user|]; [|exact Hs].
    cbn [fst]. unfold Inv. cbn [s_codes s_issued s_devices s_decisions s_tokens s_now s_next].
    set (cr0 := {| cr_id := s_next s; cr_client := cid; cr_redirect := redirect; cr_scope := scope; cr_user := user;
                   cr_challenge := challenge; cr_method := method; cr_time := s_now s |}).
    repeat split.
    + intros cr [<-|H]; [left; reflexivity|right; auto].
    + intros cr [<-|H]; [simpl; lia|specialize (I2 cr H); lia].
    + cbn [map]. constructor; [|exact I3]. intros Hin. apply in_map_iff in Hin.
      destruct Hin as (x & Hx & Hin). specialize (I2 x Hin). simpl in Hx. lia.
    + destruct (I4 tk c H H0) as [Hn _]. cbn [find_code].
      destruct (I4 tk c H H0) as [_ (cr & Hin & Hid & _)]. specialize (I2 cr Hin).
      destruct (Nat.eqb_spec (cr_id cr0) c) as [E|E]; [simpl in E; lia|exact Hn].
    + destruct (I4 tk c H H0) as [_ (cr & Hin & Hid & Hok)]. exists cr. split; [right; exact Hin|auto].
    + exact I5.
    + intros tk d H H0. eapply device_ok_mono; [apply (I6 tk d H H0)|auto|auto].
  - (* redeem *)
    destruct (authenticate registry c "token") as [[cl am]|] eqn:Ea; [|exact Hs].
    destruct (negb (list_in_str "authorization_code" (cc_grants cl))); [exact Hs|].
    destruct code as [cid|]; [|exact Hs].
    destruct (find_code (s_codes s) cid) as [cr|] eqn:Ef; [|exact Hs].
    destruct (negb (cr_client cr =? cc_id cl) || (cr_time cr + 300 <? s_now s)%Z) eqn:E1; [exact Hs|].
    destruct (otruthy (cr_redirect cr) && negb match redirect with Some r => r =? oval (cr_redirect cr) | None => false end) eqn:E2;
      [exact Hs|].
    destruct (verifier_error sha256 pkce_required am cr verifier) eqn:Ev; [|exact Hs].
    cbn [fst]. unfold Inv. cbn [s_codes s_issued s_devices s_decisions s_tokens s_now s_next].
    destruct (find_code_In _ _ _ Ef) as [Hin Hid].
    apply orb_false_iff in E1. destruct E1 as [Ec Et]. apply negb_false_iff, String.eqb_eq in Ec.
    apply Z.ltb_ge in Et.
    repeat split.
    + intros x Hx. apply filter_In in Hx. destruct Hx as [Hx _]. auto.
    + exact I2.
    + exact I3.
    + destruct H as [<-|H].
      * cbn [tk_src] in H0. injection H0 as <-. rewrite find_code_filter, Nat.eqb_refl. reflexivity.
      * rewrite find_code_filter. destruct (Nat.eqb c0 cid); [reflexivity|]. now destruct (I4 tk c0 H H0).
    + destruct H as [<-|H].
      * cbn [tk_src] in H0. injection H0 as <-. exists cr. split; [auto|]. split; [exact Hid|].
        unfold code_token_ok. cbn [tk_client tk_user tk_time tk_redirect tk_verifier tk_auth tk_scope].
        repeat split; auto; try lia.
        -- intros Ht. rewrite Ht in E2. cbn [andb] in E2. apply negb_false_iff in E2.
           destruct redirect as [r|]; [|discriminate]. apply String.eqb_eq in E2. subst r.
           destruct (cr_redirect cr); [reflexivity|discriminate].
        -- exists cl. split; [apply (authenticate_client _ _ _ _ Ea)|reflexivity].
      * destruct (I4 tk c0 H H0) as [_ Hex]. exact Hex.
    + cbn [code_ids flat_map tk_src app]. constructor; [|exact I5].
      intros Hc. unfold code_ids in Hc. apply in_flat_map in Hc. destruct Hc as (tk & Htk & Hc).
      destruct (tk_src tk) as [c0|d0] eqn:Es; [|destruct Hc]. destruct Hc as [<-|[]].
      destruct (I4 tk c0 Htk Es) as [Hn _]. congruence.
    + intros tk d [<-|H] H0; [discriminate|]. eapply device_ok_mono; [apply (I6 tk d H H0)|auto|auto].
  - (* device authorize *)
    destruct (authenticate_p registry c cparam "device_authorization") as [[cl am]|]; [|exact Hs].
    cbn [fst]. unfold Inv. cbn [s_codes s_issued s_devices s_decisions s_tokens s_now s_next].
    repeat split; auto.
    + intros cr H. specialize (I2 cr H). lia.
    + now destruct (I4 tk c0 H H0).
    + now destruct (I4 tk c0 H H0).
    + intros tk d H H0. eapply device_ok_mono; [apply (I6 tk d H H0)|intros x Hx; right; exact Hx|auto].
  - (* decide *)
    destruct (find_dev (s_devices s) dev) as [dv0|] eqn:Edv; [|exact Hs].
    cbn [fst]. unfold Inv. cbn [s_codes s_issued s_devices s_decisions s_tokens s_now s_next].
    repeat split; auto.
    + now destruct (I4 tk c H H0).
    + now destruct (I4 tk c H H0).
    + intros tk d H H0. eapply device_ok_mono; [apply (I6 tk d H H0)|auto|intros x Hx; right; exact Hx].
  - (* poll *)
    destruct dev as [did|]; [|exact Hs].
    destruct (authenticate registry c "token") as [[cl am]|] eqn:Ea; [|exact Hs].
    destruct (negb (list_in_str _ (cc_grants cl))); [exact Hs|].
    destruct (find_dev (s_devices s) did) as [d|] eqn:Ef; [|exact Hs].
    destruct (negb match dv_client d with Some x => x =? cc_id cl | None => false end) eqn:Ec; [exact Hs|].
    destruct (dv_expires d <? s_now s)%Z eqn:Ee; [exact Hs|].
    destruct (find_decision (s_decisions s) did) as [[user [|]]|] eqn:Ed; try exact Hs.
    cbn [fst]. unfold Inv. cbn [s_codes s_issued s_devices s_decisions s_tokens s_now s_next].
    destruct (find_dev_In _ _ _ Ef) as [Hin Hid]. apply negb_false_iff in Ec.
    destruct (dv_client d) as [dc|] eqn:Edc; [|discriminate]. apply String.eqb_eq in Ec. subst dc. apply Z.ltb_ge in Ee.
    repeat split; auto.
    + destruct H as [<-|H]; [discriminate|]. now destruct (I4 tk c0 H H0).
    + destruct H as [<-|H]; [discriminate|]. now destruct (I4 tk c0 H H0).
    + intros tk d0 [<-|H] H0.
      * cbn [tk_src] in H0. injection H0 as <-. exists d. cbn [tk_client tk_user tk_time tk_scope].
        repeat split; auto; try lia.
        -- now apply find_decision_In.
        -- exists cl. split; [apply (authenticate_client _ _ _ _ Ea)|reflexivity].
      * apply (I6 tk d0 H H0).
  - (* tick *)
    cbn [fst]. unfold Inv. cbn [s_codes s_issued s_devices s_decisions s_tokens s_now s_next].
    repeat split; auto.
    + now destruct (I4 tk c H H0).
    + now destruct (I4 tk c H H0).
Qed.

Theorem Inv_run ops : Inv (run ops).
Proof.
  unfold CodeFlow.run. generalize Inv_init. generalize init.
  induction ops as [|o r IH]; intros s Hs; simpl; [exact Hs|]. apply IH. now apply Inv_step.
Qed.

(* ---- a decision names a device that had been announced when it was made *)
Definition DecInv (s : st) : Prop :=
  forall d v, In (d, v) (s_decisions s) -> exists dv, In dv (s_devices s) /\ dv_id dv = d.

Lemma DecInv_step s o : DecInv s -> DecInv (fst (step s o)).
Proof.
  intros Hs. unfold CodeFlow.step.
  destruct o as [c0 rd sc ch mt ap|code c0 rd vf|c0 cp sc|dev user approve|dev c0|dt];
    repeat match goal with
           | |- DecInv (fst (match ?x with _ => _ end)) => destruct x eqn:?
           | |- DecInv (fst (if ?x then _ else _)) => destruct x eqn:?
           | |- DecInv (fst (let '(_, _) := ?x in _)) => destruct x eqn:?
           end; try exact Hs; cbn [fst]; unfold DecInv in *;
    cbn [s_codes s_issued s_devices s_decisions s_tokens s_now s_next]; try exact Hs.
  all: intros d0 v0 Hin.
  all: try (destruct (Hs d0 v0 Hin) as [dv [A B]]; exists dv; split; [right; exact A|exact B]).
  all: try (destruct Hin as [Hin|Hin];
            [inversion Hin; subst;
             match goal with H : find_dev _ _ = Some ?x |- _ => exists x; now apply find_dev_In end
            |exact (Hs d0 v0 Hin)]).
Qed.

Theorem DecInv_run ops : DecInv (run ops).
Proof.
  unfold CodeFlow.run. assert (H0 : DecInv init) by (intros d v []). revert H0. generalize init.
  induction ops as [|o r IH]; intros s Hs; simpl; [exact Hs|]. apply IH. now apply DecInv_step.
Qed.

(* ---- PKCE: success means a well-formed verifier whose transform equals the challenge *)
Definition transform (m : option string) (v : string) : option string :=
  match m with
  | None => Some v
  | Some x => if x =? "plain" then Some v else if x =? "S256" then Some (s256 sha256 v) else None
  end.

Lemma verifier_ok_l am cr v :
  verifier_error sha256 pkce_required am cr v = "" ->
  (otruthy (cr_challenge cr) = true \/ (pkce_required = true /\ am = "none") \/ otruthy v = true) ->
  exists vs ch, v = Some vs /\ pkce_wf vs = true /\ cr_challenge cr = Some ch /\ transform (cr_method cr) vs = Some ch.
Proof.
  unfold verifier_error. intros H Hc.
  destruct (pkce_required && (am =? "none") && negb (otruthy v)) eqn:E0; [discriminate|].
  destruct (negb (otruthy (cr_challenge cr)) && negb (otruthy v)) eqn:E1.
  - exfalso. apply andb_true_iff in E1. destruct E1 as [A B]. apply negb_true_iff in A, B.
    destruct Hc as [Hc|[[Hr Ha]|Hc]]; try congruence.
    subst. rewrite B in E0. simpl in E0. discriminate.
  - destruct (negb (otruthy v)) eqn:E2; [discriminate|]. apply negb_false_iff in E2.
    destruct v as [vs|]; [|discriminate]. cbn [oval] in H.
    destruct (negb (pkce_wf vs)) eqn:E3; [discriminate|]. apply negb_false_iff in E3.
    exists vs. destruct (cr_challenge cr) as [ch|] eqn:Ech.
    + exists ch. repeat split; auto. unfold transform.
      destruct (cr_method cr) as [m|].
      * destruct (m =? "plain").
        -- destruct (vs =? ch) eqn:Ev; [apply String.eqb_eq in Ev; now subst|discriminate].
        -- destruct (m =? "S256"); [|discriminate].
           destruct (s256 sha256 vs =? ch) eqn:Ev; [apply String.eqb_eq in Ev; now subst|discriminate].
      * cbn in H. destruct (vs =? ch) eqn:Ev; [apply String.eqb_eq in Ev; now subst|discriminate].
    + exfalso. destruct (cr_method cr) as [m|]; [destruct (m =? "plain"); [discriminate|destruct (m =? "S256"); discriminate]|discriminate].
Qed.
End P.
