(* C13: the ID Token a provider issues is accepted by the relying-party validation with matching parameters and
   rejected when any of them differs; hashes; nonce replay. *)
From Coq Require Import List NArith ZArith Bool Ascii String Lia.
From Authlib Require Import Base.Bytes Base.Base64 Base.PyVal Model.Claims Model.IDToken.
Import ListNotations.
Open Scope string_scope.
Open Scope list_scope.

(* ---------- dict.update ---------- *)
Lemma dict_get_set_same k v d : dict_get k (dict_set k v d) = Some v.
Proof.
  induction d as [|[k' v'] r IH]; cbn; [rewrite String.eqb_refl; reflexivity|].
  destruct (String.eqb k k') eqn:E; cbn; [rewrite String.eqb_refl; reflexivity|]. rewrite E. exact IH.
Qed.

Lemma dict_get_set_other k k' v d : String.eqb k k' = false -> dict_get k (dict_set k' v d) = dict_get k d.
Proof.
  intros N. induction d as [|[k2 v2] r IH]; cbn; [rewrite N; reflexivity|].
  destruct (String.eqb k' k2) eqn:E; cbn.
  - apply String.eqb_eq in E. subst k2. rewrite N. reflexivity.
  - destruct (String.eqb k k2); auto.
Qed.

Definition avoids (k : string) (u : dictT) : bool := forallb (fun kv => negb (String.eqb k (fst kv))) u.

Lemma dict_get_update_avoids k u : forall d, avoids k u = true -> dict_get k (dict_update d u) = dict_get k d.
Proof.
  unfold dict_update. induction u as [|[k' v'] r IH]; intros d A; cbn in *; auto.
  apply andb_true_iff in A. destruct A as [A1 A2]. rewrite IH by exact A2.
  apply dict_get_set_other. apply negb_true_iff in A1. exact A1.
Qed.

Lemma dict_get_app k (d x : dictT) :
  dict_get k (d ++ x) = match dict_get k d with Some v => Some v | None => dict_get k x end.
Proof. induction d as [|[k' v'] r IH]; cbn; auto. destruct (String.eqb k k'); auto. Qed.

Definition RESERVED := ["iss"; "sub"; "aud"; "exp"; "nbf"; "iat"; "auth_time"; "nonce"; "acr"; "amr"; "azp"; "at_hash"; "c_hash"].
Definition extra_ok (extra : dictT) : bool := forallb (fun k => avoids k extra) RESERVED.

Definition agree (c1 c2 : dictT) : Prop := forall k, In k RESERVED -> dict_get k c1 = dict_get k c2.

(* the user information of the integrator: the subject, then claims outside the reserved names *)
Definition user_info (sub : string) (extra : dictT) : dictT := ("sub", PStr sub) :: extra.

Lemma update_agree base sub extra :
  extra_ok extra = true -> dict_get "sub" base = None ->
  agree (dict_update base (user_info sub extra)) (base ++ [("sub", PStr sub)]).
Proof.
  intros E NS k Hk. unfold user_info, dict_update. cbn [fold_left fst snd].
  fold (dict_update (dict_set "sub" (PStr sub) base) extra).
  assert (A : avoids k extra = true).
  { unfold extra_ok in E. rewrite forallb_forall in E. apply E, Hk. }
  rewrite (dict_get_update_avoids k extra _ A).
  destruct (String.eqb k "sub") eqn:S.
  - apply String.eqb_eq in S. subst k. rewrite dict_get_set_same, dict_get_app, NS. reflexivity.
  - rewrite (dict_get_set_other k "sub" _ _ S), dict_get_app. cbn. rewrite S.
    destruct (dict_get k base); reflexivity.
Qed.

Section P.
Variable vfun : string -> dictT -> pv -> bool.
Variable sha : string -> string -> string.
Notation hh := (create_half_hash sha).
Notation validate := (idtoken_validate vfun hh).

Ltac key_facts H :=
  pose proof (H "iss" ltac:(cbn; tauto)); pose proof (H "sub" ltac:(cbn; tauto)); pose proof (H "aud" ltac:(cbn; tauto));
  pose proof (H "exp" ltac:(cbn; tauto)); pose proof (H "nbf" ltac:(cbn; tauto)); pose proof (H "iat" ltac:(cbn; tauto));
  pose proof (H "auth_time" ltac:(cbn; tauto)); pose proof (H "nonce" ltac:(cbn; tauto)); pose proof (H "acr" ltac:(cbn; tauto));
  pose proof (H "amr" ltac:(cbn; tauto)); pose proof (H "azp" ltac:(cbn; tauto)); pose proof (H "at_hash" ltac:(cbn; tauto));
  pose proof (H "c_hash" ltac:(cbn; tauto)).

(* the validation looks at the claims only through the reserved names (for the options the relying party uses) *)
Lemma validate_agree kind iss hdr params c1 c2 now lw :
  agree c1 c2 -> validate kind (rp_opts iss) hdr params c1 now lw = validate kind (rp_opts iss) hdr params c2 now lw.
Proof.
  intros H. key_facts H.
  unfold idtoken_validate, check_essential, check_claim_value, check_aud, check_exp, check_nbf, check_iat, check_auth_time,
    check_nonce, check_amr, check_azp, check_at_hash_implicit, check_at_hash, check_c_hash, cget, chas, rp_opts.
  cbn [map fst essential_loop dict_get String.eqb Ascii.eqb Bool.eqb oget arg pv_get py_truthy andb negb].
  assert (P : forall ks, check_present ks c1 = check_present ks c2 \/ ~ incl ks RESERVED).
  { induction ks as [|k r IH]; cbn; auto.
    destruct (in_dec string_dec k RESERVED) as [I|NI].
    - unfold chas. rewrite (H k I). destruct IH as [->|N]; auto. right. intros X. apply N. intros x Hx. apply X. right. exact Hx.
    - right. intros X. apply NI, X. left. reflexivity. }
  assert (Pk : check_present (idt_essential kind) c1 = check_present (idt_essential kind) c2).
  { destruct (P (idt_essential kind)) as [E|N]; auto. exfalso. apply N. destruct kind; cbn; intros x Hx; cbn in *; tauto. }
  rewrite Pk.
  repeat match goal with E : dict_get ?k c1 = dict_get ?k c2 |- _ => rewrite E; clear E end.
  reflexivity.
Qed.
End P.

(* ---------- evaluation on the claims a provider issues ---------- *)
Lemma num_lt_int_int a c : num_lt_int (PInt a) c = Z.ltb a c.
Proof.
  unfold num_lt_int, num_parts, dy_cmp. cbn [fst snd]. rewrite Z.min_id, Z.sub_diag. cbn [Z.pow]. rewrite !Z.mul_1_r.
  destruct (Z.compare_spec a c), (Z.ltb_spec a c); auto; lia.
Qed.
Lemma num_gt_int_int a c : num_gt_int (PInt a) c = Z.ltb c a.
Proof.
  unfold num_gt_int, num_parts, dy_cmp. cbn [fst snd]. rewrite Z.min_id, Z.sub_diag. cbn [Z.pow]. rewrite !Z.mul_1_r.
  destruct (Z.compare_spec a c), (Z.ltb_spec c a); auto; lia.
Qed.

Section Q.
Variable vfun : string -> dictT -> pv -> bool.
Variable sha : string -> string -> string.
Notation hh := (create_half_hash sha).
Notation validate := (idtoken_validate vfun hh).

Definition base_claims (iss : string) (aud : list string) (now exp_in : Z) (auth_time : option Z)
           (nonce code access_token : option string) (alg : string) : dictT :=
  [("iss", PStr iss); ("aud", PList (map PStr aud)); ("iat", PInt now); ("exp", PInt (now + exp_in));
   ("auth_time", PInt (match auth_time with Some t => t | None => now end))]
  ++ (if otruthy nonce then [("nonce", PStr (oval nonce))] else [])
  ++ (if otruthy code then [("c_hash", opt_pv PStr (hh (oval code) alg))] else [])
  ++ (if otruthy access_token then [("at_hash", opt_pv PStr (hh (oval access_token) alg))] else []).

Lemma base_no_sub iss aud now e a n c t alg : dict_get "sub" (base_claims iss aud now e a n c t alg) = None.
Proof. unfold base_claims. destruct (otruthy n), (otruthy c), (otruthy t); reflexivity. Qed.

Lemma payload_agree iss aud now e a n c t alg sub extra :
  extra_ok extra = true ->
  agree (id_token_payload sha iss aud now e a n c t alg (user_info sub extra))
        (base_claims iss aud now e a n c t alg ++ [("sub", PStr sub)]).
Proof. intros E. apply update_agree; [exact E|apply base_no_sub]. Qed.

Definition canon (rt : rtype) (iss client : string) (now exp_in : Z) (auth_time : option Z)
           (nonce : option string) (code access_token alg sub : string) : dictT :=
  (match rt with
   | RTCode | RTCodeToken => base_claims iss [client] now exp_in auth_time nonce None (Some access_token) alg
   | RTIdToken => base_claims iss [client] now exp_in None nonce None None alg
   | RTIdTokenToken => base_claims iss [client] now exp_in None nonce None (Some access_token) alg
   | RTCodeIdToken => base_claims iss [client] now exp_in None nonce (Some code) None alg
   | RTCodeIdTokenToken => base_claims iss [client] now exp_in None nonce (Some code) (Some access_token) alg
   end) ++ [("sub", PStr sub)].

Lemma rt_payload_validate rt iss iss' client now e a nonce code atk alg sub extra hdr params rp_now lw :
  extra_ok extra = true ->
  validate (rt_kind rt) (rp_opts iss') hdr params
           (rt_payload sha rt iss client now e a nonce code atk alg (user_info sub extra)) rp_now lw =
  validate (rt_kind rt) (rp_opts iss') hdr params (canon rt iss client now e a nonce code atk alg sub) rp_now lw.
Proof.
  intros E. apply validate_agree. destruct rt; cbn [rt_payload canon]; apply payload_agree; exact E.
Qed.
End Q.

Section R.
Variable vfun : string -> dictT -> pv -> bool.
Variable sha : string -> string -> string.
Notation hh := (create_half_hash sha).
Notation validate := (idtoken_validate vfun hh).

Ltac unfold_all :=
  unfold canon, base_claims, rp_params, rp_opts, idtoken_validate, check_essential, check_claim_value, check_aud, check_exp,
    check_nbf, check_iat, check_auth_time, check_nonce, check_amr, check_azp, check_at_hash_implicit, check_at_hash, check_c_hash,
    verify_hash, cget, chas, otruthy, oval, opt_pv, rt_kind, idt_essential.

Lemma accept_canon rt iss client now e a nonce code atk alg sub hdr rp_now lw :
  cget "alg" hdr = PStr alg -> known_hash (hash_bits alg) = true -> (forall s, hh s alg <> Some "") ->
  (match rt with RTCode | RTCodeToken => True | _ => otruthy nonce = true end) ->
  code <> "" -> atk <> "" -> client <> "" ->
  (now <= rp_now + lw)%Z -> (rp_now - lw <= now + e)%Z ->
  validate (rt_kind rt) (rp_opts iss) hdr (rp_params rt nonce client code atk)
           (canon sha rt iss client now e a nonce code atk alg sub) rp_now lw = None.
Proof.
  intros HA KH HN NR NC NA NCl T1 T2.
  pose proof (HN code) as HNc. pose proof (HN atk) as HNa. unfold create_half_hash in HNc, HNa. rewrite KH in HNc, HNa.
  apply String.eqb_neq in NC, NA, NCl.
  destruct rt; unfold_all; unfold cget in HA.
  all: destruct nonce as [n|]; [destruct (String.eqb n "") eqn:NE|]; unfold otruthy in NR; rewrite ?NE in NR; cbn [negb] in *; try discriminate NR.
  all: rewrite ?NC, ?NA; cbn [negb app].
  all: assert (LT1 : Z.ltb (now + e) (rp_now - lw) = false) by (apply Z.ltb_ge; lia).
  all: assert (LT2 : Z.ltb (rp_now + lw) now = false) by (apply Z.ltb_ge; lia).
  all: unfold hh in *; unfold create_half_hash in *; rewrite ?KH.
  all: repeat (cbn [check_present map fst essential_loop dict_get String.eqb Ascii.eqb Bool.eqb oget arg pv_get py_truthy andb negb orb app
            first_err pv_list py_in_list py_eq is_number num_parts is_list chas cget pv_str];
         rewrite ?String.eqb_refl, ?num_lt_int_int, ?num_gt_int_int, ?LT1, ?LT2, ?NCl, ?NA, ?NC, ?NE, ?HA, ?KH, ?andb_false_r, ?andb_true_r, ?orb_false_r).
  all: repeat match goal with |- context [if ?b then _ else _] => destruct b eqn:? end; try reflexivity.
  all: repeat match goal with E : negb (negb _) = true |- _ => rewrite negb_involutive in E end.
  all: repeat match goal with E : String.eqb _ "" = true |- _ => apply String.eqb_eq in E; rewrite E in * end; try congruence.
Qed.

(* acceptance decomposes into its checks *)
Lemma first_err_none_cons x r : first_err (x :: r) = None -> x = None /\ first_err r = None.
Proof. destruct x; cbn; [discriminate|auto]. Qed.

Lemma validate_parts kind opts hdr params claims now lw :
  validate kind opts hdr params claims now lw = None ->
  check_claim_value vfun opts claims "iss" = None /\ check_exp claims now lw = None /\
  check_nonce params claims = None /\ check_azp params claims = None /\
  (match kind with KCode => check_at_hash hh hdr params claims | _ => check_at_hash_implicit hh hdr params claims end) = None /\
  (match kind with KHybrid => check_c_hash hh hdr params claims | _ => None end) = None.
Proof.
  unfold idtoken_validate. intros H.
  repeat match type of H with first_err (_ :: _) = None =>
    apply first_err_none_cons in H; let A := fresh "A" in destruct H as [A H] end.
  repeat split; assumption.
Qed.

Ltac small_eval :=
  unfold canon, base_claims, rp_params, rp_opts, check_claim_value, check_exp, check_nonce, check_azp, check_at_hash_implicit,
    check_at_hash, check_c_hash, verify_hash, cget, chas, otruthy, oval, opt_pv;
  repeat match goal with H : String.eqb _ _ = _ |- _ => rewrite H end;
  repeat match goal with |- context [String.eqb ?v ""] => is_var v; destruct (String.eqb v "") eqn:? end;
  repeat (cbn [dict_get String.eqb Ascii.eqb Bool.eqb oget arg pv_get py_truthy andb negb orb app map pv_list py_in_list py_eq
               is_number num_parts chas cget pv_str fst snd]).

Ltac dis := let X := fresh in intro X; discriminate X.

(* --- each near-miss is refused --- *)
Lemma reject_issuer_canon rt iss iss' client now e a nonce code atk alg sub hdr params rp_now lw :
  iss' <> iss ->
  validate (rt_kind rt) (rp_opts iss') hdr params (canon sha rt iss client now e a nonce code atk alg sub) rp_now lw <> None.
Proof.
  intros NE H. apply validate_parts in H. destruct H as [H _]. revert H.
  apply String.eqb_neq in NE. rewrite String.eqb_sym in NE.
  destruct rt; small_eval; rewrite ?NE; cbn; dis.
Qed.

Lemma reject_expired_canon rt iss iss' client now e a nonce code atk alg sub hdr params rp_now lw :
  (now + e < rp_now - lw)%Z ->
  validate (rt_kind rt) (rp_opts iss') hdr params (canon sha rt iss client now e a nonce code atk alg sub) rp_now lw <> None.
Proof.
  intros LT H. apply validate_parts in H. destruct H as [_ [H _]]. revert H.
  assert (L : Z.ltb (now + e) (rp_now - lw) = true) by (apply Z.ltb_lt; exact LT).
  destruct rt; small_eval; rewrite ?num_lt_int_int, ?L; dis.
Qed.

Lemma reject_nonce_canon rt iss iss' client client' now e a nonce nonce' code code' atk atk' alg sub hdr rp_now lw :
  nonce' <> "" -> nonce <> Some nonce' ->
  validate (rt_kind rt) (rp_opts iss') hdr (rp_params rt (Some nonce') client' code' atk')
           (canon sha rt iss client now e a nonce code atk alg sub) rp_now lw <> None.
Proof.
  intros NE ND H. apply validate_parts in H. destruct H as [_ [_ [H _]]]. revert H.
  apply String.eqb_neq in NE.
  destruct nonce as [n|].
  - assert (X : String.eqb nonce' n = false) by (apply String.eqb_neq; congruence).
    destruct (String.eqb n "") eqn:E; destruct rt; small_eval; rewrite ?NE, ?E; cbn; rewrite ?X; cbn; dis.
  - destruct rt; small_eval; rewrite ?NE; cbn; dis.
Qed.

Lemma reject_client_canon rt iss iss' client client' now e a nonce nonce' code code' atk atk' alg sub hdr rp_now lw :
  client <> "" -> client' <> "" -> client' <> client ->
  validate (rt_kind rt) (rp_opts iss') hdr (rp_params rt nonce' client' code' atk')
           (canon sha rt iss client now e a nonce code atk alg sub) rp_now lw <> None.
Proof.
  intros N1 N2 ND H. apply validate_parts in H. destruct H as [_ [_ [_ [H _]]]]. revert H.
  apply String.eqb_neq in N1, N2. assert (X : String.eqb client client' = false) by (apply String.eqb_neq; congruence).
  destruct nonce as [n|]; [destruct (String.eqb n "") eqn:E|]; destruct rt; small_eval;
    rewrite ?E; cbn; rewrite ?N1, ?N2; cbn; rewrite ?X; cbn; dis.
Qed.

Definition has_at_hash (rt : rtype) : bool :=
  match rt with RTCode | RTCodeToken | RTIdTokenToken | RTCodeIdTokenToken => true | _ => false end.
Definition has_c_hash (rt : rtype) : bool :=
  match rt with RTCodeIdToken | RTCodeIdTokenToken => true | _ => false end.

Lemma reject_access_token_canon rt iss iss' client client' now e a nonce nonce' code code' atk atk' alg sub hdr rp_now lw :
  has_at_hash rt = true -> cget "alg" hdr = PStr alg -> atk <> "" -> atk' <> "" ->
  (forall s, hh s alg <> Some "") -> hh atk' alg <> hh atk alg ->
  validate (rt_kind rt) (rp_opts iss') hdr (rp_params rt nonce' client' code' atk')
           (canon sha rt iss client now e a nonce code atk alg sub) rp_now lw <> None.
Proof.
  intros HR HA N1 N2 HN HD H. apply validate_parts in H. destruct H as [_ [_ [_ [_ [H _]]]]]. revert H.
  apply String.eqb_neq in N1, N2. unfold cget in HA.
  pose proof (HN atk) as HN1.
  destruct (hh atk alg) as [h|] eqn:E1; destruct (hh atk' alg) as [h'|] eqn:E2.
  - assert (X : String.eqb h' h = false) by (apply String.eqb_neq; congruence).
    assert (Y : String.eqb h "" = false) by (apply String.eqb_neq; congruence).
    destruct nonce as [n|]; [destruct (String.eqb n "") eqn:E|]; destruct rt; try discriminate HR; small_eval;
      rewrite ?E, ?N1; cbn; rewrite ?E1; cbn; rewrite ?Y, ?N2, ?HA; cbn; rewrite ?E2, ?X; cbn; dis.
  - exfalso. unfold create_half_hash in E1, E2. destruct (known_hash (hash_bits alg)); discriminate.
  - exfalso. unfold create_half_hash in E1, E2. destruct (known_hash (hash_bits alg)); discriminate.
  - congruence.
Qed.

Lemma reject_code_canon rt iss iss' client client' now e a nonce nonce' code code' atk atk' alg sub hdr rp_now lw :
  has_c_hash rt = true -> cget "alg" hdr = PStr alg -> code <> "" -> code' <> "" ->
  (forall s, hh s alg <> Some "") -> hh code' alg <> hh code alg ->
  validate (rt_kind rt) (rp_opts iss') hdr (rp_params rt nonce' client' code' atk')
           (canon sha rt iss client now e a nonce code atk alg sub) rp_now lw <> None.
Proof.
  intros HR HA N1 N2 HN HD H. apply validate_parts in H. destruct H as [_ [_ [_ [_ [_ H]]]]]. revert H.
  apply String.eqb_neq in N1, N2. unfold cget in HA.
  pose proof (HN code) as HN1.
  destruct (hh code alg) as [h|] eqn:E1; destruct (hh code' alg) as [h'|] eqn:E2.
  - assert (X : String.eqb h' h = false) by (apply String.eqb_neq; congruence).
    assert (Y : String.eqb h "" = false) by (apply String.eqb_neq; congruence).
    destruct nonce as [n|]; [destruct (String.eqb n "") eqn:E|]; destruct rt; try discriminate HR; small_eval;
      rewrite ?E, ?N1; cbn; rewrite ?E1; cbn; rewrite ?N2; cbn; rewrite ?Y, ?HA; cbn; rewrite ?E2, ?X; cbn; dis.
  - exfalso. unfold create_half_hash in E1, E2. destruct (known_hash (hash_bits alg)); discriminate.
  - exfalso. unfold create_half_hash in E1, E2. destruct (known_hash (hash_bits alg)); discriminate.
  - congruence.
Qed.
End R.

