(* C17: consequences of the invariant for every reachable state. *)
From Coq Require Import List Arith Bool Lia.
From Authlib Require Import Model.AsyncRefresh Proofs.AsyncRefreshP.
Import ListNotations.

(* ---------- every reachable state ---------- *)
Lemma Inv_next c t0 n s i : Inv c t0 n s -> Inv c t0 n (next c s i).
Proof.
  intros I. unfold next. destruct (step c s i) as [[s' e]|] eqn:H; [eapply Inv_step; eauto | exact I].
Qed.

Lemma Inv_run c t0 n sched : forall s, Inv c t0 n s -> Inv c t0 n (run c s sched).
Proof.
  induction sched as [|i r IH]; intros s I; cbn; [exact I|]. apply IH, Inv_next, I.
Qed.

Lemma Inv_reach c t0 n os sched : Inv c t0 n (run c (init n t0 os) sched).
Proof. apply Inv_run, Inv_init. Qed.

Lemma has_ev_In j f e tr : In (j, e) tr -> f e = true -> has_ev j f tr = true.
Proof.
  intros HI Hf. unfold has_ev. apply existsb_exists. exists (j, e). split; auto.
  cbn. rewrite Nat.eqb_refl, Hf. reflexivity.
Qed.

Lemma has_ev_ex j f tr : has_ev j f tr = true -> exists e, In (j, e) tr /\ f e = true.
Proof.
  unfold has_ev. intros H. apply existsb_exists in H. destruct H as [[k e] [HI H]]. cbn in H.
  apply andb_true_iff in H. destruct H as [E Hf]. apply Nat.eqb_eq in E. subst k. eauto.
Qed.

Lemma has_ev_cnt j f tr : has_ev j f tr = true -> 1 <= cnt f tr.
Proof.
  unfold has_ev, cnt. induction tr as [|[k e] r IH]; cbn; [discriminate|].
  destruct (f e); cbn; [lia|]. rewrite andb_false_r. cbn. auto.
Qed.

Section Reach.
Variables (c : cfg) (t0 : tokrec) (n : nat).

Lemma no_stale_send_l s : Inv c t0 n s -> forall j a, ~ In (j, ESend a true) (trace s).
Proof.
  intros I j a HI. pose proof (i_N _ _ _ _ I j) as H.
  rewrite (has_ev_In j is_stale_send _ _ HI eq_refl) in H. discriminate.
Qed.

Lemma hv_infl_exp s : Inv c t0 n s -> hv infl s <= 1 /\ (hv infl s = 1 -> t_exp (cur s) = true).
Proof.
  intros I. unfold hv. destruct (lock s) as [h|]; [|split; [lia|discriminate]].
  pose proof (i_D _ _ _ _ I h) as D. destruct (pcd s h); cbn in *;
    try match goal with o : outcome |- _ => destruct o end;
    split; try lia; try discriminate; auto.
Qed.

Lemma at_most_one_refresh_l s : Inv c t0 n s ->
  cnt is_tokset (trace s) <= 1 /\ cnt is_rsend (trace s) <= 1 + cnt is_fail (trace s).
Proof.
  intros I. pose proof (i_F1 _ _ _ _ I) as F1. pose proof (i_F2 _ _ _ _ I) as F2.
  pose proof (i_G _ _ _ _ I) as G. destruct (hv_infl_exp s I) as [L1 L2].
  destruct (t_exp (cur s)) eqn:E.
  - destruct (F1 eq_refl) as [Z _]. lia.
  - assert (hv infl s = 0) by (destruct (hv infl s) as [|[|k]]; [reflexivity| specialize (L2 eq_refl); discriminate | lia]).
    destruct (F2 eq_refl) as [Z|[Z _]]; lia.
Qed.

Lemma callback_l s : Inv c t0 n s ->
  cnt is_cb (trace s) <= cnt is_tokset (trace s) /\
  (c_cb c = false -> cnt is_cb (trace s) = 0) /\
  (c_cb c = true -> lock s = None -> cnt is_cb (trace s) = cnt is_tokset (trace s)).
Proof.
  intros I. pose proof (i_H _ _ _ _ I) as H. destruct (c_cb c).
  - split; [lia|]. split; [discriminate|]. intros _ L. unfold hv in H. rewrite L in H. lia.
  - split; [lia|]. split; auto. discriminate.
Qed.

Lemma failing_caller_l s : Inv c t0 n s -> forall j o,
  (o = OErr \/ o = O5xx) -> In (j, ERefreshResp o) (trace s) ->
  (forall a b, ~ In (j, ESend a b) (trace s)) /\
  (terminal (pcd s j) = true ->
   In (j, EError (match o with OErr => KOAuth | _ => KHttp end)) (trace s)).
Proof.
  intros I j o Ho HI.
  assert (P : (oerrpc (pcd s j) = true /\ o = OErr) \/ (h5pc (pcd s j) = true /\ o = O5xx)).
  { destruct Ho; subst o.
    - left. split; auto. apply (i_I2 _ _ _ _ I). eapply has_ev_In; eauto.
    - right. split; auto. apply (i_I3 _ _ _ _ I). eapply has_ev_In; eauto. }
  split.
  - intros a b HS. pose proof (i_I1 _ _ _ _ I j (has_ev_In j is_send _ _ HS eq_refl)) as S.
    destruct P as [[P _]|[P _]]; destruct (pcd s j); cbn in *; try discriminate;
      repeat match goal with o : outcome |- _ => destruct o | k : errkind |- _ => destruct k end; discriminate.
  - intros T. destruct P as [[P ->]|[P ->]].
    + destruct (pcd s j) eqn:E; cbn in *; try discriminate;
        try (match goal with o : outcome |- _ => destruct o; discriminate end);
        try (match goal with k : errkind |- _ => destruct k; try discriminate end).
      destruct (has_ev_ex _ _ _ (i_J2 _ _ _ _ I j _ E)) as [e [HI' He]].
      destruct e; try discriminate.
      match goal with He : is_error _ (EError ?k) = true |- _ => destruct k; try discriminate end. exact HI'.
    + destruct (pcd s j) eqn:E; cbn in *; try discriminate;
        try (match goal with o : outcome |- _ => destruct o; discriminate end);
        try (match goal with k : errkind |- _ => destruct k; try discriminate end).
      destruct (has_ev_ex _ _ _ (i_J2 _ _ _ _ I j _ E)) as [e [HI' He]].
      destruct e; try discriminate.
      match goal with He : is_error _ (EError ?k) = true |- _ => destruct k; try discriminate end. exact HI'.
Qed.

Lemma mutual_exclusion_l s : Inv c t0 n s -> forall j k,
  crit (pcd s j) = true -> crit (pcd s k) = true -> j = k.
Proof.
  intros I j k Hj Hk. pose proof (i_A _ _ _ _ I j Hj). pose proof (i_A _ _ _ _ I k Hk). congruence.
Qed.

Lemma finished_terminal s : Inv c t0 n s -> finished s = true -> forall j, j < n -> terminal (pcd s j) = true.
Proof.
  intros I F j Hj. unfold finished in F. rewrite forallb_forall in F. apply F.
  unfold pcd. apply nth_In. rewrite (i_len _ _ _ _ I). exact Hj.
Qed.

Lemma finished_lock_free s : Inv c t0 n s -> finished s = true -> lock s = None.
Proof.
  intros I F. destruct (lock s) as [h|] eqn:L; auto.
  pose proof (i_B _ _ _ _ I h L) as B.
  destruct (Nat.lt_ge_cases h n) as [Hh|Hh].
  - pose proof (finished_terminal s I F h Hh) as T. destruct (pcd s h); cbn in *; discriminate.
  - unfold pcd in B. rewrite nth_overflow in B by (rewrite (i_len _ _ _ _ I); lia). discriminate.
Qed.

Lemma completion_l s : Inv c t0 n s -> finished s = true ->
  c_has_token c = true -> t_exp t0 = true -> refreshable c t0 = true -> cnt is_fail (trace s) = 0 -> 1 <= n ->
  cnt is_rsend (trace s) = 1 /\ cnt is_tokset (trace s) = 1 /\
  (c_cb c = true -> cnt is_cb (trace s) = 1) /\
  (forall j, j < n -> exists a, In (j, ESend a false) (trace s)).
Proof.
  intros I F HT HE HR HF Hn.
  assert (D : forall j, j < n -> pcd s j = PDone).
  { intros j Hj. pose proof (finished_terminal s I F j Hj) as T.
    destruct (pcd s j) eqn:E; cbn in T; try discriminate; auto.
    pose proof (i_M _ _ _ _ I j k) as M. rewrite E in M. specialize (M eq_refl).
    destruct k; cbn in M; try congruence.
    - apply has_ev_cnt in M. assert (cnt is_oerr (trace s) <= cnt is_fail (trace s)).
      { clear. unfold cnt. induction (trace s) as [|[k e] r IH]; cbn; auto.
        destruct e; cbn; auto. destruct o; cbn; lia. }
      lia.
    - apply has_ev_cnt in M. assert (cnt is_5xx (trace s) <= cnt is_fail (trace s)).
      { clear. unfold cnt. induction (trace s) as [|[k e] r IH]; cbn; auto.
        destruct e; cbn; auto. destruct o; cbn; lia. }
      lia. }
  assert (Fr : t_exp (cur s) = false).
  { apply (i_C _ _ _ _ I 0). rewrite (D 0) by lia. reflexivity. }
  assert (TS : cnt is_tokset (trace s) = 1).
  { destruct (i_F2 _ _ _ _ I Fr) as [Z|[_ Z]]; auto. rewrite Z in Fr. congruence. }
  pose proof (finished_lock_free s I F) as L.
  pose proof (i_G _ _ _ _ I) as G. unfold hv in G. rewrite L in G.
  split; [lia|]. split; [exact TS|]. split.
  - intros CB. destruct (callback_l s I) as [_ [_ H]]. rewrite (H CB L). exact TS.
  - intros j Hj. pose proof (i_J1 _ _ _ _ I j) as J. rewrite (D j Hj) in J. specialize (J eq_refl).
    destruct (has_ev_ex _ _ _ J) as [e [HI He]]. destruct e; try discriminate. destruct expired; try discriminate.
    eauto.
Qed.

(* no deadlock: in every reachable state that is not finished some coroutine can move *)
Lemma progress_l s : Inv c t0 n s -> finished s = false -> exists i, step c s i <> None.
Proof.
  intros I F. unfold finished in F.
  assert (exists j p, nth_error (pcs s) j = Some p /\ terminal p = false) as [j [p [Hj Tp]]].
  { clear I. induction (pcs s) as [|q r IH]; cbn in F; [discriminate|].
    destruct (terminal q) eqn:T.
    - cbn in F. destruct (IH F) as [j [p [H1 H2]]]. exists (S j), p. auto.
    - exists 0, q. auto. }
  assert (En : forall i q, nth_error (pcs s) i = Some q -> terminal q = false ->
               (forall cap, q <> PWant cap) -> step c s i <> None).
  { intros i q Hq Tq NW. unfold step. rewrite Hq. unfold mk.
    destruct q; cbn in Tq; try discriminate;
      repeat match goal with
             | |- context [if ?b then _ else _] => destruct b
             | |- context [match ?x with _ => _ end] => destruct x
             end; try discriminate.
    exfalso. eapply NW; reflexivity. }
  destruct p; try (exists j; eapply En; eauto; intros; discriminate).
  destruct (lock s) as [h|] eqn:L.
  - pose proof (i_B _ _ _ _ I h L) as B.
    destruct (nth_error (pcs s) h) as [q|] eqn:Hq.
    + rewrite (pcd_at _ _ _ Hq) in B. exists h. eapply En; eauto.
      * destruct q; cbn in *; try discriminate; auto.
      * intros cap0 ->. discriminate.
    + unfold pcd in B. rewrite nth_overflow in B by (apply nth_error_None; exact Hq). discriminate.
  - exists j. unfold step. rewrite Hj, L. unfold mk. discriminate.
Qed.
End Reach.

(* ---------- bounded length of every execution ---------- *)
Definition rank (p : pc) : nat :=
  match p with
  | PStart => 13 | PWant _ => 12 | PHold _ => 11 | PSent _ _ => 10 | PGot _ _ _ => 9 | PSet _ _ => 8
  | PCb => 7 | PCbDone => 6 | PReady => 5 | PInflight => 4 | PRecvd => 3 | PFailed _ => 2
  | PDone => 0 | PErr _ => 0
  end.
Definition total (l : list pc) : nat := fold_right (fun p a => rank p + a) 0 l.

Lemma total_upd l i p q : nth_error l i = Some q -> total (upd l i p) + rank q = total l + rank p.
Proof.
  unfold total. revert i; induction l as [|h t IH]; intros [|i] H; cbn in *; try discriminate.
  - injection H as ->. lia.
  - specialize (IH i H). lia.
Qed.

Lemma step_decreases c s i s' e : step c s i = Some (s', e) ->
  total (pcs s') < total (pcs s) /\ trace s' = (i, e) :: trace s.
Proof.
  intros H. step_inv H; cbn [pcs trace]; (split; [|reflexivity]);
    match goal with |- total (upd _ _ ?p) < _ => pose proof (total_upd _ _ p _ Hp) as T end;
    cbn in T; lia.
Qed.

Lemma bounded_run_l c sched : forall s,
  length (trace (run c s sched)) + total (pcs (run c s sched)) <= length (trace s) + total (pcs s).
Proof.
  induction sched as [|i r IH]; intros s; cbn [run fold_left]; [lia|].
  specialize (IH (next c s i)). fold (run c (next c s i) r). unfold next in *.
  destruct (step c s i) as [[s' e]|] eqn:H; [|exact IH].
  destruct (step_decreases _ _ _ _ _ H) as [D T]. rewrite T in IH. cbn [length] in IH. lia.
Qed.

Lemma total_repeat n : total (repeat PStart n) = 13 * n.
Proof. unfold total. induction n as [|n IH]; [reflexivity|]. cbn [repeat fold_right rank]. rewrite IH. lia. Qed.

Lemma bounded_l c n t0 os sched : length (trace (run c (init n t0 os) sched)) <= 13 * n.
Proof.
  pose proof (bounded_run_l c sched (init n t0 os)) as H. cbn in H. rewrite total_repeat in H. lia.
Qed.
