(* Round-trip and canonicity facts about the base64url model. *)
From Coq Require Import List NArith ZArith Bool Ascii String Lia ZifyBool ZifyN.
From Authlib Require Import Base.Bytes Base.Base64.
Import ListNotations.
Open Scope string_scope.
Open Scope N_scope.
Ltac Zify.zify_post_hook ::= Z.to_euclidean_division_equations.

Lemma lt64_cases (P : N -> Prop) :
  (forall k, (k < 64)%nat -> P (N.of_nat k)) -> forall n, n < 64 -> P n.
Proof.
  intros H n Hn. rewrite <- (N2Nat.id n). apply H. lia.
Qed.

Lemma forallb_seq_lt (f : nat -> bool) (m : nat) :
  forallb f (seq 0 m) = true -> forall k, (k < m)%nat -> f k = true.
Proof.
  intros H k Hk. rewrite forallb_forall in H. apply H. apply in_seq. lia.
Qed.

Definition char_ok (alpha : N -> ascii) (val : ascii -> option N) (k : nat) : bool :=
  let n := N.of_nat k in
  negb (Ascii.eqb (alpha n) "="%char) &&
  match val (alpha n) with Some v => v =? n | None => false end.

Lemma u_char_ok_all : forallb (char_ok b64u_char b64_val) (seq 0 64) = true.
Proof. vm_compute. reflexivity. Qed.
Lemma s_char_ok_all : forallb (char_ok b64s_char b64s_val) (seq 0 64) = true.
Proof. vm_compute. reflexivity. Qed.
Lemma s_char_ok_all_url : forallb (char_ok b64s_char b64_val) (seq 0 64) = true.
Proof. vm_compute. reflexivity. Qed.

Lemma group3 x y z :
  x < 256 -> y < 256 -> z < 256 ->
  x / 4 < 64 /\ (x mod 4) * 16 + y / 16 < 64 /\ (y mod 16) * 4 + z / 64 < 64 /\ z mod 64 < 64 /\
  (x / 4) * 4 + ((x mod 4) * 16 + y / 16) / 16 = x /\
  (((x mod 4) * 16 + y / 16) mod 16) * 16 + ((y mod 16) * 4 + z / 64) / 4 = y /\
  (((y mod 16) * 4 + z / 64) mod 4) * 64 + z mod 64 = z.
Proof. intros. lia. Qed.

Lemma group2 x y :
  x < 256 -> y < 256 ->
  x / 4 < 64 /\ (x mod 4) * 16 + y / 16 < 64 /\ (y mod 16) * 4 < 64 /\
  (x / 4) * 4 + ((x mod 4) * 16 + y / 16) / 16 = x /\
  (((x mod 4) * 16 + y / 16) mod 16) * 16 + ((y mod 16) * 4) / 4 = y.
Proof. intros. lia. Qed.

Lemma group1 x :
  x < 256 -> x / 4 < 64 /\ (x mod 4) * 16 < 64 /\ (x / 4) * 4 + ((x mod 4) * 16) / 16 = x.
Proof. intros. lia. Qed.

Section RT.
Variable alpha : N -> ascii.
Variable val : ascii -> option N.
Hypothesis ok_all : forallb (char_ok alpha val) (seq 0 64) = true.

Lemma alpha_not_pad n : n < 64 -> Ascii.eqb (alpha n) "="%char = false.
Proof.
  revert n. apply lt64_cases. intros k Hk.
  pose proof (forallb_seq_lt _ _ ok_all k Hk) as H. unfold char_ok in H.
  apply andb_true_iff in H. destruct H as [H _].
  now apply negb_true_iff in H.
Qed.

Lemma val_alpha n : n < 64 -> val (alpha n) = Some n.
Proof.
  revert n. apply lt64_cases. intros k Hk.
  pose proof (forallb_seq_lt _ _ ok_all k Hk) as H. unfold char_ok in H.
  apply andb_true_iff in H. destruct H as [_ H].
  destruct (val (alpha (N.of_nat k))) as [v|]; [|discriminate].
  apply N.eqb_eq in H. now subst.
Qed.

Lemma a2b_step_char n r qp lc pads :
  n < 64 ->
  a2b val (String (alpha n) r) qp lc pads =
    match qp with
    | 0%nat => a2b val r 1 n 0
    | 1%nat => option_map (String (n_byte (lc * 4 + n / 16))) (a2b val r 2 (n mod 16) 0)
    | 2%nat => option_map (String (n_byte (lc * 16 + n / 4))) (a2b val r 3 (n mod 4) 0)
    | _ => option_map (String (n_byte (lc * 64 + n))) (a2b val r 0 0 0)
    end.
Proof.
  intros Hn. cbn [a2b]. rewrite (alpha_not_pad n Hn), (val_alpha n Hn). reflexivity.
Qed.

Lemma pad_for_plus4 n : pad_for (4 + n) = pad_for n.
Proof.
  unfold pad_for. replace (Nat.modulo (4 + n) 4) with (Nat.modulo n 4); [reflexivity|].
  change (4 + n)%nat with (4 + n)%nat.
  rewrite Nat.add_comm. replace (n + 4)%nat with (n + 1 * 4)%nat by lia.
  now rewrite Nat.mod_add by lia.
Qed.

Lemma string_ind3 (P : string -> Prop) :
  P "" ->
  (forall a, P (String a "")) ->
  (forall a b, P (String a (String b ""))) ->
  (forall a b c r, P r -> P (String a (String b (String c r)))) ->
  forall s, P s.
Proof.
  intros H0 H1 H2 H3.
  assert (H : forall s, P s /\ (forall a, P (String a s)) /\ (forall a b, P (String a (String b s)))).
  { induction s as [|c r [IH0 [IH1 IH2]]].
    - repeat split; auto.
    - repeat split; auto. }
  intros s. apply H.
Qed.

Theorem a2b_enc_pad s :
  a2b val (b64enc alpha s ++ pad_for (String.length (b64enc alpha s))) 0 0 0 = Some s.
Proof.
  induction s as [|a|a b|a b c r IH] using string_ind3.
  - reflexivity.
  - cbn [b64enc]. pose proof (byte_n_lt a) as Ha.
    destruct (group1 _ Ha) as (H1 & H2 & H3).
    cbn [String.length append pad_for Nat.modulo Nat.divmod fst snd Nat.sub].
    rewrite !a2b_step_char by assumption.
    cbn. rewrite H3, n_byte_n. reflexivity.
  - cbn [b64enc]. pose proof (byte_n_lt a) as Ha. pose proof (byte_n_lt b) as Hb.
    destruct (group2 _ _ Ha Hb) as (H1 & H2 & H3 & H4 & H5).
    cbn [String.length append pad_for Nat.modulo Nat.divmod fst snd Nat.sub].
    rewrite !a2b_step_char by assumption.
    cbn. rewrite H4, H5, !n_byte_n. reflexivity.
  - cbn [b64enc]. pose proof (byte_n_lt a) as Ha. pose proof (byte_n_lt b) as Hb.
    pose proof (byte_n_lt c) as Hc.
    destruct (group3 _ _ _ Ha Hb Hc) as (H1 & H2 & H3 & H4 & H5 & H6 & H7).
    cbn [String.length append].
    change (S (S (S (S ?n)))) with (4 + n)%nat.
    rewrite pad_for_plus4.
    rewrite !a2b_step_char by assumption.
    rewrite IH. cbn [option_map].
    rewrite H5, H6, H7, !n_byte_n. reflexivity.
Qed.
End RT.

Theorem urlsafe_b64decode_encode s : urlsafe_b64decode (b64url_encode s) = Some s.
Proof. unfold urlsafe_b64decode, a2b_base64_url, b64url_encode. apply a2b_enc_pad. apply u_char_ok_all. Qed.

(* standard padded encoding decodes with the plain and with the url-safe decoder *)
Theorem a2b_std_encode s : a2b_base64_std (b64std_encode s) = Some s.
Proof. unfold a2b_base64_std, b64std_encode, b64std_encode_nopad. apply a2b_enc_pad. apply s_char_ok_all. Qed.

(* the encoder only emits characters of the URL-safe alphabet *)
Lemma u_char_alphabet_all :
  forallb (fun k => is_b64url_char (b64u_char (N.of_nat k))) (seq 0 64) = true.
Proof. vm_compute. reflexivity. Qed.

Lemma b64u_char_alphabet n : n < 64 -> is_b64url_char (b64u_char n) = true.
Proof.
  revert n. apply lt64_cases. intros k Hk.
  apply (forallb_seq_lt _ _ u_char_alphabet_all k Hk).
Qed.

Theorem b64url_encode_alphabet s : str_all is_b64url_char (b64url_encode s) = true.
Proof.
  unfold b64url_encode.
  induction s as [|a|a b|a b c r IH] using string_ind3.
  - reflexivity.
  - cbn [b64enc str_all]. pose proof (byte_n_lt a) as Ha.
    destruct (group1 _ Ha) as (H1 & H2 & _).
    rewrite !b64u_char_alphabet by assumption. reflexivity.
  - cbn [b64enc str_all]. pose proof (byte_n_lt a) as Ha. pose proof (byte_n_lt b) as Hb.
    destruct (group2 _ _ Ha Hb) as (H1 & H2 & H3 & _).
    rewrite !b64u_char_alphabet by assumption. reflexivity.
  - cbn [b64enc str_all]. pose proof (byte_n_lt a) as Ha. pose proof (byte_n_lt b) as Hb.
    pose proof (byte_n_lt c) as Hc.
    destruct (group3 _ _ _ Ha Hb Hc) as (H1 & H2 & H3 & H4 & _).
    rewrite !b64u_char_alphabet by assumption. rewrite IH. reflexivity.
Qed.

(* every encoder output is canonical *)
Theorem b64url_encode_canonical s : b64url_canonical (b64url_encode s) = true.
Proof.
  unfold b64url_canonical. rewrite urlsafe_b64decode_encode. apply String.eqb_refl.
Qed.

(* The decoder is NOT injective on serialisations: distinct texts decode to
   the same octets (lenient CPython base64).  Witnesses by computation. *)
Theorem urlsafe_b64decode_noncanonical_refuted :
  exists s1 s2, s1 <> s2 /\ urlsafe_b64decode s1 = urlsafe_b64decode s2 /\
                urlsafe_b64decode s1 = Some "A".
Proof. exists "QQ", "QR". split; [discriminate|]. split; vm_compute; reflexivity. Qed.

Example lenient_examples :
  urlsafe_b64decode "QQ==" = Some "A" /\ urlsafe_b64decode "QQ!!!!" = Some "A" /\
  urlsafe_b64decode "Q" = None /\ urlsafe_b64decode "QUI" = Some "AB" /\
  a2b_base64_url "QQ=" = None /\ a2b_base64_url "QUI=x" = Some "AB" /\
  a2b_base64_url "QUJD=QUJD" = Some "ABCABC" /\ a2b_base64_url "QQ==QQ==" = Some "A" /\
  a2b_base64_url "=QQ==" = Some "A" /\ a2b_base64_url "QUIx=" = Some "AB1".
Proof. vm_compute. repeat split. Qed.
