From Coq Require Import List NArith ZArith Bool Ascii String Lia.
From Authlib Require Import Base.Bytes Base.PyVal Model.Resource Model.Scope Proofs.BytesP Proofs.ResourceP.
Import ListNotations.
Open Scope string_scope.

Lemma split_ws_client_allowed cs sc :
  split_ws (client_allowed_scope cs sc) =
  filter (fun s => list_in_str s (split_ws cs)) (split_ws sc).
Proof.
  unfold client_allowed_scope. destruct (String.eqb_spec sc "") as [->|Hne]; [reflexivity|].
  apply split_ws_join. apply Forall_word_filter. apply split_ws_Forall_word.
Qed.

Lemma generate_scopes g cs sc r e :
  generate g cs sc = (r, e) ->
  forall s, In s (scopes_of r) \/ In s (scopes_of e) ->
            In s (scopes_of sc) /\ In s (split_ws cs).
Proof.
  unfold generate, gen_allowed. intros H s Hs.
  assert (Hf : forall o, (o = (if truthy_s (if truthy_s sc then option_map (client_allowed_scope cs) sc else sc)
                               then (if truthy_s sc then option_map (client_allowed_scope cs) sc else sc) else None)
                          \/ o = Some (match (if truthy_s sc then option_map (client_allowed_scope cs) sc else sc) with
                                       | Some x => x | None => "" end)) ->
                         In s (scopes_of o) -> In s (scopes_of sc) /\ In s (split_ws cs)).
  { intros o Ho Hin. destruct sc as [x|]; cbn [truthy_s option_map] in Ho.
    - destruct (negb (x =? "")) eqn:Ex; cbn [truthy_s] in Ho.
      + assert (Hin' : In s (split_ws (client_allowed_scope cs x))).
        { destruct Ho as [->| ->].
          - destruct (negb (client_allowed_scope cs x =? "")); [exact Hin|destruct Hin].
          - exact Hin. }
        rewrite split_ws_client_allowed in Hin'. apply filter_In in Hin'.
        destruct Hin' as [H1 H2]. apply list_in_str_In in H2. simpl. auto.
      + apply negb_false_iff, String.eqb_eq in Ex. subst x.
        destruct Ho as [->| ->]; simpl in Hin; destruct Hin.
    - destruct Ho as [->| ->]; simpl in Hin; destruct Hin. }
  destruct g; injection H as <- <-; destruct Hs as [Hs|Hs];
    try (apply (Hf _ (or_introl eq_refl) Hs)); try (apply (Hf _ (or_intror eq_refl) Hs));
    simpl in Hs; destruct Hs.
Qed.

Lemma validate_requested_scope_sound sup sc s :
  validate_requested_scope sup sc = true -> sup <> [] -> In s (scopes_of sc) -> In s sup.
Proof.
  unfold validate_requested_scope. destruct sc as [x|]; [|intros _ _ []].
  destruct sup as [|y ys]; [congruence|].
  destruct (String.eqb_spec x "") as [->|Hne]; [intros _ _ []|].
  intros H _ Hin. apply subset_strs_incl in H. now apply H.
Qed.

Theorem issued_scope_subset_l gr g sup cs req orig r e :
  issue gr g sup cs req orig = Issued r e ->
  forall s, In s (scopes_of r) \/ In s (scopes_of e) ->
    In s (split_ws cs) /\
    (gr <> GRefresh -> In s (scopes_of req) /\ (sup <> [] -> In s sup)) /\
    (gr = GRefresh -> In s (scopes_of orig) /\ (truthy_s req = true -> In s (scopes_of req))).
Proof.
  intros H s Hs.
  assert (Hnr : gr <> GRefresh ->
                validate_requested_scope sup req = true /\ generate g cs req = (r, e)).
  { intros Hg. destruct gr; try contradiction; unfold issue in H;
      (destruct (validate_requested_scope sup req); [|discriminate]);
      (destruct (generate g cs req) as [r' e']; injection H as <- <-; auto). }
  destruct gr;
    try (destruct Hnr as [Hv Hg]; [discriminate|];
         destruct (generate_scopes _ _ _ _ _ Hg s Hs) as [H1 H2];
         split; [exact H2|]; split; [intros _; split; [exact H1|];
           intros Hsup; eapply validate_requested_scope_sound; eauto | discriminate]).
  (* refresh *)
  clear Hnr. unfold issue in H. destruct (refresh_scope_ok req orig) eqn:Eok; [|discriminate].
  destruct (generate g cs (if truthy_s req then req else orig)) as [r' e'] eqn:Eg.
  injection H as <- <-.
  destruct (generate_scopes _ _ _ _ _ Eg s Hs) as [H1 H2].
  split; [exact H2|]. split; [congruence|]. intros _.
  unfold refresh_scope_ok in Eok.
  destruct (truthy_s req) eqn:Er; cbn [negb] in Eok.
  - destruct (truthy_s orig) eqn:Eo; cbn [negb] in Eok; [|discriminate].
    destruct req as [rq|]; [|discriminate]. destruct orig as [og|]; [|discriminate].
    apply subset_strs_incl in Eok. split; [|auto]. simpl in *. now apply Eok.
  - split; [exact H1|discriminate].
Qed.

(* a requested scope outside the supported set is refused *)
Theorem unsupported_scope_invalid_scope_l gr g sup cs req orig x s :
  gr <> GRefresh -> sup <> [] -> req = Some x -> In s (split_ws x) -> ~ In s sup ->
  issue gr g sup cs req orig = InvalidScope.
Proof.
  intros Hg Hsup -> Hin Hns.
  assert (Hv : validate_requested_scope sup (Some x) = false).
  { unfold validate_requested_scope. destruct sup as [|y ys]; [congruence|].
    destruct (String.eqb_spec x "") as [->|Hne]; [destruct Hin|].
    destruct (subset_strs (split_ws x) (y :: ys)) eqn:E; [|reflexivity].
    apply subset_strs_incl in E. exfalso. apply Hns. now apply E. }
  destruct gr; try contradiction; unfold issue; rewrite Hv; reflexivity.
Qed.

(* refresh: widening is refused *)
Theorem refresh_widen_invalid_scope_l g sup cs x orig s :
  In s (split_ws x) -> ~ In s (scopes_of orig) ->
  issue GRefresh g sup cs (Some x) orig = InvalidScope.
Proof.
  intros Hin Hno. unfold issue.
  assert (Hok : refresh_scope_ok (Some x) orig = false).
  { unfold refresh_scope_ok. simpl.
    destruct (String.eqb_spec x "") as [->|Hne]; [destruct Hin|]. cbn [negb].
    destruct orig as [o|]; simpl; [|reflexivity].
    destruct (negb (o =? "")); cbn [negb]; [|reflexivity].
    destruct (subset_strs (split_ws x) (split_ws o)) eqn:E; [|reflexivity].
    apply subset_strs_incl in E. exfalso. apply Hno. simpl. now apply E. }
  now rewrite Hok.
Qed.

(* refresh without a scope parameter keeps the original scope (filtered by the client's allowance) *)
Theorem refresh_keep_l g sup cs orig :
  exists r e, issue GRefresh g sup cs None orig = Issued r e /\
              (forall s, In s (scopes_of r) -> In s (scopes_of orig)).
Proof.
  unfold issue. simpl. destruct (generate g cs orig) as [r e] eqn:Eg.
  exists r, e. split; [reflexivity|]. intros s Hs.
  apply (generate_scopes _ _ _ _ _ Eg s (or_introl Hs)).
Qed.

(* what the response reports is what the JWT carries *)
Theorem response_scope_is_embedded_l g cs sc r e :
  generate g cs sc = (r, e) -> g <> GenBearer -> scopes_of r = scopes_of e.
Proof.
  unfold generate. intros H Hg. destruct g; [contradiction| |];
  injection H as <- <-;
  destruct (gen_allowed cs sc) as [f|]; simpl; try reflexivity;
  destruct (String.eqb_spec f "") as [->|Hne]; reflexivity.
Qed.
