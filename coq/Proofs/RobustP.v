(* C20 proofs: no value of any JSON type, and no text, drives the guarded functions of Model/Robust.v into [Exc];
   what they return when they return; and for the unguarded transcriptions a concrete value that does reach [Exc]. *)
From Coq Require Import List NArith ZArith Bool Ascii String Lia.
From Authlib Require Import Base.Bytes Base.PyVal Model.Robust.
Import ListNotations.
Open Scope string_scope.
Open Scope list_scope.

Ltac dm := match goal with
           | |- context [match ?x with _ => _ end] => destruct x eqn:?
           | |- context [if ?x then _ else _] => destruct x eqn:?
           end.

Lemma bind_no_exc {A B} (x : out A) (f : A -> out B) :
  is_exc x = false -> (forall a, x = Val a -> is_exc (f a) = false) -> is_exc (bind x f) = false.
Proof. destruct x; simpl; intros H K; auto. Qed.

(* ------------------------------------------------------------------ alg / enc / zip *)
Lemma py_in_keys_text v names : is_str v = true -> py_in_keys v names = Val (list_in_str (pv_str v) names).
Proof. destruct v; simpl; intros H; try discriminate; reflexivity. Qed.

Theorem named_algorithm_total member missing unsupported allow registry h :
  is_exc (named_algorithm member missing unsupported allow registry h) = false.
Proof.
  unfold named_algorithm. destruct (dict_get member h) as [a|]; [|reflexivity].
  destruct (is_str a) eqn:E; simpl; [|reflexivity].
  destruct (match allow with Some l => negb (py_in_strs a l) | None => false end); [reflexivity|].
  rewrite py_in_keys_text by exact E. simpl. dm; reflexivity.
Qed.

Theorem named_algorithm_spec member missing unsupported allow registry h a :
  named_algorithm member missing unsupported allow registry h = Val a <->
  dict_get member h = Some (PStr a) /\ (match allow with Some l => In a l | None => True end) /\ In a registry.
Proof.
  unfold named_algorithm. split.
  - destruct (dict_get member h) as [v|]; [|discriminate].
    destruct v; simpl; try discriminate.
    destruct allow as [l|]; simpl.
    + destruct (list_in_str s l) eqn:E1; simpl; [|discriminate].
      destruct (list_in_str s registry) eqn:E2; simpl; [|discriminate].
      intros H; injection H as <-. rewrite <- !list_in_str_In. auto.
    + destruct (list_in_str s registry) eqn:E2; simpl; [|discriminate].
      intros H; injection H as <-. rewrite <- list_in_str_In. auto.
  - intros (H1 & H2 & H3). rewrite H1. simpl.
    apply list_in_str_In in H3. destruct allow as [l|]; simpl.
    + apply list_in_str_In in H2. rewrite H2, H3. reflexivity.
    + rewrite H3. reflexivity.
Qed.

Theorem named_algorithm_unguarded_reaches_exc :
  named_algorithm_unguarded "alg" "MissingAlgorithmError" "UnsupportedAlgorithmError" None ["HS256"]
                            [("alg", PList [PStr "HS256"])] = Exc ETypeError.
Proof. reflexivity. Qed.

Theorem jwe_zip_total allow registry h : is_exc (jwe_zip allow registry h) = false.
Proof.
  unfold jwe_zip. destruct (dict_get "zip" h); [|reflexivity].
  apply bind_no_exc; [apply named_algorithm_total | reflexivity].
Qed.

(* ------------------------------------------------------------------ to_bytes *)
Theorem to_bytes_text repr_num v : is_str v = true -> to_bytes repr_num v = Val (Some (pv_str v)).
Proof. destruct v; simpl; intros H; try discriminate; reflexivity. Qed.

Theorem to_bytes_reaches_exc repr_num :
  to_bytes repr_num (PList [PStr "a"]) = Exc ETypeError /\ to_bytes repr_num (PList [PInt 300]) = Exc EValueError /\
  to_bytes repr_num (PDict [("a", PInt 1)]) = Exc ETypeError.
Proof. repeat split. Qed.

(* ------------------------------------------------------------------ JWS JSON serialization *)
Lemma py_get_dict o k : is_dict o = true -> exists r, py_get o k = Val r.
Proof. destruct o; simpl; intros H; try discriminate. eexists; reflexivity. Qed.

Lemma jws_entry_typing_total o : is_dict o = true -> is_exc (jws_entry_typing o) = false.
Proof.
  intros Hd. unfold jws_entry_typing.
  destruct (py_get_dict o "protected" Hd) as [p ->]. simpl.
  dm; [reflexivity|].
  destruct (py_get_dict o "signature" Hd) as [s ->]. simpl.
  dm; [reflexivity|]. dm; [reflexivity|].
  destruct (py_get_dict o "header" Hd) as [h ->]. simpl.
  dm; reflexivity.
Qed.

Lemma jws_entries_typing_total l : is_exc (jws_entries_typing l) = false.
Proof.
  induction l as [|o r IH]; simpl; [reflexivity|].
  destruct (is_dict o) eqn:E; simpl; [|reflexivity].
  apply bind_no_exc; [apply jws_entry_typing_total; exact E|].
  intros e _. apply bind_no_exc; [exact IH | reflexivity].
Qed.

Theorem jws_json_typing_total obj : is_exc (jws_json_typing obj) = false.
Proof.
  unfold jws_json_typing. destruct obj; try reflexivity.
  destruct (dict_get "payload" kvs) as [pl|]; [|reflexivity].
  destruct pl; try reflexivity; simpl.
  destruct (dict_get "signatures" kvs) as [sg|].
  - destruct (is_list sg); simpl; [|reflexivity].
    apply bind_no_exc; [apply jws_entries_typing_total | reflexivity].
  - apply bind_no_exc; [apply jws_entry_typing_total; reflexivity | reflexivity].
Qed.

(* what a typed entry is: the members it was read from are the same text *)
Lemma jws_entry_typing_sound o e :
  jws_entry_typing o = Val e ->
  exists d, o = PDict d /\ dict_get "protected" d = Some (PStr (se_protected e)) /\
            dict_get "signature" d = Some (PStr (se_signature e)) /\ se_protected e <> "" /\ se_signature e <> "".
Proof.
  revert e. unfold jws_entry_typing. destruct o; simpl; try discriminate.
  destruct (dict_get "protected" kvs) as [p|] eqn:Ep; simpl; [|discriminate].
  destruct (py_truthy p) eqn:Tp; simpl; [|discriminate].
  destruct (dict_get "signature" kvs) as [s|] eqn:Es; simpl; [|discriminate].
  destruct (py_truthy s) eqn:Ts; simpl; [|discriminate].
  destruct p; simpl; try discriminate. destruct s; simpl; try discriminate. intros e.
  destruct (py_truthy _ && negb _); [discriminate|].
  intros H; injection H as <-. simpl.
  exists kvs. repeat split; try reflexivity; try assumption.
  - intros ->. discriminate.
  - intros ->. discriminate.
Qed.

Theorem jws_json_typing_sound obj pl g es :
  jws_json_typing obj = Val (pl, g, es) ->
  exists d, obj = PDict d /\ dict_get "payload" d = Some (PStr pl) /\
            (g = true -> exists l, dict_get "signatures" d = Some (PList l) /\ List.length l = List.length es).
Proof.
  unfold jws_json_typing. destruct obj; try discriminate.
  destruct (dict_get "payload" kvs) as [p|] eqn:Ep; [|discriminate].
  destruct p; try discriminate; simpl.
  destruct (dict_get "signatures" kvs) as [sg|] eqn:Es.
  - destruct sg; simpl; try discriminate.
    destruct (jws_entries_typing l) eqn:El; simpl; try discriminate.
    intros H; injection H as <- <- <-. exists kvs. repeat split; auto.
    intros _. exists l. split; [assumption|].
    clear -El. revert a El. induction l as [|o r IH]; simpl; intros a El.
    + injection El as <-. reflexivity.
    + destruct (is_dict o); simpl in El; [|discriminate].
      destruct (jws_entry_typing o); simpl in El; try discriminate.
      destruct (jws_entries_typing r) eqn:Er; simpl in El; try discriminate.
      injection El as <-. simpl. f_equal. apply IH. reflexivity.
  - destruct (jws_entry_typing (PDict kvs)); simpl; try discriminate.
    intros H; injection H as <- <- <-. exists kvs. repeat split; auto. discriminate.
Qed.

Theorem jws_json_typing_unguarded_reaches_exc repr_num :
  jws_json_typing_unguarded repr_num (PDict [("payload", PList [PStr "a"])]) = Exc ETypeError /\
  jws_json_typing_unguarded repr_num (PDict [("payload", PList [PInt 300])]) = Exc EValueError /\
  jws_json_typing_unguarded repr_num (PDict [("payload", PStr "e30"); ("signatures", PInt 5)]) = Exc ETypeError /\
  jws_json_typing_unguarded repr_num (PDict [("payload", PStr "e30"); ("signatures", PList [PInt 5])]) = Exc EAttributeError /\
  jws_json_typing_unguarded repr_num (PDict [("payload", PStr "e30"); ("protected", PList [PStr "a"]); ("signature", PStr "x")])
  = Exc ETypeError.
Proof. repeat split. Qed.

(* ------------------------------------------------------------------ JWE JSON serialization *)
Lemma jwe_recipients_typing_total l : is_exc (jwe_recipients_typing l) = false.
Proof.
  induction l as [|r q IH]; simpl; [reflexivity|].
  destruct r; try reflexivity.
  destruct (dict_get "encrypted_key" kvs); [|reflexivity].
  dm; [reflexivity|]. dm; [reflexivity|].
  apply bind_no_exc; [exact IH | reflexivity].
Qed.

Theorem jwe_json_typing_total obj : is_exc (jwe_json_typing obj) = false.
Proof.
  unfold jwe_json_typing. destruct obj; try reflexivity.
  dm; [reflexivity|]. dm; [reflexivity|].
  destruct (dict_get "recipients" kvs) as [rs|]; [|reflexivity].
  destruct rs; try reflexivity.
  destruct (dict_get "iv" kvs), (dict_get "ciphertext" kvs), (dict_get "tag" kvs); try reflexivity.
  apply bind_no_exc; [apply jwe_recipients_typing_total | reflexivity].
Qed.

Lemma all_text_member d ks k v :
  all_text_if_present d ks = true -> In k ks -> dict_get k d = Some v -> exists s, v = PStr s.
Proof.
  unfold all_text_if_present. rewrite forallb_forall. intros H Hin Hk.
  specialize (H k Hin). rewrite Hk in H. destruct v; try discriminate. eexists; reflexivity.
Qed.

Theorem jwe_json_typing_sound obj t :
  jwe_json_typing obj = Val t ->
  exists d, obj = PDict d /\ dict_get "iv" d = Some (PStr (jt_iv t)) /\ dict_get "ciphertext" d = Some (PStr (jt_ciphertext t)) /\
            dict_get "tag" d = Some (PStr (jt_tag t)) /\
            (forall v, dict_get "protected" d = Some v -> jt_protected t = Some (pv_str v) /\ is_str v = true) /\
            (forall v, dict_get "aad" d = Some v -> jt_aad t = Some (pv_str v) /\ is_str v = true).
Proof.
  unfold jwe_json_typing. destruct obj; try discriminate.
  destruct (all_text_if_present kvs _) eqn:Ht; simpl; [|discriminate].
  dm; simpl; [discriminate|].
  destruct (dict_get "recipients" kvs) as [rs|]; [|discriminate].
  destruct rs; try discriminate.
  destruct (dict_get "iv" kvs) as [iv|] eqn:Eiv; [|discriminate].
  destruct (dict_get "ciphertext" kvs) as [ct|] eqn:Ect; [|discriminate].
  destruct (dict_get "tag" kvs) as [tg|] eqn:Etg; [|discriminate].
  destruct (jwe_recipients_typing l); simpl; try discriminate.
  intros H; injection H as <-. simpl. exists kvs.
  destruct (all_text_member _ _ "iv" iv Ht) as [s1 ->]; [simpl; tauto | exact Eiv |].
  destruct (all_text_member _ _ "ciphertext" ct Ht) as [s2 ->]; [simpl; tauto | exact Ect |].
  destruct (all_text_member _ _ "tag" tg Ht) as [s3 ->]; [simpl; tauto | exact Etg |].
  repeat split; auto.
  - unfold opt_text. rewrite H. destruct (all_text_member _ _ "protected" v Ht) as [s ->]; [simpl; tauto | exact H |]. reflexivity.
  - destruct (all_text_member _ _ "protected" v Ht) as [s ->]; [simpl; tauto | exact H |]. reflexivity.
  - unfold opt_text. rewrite H. destruct (all_text_member _ _ "aad" v Ht) as [s ->]; [simpl; tauto | exact H |]. reflexivity.
  - destruct (all_text_member _ _ "aad" v Ht) as [s ->]; [simpl; tauto | exact H |]. reflexivity.
Qed.

(* ------------------------------------------------------------------ client metadata *)
Lemma first_bad_none ok d ks :
  first_bad ok d ks = None -> forall k, In k ks -> member d k = PNone \/ ok (member d k) = true.
Proof.
  induction ks as [|k0 r IH]; simpl; intros H k Hin; [tauto|].
  unfold member in *. destruct (dict_get k0 d) as [v|] eqn:E.
  - destruct v; try (destruct (ok _) eqn:Eo; [|discriminate]);
      destruct Hin as [<-|Hin]; try (rewrite E; auto; fail); auto.
  - destruct Hin as [<-|Hin]; [rewrite E; auto | auto].
Qed.

Section Meta.
Variable is_valid_url : string -> bool.
Variable scopes_supported grant_types_supported response_types_supported : list string.

Lemma validate_uri_str stl key v : (v = PNone \/ is_str v = true) -> is_exc (validate_uri is_valid_url stl key v) = false.
Proof.
  unfold validate_uri. intros [->|H]; [reflexivity|].
  destruct v; try discriminate. simpl. dm; [reflexivity|]. simpl. dm; reflexivity.
Qed.

Lemma validate_uris_strs stl l : forallb is_str l = true -> is_exc (validate_uris is_valid_url stl l) = false.
Proof.
  induction l as [|u r IH]; simpl; intros H; [reflexivity|].
  apply andb_true_iff in H as [Hu Hr]. dm; [reflexivity|].
  apply bind_no_exc; [apply validate_uri_str; auto | intros; auto].
Qed.

Lemma py_set_subset_strs v default sup :
  (v = PNone \/ str_list v = true) -> is_exc (py_set_subset v default sup) = false.
Proof.
  unfold py_set_subset. intros [->|H]; [reflexivity|].
  destruct v; try discriminate. simpl in H. dm; [reflexivity|]. simpl.
  assert (forallb hashable l = true) as ->.
  { clear -H. induction l as [|x r IH]; simpl in *; [reflexivity|].
    apply andb_true_iff in H as [Hx Hr]. rewrite IH by exact Hr. destruct x; try discriminate; reflexivity. }
  reflexivity.
Qed.

Lemma scope_to_list_total v : is_exc (scope_to_list v) = false.
Proof. destruct v; reflexivity. Qed.

Theorem metadata_validate_total d :
  is_exc (metadata_validate is_valid_url scopes_supported grant_types_supported response_types_supported d) = false.
Proof.
  unfold metadata_validate, claim_types, typed_members.
  destruct (first_bad str_list d ARRAY_CLAIMS) eqn:Ea; [reflexivity|].
  destruct (first_bad is_str d STRING_CLAIMS) eqn:Es; [reflexivity|].
  pose proof (first_bad_none _ _ _ Ea) as HA. pose proof (first_bad_none _ _ _ Es) as HS.
  cbn [bind]. unfold metadata_validators.
  apply bind_no_exc.
  { destruct (HA "redirect_uris") as [->|H]; [simpl; tauto | reflexivity |].
    dm; [reflexivity|]. destruct (member d "redirect_uris"); try discriminate. simpl.
    apply validate_uris_strs. exact H. }
  intros _ _. apply bind_no_exc; [apply py_set_subset_strs; apply HA; simpl; tauto|].
  intros g _. dm; [reflexivity|].
  apply bind_no_exc; [apply py_set_subset_strs; apply HA; simpl; tauto|].
  intros r _. dm; [reflexivity|].
  apply bind_no_exc; [apply validate_uri_str; apply HS; simpl; tauto|]. intros _ _.
  apply bind_no_exc; [apply validate_uri_str; apply HS; simpl; tauto|]. intros _ _.
  apply bind_no_exc.
  { dm; [reflexivity|]. apply bind_no_exc; [apply scope_to_list_total | reflexivity]. }
  intros sc _. dm; [reflexivity|].
  apply bind_no_exc.
  { destruct (dict_get "contacts" d); [dm|]; reflexivity. }
  intros _ _.
  apply bind_no_exc; [apply validate_uri_str; apply HS; simpl; tauto|]. intros _ _.
  apply bind_no_exc; [apply validate_uri_str; apply HS; simpl; tauto|]. intros _ _.
  apply validate_uri_str; apply HS; simpl; tauto.
Qed.

(* a refusal of the type check names the first member of the wrong type *)
Theorem claim_types_refusal d k :
  claim_types d = Refuse "invalid_client_metadata" (Some k) ->
  In k (ARRAY_CLAIMS ++ STRING_CLAIMS) /\ member d k <> PNone.
Proof.
  assert (G : forall ok ks, first_bad ok d ks = Some k -> In k ks /\ member d k <> PNone).
  { intros ok ks. induction ks as [|k0 r IH]; simpl; [discriminate|].
    unfold member in *. destruct (dict_get k0 d) as [v|] eqn:E.
    - destruct v; try (destruct (ok _); [intros H; apply IH in H; tauto | intros H; injection H as <-; rewrite E; split; [auto|discriminate]]).
      intros H; apply IH in H; tauto.
    - intros H; apply IH in H; tauto. }
  unfold claim_types, typed_members. destruct (first_bad str_list d ARRAY_CLAIMS) eqn:Ea.
  - intros H; injection H as <-. apply G in Ea. rewrite in_app_iff. tauto.
  - destruct (first_bad is_str d STRING_CLAIMS) eqn:Es; [|discriminate].
    intros H; injection H as <-. apply G in Es. rewrite in_app_iff. tauto.
Qed.

(* for any two lists of member names: the check never raises; when it passes, every listed member is absent, null or of its type;
   when it refuses, it names a listed member that is present *)
Theorem typed_members_total arrays strings d : is_exc (typed_members arrays strings d) = false.
Proof. unfold typed_members. destruct (first_bad str_list d arrays); [reflexivity|]. destruct (first_bad is_str d strings); reflexivity. Qed.

Theorem typed_members_sound arrays strings d :
  typed_members arrays strings d = Val tt ->
  (forall k, In k arrays -> member d k = PNone \/ str_list (member d k) = true) /\
  (forall k, In k strings -> member d k = PNone \/ is_str (member d k) = true).
Proof.
  unfold typed_members. destruct (first_bad str_list d arrays) eqn:Ea; [discriminate|].
  destruct (first_bad is_str d strings) eqn:Es; [discriminate|]. intros _.
  split; [exact (first_bad_none _ _ _ Ea) | exact (first_bad_none _ _ _ Es)].
Qed.

Theorem metadata_validate_unguarded_reaches_exc :
  metadata_validate_unguarded is_valid_url scopes_supported grant_types_supported response_types_supported
                              [("redirect_uris", PInt 5)] = Exc ETypeError /\
  metadata_validate_unguarded is_valid_url scopes_supported grant_types_supported response_types_supported
                              [("redirect_uris", PList [PInt 1])] = Exc EAttributeError /\
  metadata_validate_unguarded is_valid_url scopes_supported ("authorization_code" :: grant_types_supported) ("code" :: response_types_supported)
                              [("scope", PInt 5)] = Exc EAttributeError.
Proof.
  repeat split.
Qed.

Theorem scope_insufficient_total token_scopes required :
  is_exc (scope_insufficient scope_to_list token_scopes required) = false.
Proof.
  unfold scope_insufficient. destruct required; [reflexivity|].
  apply bind_no_exc; [apply scope_to_list_total|]. intros ts _. destruct ts as [[|]|]; reflexivity.
Qed.

(* a claim that is neither text nor a list grants nothing *)
Theorem scope_insufficient_mistyped token_scopes required :
  required <> [] -> is_str token_scopes = false -> is_list token_scopes = false ->
  scope_insufficient scope_to_list token_scopes required = Val true.
Proof.
  intros Hr Hs Hl. unfold scope_insufficient. destruct required; [congruence|].
  destruct token_scopes; try discriminate; reflexivity.
Qed.

Theorem scope_insufficient_unguarded_reaches_exc :
  scope_insufficient scope_to_list_unguarded (PInt 5) ["a"] = Exc EAttributeError.
Proof. reflexivity. Qed.
End Meta.

Theorem registration_body_total data : is_exc (registration_body data) = false.
Proof. destruct data as [v|]; [|reflexivity]. simpl. dm; [reflexivity|]. destruct v; reflexivity. Qed.

Theorem registration_body_spec data d :
  registration_body data = Val d <-> data = Some (PDict d) /\ d <> [].
Proof.
  unfold registration_body. split.
  - destruct data as [v|]; [|discriminate].
    destruct v as [| b | z | m e | s | l | kvs]; simpl; try discriminate; try (dm; discriminate).
    destruct kvs; simpl; [discriminate|]. intros H; injection H as <-. split; [reflexivity|discriminate].
  - intros [-> H]. destruct d; [congruence|]. reflexivity.
Qed.

(* ------------------------------------------------------------------ claims of signed tokens *)
Theorem validate_typ_total lower typ : is_exc (validate_typ lower typ) = false.
Proof.
  destruct typ as [t|]; [|reflexivity]. unfold validate_typ.
  dm; [reflexivity|]. destruct (is_str t) eqn:E; simpl; [|reflexivity].
  destruct t; try discriminate. simpl. dm; reflexivity.
Qed.

Theorem validate_typ_unguarded_reaches_exc lower : validate_typ_unguarded lower (Some (PInt 5)) = Exc EAttributeError.
Proof. reflexivity. Qed.

Theorem verify_hash_total repr_num signature expected : is_exc (verify_hash repr_num signature expected) = false.
Proof.
  unfold verify_hash. destruct (is_str signature) eqn:E; simpl; [|reflexivity].
  destruct expected; [|reflexivity]. rewrite to_bytes_text by exact E. reflexivity.
Qed.

Theorem verify_hash_mistyped repr_num signature expected :
  is_str signature = false -> verify_hash repr_num signature expected = Val false.
Proof. unfold verify_hash. intros ->. reflexivity. Qed.

Theorem verify_hash_unguarded_reaches_exc repr_num :
  verify_hash_unguarded repr_num (PList [PStr "a"; PInt 1]) (Some "h") = Exc ETypeError.
Proof. reflexivity. Qed.

Theorem resolve_issuer_total known payload : is_exc (resolve_issuer known payload) = false.
Proof. unfold resolve_issuer. destruct (dict_get "iss" payload) as [v|]; [destruct v|]; try reflexivity. dm; [reflexivity|]. dm; reflexivity. Qed.

Theorem resolve_issuer_spec known payload iss :
  resolve_issuer known payload = Val iss <-> dict_get "iss" payload = Some (PStr iss) /\ In iss known /\ iss <> "".
Proof.
  unfold resolve_issuer. split.
  - destruct (dict_get "iss" payload) as [v|]; [destruct v|]; try discriminate.
    destruct (String.eqb s "") eqn:E0; [discriminate|].
    destruct (list_in_str s known) eqn:E; [|discriminate].
    intros H; injection H as <-. apply list_in_str_In in E. apply String.eqb_neq in E0. auto.
  - intros (-> & H & Hn). apply list_in_str_In in H. apply String.eqb_neq in Hn. rewrite Hn, H. reflexivity.
Qed.

Theorem resolve_issuer_unguarded_reaches_exc :
  resolve_issuer_unguarded ["c1"] [("sub", PStr "alice")] = Exc EKeyError /\
  resolve_issuer_unguarded ["c1"] [("iss", PList [PStr "c1"])] = Exc ETypeError /\
  resolve_issuer_unguarded ["c1"] [("iss", PStr "nobody")] = Exc EAttributeError.
Proof. repeat split. Qed.

Theorem resolve_assertion_client_total known payload : is_exc (resolve_assertion_client known payload) = false.
Proof. unfold resolve_assertion_client. destruct (dict_get "sub" payload) as [v|]; [destruct v|]; try reflexivity. dm; reflexivity. Qed.

(* ------------------------------------------------------------------ error descriptions *)
Theorem oauth2_error_builds code d : desc_ok d = true -> oauth2_error code (Some d) = Refuse code (Some d).
Proof. unfold oauth2_error. intros ->. rewrite andb_false_r. reflexivity. Qed.

(* whatever description leaves with an error is inside the character set *)
Theorem sent_description_ok code d k sent :
  oauth2_error code d = Refuse k (Some sent) -> sent = "" \/ desc_ok sent = true.
Proof.
  unfold oauth2_error. destruct d as [s|]; [|discriminate].
  destruct (String.eqb s "") eqn:E0; simpl.
  - intros H; injection H as _ <-. apply String.eqb_eq in E0. auto.
  - destruct (desc_ok s) eqn:Eo; simpl; [|discriminate]. intros H; injection H as _ <-. auto.
Qed.

Theorem redirect_uri_refusal_total redirect_uri :
  redirect_uri_refusal redirect_uri = Refuse "invalid_request" (Some "Redirect URI is not supported by client.").
Proof. reflexivity. Qed.

Theorem redirect_uri_refusal_before_refuted :
  exists redirect_uri, redirect_uri_refusal_before redirect_uri = Exc EValueError.
Proof. exists """". reflexivity. Qed.

Theorem safe_description_ok d s : safe_description d = Some s -> desc_ok s = true.
Proof.
  unfold safe_description. destruct d as [x|]; [|discriminate].
  destruct (String.eqb x ""); simpl; [discriminate|]. destruct (desc_ok x) eqn:E; [|discriminate].
  intros H; injection H as <-. exact E.
Qed.

Theorem assertion_refusal_total code d : is_exc (assertion_refusal code d) = false.
Proof.
  unfold assertion_refusal. destruct (safe_description d) as [s|] eqn:E; [|reflexivity].
  rewrite oauth2_error_builds by (eapply safe_description_ok; exact E). reflexivity.
Qed.

Theorem assertion_refusal_before_refuted :
  exists d, assertion_refusal_before "invalid_grant" (Some d) = Exc EValueError.
Proof. exists "Invalid Header Parameter Name: ""x""". reflexivity. Qed.

(* ------------------------------------------------------------------ OAuth 1 *)
Theorem verify_plaintext_total expected presented : verify_plaintext expected presented = Val (String.eqb expected presented).
Proof. reflexivity. Qed.

Theorem verify_plaintext_before_refuted :
  exists presented, verify_plaintext_before "secret&" presented = Exc ETypeError.
Proof. exists (String (ascii_of_N 195) (String (ascii_of_N 169) "")). reflexivity. Qed.

(* ------------------------------------------------------------------ the part that is a recorded finding *)
(* A JOSE call is the typing / decoding stage followed by the cryptographic stage (key preparation, key unwrapping,
   content decryption).  A primitive that refuses raises an exception class of its own choosing; what leaves the call is
   that class.  The call stays inside the JOSE family exactly when the primitives do. *)
Inductive prim (A : Type) := POk (a : A) | PRaise (cls : string).
Arguments POk {A} a.
Arguments PRaise {A} cls.

Definition crypto_stage {K C M} (jose_family : string -> bool) (prepare : prim K) (unwrap : K -> prim C) (decrypt : C -> prim M)
  : out M :=
  let lift {X} (p : prim X) : out X :=
    match p with POk a => Val a | PRaise cls => if jose_family cls then Refuse cls None else Exc EValueError end in
  do k <- lift prepare; do c <- lift (unwrap k); lift (decrypt c).

Theorem crypto_stage_partial {K C M} fam (prepare : prim K) unwrap (decrypt : C -> prim M) :
  (forall cls, prepare = PRaise cls -> fam cls = true) ->
  (forall k cls, unwrap k = PRaise cls -> fam cls = true) ->
  (forall c cls, decrypt c = PRaise cls -> fam cls = true) ->
  is_exc (crypto_stage fam prepare unwrap decrypt) = false.
Proof.
  intros H1 H2 H3. unfold crypto_stage.
  destruct prepare as [k|cls]; simpl; [|rewrite (H1 cls eq_refl); reflexivity].
  destruct (unwrap k) as [c|cls] eqn:Eu; simpl; [|rewrite (H2 k cls Eu); reflexivity].
  destruct (decrypt c) as [m|cls] eqn:Ed; simpl; [reflexivity | rewrite (H3 c cls Ed); reflexivity].
Qed.

(* the refusals observed from the real primitives (correspondence run): none of these classes is a JoseError *)
Theorem crypto_stage_refuted :
  let fam := fun cls => list_in_str cls ["DecodeError"; "BadSignatureError"; "UnsupportedAlgorithmError"; "InvalidClaimError"] in
  crypto_stage (K := unit) (C := unit) (M := string) fam (PRaise "ValueError") (fun _ => POk tt) (fun _ => POk "") = Exc EValueError /\
  crypto_stage (K := unit) (C := unit) (M := string) fam (POk tt) (fun _ => PRaise "InvalidUnwrap") (fun _ => POk "") = Exc EValueError /\
  crypto_stage (K := unit) (C := unit) (M := string) fam (POk tt) (fun _ => POk tt) (fun _ => PRaise "InvalidTag") = Exc EValueError.
Proof. repeat split. Qed.
