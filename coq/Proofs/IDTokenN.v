(* C13: nonce requirement and replay; the half hash. *)
From Coq Require Import List NArith ZArith Bool Ascii String Lia.
From Authlib Require Import Base.Bytes Base.Base64 Base.PyVal Model.Claims Model.IDToken.
Import ListNotations.
Open Scope string_scope.
Open Scope list_scope.

(* ---------- nonce requirement and replay over histories ---------- *)
Definition nreq := (string * option string * bool)%type.        (* client, nonce, nonce required *)
Definition nstep (s : nst) (r : nreq) : nst * nout :=
  let '(c, n, req) := r in nonce_step s c n req.
Definition nrun (s : nst) (l : list nreq) : nst := fold_left (fun s r => fst (nstep s r)) l s.

Lemma nstep_monotone s r c n : pair_in c n (n_used s) = true -> pair_in c n (n_used (fst (nstep s r))) = true.
Proof.
  destruct r as [[c' n'] req]. unfold nstep, nonce_step. intros H.
  destruct (negb (otruthy n')); [destruct req; exact H|].
  destruct (pair_in c' (oval n') (n_used s)); [exact H|]. unfold pair_in in *. cbn [n_used fst existsb]. rewrite H. apply orb_true_r.
Qed.

Lemma nrun_monotone l : forall s c n, pair_in c n (n_used s) = true -> pair_in c n (n_used (nrun s l)) = true.
Proof. induction l as [|r l IH]; intros s c n H; cbn; auto. apply IH, nstep_monotone, H. Qed.

Lemma nonce_missing_refused_l s c n :
  otruthy n = false -> nonce_step s c n true = (s, NRefused "missing_nonce").
Proof. unfold nonce_step. intros ->. reflexivity. Qed.

Lemma nonce_issue_records_l s c n req s' :
  otruthy (Some n) = true -> nonce_step s c (Some n) req = (s', NIssued) -> pair_in c n (n_used s') = true.
Proof.
  unfold nonce_step. intros T. rewrite T. cbn [negb oval].
  destruct (pair_in c n (n_used s)) eqn:P; [discriminate|].
  intros H. injection H as <-. unfold pair_in. cbn [n_used existsb fst snd]. rewrite !String.eqb_refl. reflexivity.
Qed.

(* once a request with (client, nonce) has been issued, every later request with the same pair is refused as a
   replay, whatever happens in between *)
Lemma nonce_replay_refused_l s c n req s1 l req2 :
  otruthy (Some n) = true -> nonce_step s c (Some n) req = (s1, NIssued) ->
  snd (nonce_step (nrun s1 l) c (Some n) req2) = NRefused "replay".
Proof.
  intros T H. pose proof (nonce_issue_records_l _ _ _ _ _ T H) as R.
  pose proof (nrun_monotone l _ _ _ R) as R2.
  unfold nonce_step. rewrite T. cbn [negb oval]. rewrite R2. reflexivity.
Qed.

(* ---------- the half hash ---------- *)
Lemma half_hash_def sha s alg :
  known_hash (hash_bits alg) = true ->
  create_half_hash sha s alg =
  Some (b64url_encode (str_take (Nat.div (String.length (sha (hash_bits alg) s)) 2) (sha (hash_bits alg) s))).
Proof. unfold create_half_hash. intros ->. reflexivity. Qed.
