(* C17: invariants of the async refresh transition system, for every number of coroutines, every schedule and
   every sequence of token-endpoint outcomes. *)
From Coq Require Import List Arith Bool Lia.
From Authlib Require Import Model.AsyncRefresh.
Import ListNotations.

(* ---------- lists ---------- *)
Lemma upd_length {A} (l : list A) i x : length (upd l i x) = length l.
Proof. revert i; induction l as [|h t IH]; intros [|i]; cbn; auto. Qed.

Lemma nth_upd {A} (l : list A) i j x y d :
  nth_error l i = Some y -> nth j (upd l i x) d = if Nat.eqb j i then x else nth j l d.
Proof.
  revert i j; induction l as [|h t IH]; intros [|i] [|j] H; cbn in *; try discriminate; auto.
Qed.

Lemma nth_error_upd_same {A} (l : list A) i x y : nth_error l i = Some y -> nth_error (upd l i x) i = Some x.
Proof. revert i; induction l as [|h t IH]; intros [|i] H; cbn in *; try discriminate; auto. Qed.

Lemma nth_error_nth {A} (l : list A) i y d : nth_error l i = Some y -> nth i l d = y.
Proof. revert i; induction l as [|h t IH]; intros [|i] H; cbn in *; try discriminate; auto. congruence. Qed.

Lemma nth_error_lt {A} (l : list A) i y : nth_error l i = Some y -> i < length l.
Proof. intros H. apply nth_error_Some. congruence. Qed.

Lemma nth_repeat {A} (x : A) n j : nth j (repeat x n) x = x.
Proof. revert j; induction n as [|n IH]; intros [|j]; cbn; auto. Qed.

(* ---------- views ---------- *)
Definition pcd (s : st) (j : nat) : pc := nth j (pcs s) PStart.
Definition hv (f : pc -> nat) (s : st) : nat := match lock s with Some j => f (pcd s j) | None => 0 end.

Definition has_ev (j : nat) (f : ev -> bool) (tr : list (nat * ev)) : bool :=
  existsb (fun x => Nat.eqb j (fst x) && f (snd x)) tr.

Definition post_fresh (p : pc) : bool :=
  match p with PSet _ _ | PCb | PCbDone | PReady | PInflight | PRecvd | PDone => true | _ => false end.
Definition pre_exp (p : pc) : bool := match p with PSent _ _ | PGot _ _ _ => true | _ => false end.
Definition capof (p : pc) : option tokrec :=
  match p with PWant c | PHold c | PSent c _ | PGot c _ _ | PSet c _ => Some c | _ => None end.
Definition infl (p : pc) : nat := match p with PSent _ _ | PGot _ _ (OOk _) => 1 | _ => 0 end.
Definition pendcb (p : pc) : nat := match p with PSet _ _ => 1 | _ => 0 end.
Definition sentpc (p : pc) : bool := match p with PInflight | PRecvd | PDone => true | _ => false end.
Definition is_tokset (e : ev) : bool := match e with ETokenSet _ _ => true | _ => false end.
Definition is_fresh_send (e : ev) : bool := match e with ESend _ false => true | _ => false end.
Definition is_oerr (e : ev) : bool := match e with ERefreshResp OErr => true | _ => false end.
Definition is_5xx (e : ev) : bool := match e with ERefreshResp O5xx => true | _ => false end.
Definition is_error (k : errkind) (e : ev) : bool :=
  match e, k with
  | EError KMissing, KMissing | EError KInvalid, KInvalid | EError KOAuth, KOAuth | EError KHttp, KHttp => true
  | _, _ => false
  end.
Definition oerrpc (p : pc) : bool :=
  match p with PGot _ _ OErr | PFailed KOAuth | PErr KOAuth => true | _ => false end.
Definition h5pc (p : pc) : bool :=
  match p with PGot _ _ O5xx | PFailed KHttp | PErr KHttp => true | _ => false end.
Definition errk (p : pc) : option errkind :=
  match p with
  | PFailed k | PErr k => Some k
  | PGot _ _ OErr => Some KOAuth
  | PGot _ _ O5xx => Some KHttp
  | _ => None
  end.

Definition refreshable (c : cfg) (t0 : tokrec) : bool := (has_rt t0 && c_url c) || c_cc c.

Definition errok (c : cfg) (t0 : tokrec) (tr : list (nat * ev)) (j : nat) (k : errkind) : Prop :=
  match k with
  | KMissing => c_has_token c = false
  | KInvalid => refreshable c t0 = false
  | KOAuth => has_ev j is_oerr tr = true
  | KHttp => has_ev j is_5xx tr = true
  end.

Record Inv (c : cfg) (t0 : tokrec) (n : nat) (s : st) : Prop := {
  i_len : length (pcs s) = n;
  i_A : forall j, crit (pcd s j) = true -> lock s = Some j;
  i_B : forall j, lock s = Some j -> crit (pcd s j) = true;
  i_C : forall j, post_fresh (pcd s j) = true -> t_exp (cur s) = false;
  i_D : forall j, pre_exp (pcd s j) = true -> t_exp (cur s) = true;
  i_K : forall j cap, t_exp (cur s) = true -> capof (pcd s j) = Some cap -> cap = cur s;
  i_F1 : t_exp (cur s) = true -> cnt is_tokset (trace s) = 0 /\ cur s = t0;
  i_F2 : t_exp (cur s) = false -> cnt is_tokset (trace s) = 1 \/ (cnt is_tokset (trace s) = 0 /\ cur s = t0);
  i_G : cnt is_rsend (trace s) = cnt is_tokset (trace s) + cnt is_fail (trace s) + hv infl s;
  i_H : if c_cb c then cnt is_cb (trace s) + hv pendcb s = cnt is_tokset (trace s)
        else cnt is_cb (trace s) = 0;
  i_N : forall j, has_ev j is_stale_send (trace s) = false;
  i_I1 : forall j, has_ev j is_send (trace s) = true -> sentpc (pcd s j) = true;
  i_J1 : forall j, sentpc (pcd s j) = true -> has_ev j is_fresh_send (trace s) = true;
  i_I2 : forall j, has_ev j is_oerr (trace s) = true -> oerrpc (pcd s j) = true;
  i_I3 : forall j, has_ev j is_5xx (trace s) = true -> h5pc (pcd s j) = true;
  i_J2 : forall j k, pcd s j = PErr k -> has_ev j (is_error k) (trace s) = true;
  i_M : forall j k, errk (pcd s j) = Some k -> errok c t0 (trace s) j k
}.

Lemma cnt_cons f i e tr : cnt f ((i, e) :: tr) = (if f e then 1 else 0) + cnt f tr.
Proof. unfold cnt; cbn. destruct (f e); reflexivity. Qed.

Lemma has_ev_cons j f i e tr :
  has_ev j f ((i, e) :: tr) = (Nat.eqb j i && f e) || has_ev j f tr.
Proof. reflexivity. Qed.

Lemma Inv_init c t0 n os : Inv c t0 n (init n t0 os).
Proof.
  assert (P : forall j, pcd (init n t0 os) j = PStart) by (intros j; unfold pcd, init; cbn; apply nth_repeat).
  constructor; cbn [init pcs lock cur outs natt trace]; intros;
    try rewrite P in *; cbn in *; try discriminate; auto.
  all: try apply repeat_length.
  all: try (destruct (c_cb c); reflexivity).
  all: try (destruct (t_exp t0); auto; fail).
Qed.

(* one step: case analysis *)
Ltac step_inv H :=
  unfold step in H;
  match type of H with context [nth_error ?l ?i] =>
    let p := fresh "p" in destruct (nth_error l i) as [p|] eqn:Hp; [|discriminate H]; destruct p end;
  repeat match type of H with
         | context [if ?b then _ else _] => destruct b eqn:?
         | context [match ?x with _ => _ end] => destruct x eqn:?
         end;
  unfold mk in H; try discriminate H;
  injection H as <- <-.

Lemma pcd_upd s i p q l t o a tr j :
  nth_error (pcs s) i = Some q ->
  pcd {| pcs := upd (pcs s) i p; lock := l; cur := t; outs := o; natt := a; trace := tr |} j
  = if Nat.eqb j i then p else pcd s j.
Proof. intros H. unfold pcd; cbn. eapply nth_upd; eauto. Qed.

Lemma pcd_at s i q : nth_error (pcs s) i = Some q -> pcd s i = q.
Proof. intros H. unfold pcd. eapply nth_error_nth; eauto. Qed.

Lemma eqb_sym_false i j : Nat.eqb i j = false -> Nat.eqb j i = false.
Proof. rewrite Nat.eqb_sym; auto. Qed.

Lemma hv_upd f s i p q l t o a tr :
  nth_error (pcs s) i = Some q ->
  hv f {| pcs := upd (pcs s) i p; lock := l; cur := t; outs := o; natt := a; trace := tr |}
  = match l with Some h => if Nat.eqb h i then f p else f (pcd s h) | None => 0 end.
Proof.
  intros H. unfold hv; cbn [lock]. destruct l as [h|]; auto.
  rewrite (pcd_upd _ _ _ _ _ _ _ _ _ h H). destruct (Nat.eqb h i); reflexivity.
Qed.

Ltac at_j I j :=
  pose proof (i_A _ _ _ _ I j); pose proof (i_B _ _ _ _ I j); pose proof (i_C _ _ _ _ I j);
  pose proof (i_D _ _ _ _ I j); pose proof (i_K _ _ _ _ I j);
  pose proof (i_N _ _ _ _ I j); pose proof (i_I1 _ _ _ _ I j); pose proof (i_J1 _ _ _ _ I j);
  pose proof (i_I2 _ _ _ _ I j); pose proof (i_I3 _ _ _ _ I j); pose proof (i_J2 _ _ _ _ I j);
  pose proof (i_M _ _ _ _ I j).

Ltac glob I :=
  pose proof (i_F1 _ _ _ _ I); pose proof (i_F2 _ _ _ _ I); pose proof (i_G _ _ _ _ I);
  pose proof (i_H _ _ _ _ I).

Ltac rw_upd Hp :=
  repeat match goal with
   | |- context [pcd {| pcs := upd _ _ _; lock := _; cur := _; outs := _; natt := _; trace := _ |} ?j] =>
       rewrite (pcd_upd _ _ _ _ _ _ _ _ _ j Hp)
   | H : context [pcd {| pcs := upd _ _ _; lock := _; cur := _; outs := _; natt := _; trace := _ |} ?j] |- _ =>
       rewrite (pcd_upd _ _ _ _ _ _ _ _ _ j Hp) in H
  end;
  rewrite ?(hv_upd _ _ _ _ _ _ _ _ _ _ Hp), ?cnt_cons, ?has_ev_cons in *.

Lemma pre_exp_crit p : pre_exp p = true -> crit p = true.
Proof. destruct p; cbn; auto. Qed.

Ltac fwd := repeat match goal with
  | H : ?x = ?x -> _ |- _ => specialize (H eq_refl)
  | H : false = true -> _ |- _ => clear H
  | H : true = false -> _ |- _ => clear H
  | H : ?a = ?b -> _ , H' : ?a = ?b |- _ => specialize (H H')
  end.

Ltac fin := cbn in *; unfold errok in *; cbn in *; fwd;
  repeat match goal with H : t_exp (cur ?s) = _ |- context [t_exp (cur ?s)] => rewrite H end; cbn;
  try solve [intuition (try congruence; try lia; eauto)].

Ltac solve_j I Hp Hi i :=
  let j := fresh "j" in let E := fresh "E" in
  intros j; intros; rw_upd Hp; glob I; at_j I i;
  destruct (Nat.eqb j i) eqn:E;
  [ apply Nat.eqb_eq in E; subst j
  | pose proof (proj1 (Nat.eqb_neq _ _) E); at_j I j;
    match type of Hp with nth_error (pcs ?s) _ = _ => pose proof (pre_exp_crit (pcd s j)) end ];
  rewrite ?Hi in *; fin.

Ltac solve_g I Hp Hi i :=
  intros; rw_upd Hp; glob I; at_j I i; rewrite ?Hi in *;
  unfold hv in *; match type of I with Inv ?c _ _ _ => destruct (c_cb c) eqn:? end;
  match type of Hp with nth_error (pcs ?s) _ = _ =>
       let h := fresh "h" in let L := fresh "L" in let E := fresh "E" in
       destruct (lock s) as [h|] eqn:L;
       [ at_j I h; destruct (Nat.eqb h i) eqn:E;
         [ apply Nat.eqb_eq in E; subst h | pose proof (proj1 (Nat.eqb_neq _ _) E) ] | ]
  end; rewrite ?Hi in *; rewrite ?Nat.eqb_refl in *; fin.

Ltac solve_j2 I Hp Hi i :=
  let j := fresh "j" in let k := fresh "k" in let E := fresh "E" in let Hk := fresh "Hk" in
  let HM := fresh "HM" in
  intros j k; rw_upd Hp; pose proof (i_J2 _ _ _ _ I j k) as HM;
  destruct (Nat.eqb j i) eqn:E;
  [ apply Nat.eqb_eq in E; subst j; rewrite ?Hi in *; intros Hk; try discriminate Hk;
    inversion Hk; subst; cbn; rewrite ?orb_true_r; try match goal with |- context [is_error ?k (EError ?k)] => destruct k end; reflexivity
  | intros Hk; specialize (HM Hk); cbn; auto ].

Ltac solve_m I Hp Hi i :=
  let j := fresh "j" in let k := fresh "k" in let E := fresh "E" in let Hk := fresh "Hk" in
  let HM := fresh "HM" in
  intros j k; rw_upd Hp; pose proof (i_M _ _ _ _ I j k) as HM; glob I; at_j I i;
  destruct (Nat.eqb j i) eqn:E;
  [ apply Nat.eqb_eq in E; subst j; rewrite ?Hi in *; intros Hk; cbn in Hk; try discriminate Hk;
    inversion Hk; subst; unfold errok in *; rewrite ?has_ev_cons, ?Nat.eqb_refl; cbn in *;
    try solve [intuition (try congruence; eauto using orb_true_r)]
  | intros Hk; specialize (HM Hk); destruct k; unfold errok in *; rewrite ?has_ev_cons, ?E; cbn; auto ].

Section Step.
Variables (c : cfg) (t0 : tokrec) (n : nat).

Lemma Inv_step s i s' e : Inv c t0 n s -> step c s i = Some (s', e) -> Inv c t0 n s'.
Proof.
  intros I H.
  step_inv H.
  all: pose proof (pcd_at _ _ _ Hp) as Hi.
  all: try match goal with o : outcome |- _ => destruct o as [[|]| |] end.
  all: constructor; cbn [pcs lock cur outs natt trace].
  all: try (rewrite upd_length; apply (i_len _ _ _ _ I)).
  all: try solve [solve_j I Hp Hi i].
  all: try solve [solve_g I Hp Hi i].
  all: try solve [solve_m I Hp Hi i].
  all: try solve [solve_j2 I Hp Hi i].
  - intros j k; rw_upd Hp. destruct (Nat.eqb j i) eqn:E.
    + apply Nat.eqb_eq in E; subst j. cbn. intros Hk; inversion Hk; subst. cbn.
      destruct (i_F1 _ _ _ _ I Heqb) as [_ Hc].
      assert (cap = cur s) by (apply (i_K _ _ _ _ I i); [exact Heqb | rewrite Hi; reflexivity]).
      unfold refreshable. subst cap. rewrite <- Hc. rewrite Heqb0, Heqb1. reflexivity.
    + intros Hk. pose proof (i_M _ _ _ _ I j k Hk) as HM.
      destruct k; unfold errok in *; rewrite ?has_ev_cons, ?E; cbn; auto.
  - intros j k0; rw_upd Hp. destruct (Nat.eqb j i) eqn:E.
    + apply Nat.eqb_eq in E; subst j. intros Hk; inversion Hk; subst k0. destruct k; reflexivity.
    + intros Hk. rewrite (i_J2 _ _ _ _ I j k0 Hk). apply orb_true_r.
Qed.
End Step.


