From Coq Require Import List NArith ZArith Bool Ascii String Lia.
From Authlib Require Import Base.Bytes Base.Form Base.PyVal Model.JWK Model.Resource Model.Scope Model.Wire Model.Authorize.
Import ListNotations.
Open Scope string_scope.
Open Scope list_scope.

Definition Reg (cfg : acfg) (d : list pair_s) (t : string) : Prop :=
  exists cid c, dget "client_id" d = Some cid /\ find_oclient (a_clients cfg) cid = Some c /\
                valid_target c d = Some t.

(* where a response sends the user agent *)
Definition target_of (r : aresp) : option string :=
  match r with ARedirect t _ _ => Some t | AFormPost t _ => Some t | ALocal _ _ => None end.
Definition params_of (r : aresp) : list pair_s :=
  match r with ARedirect _ ps _ => ps | AFormPost _ ps => ps | ALocal _ _ => [] end.

Lemma validate_code_request_reg cfg d rt nh nr :
  match validate_code_request cfg d rt nh nr with
  | VOk c t => Reg cfg d t
  | VResp r => forall t, target_of r = Some t -> Reg cfg d t
  end.
Proof.
  unfold validate_code_request.
  destruct (dget "client_id" d) as [cid|] eqn:Ec; [|intros t H; discriminate].
  destruct (find_oclient (a_clients cfg) cid) as [c|] eqn:Ef; [|intros t H; discriminate].
  destruct (valid_target c d) as [t0|] eqn:Ev; [|intros t H; discriminate].
  assert (R : Reg cfg d t0) by (exists cid, c; auto).
  destruct (negb (list_in_str rt (oc_response_types c))); [intros t H; injection H as <-; exact R|].
  destruct (negb (scope_supported cfg d)); [intros t H; injection H as <-; exact R|].
  destruct nh; [|exact R].
  destruct (check_nonce cfg cid d nr); [exact R| |]; intros t H; injection H as <-; exact R.
Qed.

Lemma validate_implicit_request_reg cfg d rt :
  match validate_implicit_request cfg d rt with
  | VOk c t => Reg cfg d t
  | VResp r => forall t, target_of r = Some t -> Reg cfg d t
  end.
Proof.
  unfold validate_implicit_request.
  destruct (dtruthy (dget "client_id" d) && negb (dtruthy (dget "client_secret" d))) eqn:E0;
    [|intros t H; discriminate].
  destruct (dget "client_id" d) as [cid|] eqn:Ec; [|discriminate].
  destruct (find_oclient (a_clients cfg) cid) as [c|] eqn:Ef; [|intros t H; discriminate].
  destruct (negb (oc_auth_method c =? "none")); [intros t H; discriminate|].
  destruct (valid_target c d) as [t0|] eqn:Ev; [|intros t H; discriminate].
  assert (R : Reg cfg d t0) by (exists cid, c; auto).
  destruct (negb (list_in_str rt (oc_response_types c))); [intros t H; injection H as <-; exact R|].
  destruct (negb (scope_supported cfg d)); [intros t H; injection H as <-; exact R|].
  exact R.
Qed.

Lemma mode_response_target d t ps t' : target_of (mode_response d t ps) = Some t' -> t' = t.
Proof.
  unfold mode_response. destruct (dget "response_mode" d) as [m|]; [|intros H; now injection H].
  destruct (m =? "form_post"); [intros H; now injection H|].
  destruct (m =? "query"); [intros H; now injection H|].
  destruct (m =? "fragment"); [intros H; now injection H|discriminate].
Qed.

(* every redirect / form_post target is the validated URI of the identified, existing client *)
Theorem redirect_only_registered_l cfg q f approve t :
  target_of (respond cfg q f approve) = Some t -> registered_target cfg q f t.
Proof.
  unfold respond, registered_target. set (d := rdata q f).
  change (exists cid c, dget "client_id" d = Some cid /\ find_oclient (a_clients cfg) cid = Some c /\
                        valid_target c d = Some t) with (Reg cfg d t).
  destruct (response_type_of d) as [rt|]; [|discriminate].
  destruct (rt =? "code").
  { pose proof (validate_code_request_reg cfg d rt (is_openid_scope d) (a_require_nonce cfg)) as H.
    destruct (validate_code_request _ _ _ _ _) as [c t0|r]; [|exact (H t)].
    destruct approve; intros E; injection E as <-; exact H. }
  destruct (rt =? "token").
  { pose proof (validate_implicit_request_reg cfg d rt) as H.
    destruct (validate_implicit_request _ _ _) as [c t0|r]; [|exact (H t)].
    destruct approve; intros E; injection E as <-; exact H. }
  destruct ((rt =? "id_token") || (rt =? "id_token token")).
  { pose proof (validate_implicit_request_reg cfg d rt) as H.
    destruct (validate_implicit_request _ _ _) as [c t0|r]; [|exact (H t)].
    destruct (negb (is_openid_scope d)); [intros E; injection E as <-; exact H|].
    destruct (check_nonce cfg (oc_id c) d true).
    - destruct approve; intros E; apply mode_response_target in E; subst; exact H.
    - intros E; injection E as <-; exact H.
    - intros E; injection E as <-; exact H. }
  destruct ((rt =? "code id_token") || (rt =? "code token") || (rt =? "code id_token token")); [|discriminate].
  pose proof (validate_code_request_reg cfg d rt true true) as H.
  destruct (validate_code_request _ _ _ _ _) as [c t0|r]; [|exact (H t)].
  destruct (negb (is_openid_scope d)); [intros E; injection E as <-; exact H|].
  destruct approve; intros E; apply mode_response_target in E; subst; exact H.
Qed.

(* unknown or missing client, unregistered or missing redirect URI: answered locally *)
Theorem no_client_local_l cfg q f approve :
  (forall cid c, dget "client_id" (rdata q f) = Some cid -> find_oclient (a_clients cfg) cid = Some c ->
                 valid_target c (rdata q f) = None) ->
  target_of (respond cfg q f approve) = None.
Proof.
  intros H. destruct (target_of (respond cfg q f approve)) as [t|] eqn:E; [|reflexivity].
  apply redirect_only_registered_l in E. destruct E as (cid & c & H1 & H2 & H3).
  rewrite (H cid c H1 H2) in H3. discriminate.
Qed.

(* ---- state echo and credentials *)
Definition key_is (k : string) (kv : pair_s) : bool := String.eqb (fst kv) k.

Definition state_of (d : list pair_s) : list pair_s :=
  match dget "state" d with Some s => if s =? "" then [] else [("state", s)] | None => [] end.

Lemma with_state_filter d ps :
  filter (key_is "state") ps = [] -> filter (key_is "state") (with_state d ps) = state_of d.
Proof.
  intros H. unfold with_state, state_of. destruct (dget "state" d) as [s|]; [|now rewrite H].
  destruct (s =? ""); [exact H|]. rewrite filter_app, H. reflexivity.
Qed.

Lemma token_params_nostate c d : filter (key_is "state") (token_params c d) = [].
Proof. unfold token_params. destruct (granted_scope c d); reflexivity. Qed.

Ltac solve_state :=
  repeat match goal with
         | |- filter (key_is "state") (with_state _ _) = _ => apply with_state_filter
         | |- context [filter (key_is "state") (_ ++ _)] => rewrite filter_app
         | |- context [filter (key_is "state") (token_params _ _)] => rewrite token_params_nostate
         | |- context [granted_scope ?c ?d] => destruct (granted_scope c d)
         end; try reflexivity.

Lemma mode_response_params d t ps t' :
  target_of (mode_response d t ps) = Some t' -> params_of (mode_response d t ps) = ps.
Proof.
  unfold mode_response. destruct (dget "response_mode" d) as [m|]; [|reflexivity].
  destruct (m =? "form_post"); [reflexivity|]. destruct (m =? "query"); [reflexivity|].
  destruct (m =? "fragment"); [reflexivity|discriminate].
Qed.

Lemma vresp_code_state cfg d rt nh nr r :
  validate_code_request cfg d rt nh nr = VResp r ->
  target_of r <> None -> filter (key_is "state") (params_of r) = state_of d.
Proof.
  unfold validate_code_request.
  destruct (dget "client_id" d) as [cid|]; [|intros H; injection H as <-; intros F; now contradiction F].
  destruct (find_oclient _ cid) as [c|]; [|intros H; injection H as <-; intros F; now contradiction F].
  destruct (valid_target c d) as [t0|]; [|intros H; injection H as <-; intros F; now contradiction F].
  destruct (negb (list_in_str rt _)); [intros H; injection H as <-; intros _; simpl; solve_state|].
  destruct (negb (scope_supported cfg d)); [intros H; injection H as <-; intros _; simpl; solve_state|].
  destruct nh; [|discriminate].
  destruct (check_nonce cfg cid d nr); [discriminate| |]; intros H; injection H as <-; intros _; simpl; solve_state.
Qed.

Lemma vresp_implicit_state cfg d rt r :
  validate_implicit_request cfg d rt = VResp r ->
  target_of r <> None -> filter (key_is "state") (params_of r) = state_of d.
Proof.
  unfold validate_implicit_request.
  destruct (_ && _); [|intros H; injection H as <-; intros F; now contradiction F].
  destruct (find_oclient _ _) as [c|]; [|intros H; injection H as <-; intros F; now contradiction F].
  destruct (negb (oc_auth_method c =? "none")); [intros H; injection H as <-; intros F; now contradiction F|].
  destruct (valid_target c d) as [t0|]; [|intros H; injection H as <-; intros F; now contradiction F].
  destruct (negb (list_in_str rt _)); [intros H; injection H as <-; intros _; simpl; solve_state|].
  destruct (negb (scope_supported cfg d)); [intros H; injection H as <-; intros _; simpl; solve_state|].
  discriminate.
Qed.

(* when the server redirects, the request's state comes back unchanged exactly once *)
Theorem state_echo_once_l cfg q f approve t :
  target_of (respond cfg q f approve) = Some t ->
  filter (key_is "state") (params_of (respond cfg q f approve)) = state_of (rdata q f).
Proof.
  unfold respond. set (d := rdata q f).
  destruct (response_type_of d) as [rt|]; [|discriminate].
  destruct (rt =? "code").
  { destruct (validate_code_request _ _ _ _ _) as [c t0|r] eqn:E.
    - destruct approve; intros _; simpl; solve_state.
    - intros H. apply (vresp_code_state _ _ _ _ _ _ E). congruence. }
  destruct (rt =? "token").
  { destruct (validate_implicit_request _ _ _) as [c t0|r] eqn:E.
    - destruct approve; intros _; simpl; solve_state.
    - intros H. apply (vresp_implicit_state _ _ _ _ E). congruence. }
  destruct ((rt =? "id_token") || (rt =? "id_token token")).
  { destruct (validate_implicit_request _ _ _) as [c t0|r] eqn:E.
    - destruct (negb (is_openid_scope d)); [intros _; simpl; solve_state|].
      destruct (check_nonce cfg (oc_id c) d true); [|intros _; simpl; solve_state|intros _; simpl; solve_state].
      destruct approve; intros H; rewrite (mode_response_params _ _ _ _ H).
      + destruct (rt =? "id_token"); solve_state.
      + solve_state.
    - intros H. apply (vresp_implicit_state _ _ _ _ E). congruence. }
  destruct ((rt =? "code id_token") || (rt =? "code token") || (rt =? "code id_token token")); [|discriminate].
  destruct (validate_code_request _ _ _ _ _) as [c t0|r] eqn:E.
  - destruct (negb (is_openid_scope d)); [intros _; simpl; solve_state|].
    destruct approve; intros H; rewrite (mode_response_params _ _ _ _ H).
    + destruct (rt =? "code token"); [solve_state|]. destruct (rt =? "code id_token token"); solve_state.
    + solve_state.
  - intros H. apply (vresp_code_state _ _ _ _ _ _ E). congruence.
Qed.

(* ---- a code or token appears only if the resource owner approved *)
Definition is_cred (kv : pair_s) : bool := list_in_str (fst kv) ["code"; "access_token"; "id_token"; "refresh_token"].

Lemma with_state_cred d ps : filter is_cred (with_state d ps) = filter is_cred ps.
Proof.
  unfold with_state. destruct (dget "state" d) as [s|]; [|reflexivity].
  destruct (s =? ""); [reflexivity|]. rewrite filter_app. simpl. apply app_nil_r.
Qed.

Lemma vresp_code_nocred cfg d rt nh nr r :
  validate_code_request cfg d rt nh nr = VResp r -> filter is_cred (params_of r) = [].
Proof.
  unfold validate_code_request.
  destruct (dget "client_id" d) as [cid|]; [|intros H; now injection H as <-].
  destruct (find_oclient _ cid) as [c|]; [|intros H; now injection H as <-].
  destruct (valid_target c d) as [t0|]; [|intros H; now injection H as <-].
  destruct (negb (list_in_str rt _)); [intros H; injection H as <-; simpl; now rewrite with_state_cred|].
  destruct (negb (scope_supported cfg d)); [intros H; injection H as <-; simpl; now rewrite with_state_cred|].
  destruct nh; [|discriminate].
  destruct (check_nonce cfg cid d nr); [discriminate| |]; intros H; injection H as <-; simpl; now rewrite with_state_cred.
Qed.

Lemma vresp_implicit_nocred cfg d rt r :
  validate_implicit_request cfg d rt = VResp r -> filter is_cred (params_of r) = [].
Proof.
  unfold validate_implicit_request.
  destruct (_ && _); [|intros H; now injection H as <-].
  destruct (find_oclient _ _) as [c|]; [|intros H; now injection H as <-].
  destruct (negb (oc_auth_method c =? "none")); [intros H; now injection H as <-|].
  destruct (valid_target c d) as [t0|]; [|intros H; now injection H as <-].
  destruct (negb (list_in_str rt _)); [intros H; injection H as <-; simpl; now rewrite with_state_cred|].
  destruct (negb (scope_supported cfg d)); [intros H; injection H as <-; simpl; now rewrite with_state_cred|].
  discriminate.
Qed.

Lemma mode_response_nocred d t ps : filter is_cred ps = [] -> filter is_cred (params_of (mode_response d t ps)) = [].
Proof.
  intros H. unfold mode_response. destruct (dget "response_mode" d) as [m|]; [|exact H].
  destruct (m =? "form_post"); [exact H|]. destruct (m =? "query"); [exact H|].
  destruct (m =? "fragment"); [exact H|reflexivity].
Qed.

Theorem credential_only_if_approved_l cfg q f :
  filter is_cred (params_of (respond cfg q f false)) = [].
Proof.
  unfold respond. set (d := rdata q f).
  destruct (response_type_of d) as [rt|]; [|reflexivity].
  destruct (rt =? "code").
  { destruct (validate_code_request _ _ _ _ _) as [c t0|r] eqn:E; [simpl; now rewrite with_state_cred|].
    exact (vresp_code_nocred _ _ _ _ _ _ E). }
  destruct (rt =? "token").
  { destruct (validate_implicit_request _ _ _) as [c t0|r] eqn:E; [simpl; now rewrite with_state_cred|].
    exact (vresp_implicit_nocred _ _ _ _ E). }
  destruct ((rt =? "id_token") || (rt =? "id_token token")).
  { destruct (validate_implicit_request _ _ _) as [c t0|r] eqn:E; [|exact (vresp_implicit_nocred _ _ _ _ E)].
    destruct (negb (is_openid_scope d)); [simpl; now rewrite with_state_cred|].
    destruct (check_nonce cfg (oc_id c) d true); try (simpl; now rewrite with_state_cred).
    apply mode_response_nocred. now rewrite with_state_cred. }
  destruct ((rt =? "code id_token") || (rt =? "code token") || (rt =? "code id_token token")); [|reflexivity].
  destruct (validate_code_request _ _ _ _ _) as [c t0|r] eqn:E; [|exact (vresp_code_nocred _ _ _ _ _ _ E)].
  destruct (negb (is_openid_scope d)); [simpl; now rewrite with_state_cred|].
  apply mode_response_nocred. now rewrite with_state_cred.
Qed.
