(* C19: after the fault clears, the request that would have succeeded succeeds (no grant is lost). *)
From Coq Require Import List NArith ZArith Bool Ascii String Lia Arith.
From Authlib Require Import Base.Bytes Model.FaultFlow Proofs.FaultFlowP.
Import ListNotations.
Open Scope string_scope.
Open Scope list_scope.
Lemma retry_succeeds_l q s k :
  oauth2_kind (q_kind q) = true ->
  (exists s0 r0 tr0, run_prog (handler q) s None = (s0, Done r0, tr0) /\ is_ok r0 = true) ->
  forall s' nm tr, run_prog (handler q) s (Some k) = (s', Raised k nm, tr) ->
  exists s2 r2 tr2, run_prog (handler q) s' None = (s2, Done r2, tr2) /\ is_ok r2 = true.
Proof.
  unfold run_prog, handler, oauth2_kind. intros K [s0 [r0 [tr0 [H0 OK]]]] s' nm tr H.
  repeat match type of H with context [if String.eqb (q_kind q) ?kk then _ else _] =>
    destruct (String.eqb (q_kind q) kk) eqn:? end.
  all: try (match goal with E : String.eqb (q_kind _) _ = true |- _ => apply String.eqb_eq in E; rewrite E in K end;
            vm_compute in K; discriminate K).
  all: try (cbn [list_in_str] in K;
            repeat match goal with E : String.eqb (q_kind _) _ = false |- _ => rewrite E in K end;
            cbn in K; discriminate K).
  all: run_all H0; try discriminate H0; injection H0 as <- <- <-; try discriminate OK.
  all: run_all H; try discriminate H; injection H as <- <- <-.
  all: match goal with |- exists s2 r2 tr2, ?X = _ /\ _ => destruct X as [[s2 o2] tr2] eqn:H2 end.
  all: run_all H2.
  all: try discriminate H2.
  all: injection H2 as <- <- <-; do 3 eexists; split; reflexivity.
Qed.

Definition oauth1_kind (k : string) : bool := list_in_str k ["o1_initiate"; "o1_authorize"; "o1_exchange"; "o1_access"].

Lemma find_ftemp_del_other l id : forall t, find_ftemp l id = Some t -> forall x, find_ftemp (x :: l) id = Some t \/ fp_id x = id.
Proof. intros t H x. cbn. destruct (Nat.eqb_spec (fp_id x) id); auto. Qed.

Lemma retry_succeeds_o1_l q s k n' :
  oauth1_kind (q_kind q) = true ->
  (exists s0 r0 tr0, run_prog (handler q) s None = (s0, Done r0, tr0) /\ is_ok r0 = true) ->
  forall s' nm tr, run_prog (handler q) s (Some k) = (s', Raised k nm, tr) ->
  list_in_str n' (f_nonces s') = false ->
  exists s2 r2 tr2, run_prog (handler (with_nonce q n')) s' None = (s2, Done r2, tr2) /\ is_ok r2 = true.
Proof.
  unfold run_prog, handler, oauth1_kind. cbn [with_nonce q_kind]. intros K [s0 [r0 [tr0 [H0 OK]]]] s' nm tr H FR.
  repeat match type of H with context [if String.eqb (q_kind q) ?kk then _ else _] =>
    destruct (String.eqb (q_kind q) kk) eqn:? end.
  all: try (match goal with E : String.eqb (q_kind _) _ = true |- _ => apply String.eqb_eq in E; rewrite E in K end;
            vm_compute in K; discriminate K).
  all: try (cbn [list_in_str] in K;
            repeat match goal with E : String.eqb (q_kind _) _ = false |- _ => rewrite E in K end;
            cbn in K; discriminate K).
  all: run_all H0; try discriminate H0; injection H0 as <- <- <-; try discriminate OK.
  all: run_all H; try discriminate H; injection H as <- <- <-.
  all: cbn [f_nonces f_codes f_toks f_devs f_grants f_temps f_tok1 f_ctr set_nonces set_temps set_tok1 upd_ctr] in FR.
  all: match goal with |- exists s2 r2 tr2, ?X = _ /\ _ => destruct X as [[s2 o2] tr2] eqn:H2 end.
  all: run_all H2.
  all: try discriminate H2.
  all: injection H2 as <- <- <-; do 3 eexists; split; reflexivity.
Qed.
