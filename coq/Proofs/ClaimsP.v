From Coq Require Import List NArith ZArith Bool Ascii String Lia.
From Authlib Require Import Base.Bytes Base.PyVal Model.Claims Spec.ClaimsSpec.
Import ListNotations.
Open Scope string_scope.

Lemma first_err_cons x r : first_err (x :: r) = None <-> x = None /\ first_err r = None.
Proof.
  destruct x; simpl.
  - split; [discriminate|]. intros [H _]. discriminate.
  - tauto.
Qed.

Lemma first_err_cons_some x r e :
  first_err (x :: r) = Some e <-> x = Some e \/ (x = None /\ first_err r = Some e).
Proof.
  destruct x as [e'|]; simpl.
  - split; [intros H; left; exact H|]. intros [H|[H _]]; [exact H|discriminate].
  - split; [intros H; right; auto|]. intros [H|[_ H]]; [discriminate|exact H].
Qed.

(* ---- dictionaries with unique keys *)
Lemma nodup_strs_NoDup l : nodup_strs l = true -> NoDup l.
Proof.
  induction l as [|x r IH]; simpl; [constructor|].
  rewrite andb_true_iff, negb_true_iff. intros [Hx Hr]. constructor; auto.
  intros Hin. apply list_in_str_In in Hin. congruence.
Qed.

Lemma dict_get_In k (d : list (string * pv)) v : dict_get k d = Some v -> In (k, v) d.
Proof.
  induction d as [|[k' v'] r IH]; simpl; [discriminate|].
  destruct (String.eqb_spec k k') as [->|Hne].
  - intros H. injection H as ->. auto.
  - auto.
Qed.

Lemma In_dict_get k (d : list (string * pv)) v :
  NoDup (map fst d) -> In (k, v) d -> dict_get k d = Some v.
Proof.
  induction d as [|[k' v'] r IH]; simpl; [tauto|].
  intros Hnd [H|H].
  - injection H as -> ->. now rewrite String.eqb_refl.
  - inversion Hnd as [|? ? Hni Hnd']; subst.
    destruct (String.eqb_spec k k') as [->|Hne].
    + exfalso. apply Hni. apply in_map_iff. exists (k', v). auto.
    + auto.
Qed.

Lemma dict_get_None_notin k (d : list (string * pv)) :
  dict_get k d = None -> ~ In k (map fst d).
Proof.
  induction d as [|[k' v'] r IH]; simpl; [tauto|].
  destruct (String.eqb_spec k k') as [->|Hne]; [discriminate|].
  intros H [E|Hin]; [congruence|]. now apply IH.
Qed.

Section P.
Variable vfun : string -> dictT -> pv -> bool.

(* ---- essential *)
Definition ess_clause (claims : dictT) (k : string) (o : pv) : bool :=
  implb (py_truthy (arg "essential" o))
        match dict_get k claims with Some v => py_truthy v | None => false end.

Lemma essential_loop_none opts ks claims :
  essential_loop opts ks claims = None <->
  (forall k o, In k ks -> dict_get k opts = Some o -> ess_clause claims k o = true).
Proof.
  induction ks as [|k r IH]; simpl.
  - split; [intros _ ? ? []|reflexivity].
  - destruct (dict_get k opts) as [o|] eqn:Eo.
    + unfold oget. destruct (py_truthy (arg "essential" o)) eqn:Ee.
      * destruct (dict_get k claims) as [v|] eqn:Ev.
        -- destruct (py_truthy v) eqn:Et.
           ++ rewrite IH. split.
              ** intros H k0 o0 [<-|Hin] Hg; [|eauto].
                 rewrite Eo in Hg. injection Hg as <-. unfold ess_clause. now rewrite Ee, Ev, Et.
              ** intros H k0 o0 Hin Hg. eauto.
           ++ split; [discriminate|]. intros H. specialize (H k o (or_introl eq_refl) Eo).
              unfold ess_clause in H. rewrite Ee, Ev, Et in H. discriminate.
        -- split; [discriminate|]. intros H. specialize (H k o (or_introl eq_refl) Eo).
           unfold ess_clause in H. rewrite Ee, Ev in H. discriminate.
      * rewrite IH. split.
        -- intros H k0 o0 [<-|Hin] Hg; [|eauto].
           rewrite Eo in Hg. injection Hg as <-. unfold ess_clause. now rewrite Ee.
        -- intros H k0 o0 Hin Hg. eauto.
    + rewrite IH. split.
      * intros H k0 o0 [<-|Hin] Hg; [congruence|eauto].
      * intros H k0 o0 Hin Hg. eauto.
Qed.

Lemma essential_ok_forall opts claims :
  essential_ok opts claims = true <-> (forall k o, In (k, o) opts -> ess_clause claims k o = true).
Proof.
  unfold essential_ok. rewrite forallb_forall. split.
  - intros H k o Hin. apply (H (k, o) Hin).
  - intros H [k o] Hin. apply (H k o Hin).
Qed.

Lemma check_essential_iff opts claims :
  NoDup (map fst opts) ->
  (check_essential opts claims = None <-> essential_ok opts claims = true).
Proof.
  intros Hnd. unfold check_essential. rewrite essential_loop_none, essential_ok_forall. split.
  - intros H k o Hin. apply H; [|now apply In_dict_get].
    apply in_map_iff. exists (k, o). auto.
  - intros H k o _ Hg. apply H. now apply dict_get_In.
Qed.

(* ---- expected value / values / validator *)
Lemma check_claim_value_spec opts claims name :
  check_claim_value vfun opts claims name =
  match dict_get name opts with
  | None => None
  | Some o => if expectation_ok vfun claims name o then None else Some (EInvalid name)
  end.
Proof.
  unfold check_claim_value, expectation_ok, oget, cget, sget.
  destruct (dict_get name opts) as [o|]; [|reflexivity].
  destruct (py_truthy o); cbn [negb implb]; [|reflexivity].
  set (v := match dict_get name claims with Some v => v | None => PNone end).
  destruct (py_truthy (arg "value" o)), (py_eq v (arg "value" o)),
           (py_truthy (arg "values" o)), (py_in_list v (pv_list (arg "values" o))),
           (py_truthy (arg "validate" o)), (vfun (pv_str (arg "validate" o)) claims v); reflexivity.
Qed.

Lemma check_claim_value_iff opts claims name :
  check_claim_value vfun opts claims name = None <->
  (forall o, dict_get name opts = Some o -> expectation_ok vfun claims name o = true).
Proof.
  rewrite check_claim_value_spec. destruct (dict_get name opts) as [o|].
  - destruct (expectation_ok vfun claims name o) eqn:Ex.
    + split; [intros _ o' E; injection E as <-; exact Ex|reflexivity].
    + split; [discriminate|]. intros H. specialize (H o eq_refl). congruence.
  - split; [intros _ o E; discriminate|reflexivity].
Qed.

Lemma private_loop_none registered opts ks claims :
  private_loop vfun registered opts ks claims = None <->
  (forall k, In k ks -> list_in_str k registered = false ->
             check_claim_value vfun opts claims k = None).
Proof.
  induction ks as [|k r IH]; simpl.
  - split; [intros _ ? []|reflexivity].
  - destruct (list_in_str k registered) eqn:Er.
    + rewrite IH. split.
      * intros H k0 [<-|Hin] Hr; [congruence|auto].
      * intros H k0 Hin Hr. auto.
    + destruct (check_claim_value vfun opts claims k) eqn:Ec.
      * split; [discriminate|]. intros H. specialize (H k (or_introl eq_refl) Er). congruence.
      * rewrite IH. split.
        -- intros H k0 [<-|Hin] Hr; auto.
        -- intros H k0 Hin Hr. auto.
Qed.

Lemma expectations_ok_forall checked opts claims :
  expectations_ok vfun checked opts claims = true <->
  (forall k o, In (k, o) opts -> checked k = true -> expectation_ok vfun claims k o = true).
Proof.
  unfold expectations_ok. rewrite forallb_forall. split.
  - intros H k o Hin Hc. specialize (H (k, o) Hin). simpl in H. rewrite Hc in H. exact H.
  - intros H [k o] Hin. simpl. destruct (checked k) eqn:Ec; [|reflexivity]. simpl. auto.
Qed.

(* ---- aud *)
Lemma check_aud_iff opts claims :
  check_aud opts claims = None <-> aud_ok opts claims = true.
Proof.
  unfold check_aud, aud_ok, expected_auds, oget, cget, chas.
  destruct (dict_get "aud" opts) as [o|]; [|tauto].
  destruct (py_truthy o); cbn [negb orb implb]; [|tauto].
  destruct (dict_get "aud" claims) as [aud|]; cbn [negb]; [|tauto].
  destruct (py_truthy (arg "values" o)).
  - destruct (pv_list (arg "values" o)) as [|e es]; [tauto|].
    destruct (existsb _ (e :: es)); split; auto; discriminate.
  - destruct (py_truthy (arg "value" o)); [|tauto].
    destruct (existsb _ [arg "value" o]); split; auto; discriminate.
Qed.

(* ---- time *)
Lemma time_checks_iff claims now lw :
  (check_exp claims now lw = None /\ check_nbf claims now lw = None /\ check_iat claims now lw = None)
  <-> time_ok claims now lw = true.
Proof.
  unfold check_exp, check_nbf, check_iat, time_ok.
  destruct (dict_get "exp" claims) as [e|];
  destruct (dict_get "nbf" claims) as [n|];
  destruct (dict_get "iat" claims) as [i|];
  repeat match goal with
         | |- context [is_number ?v] => destruct (is_number v); cbn [negb andb]
         | |- context [num_lt_int ?v ?c] => destruct (num_lt_int v c); cbn [negb andb]
         | |- context [num_gt_int ?v ?c] => destruct (num_gt_int v c); cbn [negb andb]
         end;
  intuition (discriminate || auto).
Qed.

(* ---- JWTClaims.validate *)
Theorem jwt_validate_iff_l registered opts claims now lw :
  opts_wf opts = true ->
  (forall k, In k ["iss"; "sub"; "jti"] -> list_in_str k registered = true) ->
  (jwt_validate_with vfun registered opts claims now lw = None <->
   jwt_claims_ok vfun registered opts claims now lw = true).
Proof.
  intros Hwf Hreg. unfold opts_wf in Hwf. apply andb_true_iff in Hwf. destruct Hwf as [Hnd _].
  apply nodup_strs_NoDup in Hnd.
  unfold jwt_validate_with, jwt_claims_ok.
  rewrite !first_err_cons. rewrite !andb_true_iff.
  rewrite (check_essential_iff _ _ Hnd), check_aud_iff, <- time_checks_iff.
  rewrite !check_claim_value_iff, private_loop_none, expectations_ok_forall.
  split.
  - intros (He & Hiss & Hsub & Haud & Hexp & Hnbf & Hiat & Hjti & Hpriv & _).
    repeat split; auto.
    intros k o Hin Hc. pose proof (In_dict_get _ _ _ Hnd Hin) as Hg.
    unfold jwt_checked in Hc. apply orb_true_iff in Hc. destruct Hc as [Hc|Hc].
    + apply list_in_str_In in Hc. simpl in Hc.
      destruct Hc as [<-|[<-|[<-|[]]]]; auto.
    + apply negb_true_iff in Hc.
      assert (Hk : In k (map fst opts)) by (apply in_map_iff; exists (k, o); auto).
      specialize (Hpriv k Hk Hc). rewrite check_claim_value_iff in Hpriv. auto.
  - intros (((He & Hx) & Haud) & Hexp & Hnbf & Hiat).
    assert (Hc3 : forall k, In k ["iss"; "sub"; "jti"] ->
                   forall o, dict_get k opts = Some o -> expectation_ok vfun claims k o = true).
    { intros k Hk o Hg. apply Hx; [now apply dict_get_In|].
      unfold jwt_checked. apply orb_true_iff. left. now apply list_in_str_In. }
    repeat split; auto.
    + apply Hc3. simpl. auto.
    + apply Hc3. simpl. auto.
    + apply Hc3. simpl. auto.
    + intros k Hk Hr. apply check_claim_value_iff. intros o Hg.
      apply Hx; [now apply dict_get_In|]. unfold jwt_checked. now rewrite Hr, orb_true_r.
Qed.

(* ---- error adequacy: the error names a constraint that is actually violated *)
Definition violated (registered : list string) (opts claims : dictT) (now lw : Z) (e : verr) : Prop :=
  match e with
  | EMissing k => exists o, dict_get k opts = Some o /\ py_truthy (arg "essential" o) = true /\
                            dict_get k claims = None
  | EInvalid k =>
      (exists o v, dict_get k opts = Some o /\ py_truthy (arg "essential" o) = true /\
                   dict_get k claims = Some v /\ py_truthy v = false) \/
      (exists o, dict_get k opts = Some o /\ jwt_checked registered k = true /\
                 expectation_ok vfun claims k o = false) \/
      (k = "aud" /\ aud_ok opts claims = false) \/
      (In k ["exp"; "nbf"; "iat"] /\ exists v, dict_get k claims = Some v /\ is_number v = false)
  | EExpired => exists v, dict_get "exp" claims = Some v /\ num_lt_int v (now - lw) = true
  | EInvalidToken w => In w ["nbf"; "iat"] /\
                       exists v, dict_get w claims = Some v /\ num_gt_int v (now + lw) = true
  end.

Lemma essential_loop_some opts ks claims e :
  essential_loop opts ks claims = Some e ->
  (exists k o, e = EMissing k /\ dict_get k opts = Some o /\ py_truthy (arg "essential" o) = true /\
               dict_get k claims = None) \/
  (exists k o v, e = EInvalid k /\ dict_get k opts = Some o /\ py_truthy (arg "essential" o) = true /\
                 dict_get k claims = Some v /\ py_truthy v = false).
Proof.
  induction ks as [|k r IH]; simpl; [discriminate|].
  destruct (dict_get k opts) as [o|] eqn:Eo; [|exact IH].
  unfold oget. destruct (py_truthy (arg "essential" o)) eqn:Ee; [|exact IH].
  destruct (dict_get k claims) as [v|] eqn:Ev.
  - destruct (py_truthy v) eqn:Et; [exact IH|].
    intros H. injection H as <-. right. exists k, o, v. auto.
  - intros H. injection H as <-. left. exists k, o. auto.
Qed.

Lemma private_loop_some registered opts ks claims e :
  private_loop vfun registered opts ks claims = Some e ->
  exists k, list_in_str k registered = false /\ check_claim_value vfun opts claims k = Some e.
Proof.
  induction ks as [|k r IH]; simpl; [discriminate|].
  destruct (list_in_str k registered) eqn:Er; [exact IH|].
  destruct (check_claim_value vfun opts claims k) eqn:Ec; [|exact IH].
  intros H. injection H as <-. exists k. auto.
Qed.

Lemma check_claim_value_some opts claims name e :
  check_claim_value vfun opts claims name = Some e ->
  e = EInvalid name /\ exists o, dict_get name opts = Some o /\ expectation_ok vfun claims name o = false.
Proof.
  rewrite check_claim_value_spec. destruct (dict_get name opts) as [o|]; [|discriminate].
  destruct (expectation_ok vfun claims name o) eqn:Ex; [discriminate|].
  intros H. injection H as <-. split; [reflexivity|]. exists o. auto.
Qed.

Theorem jwt_error_adequate_l registered opts claims now lw e :
  (forall k, In k ["iss"; "sub"; "jti"] -> list_in_str k registered = true) ->
  jwt_validate_with vfun registered opts claims now lw = Some e ->
  violated registered opts claims now lw e.
Proof.
  intros Hreg. unfold jwt_validate_with.
  assert (Hck : forall k, In k ["iss"; "sub"; "jti"] -> jwt_checked registered k = true).
  { intros k Hk. unfold jwt_checked. apply orb_true_iff. left. now apply list_in_str_In. }
  rewrite !first_err_cons_some.
  intros [H|[_ [H|[_ [H|[_ [H|[_ [H|[_ [H|[_ [H|[_ [H|[_ [H|[_ H]]]]]]]]]]]]]]]]]].
  - apply essential_loop_some in H.
    destruct H as [(k & o & -> & H1 & H2 & H3)|(k & o & v & -> & H1 & H2 & H3 & H4)]; simpl.
    + exists o. auto.
    + left. exists o, v. auto.
  - apply check_claim_value_some in H. destruct H as (-> & o & H1 & H2). simpl.
    right; left. exists o. repeat split; auto; try (apply Hck; simpl; auto).
  - apply check_claim_value_some in H. destruct H as (-> & o & H1 & H2). simpl.
    right; left. exists o. repeat split; auto; try (apply Hck; simpl; auto).
  - assert (E : e = EInvalid "aud").
    { unfold check_aud in H. destruct (dict_get "aud" opts); [|discriminate].
      destruct (negb _ || negb _); [discriminate|].
      destruct (if py_truthy _ then _ else _); [discriminate|].
      destruct (existsb _ _); [discriminate|]. now injection H as <-. }
    subst e. simpl. right; right; left. split; [reflexivity|].
    destruct (aud_ok opts claims) eqn:Ea; [|reflexivity].
    apply check_aud_iff in Ea. congruence.
  - unfold check_exp in H. destruct (dict_get "exp" claims) as [v|] eqn:Ev; [|discriminate].
    destruct (is_number v) eqn:En; cbn [negb] in H.
    + destruct (num_lt_int v (now - lw)) eqn:El; [|discriminate]. injection H as <-. simpl. eauto.
    + injection H as <-. simpl. right; right; right. split; [simpl; auto|]. eauto.
  - unfold check_nbf in H. destruct (dict_get "nbf" claims) as [v|] eqn:Ev; [|discriminate].
    destruct (is_number v) eqn:En; cbn [negb] in H.
    + destruct (num_gt_int v (now + lw)) eqn:El; [|discriminate]. injection H as <-. simpl.
      split; [auto|]. eauto.
    + injection H as <-. simpl. right; right; right. split; [simpl; auto|]. eauto.
  - unfold check_iat in H. destruct (dict_get "iat" claims) as [v|] eqn:Ev; [|discriminate].
    destruct (is_number v) eqn:En; cbn [negb] in H.
    + destruct (num_gt_int v (now + lw)) eqn:El; [|discriminate]. injection H as <-. simpl.
      split; [auto|]. eauto.
    + injection H as <-. simpl. right; right; right. split; [simpl; auto|]. eauto.
  - apply check_claim_value_some in H. destruct H as (-> & o & H1 & H2). simpl.
    right; left. exists o. repeat split; auto; try (apply Hck; simpl; auto).
  - apply private_loop_some in H. destruct H as (k & Hr & H).
    apply check_claim_value_some in H. destruct H as (-> & o & H1 & H2). simpl.
    right; left. exists o. repeat split; auto. unfold jwt_checked. now rewrite Hr, orb_true_r.
  - simpl in H. discriminate.
Qed.

(* ---- corollaries of the decision theorem *)
Lemma time_ok_exp claims now lw v :
  time_ok claims now lw = true -> dict_get "exp" claims = Some v ->
  is_number v = true /\ num_lt_int v (now - lw) = false.
Proof.
  unfold time_ok. intros H E. rewrite E in H.
  apply andb_true_iff in H. destruct H as [H _]. apply andb_true_iff in H. destruct H as [H _].
  apply andb_true_iff in H. destruct H as [H1 H2]. now apply negb_true_iff in H2.
Qed.

Corollary expired_never_accepted_l registered opts claims now lw z :
  opts_wf opts = true ->
  (forall k, In k ["iss"; "sub"; "jti"] -> list_in_str k registered = true) ->
  dict_get "exp" claims = Some (PInt z) -> (z < now - lw)%Z ->
  jwt_validate_with vfun registered opts claims now lw <> None.
Proof.
  intros Hwf Hreg He Hlt Hv. apply (jwt_validate_iff_l registered opts claims now lw Hwf Hreg) in Hv.
  unfold jwt_claims_ok in Hv. apply andb_true_iff in Hv. destruct Hv as [_ Ht].
  destruct (time_ok_exp _ _ _ _ Ht He) as [_ Hn].
  unfold num_lt_int, num_parts, dy_cmp in Hn. cbn [fst snd] in Hn.
  rewrite Z.min_id, Z.sub_diag in Hn. change (2 ^ 0)%Z with 1%Z in Hn. rewrite !Z.mul_1_r in Hn.
  apply Z.compare_lt_iff in Hlt. rewrite Hlt in Hn. discriminate.
Qed.

(* ---- ID Token *)
Variable half_hash : string -> string -> option string.

Lemma check_present_iff ks claims :
  check_present ks claims = None <-> forallb (fun k => has k claims) ks = true.
Proof.
  induction ks as [|k r IH]; simpl; [tauto|].
  unfold chas, has. destruct (dict_get k claims); simpl; [exact IH|].
  split; discriminate.
Qed.

Lemma checks_expectations_iff (L : list string) opts claims :
  NoDup (map fst opts) ->
  ((forall k, In k L -> check_claim_value vfun opts claims k = None) <->
   expectations_ok vfun (fun k => list_in_str k L) opts claims = true).
Proof.
  intros Hnd. rewrite expectations_ok_forall. split.
  - intros H k o Hin Hc. apply list_in_str_In in Hc. specialize (H k Hc).
    rewrite check_claim_value_iff in H. apply H. now apply In_dict_get.
  - intros H k Hk. apply check_claim_value_iff. intros o Hg.
    apply H; [now apply dict_get_In|]. now apply list_in_str_In.
Qed.

Ltac btauto_cases :=
  repeat match goal with
         | |- context [py_truthy ?x] => destruct (py_truthy x); cbn [negb andb orb implb]
         | |- context [is_number ?x] => destruct (is_number x); cbn [negb andb orb implb]
         | |- context [is_list ?x] => destruct (is_list x); cbn [negb andb orb implb]
         | |- context [py_eq ?x ?y] => destruct (py_eq x y); cbn [negb andb orb implb]
         end;
  try (split; (discriminate || reflexivity || tauto)).

Lemma check_auth_time_iff params claims :
  check_auth_time params claims = None <->
  implb (py_truthy (sget "max_age" params)) (py_truthy (sget "auth_time" claims)) &&
  implb (py_truthy (sget "auth_time" claims)) (is_number (sget "auth_time" claims)) = true.
Proof. unfold check_auth_time, cget, sget. btauto_cases. Qed.

Lemma check_nonce_iff params claims :
  check_nonce params claims = None <->
  implb (py_truthy (sget "nonce" params))
        (match dict_get "nonce" claims with Some v => py_eq (sget "nonce" params) v | None => false end) = true.
Proof.
  unfold check_nonce, cget, sget. destruct (py_truthy _); cbn [implb]; [|tauto].
  destruct (dict_get "nonce" claims); [|split; discriminate].
  destruct (py_eq _ _); split; (discriminate || reflexivity).
Qed.

Lemma check_amr_iff claims :
  check_amr claims = None <->
  implb (py_truthy (sget "amr" claims)) (is_list (sget "amr" claims)) = true.
Proof. unfold check_amr, cget, sget. btauto_cases. Qed.

Lemma check_azp_iff params claims :
  check_azp params claims = None <->
  implb (py_truthy (sget "aud" claims) && py_truthy (sget "client_id" params) &&
         negb (py_eq (match sget "aud" claims with PList [x] => x | _ => sget "aud" claims end)
                     (sget "client_id" params))) (py_truthy (sget "azp" claims)) &&
  implb (py_truthy (sget "azp" claims) && py_truthy (sget "client_id" params))
        (py_eq (sget "azp" claims) (sget "client_id" params)) = true.
Proof.
  unfold check_azp, cget, sget.
  set (aud := match dict_get "aud" claims with Some v => v | None => PNone end).
  set (cl := match dict_get "client_id" params with Some v => v | None => PNone end).
  set (azp := match dict_get "azp" claims with Some v => v | None => PNone end).
  set (aud' := match aud with PList [x] => x | _ => aud end).
  destruct (py_truthy aud), (py_truthy cl), (py_eq aud' cl), (py_truthy azp), (py_eq azp cl);
    cbn [negb andb orb implb]; split; (discriminate || reflexivity).
Qed.

Lemma verify_hash_eq sig s alg : verify_hash half_hash sig s alg = hash_matches half_hash sig s alg.
Proof. reflexivity. Qed.

Lemma check_at_hash_iff hdr params claims :
  check_at_hash half_hash hdr params claims = None <->
  implb (py_truthy (sget "at_hash" claims) && py_truthy (sget "access_token" params))
        (hash_matches half_hash (pv_str (sget "at_hash" claims)) (pv_str (sget "access_token" params))
                      (pv_str (sget "alg" hdr))) = true.
Proof.
  unfold check_at_hash, cget, sget. rewrite verify_hash_eq.
  destruct (py_truthy _), (py_truthy _); cbn [andb implb]; try tauto.
  destruct (hash_matches _ _ _ _); split; (discriminate || reflexivity).
Qed.

Lemma check_at_hash_implicit_iff hdr params claims :
  check_at_hash_implicit half_hash hdr params claims = None <->
  implb (py_truthy (sget "access_token" params)) (has "at_hash" claims) &&
  implb (py_truthy (sget "at_hash" claims) && py_truthy (sget "access_token" params))
        (hash_matches half_hash (pv_str (sget "at_hash" claims)) (pv_str (sget "access_token" params))
                      (pv_str (sget "alg" hdr))) = true.
Proof.
  unfold check_at_hash_implicit. rewrite andb_true_iff, <- check_at_hash_iff.
  unfold cget, sget, chas, has.
  destruct (py_truthy match dict_get "access_token" params with Some v => v | None => PNone end);
    destruct (dict_get "at_hash" claims); cbn [negb andb implb]; try tauto.
  split; [discriminate|]. intros [H _]. discriminate.
Qed.

Lemma check_c_hash_iff hdr params claims :
  check_c_hash half_hash hdr params claims = None <->
  implb (py_truthy (sget "code" params))
        (py_truthy (sget "c_hash" claims) &&
         hash_matches half_hash (pv_str (sget "c_hash" claims)) (pv_str (sget "code" params))
                      (pv_str (sget "alg" hdr))) = true.
Proof.
  unfold check_c_hash, cget, sget. rewrite verify_hash_eq.
  destruct (py_truthy _); cbn [implb]; [|tauto].
  destruct (py_truthy _); cbn [negb andb]; [|split; discriminate].
  destruct (hash_matches _ _ _ _); split; (discriminate || reflexivity).
Qed.

Definition flow_of (k : idt_kind) : idt_flow :=
  match k with KCode => FCode | KImplicit => FImplicit | KHybrid => FHybrid end.

Theorem idtoken_validate_iff_l kind opts hdr params claims now lw :
  opts_wf opts = true ->
  (idtoken_validate vfun half_hash kind opts hdr params claims now lw = None <->
   idtoken_ok vfun half_hash (flow_of kind) opts hdr params claims now lw = true).
Proof.
  intros Hwf. unfold opts_wf in Hwf. apply andb_true_iff in Hwf. destruct Hwf as [Hnd _].
  apply nodup_strs_NoDup in Hnd.
  unfold idtoken_validate, idtoken_ok, idt_extras_ok.
  rewrite !first_err_cons. rewrite !andb_true_iff.
  rewrite check_present_iff, (check_essential_iff _ _ Hnd), check_aud_iff, <- time_checks_iff.
  rewrite check_auth_time_iff, check_nonce_iff, check_amr_iff, check_azp_iff.
  rewrite !andb_true_iff.
  assert (Hx : (check_claim_value vfun opts claims "iss" = None /\
                check_claim_value vfun opts claims "sub" = None /\
                check_claim_value vfun opts claims "acr" = None) <->
               expectations_ok vfun idt_checked opts claims = true).
  { rewrite <- (checks_expectations_iff ["iss"; "sub"; "acr"] opts claims Hnd). split.
    - intros (A & B & C) k [<-|[<-|[<-|[]]]]; assumption.
    - intros H. repeat split; apply H; simpl; auto. }
  assert (Hreq : idt_essential kind = idt_required (flow_of kind)) by (destruct kind; reflexivity).
  rewrite Hreq. rewrite <- Hx.
  destruct kind; cbn [flow_of].
  - rewrite check_at_hash_iff. simpl (first_err [None]). tauto.
  - rewrite check_at_hash_implicit_iff, andb_true_iff. simpl (first_err [None]). tauto.
  - rewrite check_at_hash_implicit_iff, check_c_hash_iff, !andb_true_iff. simpl (first_err []). tauto.
Qed.

(* ---- RFC 9068 access token claims *)
Lemma check_typ_iff hdr : check_typ hdr = None <-> typ_ok hdr = true.
Proof.
  unfold check_typ, typ_ok, cget, sget. destruct (py_truthy _); cbn [implb]; [|tauto].
  destruct (_ || _); split; (discriminate || reflexivity).
Qed.

Lemma check_auth_time_at_iff claims :
  check_auth_time_at claims = None <->
  implb (py_truthy (sget "auth_time" claims)) (is_number (sget "auth_time" claims)) = true.
Proof. unfold check_auth_time_at, cget, sget. btauto_cases. Qed.

Definition AT_EXTRA := ["client_id"; "acr"; "scope"; "groups"; "roles"; "entitlements"].

Lemma at_checked_split k :
  at_checked k = jwt_checked AT_REGISTERED k || list_in_str k AT_EXTRA.
Proof.
  unfold at_checked, jwt_checked.
  destruct (list_in_str k AT_REGISTERED) eqn:Er.
  - apply list_in_str_In in Er. unfold AT_REGISTERED, JWT_REGISTERED in Er. simpl in Er.
    repeat (destruct Er as [<-|Er]; [vm_compute; reflexivity|]). destruct Er.
  - assert (Hsub : forall L, (forall x, In x L -> In x AT_REGISTERED) -> list_in_str k L = false).
    { intros L HL. destruct (list_in_str k L) eqn:E; [|reflexivity].
      apply list_in_str_In in E. apply HL in E. apply list_in_str_In in E. congruence. }
    rewrite (Hsub ["iss"; "sub"; "jti"]), (Hsub AT_EXTRA), (Hsub ["aud"; "exp"; "nbf"; "iat"; "auth_time"; "amr"]).
    + reflexivity.
    + intros x Hx. unfold AT_REGISTERED, JWT_REGISTERED. simpl in *. intuition.
    + intros x Hx. unfold AT_REGISTERED, JWT_REGISTERED, AT_EXTRA in *. simpl in *. intuition.
    + intros x Hx. unfold AT_REGISTERED, JWT_REGISTERED. simpl in *. intuition.
Qed.

Lemma expectations_ok_or c1 c2 opts claims :
  expectations_ok vfun (fun k => c1 k || c2 k) opts claims = true <->
  expectations_ok vfun c1 opts claims = true /\ expectations_ok vfun c2 opts claims = true.
Proof.
  rewrite !expectations_ok_forall. split.
  - intros H. split; intros k o Hin Hc; apply H; auto; rewrite Hc; auto using orb_true_r.
  - intros [H1 H2] k o Hin Hc. apply orb_true_iff in Hc. destruct Hc; auto.
Qed.

Lemma expectations_ok_ext c1 c2 opts claims :
  (forall k, c1 k = c2 k) ->
  expectations_ok vfun c1 opts claims = expectations_ok vfun c2 opts claims.
Proof.
  intros H. unfold expectations_ok. induction opts as [|[k o] r IH]; simpl; [reflexivity|]. now rewrite H, IH.
Qed.

Theorem at_validate_iff_l opts hdr claims now lw :
  opts_wf opts = true ->
  (at_validate vfun opts hdr claims now lw = None <->
   at_claims_ok vfun opts hdr claims now lw = true).
Proof.
  intros Hwf. pose proof Hwf as Hwf'. unfold opts_wf in Hwf'. apply andb_true_iff in Hwf'.
  destruct Hwf' as [Hnd _]. apply nodup_strs_NoDup in Hnd.
  unfold at_validate, at_claims_ok. rewrite !first_err_cons, !andb_true_iff.
  rewrite check_typ_iff, check_auth_time_at_iff, check_amr_iff.
  rewrite (jwt_validate_iff_l AT_REGISTERED opts claims now lw Hwf)
    by (intros k [<-|[<-|[<-|[]]]]; vm_compute; reflexivity).
  unfold jwt_claims_ok. rewrite !andb_true_iff.
  rewrite (expectations_ok_ext at_checked _ opts claims at_checked_split), expectations_ok_or.
  rewrite <- (checks_expectations_iff AT_EXTRA opts claims Hnd).
  split.
  - intros (Ht & (((He & Hx) & Ha) & Hti) & Hc & Hat & Hacr & Hamr & Hs & Hg & Hr & Hen & _).
    repeat split; auto.
    intros k [<-|[<-|[<-|[<-|[<-|[<-|[]]]]]]]; assumption.
  - intros ((((((Ht & He) & Hx & Hex) & Ha) & Hti) & Hat) & Hamr).
    repeat split; auto; apply Hex; unfold AT_EXTRA; simpl; tauto.
Qed.
End P.
