(* Facts about str.split() / " ".join on whitespace-free words. *)
From Coq Require Import List NArith ZArith Bool Ascii String Lia.
From Authlib Require Import Base.Bytes.
Import ListNotations.
Open Scope string_scope.

Definition word (w : string) : Prop := w <> "" /\ str_any is_ws w = false.

Lemma str_any_app p a b : str_any p (a ++ b) = str_any p a || str_any p b.
Proof. induction a as [|c r IH]; simpl; [reflexivity|]. now rewrite IH, orb_assoc. Qed.

Lemma str_any_rev p s : str_any p (str_rev s) = str_any p s.
Proof.
  induction s as [|c r IH]; [reflexivity|].
  rewrite str_rev_cons, str_any_app, IH. simpl. rewrite orb_false_r. apply orb_comm.
Qed.

Lemma str_rev_nonempty s : s <> "" -> str_rev s <> "".
Proof.
  intros H E. apply H. rewrite <- (str_rev_involutive s), E. reflexivity.
Qed.

(* every piece produced by split() is a word *)
Lemma split_ws_aux_words s : forall cur,
  str_any is_ws cur = false ->
  forall w, In w (split_ws_aux s cur) -> word w.
Proof.
  induction s as [|c r IH]; intros cur Hc w Hin; simpl in Hin.
  - destruct cur as [|d cur']; [destruct Hin|].
    destruct Hin as [<-|[]]. split; [apply str_rev_nonempty; discriminate|].
    now rewrite str_any_rev.
  - destruct (is_ws c) eqn:E.
    + destruct cur as [|d cur'].
      * apply (IH "" eq_refl w Hin).
      * destruct Hin as [<-|Hin].
        -- split; [apply str_rev_nonempty; discriminate|]. now rewrite str_any_rev.
        -- apply (IH "" eq_refl w Hin).
    + apply (IH (String c cur)); [|exact Hin]. simpl. now rewrite E, Hc.
Qed.

Lemma split_ws_words s w : In w (split_ws s) -> word w.
Proof. apply split_ws_aux_words. reflexivity. Qed.

(* running over a whitespace-free prefix only grows the accumulator *)
Lemma split_ws_aux_word_prefix w s cur :
  str_any is_ws w = false ->
  split_ws_aux (w ++ s) cur = split_ws_aux s (str_rev_app w cur).
Proof.
  revert cur. induction w as [|c r IH]; intros cur H; simpl; [reflexivity|].
  simpl in H. apply orb_false_iff in H. destruct H as [Hc Hr]. rewrite Hc. now apply IH.
Qed.

Lemma split_ws_single w : word w -> split_ws w = [w].
Proof.
  intros [Hne Hw]. unfold split_ws.
  rewrite <- (str_app_nil_r w) at 1. rewrite split_ws_aux_word_prefix by assumption.
  simpl. destruct (str_rev_app w "") eqn:E.
  - exfalso. rewrite str_rev_app_spec, str_app_nil_r in E. now apply (str_rev_nonempty w Hne).
  - rewrite <- E. rewrite str_rev_app_spec, str_app_nil_r. now rewrite str_rev_involutive.
Qed.

Lemma split_ws_cons w rest :
  word w -> split_ws (w ++ String " " rest) = w :: split_ws rest.
Proof.
  intros [Hne Hw]. unfold split_ws. rewrite split_ws_aux_word_prefix by assumption.
  simpl. destruct (str_rev_app w "") eqn:E.
  - exfalso. rewrite str_rev_app_spec, str_app_nil_r in E. now apply (str_rev_nonempty w Hne).
  - rewrite <- E. rewrite str_rev_app_spec, str_app_nil_r. now rewrite str_rev_involutive.
Qed.

(* " ".join(words).split() = words *)
Theorem split_ws_join l : Forall word l -> split_ws (join " " l) = l.
Proof.
  induction l as [|w r IH]; intros H; [reflexivity|].
  inversion H as [|? ? Hw Hr]; subst.
  destruct r as [|w2 r'].
  - simpl. now apply split_ws_single.
  - change (join " " (w :: w2 :: r')) with (w ++ " " ++ join " " (w2 :: r')).
    change (" " ++ join " " (w2 :: r')) with (String " " (join " " (w2 :: r'))).
    rewrite split_ws_cons by assumption. now rewrite IH.
Qed.

Lemma Forall_word_filter (p : string -> bool) l : Forall word l -> Forall word (filter p l).
Proof.
  induction 1 as [|x r Hx Hr IH]; simpl; [constructor|].
  destruct (p x); [constructor|]; assumption.
Qed.

Lemma split_ws_Forall_word s : Forall word (split_ws s).
Proof. apply Forall_forall. intros w. apply split_ws_words. Qed.
