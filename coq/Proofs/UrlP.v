(* urlparse (urlunparse x) = x for http(s) URLs with well-formed components. *)
From Coq Require Import List NArith Bool Ascii String Lia.
From Authlib Require Import Base.Bytes Base.Percent Base.Form Base.Url Proofs.FormP.
Import ListNotations.
Open Scope string_scope.

(* none of the characters of [set] occurs in s *)
Definition avoids (set s : string) : bool := str_all (fun c => negb (str_in c set)) s.

Lemma avoids_app set a b : avoids set (a ++ b) = avoids set a && avoids set b.
Proof. apply str_all_app. Qed.

Lemma avoids_lacks set s c : avoids set s = true -> str_in c set = true -> lacks c s.
Proof.
  unfold avoids, lacks. induction s as [|d r IH]; simpl; [reflexivity|].
  intros H Hc. apply andb_true_iff in H. destruct H as [Hd Hr].
  destruct (Ascii.eqb_spec c d) as [->|]; simpl; [|auto].
  apply negb_true_iff in Hd. congruence.
Qed.

Definition unsafe_char (c : ascii) : bool :=
  let n := byte_n c in ((n =? 9) || (n =? 10) || (n =? 13))%N.
Definition clean (s : string) : bool := str_all (fun c => negb (unsafe_char c)) s.

Lemma clean_app a b : clean (a ++ b) = clean a && clean b.
Proof. apply str_all_app. Qed.

Lemma remove_unsafe_clean s : clean s = true -> remove_unsafe s = s.
Proof.
  unfold clean. induction s as [|c r IH]; simpl; [reflexivity|].
  intros H. apply andb_true_iff in H. destruct H as [Hc Hr].
  unfold unsafe_char in Hc. apply negb_true_iff in Hc. rewrite Hc. now rewrite IH.
Qed.

Lemma split_first_lacks c a : lacks c a -> split_first c a = (a, None).
Proof.
  unfold lacks. induction a as [|d r IH]; simpl; [reflexivity|].
  rewrite (Ascii.eqb_sym d c). destruct (Ascii.eqb c d); simpl; [discriminate|].
  intros H. now rewrite (IH H).
Qed.

Lemma break_at_app p a t :
  str_all (fun c => negb (p c)) a = true ->
  (t = "" \/ exists c r, t = String c r /\ p c = true) ->
  break_at p (a ++ t) = (a, match t with "" => None | _ => Some t end).
Proof.
  induction a as [|d r IH]; simpl; intros Ha Ht.
  - destruct Ht as [->|(c & r & -> & Hp)]; simpl; [reflexivity|]. now rewrite Hp.
  - apply andb_true_iff in Ha. destruct Ha as [Hd Hr]. apply negb_true_iff in Hd. rewrite Hd.
    now rewrite (IH Hr Ht).
Qed.

Definition http_scheme (s : string) : bool := String.eqb s "http" || String.eqb s "https".

(* components of an http(s) URL as urlparse produces them *)
Definition comp_wf (x : url6) : bool :=
  http_scheme (u_scheme x) &&
  negb (String.eqb (u_netloc x) "") && avoids "/?#" (u_netloc x) && clean (u_netloc x) &&
  (String.eqb (u_path x) "" || starts_with "/" (u_path x)) &&
  avoids "?#;" (u_path x) && clean (u_path x) &&
  String.eqb (u_params x) "" &&
  avoids "#" (u_query x) && clean (u_query x) &&
  clean (u_fragment x).

Definition qpart (q : string) : string := if String.eqb q "" then "" else "?" ++ q.
Definition fpart (f : string) : string := if String.eqb f "" then "" else "#" ++ f.

Lemma urlunparse_wf x :
  comp_wf x = true ->
  urlunparse x = u_scheme x ++ ":" ++ "//" ++ u_netloc x ++ u_path x ++ qpart (u_query x) ++ fpart (u_fragment x).
Proof.
  unfold comp_wf, urlunparse, qpart, fpart. rewrite !andb_true_iff.
  intros ((((((((((Hs & Hn) & _) & _) & Hp) & _) & _) & Hpar) & _) & _) & _).
  apply String.eqb_eq in Hpar. rewrite Hpar. cbn [String.eqb].
  apply negb_true_iff in Hn. rewrite Hn. cbn [negb orb].
  assert (Hsn : (u_scheme x =? "") = false).
  { unfold http_scheme in Hs. apply orb_true_iff in Hs. destruct Hs as [H|H]; apply String.eqb_eq in H; rewrite H; reflexivity. }
  rewrite Hsn.
  assert (Hb : negb (u_path x =? "") && negb (starts_with "/" (u_path x)) = false).
  { apply orb_true_iff in Hp. destruct Hp as [H|H]; rewrite H; [reflexivity|apply andb_false_r]. }
  rewrite Hb.
  destruct (u_query x =? ""), (u_fragment x =? ""); rewrite ?str_app_nil_r, ?str_app_assoc; reflexivity.
Qed.

Theorem urlparse_urlunparse_l x : comp_wf x = true -> urlparse (urlunparse x) = x.
Proof.
  intros Hwf. rewrite (urlunparse_wf x Hwf).
  unfold comp_wf in Hwf. rewrite !andb_true_iff in Hwf.
  destruct Hwf as ((((((((((Hs & Hn) & Hna) & Hnc) & Hp) & Hpa) & Hpc) & Hpar) & Hqa) & Hqc) & Hfc).
  destruct x as [sch net path par q f]. cbn [u_scheme u_netloc u_path u_params u_query u_fragment] in *.
  apply String.eqb_eq in Hpar. subst par.
  pose (tail := path ++ qpart q ++ fpart f).
  assert (Hclean_q : clean (qpart q) = true).
  { unfold qpart. destruct (q =? ""); [reflexivity|]. now rewrite clean_app, Hqc. }
  assert (Hclean_f : clean (fpart f) = true).
  { unfold fpart. destruct (f =? ""); [reflexivity|]. now rewrite clean_app, Hfc. }
  assert (Hsch : sch = "http" \/ sch = "https").
  { unfold http_scheme in Hs. apply orb_true_iff in Hs. destruct Hs as [H|H]; apply String.eqb_eq in H; auto. }
  assert (Hclean : clean (sch ++ ":" ++ "//" ++ net ++ path ++ qpart q ++ fpart f) = true).
  { rewrite !clean_app, Hnc, Hpc, Hclean_q, Hclean_f. destruct Hsch as [-> | ->]; reflexivity. }
  unfold urlparse.
  assert (Hl : lstrip_c0 (sch ++ ":" ++ "//" ++ net ++ path ++ qpart q ++ fpart f)
               = sch ++ ":" ++ "//" ++ net ++ path ++ qpart q ++ fpart f).
  { destruct Hsch as [-> | ->]; reflexivity. }
  rewrite Hl, (remove_unsafe_clean _ Hclean).
  assert (Hss : split_scheme (sch ++ ":" ++ "//" ++ net ++ tail) = (sch, "//" ++ net ++ tail)).
  { unfold split_scheme. change (":" ++ "//" ++ net ++ tail) with (String ":" ("//" ++ net ++ tail)).
    rewrite split_first_app by (destruct Hsch as [-> | ->]; reflexivity).
    destruct Hsch as [-> | ->]; reflexivity. }
  unfold tail in Hss. rewrite Hss.
  change (starts_with "//" ("//" ++ net ++ path ++ qpart q ++ fpart f)) with true. cbv iota.
  change (str_drop 2 ("//" ++ net ++ path ++ qpart q ++ fpart f)) with (net ++ path ++ qpart q ++ fpart f).
  (* the tail starts with a delimiter or is empty *)
  assert (Htail : tail = "" \/ exists c r, tail = String c r /\ str_in c "/?#" = true).
  { unfold tail. apply orb_true_iff in Hp. destruct Hp as [Hp|Hp].
    - apply String.eqb_eq in Hp. subst path. cbn [append]. unfold qpart, fpart.
      destruct (q =? ""); cbn [append]; [|right; eauto].
      destruct (f =? ""); [left; reflexivity|right; eauto].
    - destruct path as [|c r]; [discriminate|]. cbn [starts_with] in Hp.
      apply andb_true_iff in Hp. destruct Hp as [Hc _]. apply Ascii.eqb_eq in Hc. subst c.
      right. exists "/"%char, (r ++ qpart q ++ fpart f). split; reflexivity. }
  fold tail. rewrite (break_at_app (fun c => str_in c "/?#") net tail Hna Htail).
  assert (Hafter : match (match tail with "" => None | _ => Some tail end) with Some a => a | None => "" end = tail).
  { destruct tail; reflexivity. }
  rewrite Hafter. unfold tail.
  (* fragment *)
  assert (Hpq_hash : lacks "#" (path ++ qpart q)).
  { apply lacks_app. split; [apply (avoids_lacks "?#;"); auto|].
    unfold qpart. destruct (q =? ""); [reflexivity|]. apply (lacks_app "#" "?" q). split; [reflexivity|].
    apply (avoids_lacks "#"); auto. }
  assert (Hfrag : split_first "#" (path ++ qpart q ++ fpart f) =
                  (path ++ qpart q, if f =? "" then None else Some f)).
  { unfold fpart. destruct (f =? "") eqn:Ef.
    - rewrite str_app_nil_r. now apply split_first_lacks.
    - rewrite <- str_app_assoc. change ("#" ++ f) with (String "#" f). now apply split_first_app. }
  rewrite Hfrag.
  assert (Hp_q : lacks "?" path) by (apply (avoids_lacks "?#;"); auto).
  assert (Hquery : split_first "?" (path ++ qpart q) = (path, if q =? "" then None else Some q)).
  { unfold qpart. destruct (q =? "") eqn:Eq.
    - rewrite str_app_nil_r. now apply split_first_lacks.
    - change ("?" ++ q) with (String "?" q). now apply split_first_app. }
  assert (Hsemi : str_in ";" path = false) by (apply (avoids_lacks "?#;"); auto).
  assert (Hup : uses_params sch = true) by (destruct Hsch as [-> | ->]; reflexivity).
  destruct (f =? "") eqn:Ef; cbv beta iota zeta; rewrite Hquery;
    destruct (q =? "") eqn:Eq; cbv beta iota zeta; rewrite Hup, Hsemi; cbn [andb];
    try (apply String.eqb_eq in Ef; subst f); try (apply String.eqb_eq in Eq; subst q); reflexivity.
Qed.
