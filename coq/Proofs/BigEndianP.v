From Coq Require Import List NArith ZArith Bool Ascii String Lia.
From Authlib Require Import Base.Bytes Base.BigEndian.
Open Scope string_scope.
Open Scope N_scope.

Lemma be_acc_app s t acc : be_to_int_acc (s ++ t) acc = be_to_int_acc t (be_to_int_acc s acc).
Proof. revert acc. induction s as [|a r IH]; intros acc; simpl; [reflexivity|]. apply IH. Qed.

Lemma be_rev_le s : be_to_int_acc (str_rev s) 0 = le_to_int s.
Proof.
  induction s as [|a r IH]; [reflexivity|].
  rewrite str_rev_cons, be_acc_app, IH. cbn [be_to_int_acc le_to_int]. lia.
Qed.

Lemma le_bytes_value f n : n < 2 ^ N.of_nat f -> le_to_int (le_bytes f n) = n.
Proof.
  revert n. induction f as [|f IH]; intros n Hn.
  - simpl in *. change (2 ^ 0) with 1 in Hn. assert (n = 0) by lia. subst. reflexivity.
  - cbn [le_bytes]. destruct (N.eqb_spec n 0) as [->|Hz]; [reflexivity|].
    cbn [le_to_int]. rewrite byte_n_byte by (apply N.mod_lt; lia).
    rewrite IH.
    + pose proof (N.div_mod n 256). lia.
    + rewrite Nat2N.inj_succ, N.pow_succ_r' in Hn.
      apply N.div_lt_upper_bound; lia.
Qed.

Theorem bytes_to_int_min n : bytes_to_int (int_to_bytes_min n) = n.
Proof.
  unfold bytes_to_int, int_to_bytes_min. rewrite be_rev_le.
  apply le_bytes_value. rewrite N2Nat.id. apply N.size_gt.
Qed.

(* last little-endian digit (= first big-endian octet) is non-zero *)
Fixpoint last_char (s : string) : option ascii :=
  match s with
  | EmptyString => None
  | String a EmptyString => Some a
  | String _ r => last_char r
  end.

Lemma le_bytes_last f n :
  n < 2 ^ N.of_nat f -> n <> 0 ->
  exists a, last_char (le_bytes f n) = Some a /\ byte_n a <> 0.
Proof.
  revert n. induction f as [|f IH]; intros n Hn Hz.
  - change (2 ^ N.of_nat 0) with 1 in Hn. lia.
  - cbn [le_bytes]. destruct (N.eqb_spec n 0) as [|_]; [contradiction|].
    assert (Hd : n / 256 < 2 ^ N.of_nat f).
    { rewrite Nat2N.inj_succ, N.pow_succ_r' in Hn. apply N.div_lt_upper_bound; lia. }
    destruct (N.eq_dec (n / 256) 0) as [E|E].
    + rewrite E. assert (Hs : le_bytes f 0 = "") by (destruct f; reflexivity).
      rewrite Hs. cbn [last_char]. eexists; split; [reflexivity|].
      rewrite byte_n_byte by (apply N.mod_lt; lia).
      pose proof (N.div_mod n 256). lia.
    + destruct (IH _ Hd E) as (a & Ha & Hnz).
      exists a. split; [|assumption].
      cbn [last_char]. destruct (le_bytes f (n / 256)) eqn:El; [discriminate|]. exact Ha.
Qed.

Definition first_char (s : string) : option ascii :=
  match s with EmptyString => None | String a _ => Some a end.

Lemma first_app s t :
  first_char (s ++ t) = match first_char s with Some a => Some a | None => first_char t end.
Proof. destruct s; reflexivity. Qed.

Lemma last_cons a r :
  last_char (String a r) = match last_char r with Some x => Some x | None => Some a end.
Proof.
  destruct r as [|b r']; [reflexivity|].
  change (last_char (String a (String b r'))) with (last_char (String b r')).
  destruct (last_char (String b r')) eqn:E; [reflexivity|].
  exfalso. revert b E. induction r' as [|c r'' IH]; intros b E; [discriminate|].
  apply (IH c). exact E.
Qed.

Lemma first_rev s : first_char (str_rev s) = last_char s.
Proof.
  induction s as [|a r IH]; [reflexivity|].
  rewrite str_rev_cons, first_app, IH, last_cons. reflexivity.
Qed.

Theorem int_to_bytes_min_no_leading_zero n :
  n <> 0 -> exists a, first_char (int_to_bytes_min n) = Some a /\ byte_n a <> 0.
Proof.
  intros Hz. unfold int_to_bytes_min. rewrite first_rev.
  apply le_bytes_last; [|assumption]. rewrite N2Nat.id. apply N.size_gt.
Qed.

Theorem int_to_bytes_min_zero : int_to_bytes_min 0 = "".
Proof. reflexivity. Qed.

Lemma be_acc_zeros k s :
  be_to_int_acc (str_repeat "000"%char k ++ s) 0 = be_to_int_acc s 0.
Proof. induction k as [|k IH]; simpl; [reflexivity|exact IH]. Qed.

Theorem decode_encode_int_fixed len n s :
  encode_int_fixed len n = Some s -> bytes_to_int s = n /\ String.length s = len.
Proof.
  unfold encode_int_fixed. destruct (Nat.leb_spec (String.length (int_to_bytes_min n)) len) as [H|H]; [|discriminate].
  intros E. injection E as <-. split.
  - unfold bytes_to_int. rewrite be_acc_zeros. apply bytes_to_int_min.
  - rewrite str_length_app.
    assert (Hr : forall c k, String.length (str_repeat c k) = k) by (intros c k; induction k; simpl; congruence).
    rewrite Hr. lia.
Qed.
