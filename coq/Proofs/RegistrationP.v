From Coq Require Import List NArith ZArith Bool Ascii String Lia.
From Authlib Require Import Base.Bytes Base.PyVal Base.Url Model.Resource Model.Registration.
Import ListNotations.
Open Scope string_scope.

Lemma dict_get_filter (L : list string) k (d : doc) :
  list_in_str k L = true ->
  dict_get k (filter (fun kv => list_in_str (fst kv) L) d) = dict_get k d.
Proof.
  intros Hk. induction d as [|[k0 v0] r IH]; [reflexivity|]. simpl.
  destruct (list_in_str k0 L) eqn:E0; simpl.
  - destruct (String.eqb k k0); [reflexivity|exact IH].
  - destruct (String.eqb_spec k k0) as [->|]; [congruence|exact IH].
Qed.

Lemma mget_registered k d : list_in_str k REGISTERED = true -> mget k (registered_claims d) = mget k d.
Proof. intros H. unfold mget, registered_claims. now rewrite dict_get_filter. Qed.

Lemma first_bad_cons x r : first_bad (x :: r) = COk <-> x = COk /\ first_bad r = COk.
Proof.
  destruct x; simpl.
  - tauto.
  - split; [discriminate|]. intros [H _]. discriminate.
Qed.

Lemma chk_ok b c : chk b c = COk <-> b = true.
Proof. destruct b; simpl; split; auto; discriminate. Qed.

Lemma validated_stored_ok md jwks_ok p :
  claims_validate md jwks_ok p = COk -> stored_ok md (registered_claims (with_default_auth p)) = true.
Proof.
  unfold claims_validate, stored_ok. rewrite !first_bad_cons, !chk_ok.
  intros (H1 & H2 & H3 & H4 & H5 & H6 & H7 & H8 & H9 & H10 & H11 & H12 & _).
  set (d := with_default_auth p) in *.
  rewrite !mget_registered by reflexivity.
  unfold URI_MEMBERS. cbn [forallb]. rewrite !mget_registered by reflexivity.
  rewrite H1, H5, H6, H9, H10, H11, H7, H3, H4, H2. reflexivity.
Qed.

Theorem registration_stored_ok_l tok md jwks_ok payload m :
  register tok md jwks_ok payload = Stored m -> tok = true /\ payload <> [] /\ stored_ok md m = true.
Proof.
  unfold register. destruct tok; cbn [negb]; [|discriminate].
  destruct payload as [|kv r]; [discriminate|].
  destruct (claims_validate md jwks_ok (kv :: r)) eqn:E; [|discriminate].
  intros H. injection H as <-. repeat split; [discriminate|]. now apply (validated_stored_ok md jwks_ok).
Qed.

Theorem registration_requires_token_l md jwks_ok payload :
  register false md jwks_ok payload = Refused 400 "access_denied".
Proof. reflexivity. Qed.

Theorem update_checks_before_update_l tok ex perm cid sec md jwks_ok payload m :
  update tok ex perm cid sec md jwks_ok payload = Stored m ->
  tok = true /\ ex = true /\ perm = true /\
  (forall k, In k FORBIDDEN -> mhas k payload = false) /\
  py_eq (mget "client_id" payload) (PStr cid) = true /\
  (mhas "client_secret" payload = true -> py_eq (mget "client_secret" payload) (PStr sec) = true) /\
  stored_ok md m = true.
Proof.
  unfold update. destruct tok; cbn [negb]; [|discriminate].
  destruct ex; cbn [negb]; [|discriminate]. destruct perm; cbn [negb]; [|discriminate].
  destruct (existsb (fun k => mhas k payload) FORBIDDEN) eqn:Ef; [discriminate|].
  destruct (py_truthy (mget "client_id" payload)); cbn [negb]; [|discriminate].
  destruct (py_eq (mget "client_id" payload) (PStr cid)) eqn:Ec; cbn [negb]; [|discriminate].
  destruct (mhas "client_secret" payload && negb (py_eq (mget "client_secret" payload) (PStr sec))) eqn:Es; [discriminate|].
  destruct (claims_validate md jwks_ok payload) eqn:Ev; [|discriminate].
  intros H. injection H as <-. repeat split; auto.
  - intros k Hk. destruct (mhas k payload) eqn:Eh; [|reflexivity].
    assert (existsb (fun k => mhas k payload) FORBIDDEN = true) by (apply existsb_exists; eauto). congruence.
  - intros Hh. rewrite Hh in Es. cbn [andb] in Es. now apply negb_false_iff in Es.
  - now apply (validated_stored_ok md jwks_ok).
Qed.

(* an element of redirect_uris that is kept is an absolute, fragment-free URI -- or empty *)
Lemma uri_ok_cases v : uri_ok v = true -> py_truthy v = false \/ exists s, v = PStr s /\ is_valid_url s false = true.
Proof.
  unfold uri_ok. destruct (py_truthy v); cbn [negb orb]; [|auto].
  destruct v; try discriminate. intros H. right. eauto.
Qed.
