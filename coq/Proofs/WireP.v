From Coq Require Import List NArith ZArith Bool Ascii String Lia.
From Authlib Require Import Base.Bytes Base.Base64 Base.Utf8 Base.Percent Base.Form Base.Url Base.PyVal.
From Authlib Require Import Model.Resource Model.ClientAuth Model.Wire.
From Authlib Require Import Proofs.Base64P Proofs.FormP Proofs.UrlP.
Import ListNotations.
Open Scope string_scope.

Lemma str_all_impl (p q : ascii -> bool) s :
  (forall c, p c = true -> q c = true) -> str_all p s = true -> str_all q s = true.
Proof.
  intros H. induction s as [|c r IH]; simpl; [reflexivity|].
  intros Hs. apply andb_true_iff in Hs. destruct Hs as [Hc Hr]. now rewrite (H c Hc), IH.
Qed.

Lemma urlencoded_facts : forall c, implb (urlencoded_char c) (negb (str_in c "#") && negb (unsafe_char c)) = true.
Proof. apply all_ascii. intros [] [] [] [] [] [] [] []; vm_compute; reflexivity. Qed.
Lemma urlencoded_no_hash c : urlencoded_char c = true -> negb (str_in c "#") = true.
Proof. intros H. pose proof (urlencoded_facts c) as F. rewrite H in F. simpl in F. now apply andb_true_iff in F. Qed.
Lemma urlencoded_clean c : urlencoded_char c = true -> negb (unsafe_char c) = true.
Proof. intros H. pose proof (urlencoded_facts c) as F. rewrite H in F. simpl in F. now apply andb_true_iff in F. Qed.

Lemma urlencode_query_wf ps : avoids "#" (urlencode ps) = true /\ clean (urlencode ps) = true.
Proof.
  pose proof (urlencode_urlencoded ps) as H. split.
  - unfold avoids. eapply str_all_impl; [apply urlencoded_no_hash|exact H].
  - unfold clean. eapply str_all_impl; [apply urlencoded_clean|exact H].
Qed.

Lemma comp_wf_with_query x ps :
  comp_wf x = true -> comp_wf (with_query x (urlencode ps)) = true.
Proof.
  unfold comp_wf, with_query. cbn [u_scheme u_netloc u_path u_params u_query u_fragment].
  rewrite !andb_true_iff. destruct (urlencode_query_wf ps) as [H1 H2]. intuition.
Qed.

(* adding parameters to a URL: everything but the query is untouched and the decoded
   query is the old one followed by the new parameters, in order *)
Theorem add_params_to_uri_preserves_l u ps :
  comp_wf (urlparse u) = true ->
  urlparse (add_params_to_uri u ps false) =
    with_query (urlparse u) (urlencode (parse_qsl true (u_query (urlparse u)) ++ ps)) /\
  parse_qsl true (u_query (urlparse (add_params_to_uri u ps false))) =
    (parse_qsl true (u_query (urlparse u)) ++ ps)%list.
Proof.
  intros Hwf. unfold add_params_to_uri, add_params_to_qs.
  rewrite (urlparse_urlunparse_l _ (comp_wf_with_query _ _ Hwf)).
  split; [reflexivity|]. cbn [with_query u_query]. apply parse_qsl_urlencode.
Qed.

Lemma comp_wf_with_fragment x ps :
  comp_wf x = true -> comp_wf (with_fragment x (urlencode ps)) = true.
Proof.
  unfold comp_wf, with_fragment. cbn [u_scheme u_netloc u_path u_params u_query u_fragment].
  rewrite !andb_true_iff. destruct (urlencode_query_wf ps) as [H1 H2]. intuition.
Qed.

Theorem add_params_to_fragment_preserves_l u ps :
  comp_wf (urlparse u) = true ->
  urlparse (add_params_to_uri u ps true) =
    with_fragment (urlparse u) (urlencode (parse_qsl true (u_fragment (urlparse u)) ++ ps)) /\
  parse_qsl true (u_fragment (urlparse (add_params_to_uri u ps true))) =
    (parse_qsl true (u_fragment (urlparse u)) ++ ps)%list.
Proof.
  intros Hwf. unfold add_params_to_uri, add_params_to_qs.
  rewrite (urlparse_urlunparse_l _ (comp_wf_with_fragment _ _ Hwf)).
  split; [reflexivity|]. cbn [with_fragment u_fragment]. apply parse_qsl_urlencode.
Qed.

(* form-body authentication and bearer-in-body: for ALL octet strings *)
Theorem post_auth_roundtrip_l body id sec :
  parse_qsl true (encode_post body id sec) =
  (parse_qsl true body ++ [("client_id", id); ("client_secret", sec)])%list.
Proof. apply add_params_to_qs_preserves. Qed.

Theorem bearer_body_roundtrip_l body tok :
  parse_qsl true (bearer_body body tok) = (parse_qsl true body ++ [("access_token", tok)])%list.
Proof. apply add_params_to_qs_preserves. Qed.

Theorem token_request_roundtrip_l grant body ruri kwargs :
  parse_qsl true (prepare_token_request grant body ruri kwargs) =
  (parse_qsl true body ++ [("grant_type", grant)] ++ opt_param "redirect_uri" ruri
     ++ filter (fun kv => negb (String.eqb (snd kv) "")) kwargs)%list.
Proof. apply add_params_to_qs_preserves. Qed.

(* ---- HTTP Basic: what the client encodes, the server decodes *)
Definition b64std_out_char (c : ascii) : bool :=
  is_alnum c || Ascii.eqb c "+" || Ascii.eqb c "/" || Ascii.eqb c "=".

Lemma s_char_out_all :
  forallb (fun k => b64std_out_char (b64s_char (N.of_nat k))) (seq 0 64) = true.
Proof. vm_compute. reflexivity. Qed.

Lemma b64s_char_out n : (n < 64)%N -> b64std_out_char (b64s_char n) = true.
Proof.
  revert n. apply lt64_cases. intros k Hk. apply (forallb_seq_lt _ _ s_char_out_all k Hk).
Qed.

Lemma b64std_nopad_out s : str_all b64std_out_char (b64std_encode_nopad s) = true.
Proof.
  unfold b64std_encode_nopad.
  induction s as [|a|a b|a b c r IH] using string_ind3.
  - reflexivity.
  - cbn [b64enc str_all]. pose proof (byte_n_lt a) as Ha. destruct (group1 _ Ha) as (H1 & H2 & _).
    now rewrite !b64s_char_out by assumption.
  - cbn [b64enc str_all]. pose proof (byte_n_lt a) as Ha. pose proof (byte_n_lt b) as Hb.
    destruct (group2 _ _ Ha Hb) as (H1 & H2 & H3 & _). now rewrite !b64s_char_out by assumption.
  - cbn [b64enc str_all]. pose proof (byte_n_lt a) as Ha. pose proof (byte_n_lt b) as Hb.
    pose proof (byte_n_lt c) as Hc. destruct (group3 _ _ _ Ha Hb Hc) as (H1 & H2 & H3 & H4 & _).
    rewrite !b64s_char_out by assumption. now rewrite IH.
Qed.

Lemma b64std_out s : str_all b64std_out_char (b64std_encode s) = true.
Proof.
  unfold b64std_encode. rewrite str_all_app, b64std_nopad_out. unfold pad_for.
  destruct (Nat.modulo _ 4) as [|[|[|]]]; reflexivity.
Qed.

Lemma b64std_nonempty s : s <> "" -> b64std_encode s <> "".
Proof.
  intros Hs. unfold b64std_encode, b64std_encode_nopad.
  destruct s as [|a [|b [|c r]]]; [contradiction| | |]; cbn [b64enc append]; discriminate.
Qed.

Lemma out_char_facts_b : forall c, implb (b64std_out_char c) (negb (is_ws c) && (byte_n c <? 128)%N) = true.
Proof. apply all_ascii. intros [] [] [] [] [] [] [] []; vm_compute; reflexivity. Qed.
Lemma out_char_facts c : b64std_out_char c = true -> is_ws c = false /\ (byte_n c <? 128)%N = true.
Proof.
  intros H. pose proof (out_char_facts_b c) as F. rewrite H in F. simpl in F.
  apply andb_true_iff in F. destruct F as [F1 F2]. apply negb_true_iff in F1. auto.
Qed.

Lemma take_word_nows w rest :
  str_all (fun c => negb (is_ws c)) w = true -> take_word (w ++ rest) =
  (let '(w2, r2) := take_word rest in (w ++ w2, r2)).
Proof.
  induction w as [|c r IH]; simpl; intros H.
  - destruct (take_word rest); reflexivity.
  - apply andb_true_iff in H. destruct H as [Hc Hr]. apply negb_true_iff in Hc. rewrite Hc.
    rewrite (IH Hr). destruct (take_word rest). reflexivity.
Qed.

Lemma split_max1_scheme_token scheme tok :
  str_all (fun c => negb (is_ws c)) scheme = true -> scheme <> "" ->
  str_all (fun c => negb (is_ws c)) tok = true -> tok <> "" ->
  split_max1 (scheme ++ " " ++ tok) = [scheme; tok].
Proof.
  intros Hs Hsn Ht Htn. unfold split_max1.
  assert (Hl : lstrip_ws (scheme ++ " " ++ tok) = scheme ++ " " ++ tok).
  { destruct scheme as [|c r]; [contradiction|]. simpl in Hs. apply andb_true_iff in Hs.
    destruct Hs as [Hc _]. apply negb_true_iff in Hc. cbn [append lstrip_ws]. now rewrite Hc. }
  rewrite Hl. destruct (scheme ++ " " ++ tok) eqn:E.
  - destruct scheme; [contradiction|discriminate].
  - rewrite <- E. rewrite (take_word_nows scheme (" " ++ tok) Hs).
    change (take_word (" " ++ tok)) with ("", " " ++ tok). cbv beta iota zeta. rewrite str_app_nil_r.
    change (lstrip_ws (" " ++ tok)) with (lstrip_ws tok).
    destruct tok as [|c r]; [contradiction|]. simpl in Ht. apply andb_true_iff in Ht.
    destruct Ht as [Hc _]. apply negb_true_iff in Hc. cbn [lstrip_ws]. now rewrite Hc.
Qed.

Lemma ascii_utf8_valid s : is_ascii_str s = true -> utf8_valid s = true.
Proof.
  unfold is_ascii_str. induction s as [|c r IH]; [reflexivity|]. simpl.
  intros H. apply andb_true_iff in H. destruct H as [Hc Hr]. rewrite Hc. auto.
Qed.

Lemma unquote_no_pct s : lacks "%" s -> unquote s = s.
Proof.
  unfold lacks. induction s as [|c r IH]; [reflexivity|].
  cbn [str_in]. intros H. apply orb_false_iff in H. destruct H as [Hc Hr].
  rewrite Ascii.eqb_sym in Hc. rewrite (unquote_cons_nonpct c r Hc). now rewrite IH.
Qed.

Lemma str_in_space_app a b : str_in " " (a ++ String " " b) = true.
Proof. induction a as [|c r IH]; [reflexivity|]. cbn [append str_in]. rewrite IH. apply orb_true_r. Qed.

(* visible ASCII identifier (no ':' and no '%') and secret (no '%'): recovered unchanged *)
Theorem basic_auth_roundtrip_l id sec :
  is_ascii_str id = true -> is_ascii_str sec = true ->
  lacks ":" id -> lacks "%" id -> lacks "%" sec ->
  extract_basic (Some (encode_basic id sec)) = (Some id, Some sec).
Proof.
  intros Hai Has Hc Hpi Hps. unfold extract_basic, encode_basic.
  set (tok := b64std_encode (id ++ ":" ++ sec)).
  assert (Hne : id ++ ":" ++ sec <> "") by (destruct id; discriminate).
  pose proof (b64std_out (id ++ ":" ++ sec)) as Hout. fold tok in Hout.
  assert (Htok_nows : str_all (fun c => negb (is_ws c)) tok = true).
  { eapply str_all_impl; [|exact Hout]. intros c H. destruct (out_char_facts c H) as [H1 _]. now rewrite H1. }
  assert (Htok_ascii : is_ascii_str tok = true).
  { unfold is_ascii_str. eapply str_all_impl; [|exact Hout]. intros c H. now destruct (out_char_facts c H). }
  assert (Htok_ne : tok <> "") by (apply b64std_nonempty; exact Hne).
  change ("Basic " ++ tok) with ("Basic" ++ " " ++ tok).
  assert (Heq : ("Basic" ++ " " ++ tok =? "") = false) by reflexivity.
  rewrite Heq. change ("Basic" ++ " " ++ tok) with ("Basic" ++ String " " tok) at 1. rewrite str_in_space_app. cbn [negb orb].
  rewrite (split_max1_scheme_token "Basic" tok eq_refl ltac:(discriminate) Htok_nows Htok_ne).
  change (lower "Basic" =? "basic") with true. cbn [negb]. rewrite Htok_ascii. cbn [negb].
  unfold tok. rewrite a2b_std_encode.
  assert (Hascii : is_ascii_str (id ++ ":" ++ sec) = true).
  { unfold is_ascii_str in *. now rewrite !str_all_app, Hai, Has. }
  rewrite (ascii_utf8_valid _ Hascii). cbn [negb].
  change (":" ++ sec) with (String ":" sec). rewrite (split_first_app ":" id sec Hc).
  now rewrite (unquote_no_pct id Hpi), (unquote_no_pct sec Hps).
Qed.

(* bearer token in the Authorization header, as the resource protector splits it *)
Theorem bearer_header_roundtrip_l tok :
  str_all (fun c => negb (is_ws c)) tok = true -> tok <> "" ->
  split_max1 (bearer_header tok) = ["Bearer"; tok].
Proof.
  intros H Hn. unfold bearer_header. change ("Bearer " ++ tok) with ("Bearer" ++ " " ++ tok).
  apply split_max1_scheme_token; auto. discriminate.
Qed.
