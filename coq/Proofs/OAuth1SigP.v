From Coq Require Import List NArith ZArith Bool Ascii String Lia Sorting.Sorted Permutation.
From Authlib Require Import Base.Bytes Base.Base64 Base.Percent Base.Form Base.Url Model.OAuth1Sig.
From Authlib Require Import Proofs.Base64P Proofs.FormP Proofs.UrlP.
Import ListNotations.
Open Scope string_scope.

Definition esc_char (c : ascii) : string := escape (String c "").

Lemma escape_cons c r : escape (String c r) = esc_char c ++ escape r.
Proof.
  unfold esc_char, escape. cbn [quote]. destruct (always_safe c || str_in c ""); reflexivity.
Qed.

Definition upper_hex (c : ascii) : bool := is_digit c || ((65 <=? byte_n c) && (byte_n c <=? 70))%N.

(* RFC 5849 s3.6: unreserved characters stay, everything else is %XX with upper-case hex *)
Definition esc_ok (c : ascii) : bool :=
  match esc_char c with
  | String x EmptyString => Ascii.eqb x c && always_safe c && negb (Ascii.eqb c "%")
  | String p (String h (String l EmptyString)) =>
      Ascii.eqb p "%" && negb (always_safe c) && upper_hex h && upper_hex l &&
      match hex_val h, hex_val l with
      | Some a, Some b => Ascii.eqb (n_byte (a * 16 + b)) c
      | _, _ => false
      end
  | _ => false
  end.

Lemma esc_ok_all : forall c, esc_ok c = true.
Proof. apply all_ascii. intros [] [] [] [] [] [] [] []; vm_compute; reflexivity. Qed.

Lemma esc_char_roundtrip c r : unquote (esc_char c ++ r) = String c (unquote r).
Proof.
  pose proof (esc_ok_all c) as H. unfold esc_ok in H.
  destruct (esc_char c) as [|x [|h [|l [|y t]]]] eqn:E; try discriminate H.
  - rewrite !andb_true_iff, negb_true_iff in H. destruct H as [[Hx _] Hp].
    apply Ascii.eqb_eq in Hx. subst x. cbn [append]. now rewrite unquote_cons_nonpct.
  - rewrite !andb_true_iff in H. destruct H as [[[[Hp _] _] _] H]. apply Ascii.eqb_eq in Hp. subst x.
    destruct (hex_val h) as [a|] eqn:Eh; [|discriminate]. destruct (hex_val l) as [b|] eqn:El; [|discriminate].
    apply Ascii.eqb_eq in H. cbn [append]. now rewrite (unquote_pct h l _ a b Eh El), H.
Qed.

Theorem unescape_escape_l s : unescape (escape s) = s.
Proof.
  unfold unescape. induction s as [|c r IH]; [reflexivity|].
  now rewrite escape_cons, esc_char_roundtrip, IH.
Qed.

Theorem escape_injective_l a b : escape a = escape b -> a = b.
Proof. intros H. rewrite <- (unescape_escape_l a), <- (unescape_escape_l b). now rewrite H. Qed.

(* the output alphabet *)
Definition esc_out_char (c : ascii) : bool := always_safe c || Ascii.eqb c "%".

Lemma esc_char_out : forall c, str_all esc_out_char (esc_char c) = true.
Proof. apply all_ascii. intros [] [] [] [] [] [] [] []; vm_compute; reflexivity. Qed.

Theorem escape_charset_l s : str_all esc_out_char (escape s) = true.
Proof.
  induction s as [|c r IH]; [reflexivity|]. now rewrite escape_cons, str_all_app, esc_char_out, IH.
Qed.

Lemma esc_out_not_sep : forall c, implb (esc_out_char c) (negb (Ascii.eqb c "&") && negb (Ascii.eqb c "=")) = true.
Proof. apply all_ascii. intros [] [] [] [] [] [] [] []; vm_compute; reflexivity. Qed.

Lemma escape_lacks s c : (c = "&" \/ c = "=")%char -> lacks c (escape s).
Proof.
  intros Hc. unfold lacks. pose proof (escape_charset_l s) as H.
  induction (escape s) as [|d r IH]; [reflexivity|]. simpl in *.
  apply andb_true_iff in H. destruct H as [Hd Hr].
  pose proof (esc_out_not_sep d) as F. rewrite Hd in F. simpl in F. apply andb_true_iff in F.
  destruct F as [F1 F2]. apply negb_true_iff in F1, F2.
  rewrite (IH Hr), orb_false_r. destruct Hc as [-> | ->]; rewrite Ascii.eqb_sym; assumption.
Qed.

(* ---- the HMAC / PLAINTEXT key separates its two secrets *)
Theorem signing_key_injective_l c1 t1 c2 t2 :
  signing_key c1 t1 = signing_key c2 t2 -> c1 = c2 /\ t1 = t2.
Proof.
  unfold signing_key. intros H.
  assert (H1 := split_first_app "&" (escape c1) (escape t1) (escape_lacks c1 "&" (or_introl eq_refl))).
  assert (H2 := split_first_app "&" (escape c2) (escape t2) (escape_lacks c2 "&" (or_introl eq_refl))).
  change ("&" ++ escape t1) with (String "&" (escape t1)) in H.
  change ("&" ++ escape t2) with (String "&" (escape t2)) in H.
  rewrite H in H1. rewrite H1 in H2. injection H2 as E1 E2.
  split; now apply escape_injective_l.
Qed.

(* ---- the three fields of the base string are separated unambiguously *)
Theorem base_string_fields_l m u ps h b :
  construct_base_string m u ps h = Some b ->
  exists bu, normalize_base_string_uri u h = Some bu /\
             split_c "&" b = [escape (upper m); escape bu;
                              escape (normalize_parameters (filter (fun kv => negb (sig_excluded (fst kv))) ps))].
Proof.
  unfold construct_base_string. destruct (normalize_base_string_uri u h) as [bu|]; [|discriminate].
  intros H. injection H as <-. exists bu. split; [reflexivity|].
  change ("&" ++ escape bu ++ "&" ++ escape (normalize_parameters (filter (fun kv => negb (sig_excluded (fst kv))) ps)))
    with (String "&" (escape bu ++ String "&" (escape (normalize_parameters (filter (fun kv => negb (sig_excluded (fst kv))) ps))))).
  rewrite split_c_app by (apply escape_lacks; auto).
  rewrite split_c_app by (apply escape_lacks; auto).
  rewrite split_c_lacks by (apply escape_lacks; auto). reflexivity.
Qed.

Theorem base_string_injective_l m1 u1 p1 h1 m2 u2 p2 h2 b :
  construct_base_string m1 u1 p1 h1 = Some b -> construct_base_string m2 u2 p2 h2 = Some b ->
  upper m1 = upper m2 /\
  normalize_base_string_uri u1 h1 = normalize_base_string_uri u2 h2 /\
  normalize_parameters (filter (fun kv => negb (sig_excluded (fst kv))) p1) =
  normalize_parameters (filter (fun kv => negb (sig_excluded (fst kv))) p2).
Proof.
  intros H1 H2.
  destruct (base_string_fields_l _ _ _ _ _ H1) as (bu1 & Hb1 & S1).
  destruct (base_string_fields_l _ _ _ _ _ H2) as (bu2 & Hb2 & S2).
  rewrite S1 in S2. injection S2 as Em Eu Ep.
  apply escape_injective_l in Em, Eu, Ep. rewrite Hb1, Hb2, Eu. auto.
Qed.

(* ---- parameter normalisation: sorted permutation of the encoded pairs *)
Definition ple (a b : pair_s) : Prop := pair_leb a b = true.

Lemma compare_lt_gt a b : String.compare a b = Gt -> String.compare b a = Lt.
Proof. intros H. rewrite String.compare_antisym, H. reflexivity. Qed.

Lemma compare_refl s : String.compare s s = Eq.
Proof. pose proof (String.compare_antisym s s) as H. destruct (String.compare s s); simpl in H; congruence. Qed.

Lemma pair_leb_total a b : pair_leb a b = true \/ pair_leb b a = true.
Proof.
  unfold pair_leb. destruct (String.compare (fst a) (fst b)) eqn:E.
  - apply String.compare_eq_iff in E. rewrite E.
    rewrite compare_refl.
    apply String.leb_total.
  - auto.
  - right. now rewrite (compare_lt_gt _ _ E).
Qed.

Lemma insert_pair_sorted x l : Sorted ple l -> Sorted ple (insert_pair x l).
Proof.
  induction l as [|y r IH]; intros Hs; simpl; [repeat constructor|].
  destruct (pair_leb x y) eqn:E.
  - constructor; [assumption|]. constructor. exact E.
  - inversion Hs as [|? ? Hr Hhd]; subst. constructor; [auto|].
    destruct r as [|z r']; simpl.
    + constructor. destruct (pair_leb_total y x) as [H|H]; [exact H|]. unfold ple. congruence.
    + destruct (pair_leb x z) eqn:E2.
      * constructor. destruct (pair_leb_total y x) as [H|H]; [exact H|]. congruence.
      * inversion Hhd; subst. constructor. assumption.
Qed.

Lemma sort_pairs_sorted l : Sorted ple (sort_pairs l).
Proof. induction l; simpl; [constructor|]. now apply insert_pair_sorted. Qed.

Lemma insert_pair_perm x l : Permutation (x :: l) (insert_pair x l).
Proof.
  induction l as [|y r IH]; simpl; [reflexivity|].
  destruct (pair_leb x y); [reflexivity|]. rewrite perm_swap. now constructor.
Qed.

Lemma sort_pairs_perm l : Permutation l (sort_pairs l).
Proof.
  induction l as [|x r IH]; simpl; [reflexivity|]. rewrite <- insert_pair_perm. now constructor.
Qed.

(* reading the normalised string back *)
Definition kv_text (kv : pair_s) : string := fst kv ++ "=" ++ snd kv.

Definition read_kv (p : string) : pair_s :=
  match split_first "=" p with (k, Some v) => (k, v) | (k, None) => (k, "") end.

Definition escaped_pair (kv : pair_s) : Prop := lacks "&" (fst kv) /\ lacks "=" (fst kv) /\ lacks "&" (snd kv).

Lemma read_kv_text kv : lacks "=" (fst kv) -> read_kv (kv_text kv) = kv.
Proof.
  intros H. unfold read_kv, kv_text. change ("=" ++ snd kv) with (String "=" (snd kv)).
  rewrite split_first_app by assumption. now destruct kv.
Qed.

Lemma kv_text_lacks_amp kv : escaped_pair kv -> lacks "&" (kv_text kv).
Proof.
  intros (H1 & _ & H3). unfold kv_text. apply lacks_app. split; [assumption|].
  apply (lacks_app "&" "=" _). split; [reflexivity|assumption].
Qed.

Lemma split_join_kv l :
  Forall escaped_pair l -> l <> [] -> map read_kv (split_c "&" (join "&" (map kv_text l))) = l.
Proof.
  induction l as [|kv r IH]; intros HF Hne; [contradiction|].
  inversion HF as [|? ? Hk Hr]; subst.
  destruct r as [|kv2 r'].
  - simpl. rewrite split_c_lacks by (now apply kv_text_lacks_amp). simpl.
    rewrite read_kv_text by (apply Hk). reflexivity.
  - change (join "&" (map kv_text (kv :: kv2 :: r')))
      with (kv_text kv ++ String "&" (join "&" (map kv_text (kv2 :: r')))).
    rewrite split_c_app by (now apply kv_text_lacks_amp). cbn [map].
    rewrite read_kv_text by (apply Hk). f_equal. apply IH; [assumption|discriminate].
Qed.

Definition esc_pair (kv : pair_s) : pair_s := (escape (fst kv), escape (snd kv)).

Lemma esc_pair_escaped kv : escaped_pair (esc_pair kv).
Proof. unfold escaped_pair, esc_pair. cbn [fst snd]. repeat split; apply escape_lacks; auto. Qed.

Lemma esc_pair_injective a b : esc_pair a = esc_pair b -> a = b.
Proof.
  unfold esc_pair. intros H. injection H as H1 H2. apply escape_injective_l in H1, H2.
  destruct a, b; simpl in *; congruence.
Qed.

Lemma Forall_perm {A} (P : A -> Prop) l l' : Permutation l l' -> Forall P l -> Forall P l'.
Proof. intros Hp HF. apply Forall_forall. intros x Hx. rewrite Forall_forall in HF. apply HF. now rewrite Hp. Qed.

Lemma normalize_readback ps :
  ps <> [] ->
  map read_kv (split_c "&" (normalize_parameters ps)) = sort_pairs (map esc_pair ps).
Proof.
  intros Hne. unfold normalize_parameters. fold esc_pair. fold kv_text.
  apply split_join_kv.
  - apply (Forall_perm _ _ _ (sort_pairs_perm _)). apply Forall_forall. intros x Hx.
    apply in_map_iff in Hx. destruct Hx as (kv & <- & _). apply esc_pair_escaped.
  - intros E. assert (P := sort_pairs_perm (map esc_pair ps)). rewrite E in P.
    symmetry in P. apply Permutation_nil in P. destruct ps; [contradiction|discriminate].
Qed.

Lemma map_injective_eq {A B} (f : A -> B) l1 l2 :
  (forall a b, f a = f b -> a = b) -> map f l1 = map f l2 -> l1 = l2.
Proof.
  intros Hinj. revert l2. induction l1 as [|x r IH]; intros [|y r2] H; try discriminate; [reflexivity|].
  simpl in H. injection H as H1 H2. f_equal; auto.
Qed.

(* equal normalised strings come from the same multiset of parameters *)
Theorem normalize_parameters_injective_l p1 p2 :
  p1 <> [] -> p2 <> [] ->
  normalize_parameters p1 = normalize_parameters p2 -> Permutation p1 p2.
Proof.
  intros H1 H2 E.
  assert (S : sort_pairs (map esc_pair p1) = sort_pairs (map esc_pair p2)).
  { rewrite <- (normalize_readback p1 H1), <- (normalize_readback p2 H2). now rewrite E. }
  assert (P : Permutation (map esc_pair p1) (map esc_pair p2)).
  { rewrite (sort_pairs_perm (map esc_pair p1)), S. symmetry. apply sort_pairs_perm. }
  destruct (Permutation_map_inv _ _ P) as (l3 & E3 & P3).
  apply (map_injective_eq _ _ _ esc_pair_injective) in E3. subst l3. now symmetry.
Qed.

(* ---- tampering, under an ideal MAC: equal tags only for equal key and message *)
Section Tamper.
Variable hmac_sha1 : string -> string -> string.
Hypothesis mac_ideal : forall k1 m1 k2 m2, hmac_sha1 k1 m1 = hmac_sha1 k2 m2 -> k1 = k2 /\ m1 = m2.

Lemma b64std_encode_injective a b : b64std_encode a = b64std_encode b -> a = b.
Proof.
  intros H. assert (Ha := a2b_std_encode a). assert (Hb := a2b_std_encode b).
  rewrite H in Ha. rewrite Ha in Hb. now injection Hb.
Qed.

Theorem oauth1_tamper_l m1 u1 p1 h1 c1 t1 m2 u2 p2 h2 c2 t2 b1 b2 :
  construct_base_string m1 u1 p1 h1 = Some b1 -> construct_base_string m2 u2 p2 h2 = Some b2 ->
  verify_hmac_sha1 hmac_sha1 b2 c2 t2 (hmac_sha1_signature hmac_sha1 b1 c1 t1) = true ->
  c1 = c2 /\ t1 = t2 /\ upper m1 = upper m2 /\
  normalize_base_string_uri u1 h1 = normalize_base_string_uri u2 h2 /\
  normalize_parameters (filter (fun kv => negb (sig_excluded (fst kv))) p1) =
  normalize_parameters (filter (fun kv => negb (sig_excluded (fst kv))) p2).
Proof.
  intros H1 H2 Hv. unfold verify_hmac_sha1, hmac_sha1_signature in Hv.
  apply String.eqb_eq in Hv. apply b64std_encode_injective in Hv.
  apply mac_ideal in Hv. destruct Hv as [Hk Hb]. apply signing_key_injective_l in Hk.
  destruct Hk as [-> ->]. subst b2.
  destruct (base_string_injective_l _ _ _ _ _ _ _ _ _ H1 H2) as (A & B & C). auto.
Qed.
End Tamper.
