(* C19: storage faults.  Generic facts about programs over callbacks, then facts about every flow. *)
From Coq Require Import List NArith ZArith Bool Ascii String Lia Arith.
From Authlib Require Import Base.Bytes Model.FaultFlow.
Import ListNotations.
Open Scope string_scope.
Open Scope list_scope.

(* ---------- generic: a fault surfaces, and only a fault changes anything ---------- *)
Lemma exec_nofault_done p : forall s i s' o tr, exec p s None i = (s', o, tr) -> exists r, o = Done r.
Proof.
  induction p as [r|name eff k IH|eff k IH]; intros s i s' o tr H; cbn in H.
  - injection H as <- <- <-. eauto.
  - destruct (eff s) as [s1 v]. destruct (exec (k v) s1 None (S i)) as [[s2 o2] tr2] eqn:E.
    injection H as <- <- <-. eapply IH; eauto.
  - destruct (eff s) as [s1 v]. eapply IH; eauto.
Qed.

(* number of callbacks of the fault-free execution = length of its trace *)
Definition calls (p : prog) (s : fstore) : nat := List.length (snd (exec p s None 0)).

Lemma exec_trace_shift p : forall s f i j,
  snd (exec p s (option_map (fun k => k + j) f) (i + j)) = snd (exec p s f i) /\
  fst (fst (exec p s (option_map (fun k => k + j) f) (i + j))) = fst (fst (exec p s f i)).
Proof.
  induction p as [r|name eff k IH|eff k IH]; intros s f i j; cbn.
  - auto.
  - assert (E : (match option_map (fun k0 => k0 + j) f with Some i0 => Nat.eqb i0 (i + j) | None => false end)
                = (match f with Some i0 => Nat.eqb i0 i | None => false end)).
    { destruct f as [x|]; cbn; auto. destruct (Nat.eqb_spec x i), (Nat.eqb_spec (x + j) (i + j)); auto; lia. }
    rewrite E. destruct (match f with Some i0 => Nat.eqb i0 i | None => false end); cbn; auto.
    destruct (eff s) as [s1 v]. specialize (IH v s1 f (S i) j). cbn in IH.
    destruct (exec (k v) s1 (option_map (fun k0 => k0 + j) f) (S (i + j))) as [[a b] c].
    destruct (exec (k v) s1 f (S i)) as [[a' b'] c']. cbn in *. destruct IH as [-> ->]. auto.
  - destruct (eff s) as [s1 v]. apply IH.
Qed.

(* a fault at an index the execution reaches is raised -- nothing is returned *)
Lemma exec_fault_raised p : forall s k i s' o tr,
  exec p s (Some k) i = (s', o, tr) -> i <= k -> k < i + List.length (snd (exec p s None i)) ->
  exists name, o = Raised k name.
Proof.
  induction p as [r|name eff kk IH|eff kk IH]; intros s k i s' o tr H L U; cbn in *.
  - lia.
  - destruct (Nat.eqb_spec k i) as [->|NE].
    + injection H as <- <- <-. eauto.
    + destruct (eff s) as [s1 v].
      destruct (exec (kk v) s1 (Some k) (S i)) as [[s2 o2] tr2] eqn:E.
      destruct (exec (kk v) s1 None (S i)) as [[s3 o3] tr3] eqn:E0. cbn in U.
      injection H as <- <- <-. eapply (IH v s1 k (S i)); eauto; [lia|]. rewrite E0. cbn. lia.
  - destruct (eff s) as [s1 v]. eapply IH; eauto.
Qed.

(* a fault point beyond the callbacks of the request changes nothing *)
Lemma exec_fault_beyond p : forall s k i,
  i + List.length (snd (exec p s None i)) <= k -> exec p s (Some k) i = exec p s None i.
Proof.
  induction p as [r|name eff kk IH|eff kk IH]; intros s k i U; cbn in *.
  - reflexivity.
  - destruct (eff s) as [s1 v].
    destruct (exec (kk v) s1 None (S i)) as [[s3 o3] tr3] eqn:E0. cbn in U.
    destruct (Nat.eqb_spec k i) as [->|NE]; [lia|].
    rewrite (IH v s1 k (S i)); [rewrite E0; reflexivity|]. rewrite E0. cbn. lia.
  - destruct (eff s) as [s1 v]. apply IH, U.
Qed.

(* ---------- persistence of what a response hands out ---------- *)
Definition persisted (r : fresp) (s : fstore) : bool :=
  match r with
  | ROkCode n => existsb (fun c => Nat.eqb (fc_id c) n) (f_codes s)
  | ROkToken a _ => existsb (fun t => Nat.eqb (ft_id t) a) (f_toks s)
  | ROkDevice d _ => existsb (fun x => Nat.eqb (fd_id x) d) (f_devs s)
  | ROkTemp n => existsb (fun t => Nat.eqb (fp_id t) n) (f_temps s)
  | ROkVerifier t v => match find_ftemp (f_temps s) t with
                       | Some tp => match fp_verifier tp with Some x => Nat.eqb x v | None => false end
                       | None => false end
  | ROkToken1 n => existsb (fun t => Nat.eqb (f1_id t) n) (f_tok1 s)
  | _ => true
  end.

Lemma existsb_snoc {A} (f : A -> bool) l x : f x = true -> existsb f (l ++ [x]) = true.
Proof. intros H. rewrite existsb_app. cbn. rewrite H. apply orb_true_iff. right. reflexivity. Qed.

Lemma existsb_revoke f_id l id : forall n,
  f_id = (fun t => Nat.eqb (ft_id t) n) ->
  existsb f_id (revoke_id l id) = existsb f_id l.
Proof.
  intros n ->. unfold revoke_id. induction l as [|t r IH]; cbn [map existsb]; auto. rewrite IH.
  destruct (Nat.eqb (ft_id t) id); cbn; reflexivity.
Qed.

Ltac bash_run :=
  repeat match goal with
         | H : context [match ?x with _ => _ end] |- _ =>
             match x with
             | exec _ _ _ _ => fail 1
             | _ => destruct x eqn:?
             end
         | H : context [if ?b then _ else _] |- _ => destruct b eqn:?
         | H : (_, _, _) = (_, _, _) |- _ => injection H as <- <- <-
         | H : (_, _) = (_, _) |- _ => injection H; clear H; intros; subst
         end.

Lemma fault_surfaces_l p s k s' o tr :
  run_prog p s (Some k) = (s', o, tr) -> k < calls p s -> exists name, o = Raised k name.
Proof. unfold run_prog, calls. intros H L. eapply exec_fault_raised; eauto; lia. Qed.

Lemma fault_beyond_l p s k : calls p s <= k -> run_prog p s (Some k) = run_prog p s None.
Proof. unfold run_prog, calls. intros L. apply exec_fault_beyond. lia. Qed.

Lemma find_by_refresh_app l x r t : find_by_refresh l r = Some t -> find_by_refresh (l ++ x) r = Some t.
Proof.
  induction l as [|a q IH]; cbn; [discriminate|].
  destruct (_ && _); auto.
Qed.

(* OAuth 1 requests carry a nonce: the retried request is signed afresh, with a nonce not yet recorded *)
Definition with_nonce (q : freq) (n : string) : freq :=
  {| q_kind := q_kind q; q_client := q_client q; q_bad_secret := q_bad_secret q; q_user := q_user q; q_flag := q_flag q;
     q_ref := q_ref q; q_tref := q_tref q; q_sig_bad := q_sig_bad q; q_nonce := n; q_approve := q_approve q |}.


(* ---------- symbolic execution of the handlers ---------- *)
Ltac unfold_handlers H :=
  cbn [exec h_authorize h_implicit h_redeem h_refresh h_password h_client_credentials h_device_authorize h_decide h_poll
       h_revoke h_jwt_bearer client_may_jwt h1_initiate h1_authorize h1_exchange h1_access cb_query_client gen save_token_then nonce_check
       refuse_and_delete client_ok ctr_of fst snd
       f_codes f_toks f_devs f_grants f_temps f_tok1 f_nonces f_ctr
       upd_ctr set_codes set_toks set_devs set_grants set_temps set_tok1 set_nonces
       with_nonce q_kind q_client q_bad_secret q_user q_flag q_ref q_tref q_sig_bad q_nonce q_approve] in H.

Ltac use_facts H :=
  repeat match goal with
         | E : ?x = _ |- _ =>
             lazymatch E with H => fail | _ => idtac end;
             lazymatch x with
             | context [match _ with _ => _ end] => fail
             | exec _ _ _ _ => fail
             | _ => idtac
             end;
             lazymatch type of H with context [x] => idtac end;
             tryif is_var x then fail else rewrite E in H
         | E : find_by_refresh ?l ?r = Some _ |- _ =>
             match type of H with context [find_by_refresh (l ++ ?y) r] =>
               rewrite (find_by_refresh_app l y r _ E) in H end
         end.

Ltac simp_run H := repeat (progress (unfold_handlers H; use_facts H)).

Ltac step_run H :=
  simp_run H;
  match type of H with
  | context [match ?x with _ => _ end] =>
      lazymatch x with
      | exec _ _ _ _ => fail
      | context [match _ with _ => _ end] => fail
      | context [if _ then _ else _] => fail
      | _ => destruct x eqn:?
      end
  | context [if ?b then _ else _] =>
      lazymatch b with
      | context [if _ then _ else _] => fail
      | context [match _ with _ => _ end] => fail
      | _ => destruct b eqn:?
      end
  end.

Ltac run_all H := repeat step_run H; simp_run H.

Ltac fin_persist :=
  cbn; rewrite ?Nat.eqb_refl; cbn; auto;
  try (erewrite existsb_revoke by reflexivity);
  try (apply existsb_snoc; cbn; apply Nat.eqb_refl).

(* whatever a response hands out is in the store at that moment -- with or without a fault elsewhere *)
Lemma handed_out_is_persisted_l q s f s' r tr :
  run_prog (handler q) s f = (s', Done r, tr) -> persisted r s' = true.
Proof.
  unfold run_prog, handler. intros H.
  repeat match type of H with context [if String.eqb (q_kind q) ?k then _ else _] => destruct (String.eqb (q_kind q) k) end.
  all: run_all H.
  all: try discriminate H.
  all: injection H as <- <- <-.
  all: fin_persist.
  all: try apply Nat.eqb_refl.
Qed.

(* ---------- consumed only after the replacement is stored ---------- *)
Lemma redeem_shape_l q s f s' o tr :
  run_prog (h_redeem q) s f = (s', o, tr) ->
  (f_codes s' = f_codes s /\ (f_toks s' = f_toks s \/ exists t, f_toks s' = f_toks s ++ [t])) \/
  (exists t cd, f_toks s' = f_toks s ++ [t] /\ ft_user t = Some (fc_user cd) /\ ft_client t = fc_client cd /\
                find_fcode (f_codes s) (q_ref q) = Some cd /\
                f_codes s' = filter (fun x => negb (Nat.eqb (fc_id x) (fc_id cd))) (f_codes s)).
Proof.
  unfold run_prog. intros H. run_all H.
  all: injection H as <- <- <-; cbn; eauto 8.
  all: right; do 2 eexists; repeat split; eauto.
  all: cbn; symmetry; apply String.eqb_eq; assumption.
Qed.

Lemma refresh_shape_l q s f s' o tr :
  run_prog (h_refresh q) s f = (s', o, tr) ->
  f_toks s' = f_toks s \/ (exists t, f_toks s' = f_toks s ++ [t]) \/
  (exists t old, find_by_refresh (f_toks s) (q_ref q) = Some old /\ ft_user t = ft_user old /\
                 f_toks s' = revoke_id (f_toks s ++ [t]) (ft_id old)).
Proof.
  unfold run_prog. intros H. run_all H.
  all: injection H as <- <- <-; cbn; eauto 8.
  all: right; right.
  all: match goal with |- context [revoke_id (_ ++ [?t]) (ft_id ?old)] => exists t, old end.
  all: repeat split; cbn; auto.
Qed.

Definition is_refusal (o : outcome) : bool := match o with Done (RErr _) => true | _ => false end.

Lemma exchange1_shape_l q s f s' o tr :
  run_prog (h1_exchange q) s f = (s', o, tr) -> is_refusal o = false ->
  (f_temps s' = f_temps s /\ (f_tok1 s' = f_tok1 s \/ exists k1, f_tok1 s' = k1 :: f_tok1 s)) \/
  (exists k1 t, find_ftemp (f_temps s) (q_ref q) = Some t /\ f1_from k1 = fp_id t /\ f1_user k1 = fp_user t /\
                f_tok1 s' = k1 :: f_tok1 s /\ f_temps s' = del_ftemp (f_temps s) (q_ref q)).
Proof.
  unfold run_prog. intros H R. run_all H.
  all: injection H as <- <- <-; cbn in *; try discriminate R; eauto 8.
  all: right; do 2 eexists; repeat split; eauto.
Qed.

(* the other flows never remove a code or temporary credential and never revoke a token *)
Definition consuming (k : string) : bool :=
  list_in_str k ["redeem"; "refresh"; "revoke"; "o1_exchange"].

Lemma prefix_refl {A} (l : list A) : exists x, l ++ x = l.
Proof. exists []. apply app_nil_r. Qed.

Lemma nonconsuming_l q s f s' o tr :
  consuming (q_kind q) = false ->
  run_prog (handler q) s f = (s', o, tr) ->
  (exists x, f_codes s' = x ++ f_codes s) /\ (exists x, f_toks s' = f_toks s ++ x) /\
  (exists x, f_temps s' = x ++ f_temps s) /\ (exists x, f_tok1 s' = x ++ f_tok1 s).
Proof.
  unfold run_prog, handler, consuming. intros C H.
  repeat match type of H with context [if String.eqb (q_kind q) ?k then _ else _] =>
    destruct (String.eqb (q_kind q) k) eqn:? end.
  all: try (match goal with E : String.eqb (q_kind _) _ = true |- _ => apply String.eqb_eq in E; rewrite E in C end;
            cbn in C; discriminate C).
  all: run_all H.
  all: injection H as <- <- <-; cbn.
  all: repeat split; try (exists []; reflexivity); try (exists []; symmetry; apply app_nil_r);
       try (eexists [_]; reflexivity).
Qed.

(* ---------- no lost grant: once the fault clears, the request that would have succeeded succeeds ---------- *)
Definition is_ok (r : fresp) : bool := match r with RErr _ => false | _ => true end.


Ltac unfold_goal :=
  cbn [exec h_authorize h_implicit h_redeem h_refresh h_password h_client_credentials h_device_authorize h_decide h_poll
       h_revoke h_jwt_bearer client_may_jwt h1_initiate h1_authorize h1_exchange h1_access cb_query_client gen save_token_then nonce_check
       refuse_and_delete client_ok ctr_of fst snd
       f_codes f_toks f_devs f_grants f_temps f_tok1 f_nonces f_ctr
       upd_ctr set_codes set_toks set_devs set_grants set_temps set_tok1 set_nonces].

Ltac use_facts_goal :=
  repeat match goal with
         | E : ?x = _ |- context [?x] => tryif is_var x then fail else rewrite E
         | E : find_by_refresh ?l ?r = Some _ |- context [find_by_refresh (?l ++ ?y) ?r] =>
             rewrite (find_by_refresh_app l y r _ E)
         end.

Ltac retry_ok := repeat (unfold_goal; use_facts_goal); do 3 eexists; split; reflexivity.

Definition oauth2_kind (k : string) : bool :=
  list_in_str k ["authorize"; "implicit"; "redeem"; "refresh"; "password"; "client_credentials"; "device_authorize";
                 "decide"; "poll"; "revoke"; "jwt_bearer"].

