(* C12: invariants of the OAuth 1 provider over every request history: replay defence and single use. *)
From Coq Require Import List NArith ZArith Bool Ascii String Lia.
From Authlib Require Import Base.Bytes Base.Form Base.Url Base.PyInt Model.OAuth1Sig Model.Wire Model.OAuth1Provider
  Proofs.OAuth1ProviderP.
Import ListNotations.
Open Scope string_scope.
Open Scope list_scope.

Section H.
Variable hmac_sha1 : string -> string -> string.
Variable rsa_verify : string -> string -> string -> bool.
Variable name_of : string -> nat -> string.
Variable registry : list oclient.
Variable supported : list string.
Variable expiry_time nonce_ttl temp_ttl : Z.

Notation check_ts_nonce := (check_ts_nonce expiry_time nonce_ttl).
Notation check_sig := (check_sig hmac_sha1 rsa_verify supported).
Notation initiate := (initiate hmac_sha1 rsa_verify name_of registry supported expiry_time nonce_ttl temp_ttl).
Notation authorize := (authorize name_of registry temp_ttl).
Notation exchange := (exchange hmac_sha1 rsa_verify name_of registry supported expiry_time nonce_ttl).
Notation access := (access hmac_sha1 rsa_verify registry supported expiry_time nonce_ttl).
Notation pstep := (pstep hmac_sha1 rsa_verify name_of registry supported expiry_time nonce_ttl temp_ttl).
Notation prun_from := (prun_from hmac_sha1 rsa_verify name_of registry supported expiry_time nonce_ttl temp_ttl).
Notation accepted_sound := (accepted_sound hmac_sha1 rsa_verify name_of registry supported expiry_time nonce_ttl temp_ttl).
Notation check_ts_nonce_frame := (check_ts_nonce_frame expiry_time nonce_ttl).
Notation check_ts_nonce_ok := (check_ts_nonce_ok expiry_time nonce_ttl).
Notation with_nonce := (with_nonce nonce_ttl).

(* ---------- what one step can do to the state ---------- *)
Inductive shape (s s' : pst) : Prop :=
| ShSame : p_temps s' = p_temps s -> p_toks s' = p_toks s -> p_ctr s' = p_ctr s -> shape s s'
| ShDrop tok : p_temps s' = del_temp (p_temps s) tok -> p_toks s' = p_toks s -> p_ctr s' = p_ctr s -> shape s s'
| ShInit t : p_temps s' = t :: p_temps s -> p_toks s' = p_toks s -> p_ctr s' = S (p_ctr s) ->
             tp_token t = name_of "t" (p_ctr s) -> tp_verifier t = None -> shape s s'
| ShAuth t0 t : In t0 (p_temps s) -> p_temps s' = t :: p_temps s -> tp_token t = tp_token t0 -> tp_user t <> None ->
                p_toks s' = p_toks s -> p_ctr s' = S (p_ctr s) -> shape s s'
| ShExch t k : In t (p_temps s) -> p_toks s' = k :: p_toks s -> tk_from k = tp_token t ->
               p_temps s' = del_temp (p_temps s) (tp_token t) -> p_ctr s' = S (p_ctr s) -> shape s s'.

Definition nonce_frame (s s' : pst) : Prop :=
  (p_now s <= p_now s')%Z /\
  (p_nonces s' = p_nonces s \/
   exists key, p_nonces s' = (key, (p_now s + nonce_ttl)%Z) :: p_nonces s /\ p_now s' = p_now s).

Lemma drop_temp_nonces s ps : p_nonces (drop_temp s ps) = p_nonces s /\ p_now (drop_temp s ps) = p_now s.
Proof. unfold drop_temp. destruct (truthy _); auto. Qed.

Lemma drop_temp_shape s0 s ps :
  p_temps s = p_temps s0 -> p_toks s = p_toks s0 -> p_ctr s = p_ctr s0 -> shape s0 (drop_temp s ps).
Proof.
  intros A B C. unfold drop_temp. destruct (truthy _).
  - eapply ShDrop; cbn; eauto. rewrite A. reflexivity.
  - apply ShSame; auto.
Qed.

Lemma frame_of s key s1 :
  (s1 = s \/ s1 = with_nonce s key) ->
  nonce_frame s s1.
Proof.
  intros [->| ->]; split; cbn; try lia; auto. right. eauto.
Qed.

Lemma nonce_frame_drop s s1 ps : nonce_frame s s1 -> nonce_frame s (drop_temp s1 ps).
Proof. unfold nonce_frame. destruct (drop_temp_nonces s1 ps) as [-> ->]. auto. Qed.

Lemma nonce_frame_refl s : nonce_frame s s.
Proof. split; [lia|auto]. Qed.

Ltac bash H :=
  repeat match type of H with
         | context [match ?x with _ => _ end] => destruct x eqn:?
         | context [if ?b then _ else _] => destruct b eqn:?
         end.
Ltac use_frame Fr :=
  try match goal with E : OAuth1Provider.check_ts_nonce _ _ _ _ = _ |- _ => rewrite E in Fr end.

Lemma initiate_step s r s' out : initiate s r = (s', out) -> shape s s' /\ nonce_frame s s'.
Proof.
  unfold OAuth1Provider.initiate. intros H.
  destruct (oauth_params r) as [ps|]; [|injection H as <- <-; split; [apply ShSame; auto|apply nonce_frame_refl]].
  pose proof (check_ts_nonce_frame s ps) as Fr.
  bash H; injection H as <- <-; try (split; [apply ShSame; auto|apply nonce_frame_refl]);
    use_frame Fr; destruct Fr as [A [B [C [D E]]]].
  all: try (split; [apply ShSame; auto | eapply frame_of; eauto]; fail).
  split.
  + eapply ShInit; cbn; [rewrite A; reflexivity|congruence|congruence|cbn; congruence|reflexivity].
  + pose proof (frame_of _ _ _ E) as [F1 F2]. split; cbn; auto.
Qed.

Lemma authorize_step s r u s' out : authorize s r u = (s', out) -> shape s s' /\ nonce_frame s s'.
Proof.
  unfold OAuth1Provider.authorize. intros H.
  bash H; injection H as <- <-; try (split; [apply ShSame; auto|apply nonce_frame_refl]).
  all: match goal with F : find_temp _ _ _ = Some ?t |- _ => destruct (find_temp_In _ _ _ _ F) as [I [T L]] end.
  all: split; [|split; cbn; [lia|auto]].
  all: eapply ShAuth; cbn; eauto; discriminate.
Qed.

Lemma exchange_step s r s' out : exchange s r = (s', out) -> shape s s' /\ nonce_frame s s'.
Proof.
  unfold OAuth1Provider.exchange. intros H.
  destruct (oauth_params r) as [ps|]; [|injection H as <- <-; split; [apply ShSame; auto|apply nonce_frame_refl]].
  pose proof (check_ts_nonce_frame s ps) as Fr.
  bash H; injection H as <- <-;
    try (split; [apply ShSame; auto|apply nonce_frame_refl]);
    try (split; [apply drop_temp_shape; auto | apply nonce_frame_drop, nonce_frame_refl]);
    use_frame Fr; destruct Fr as [A [B [C [D E]]]].
  all: try (split; [apply drop_temp_shape; auto | eapply nonce_frame_drop, frame_of; eauto]; fail).
  match goal with F : find_temp _ _ _ = Some ?t |- _ => destruct (find_temp_In _ _ _ _ F) as [I [T L]] end.
  split.
  + unfold drop_temp.
    destruct (truthy (getp ps "oauth_token")) eqn:TT; [|cbn in *; congruence].
    match goal with F : find_temp _ _ _ = Some ?t |- _ => eapply ShExch with (t := t) end; cbn;
      [exact I | rewrite B; reflexivity | reflexivity | rewrite A, T; reflexivity | congruence].
  + apply nonce_frame_drop. pose proof (frame_of _ _ _ E) as [F1 F2]. split; cbn; auto.
Qed.

Lemma access_step s r s' out : access s r = (s', out) -> shape s s' /\ nonce_frame s s'.
Proof.
  unfold OAuth1Provider.access. intros H.
  destruct (oauth_params r) as [ps|]; [|injection H as <- <-; split; [apply ShSame; auto|apply nonce_frame_refl]].
  pose proof (check_ts_nonce_frame s ps) as Fr.
  bash H; injection H as <- <-; try (split; [apply ShSame; auto|apply nonce_frame_refl]);
    use_frame Fr; destruct Fr as [A [B [C [D E]]]]; (split; [apply ShSame; auto | eapply frame_of; eauto]).
Qed.

Lemma pstep_step s o s' out : pstep s o = (s', out) -> shape s s' /\ nonce_frame s s'.
Proof.
  destruct o; cbn.
  - apply initiate_step.
  - apply authorize_step.
  - apply exchange_step.
  - apply access_step.
  - intros H. injection H as <- <-. split; [apply ShSame; auto|]. split; cbn; [lia|auto].
Qed.

(* ---------- the nonce table along a history ---------- *)
Fixpoint nexp (l : list (string * Z)) (key : string) : option Z :=
  match l with
  | [] => None
  | (k, e) :: r => if String.eqb k key then Some e else nexp r key
  end.

Lemma nonce_seen_nexp l now key :
  nonce_seen l now key = match nexp l key with Some e => Z.ltb now e | None => false end.
Proof. induction l as [|[k e] r IH]; cbn; auto. destruct (String.eqb k key); auto. Qed.

Definition nonce_inv (s : pst) : Prop := forall k e, In (k, e) (p_nonces s) -> (e <= p_now s + nonce_ttl)%Z.

Lemma nexp_In l key e : nexp l key = Some e -> In (key, e) l.
Proof.
  induction l as [|[k e'] r IH]; cbn; [discriminate|].
  destruct (String.eqb k key) eqn:E.
  - intros H; injection H as ->. apply String.eqb_eq in E. subst. auto.
  - auto.
Qed.

Lemma frame_nonce s s' :
  nonce_frame s s' -> nonce_inv s ->
  nonce_inv s' /\ (p_now s <= p_now s')%Z /\
  forall key e, nexp (p_nonces s) key = Some e -> exists e', nexp (p_nonces s') key = Some e' /\ (e <= e')%Z.
Proof.
  intros [N [F|[k [F T]]]] I.
  - split; [|split; auto].
    + intros k e H. rewrite F in H. specialize (I k e H). lia.
    + intros key e H. rewrite F. exists e. split; [auto|lia].
  - split; [|split; auto].
    + intros k' e H. rewrite F in H. destruct H as [H|H].
      * injection H as <- <-. lia.
      * specialize (I k' e H). lia.
    + intros key e H. rewrite F. cbn. destruct (String.eqb k key) eqn:E.
      * exists (p_now s + nonce_ttl)%Z. split; auto. apply nexp_In in H. apply (I key e H).
      * exists e. split; [auto|lia].
Qed.

Lemma prun_from_cons s o r : prun_from s (o :: r) = prun_from (fst (pstep s o)) r.
Proof. reflexivity. Qed.

Lemma run_nonce ops : forall s,
  nonce_inv s ->
  nonce_inv (prun_from s ops) /\ (p_now s <= p_now (prun_from s ops))%Z /\
  forall key e, nexp (p_nonces s) key = Some e ->
    exists e', nexp (p_nonces (prun_from s ops)) key = Some e' /\ (e <= e')%Z.
Proof.
  induction ops as [|o r IH]; intros s I.
  - cbn. split; auto. split; [lia|]. intros key e H. exists e. split; [auto|lia].
  - rewrite prun_from_cons. destruct (pstep s o) as [s1 out] eqn:P. cbn [fst].
    destruct (pstep_step _ _ _ _ P) as [_ Fr].
    destruct (frame_nonce _ _ Fr I) as [I1 [N1 M1]].
    destruct (IH s1 I1) as [I2 [N2 M2]].
    split; auto. split; [lia|]. intros key e H.
    destruct (M1 key e H) as [e1 [H1 L1]]. destruct (M2 key e1 H1) as [e2 [H2 L2]].
    exists e2. split; [auto|lia].
Qed.

Lemma nonce_inv_init now0 : nonce_inv (pinit_at now0).
Proof. intros k e []. Qed.

Definition same_combo (ps1 ps2 : list pair_s) : Prop :=
  getp ps1 "oauth_consumer_key" = getp ps2 "oauth_consumer_key" /\ getp ps1 "oauth_token" = getp ps2 "oauth_token" /\
  getp ps1 "oauth_timestamp" = getp ps2 "oauth_timestamp" /\ getp ps1 "oauth_nonce" = getp ps2 "oauth_nonce".

(* a combination of client, token, timestamp and nonce that was accepted once is never accepted again,
   whatever happens in between (including any advance of the clock) *)
Lemma replay_refused_l s0 o1 s1 out1 r1 ps1 :
  nonce_inv s0 -> (0 < expiry_time)%Z -> (2 * expiry_time < nonce_ttl)%Z ->
  pstep s0 o1 = (s1, out1) -> accepted out1 = true -> op_req o1 = Some r1 -> oauth_params r1 = Some ps1 ->
  bare ps1 = false ->
  forall ops o2 s3 out2 r2 ps2,
    pstep (prun_from s1 ops) o2 = (s3, out2) -> op_req o2 = Some r2 -> oauth_params r2 = Some ps2 ->
    same_combo ps1 ps2 -> accepted out2 = false.
Proof.
  intros I0 E0 E1 P1 A1 R1 Q1 B1 ops o2 s3 out2 r2 ps2 P2 R2 Q2 [SC1 [SC2 [SC3 SC4]]].
  destruct (accepted out2) eqn:A2; auto. exfalso.
  destruct (accepted_sound _ _ _ _ _ P1 A1 R1) as [ps [c [sec [sA [Q [_ [K [_ [N T]]]]]]]]].
  rewrite Q1 in Q. injection Q as <-.
  destruct (check_ts_nonce_ok _ _ _ K) as [[B _]|[_ [TS [NN [t [PI [T0 [W [_ ->]]]]]]]]]; [congruence|].
  assert (W1 : (Z.abs (p_now s0 - t) <= expiry_time)%Z) by (apply W; lia).
  (* the key is registered in s1 with expiry now0 + ttl *)
  assert (X1 : nexp (p_nonces s1) (ps_key ps1) = Some (p_now s0 + nonce_ttl)%Z).
  { rewrite N. cbn. rewrite String.eqb_refl. reflexivity. }
  assert (I1 : nonce_inv s1).
  { destruct (pstep_step _ _ _ _ P1) as [_ Fr]. apply (frame_nonce _ _ Fr I0). }
  destruct (run_nonce ops s1 I1) as [_ [N2 M2]].
  destruct (M2 _ _ X1) as [e2 [X2 L2]].
  (* second acceptance *)
  destruct (accepted_sound _ _ _ _ _ P2 A2 R2) as [ps [c2 [sec2 [sB [Q [_ [K2 _]]]]]]].
  rewrite Q2 in Q. injection Q as <-.
  assert (KEY : ps_key ps2 = ps_key ps1) by (unfold ps_key; rewrite SC1, SC2, SC3, SC4; reflexivity).
  destruct (check_ts_nonce_ok _ _ _ K2) as [[B _]|[_ [_ [_ [t2 [PI2 [_ [W2 [S2 _]]]]]]]]].
  - unfold bare in B. rewrite <- SC3, TS in B. cbn in B. rewrite andb_false_r in B. discriminate.
  - rewrite <- SC3, PI in PI2. injection PI2 as <-.
    assert (W3 : (Z.abs (p_now (prun_from s1 ops) - t) <= expiry_time)%Z) by (apply W2; lia).
    rewrite KEY, nonce_seen_nexp, X2 in S2. apply Z.ltb_ge in S2. lia.
Qed.

(* ---------- single use and approval along a history ---------- *)
Hypothesis name_inj : forall a b, name_of "t" a = name_of "t" b -> a = b.

Record inv2 (s : pst) : Prop := {
  j_temps : forall t, In t (p_temps s) -> exists n, n < p_ctr s /\ tp_token t = name_of "t" n;
  j_toks : forall k, In k (p_toks s) -> exists n, n < p_ctr s /\ tk_from k = name_of "t" n;
  j_gone : forall k t, In k (p_toks s) -> In t (p_temps s) -> tp_token t <> tk_from k;
  j_once : NoDup (map tk_from (p_toks s));
  j_appr : forall t v, In t (p_temps s) -> tp_verifier t = Some v -> tp_user t <> None
}.

Lemma inv2_init now0 : inv2 (pinit_at now0).
Proof. constructor; cbn; try tauto. constructor. Qed.

Lemma inv2_shape s s' : shape s s' -> inv2 s -> inv2 s'.
Proof.
  intros Sh [J1 J2 J3 J4 J5].
  destruct Sh as [A B C | tok A B C | t A B C N V | t0 t I0 A T U B C | t k I B F A C].
  - constructor; rewrite ?A, ?B, ?C; auto.
  - constructor; rewrite ?A, ?B, ?C; auto.
    + intros t H. apply del_temp_In in H. apply J1, H.
    + intros k t Hk H. apply del_temp_In in H. apply J3; tauto.
    + intros t v H. apply del_temp_In in H. apply J5, H.
  - constructor; rewrite ?A, ?B, ?C; auto.
    + intros t' [<-|H]; [exists (p_ctr s); split; [lia|auto]|].
      destruct (J1 t' H) as [n [L E]]. exists n. split; [lia|auto].
    + intros k H. destruct (J2 k H) as [n [L E]]. exists n. split; [lia|auto].
    + intros k t' Hk [<-|H]; [|auto]. destruct (J2 k Hk) as [n [L E]]. rewrite N, E. intros X.
      apply name_inj in X. lia.
    + intros t' v [<-|H]; [congruence|eauto].
  - constructor; rewrite ?A, ?B, ?C; auto.
    + intros t' [<-|H].
      * destruct (J1 t0 I0) as [n [L E]]. exists n. split; [lia|congruence].
      * destruct (J1 t' H) as [n [L E]]. exists n. split; [lia|auto].
    + intros k H. destruct (J2 k H) as [n [L E]]. exists n. split; [lia|auto].
    + intros k t' Hk [<-|H]; [|auto]. rewrite T. auto.
    + intros t' v [<-|H]; [auto|eauto].
  - constructor; rewrite ?A, ?B, ?C; auto.
    + intros t' H. apply del_temp_In in H. destruct (J1 t' (proj1 H)) as [n [L E]]. exists n. split; [lia|auto].
    + intros k' [<-|H].
      * destruct (J1 t I) as [n [L E]]. exists n. split; [lia|congruence].
      * destruct (J2 k' H) as [n [L E]]. exists n. split; [lia|auto].
    + intros k' t' [<-|Hk] H; apply del_temp_In in H.
      * rewrite F. tauto.
      * apply J3; tauto.
    + cbn. constructor; auto. rewrite F. intros X. apply in_map_iff in X. destruct X as [k' [E Hk]].
      apply (J3 k' t Hk I). auto.
    + intros t' v H. apply del_temp_In in H. apply J5, H.
Qed.

Lemma inv2_run ops : forall s, inv2 s -> inv2 (prun_from s ops).
Proof.
  induction ops as [|o r IH]; intros s I; [exact I|].
  rewrite prun_from_cons. destruct (pstep s o) as [s1 out] eqn:P. cbn [fst]. apply IH.
  destruct (pstep_step _ _ _ _ P) as [Sh _]. eapply inv2_shape; eauto.
Qed.

Notation exchange_sound := (exchange_sound hmac_sha1 rsa_verify name_of registry supported expiry_time nonce_ttl).
Notation access_sound := (access_sound hmac_sha1 rsa_verify registry supported expiry_time nonce_ttl).
Notation verify_sig := (verify_sig hmac_sha1 rsa_verify).

Definition reach (now0 : Z) (ops : list oop) : pst := prun_from (pinit_at now0) ops.

Lemma reach_inv2 now0 ops : inv2 (reach now0 ops).
Proof. apply inv2_run, inv2_init. Qed.
Lemma reach_nonce_inv now0 ops : nonce_inv (reach now0 ops).
Proof. apply run_nonce, nonce_inv_init. Qed.

(* token credentials are issued only for a live temporary credential of the same client that a resource owner
   approved, with the verifier generated at that approval and a valid signature of a configured method over
   the client secret and the temporary secret; the temporary credential is gone afterwards *)
Lemma token_issue_sound_l now0 ops r tok sec s' :
  let s := reach now0 ops in
  exchange s r = (s', OToken tok sec) ->
  exists ps c t,
    oauth_params r = Some ps /\
    find_oc registry (sval (getp ps "oauth_consumer_key")) = Some c /\
    find_temp (p_temps s) (p_now s) (sval (getp ps "oauth_token")) = Some t /\
    tp_client t = oc_id c /\
    tp_verifier t = Some (sval (getp ps "oauth_verifier")) /\ tp_user t <> None /\
    list_in_str (sval (getp ps "oauth_signature_method")) supported = true /\
    verify_sig r ps c (tp_secret t) = Some true /\
    find_temp (p_temps s') (p_now s') (tp_token t) = None /\
    exists k, p_toks s' = k :: p_toks s /\ tk_token k = tok /\ tk_client k = oc_id c /\ tk_user k = tp_user t.
Proof.
  intros s H.
  destruct (exchange_sound _ _ _ _ _ H) as [ps [c [t [s1 [P [C [F [CE [V [TV [K [G [Gone TK]]]]]]]]]]]]].
  destruct (check_sig_sound _ _ _ _ _ _ _ G) as [M [_ VS]].
  destruct (find_temp_In _ _ _ _ F) as [I _].
  exists ps, c, t. repeat split; auto.
  - eapply (j_appr _ (reach_inv2 now0 ops)); eauto.
  - eexists. split; [exact TK|]. cbn. auto.
Qed.

Lemma single_use_l now0 ops : NoDup (map tk_from (p_toks (reach now0 ops))).
Proof. apply (j_once _ (reach_inv2 now0 ops)). Qed.

Lemma resource_served_sound_l s r tok s' :
  access s r = (s', OServed tok) ->
  exists ps c k,
    oauth_params r = Some ps /\
    find_oc registry (sval (getp ps "oauth_consumer_key")) = Some c /\
    In k (p_toks s) /\ tk_client k = oc_id c /\ tk_token k = tok /\ tok = sval (getp ps "oauth_token") /\
    list_in_str (sval (getp ps "oauth_signature_method")) supported = true /\
    verify_sig r ps c (tk_secret k) = Some true.
Proof.
  intros H. destruct (access_sound _ _ _ _ H) as [ps [c [k [s1 [P [C [F [T [K [_ G]]]]]]]]]].
  destruct (check_sig_sound _ _ _ _ _ _ _ G) as [M [_ VS]].
  destruct (find_tok_In _ _ _ _ F) as [I [CL TK]].
  exists ps, c, k. repeat split; auto. congruence.
Qed.

Lemma accepted_window_method_l s o s' out r :
  pstep s o = (s', out) -> accepted out = true -> op_req o = Some r ->
  exists ps, oauth_params r = Some ps /\
    list_in_str (sval (getp ps "oauth_signature_method")) supported = true /\
    (bare ps = true \/
     exists t, py_int (sval (getp ps "oauth_timestamp")) = Some t /\ (0 <= t)%Z /\
               (expiry_time <> 0%Z -> (Z.abs (p_now s - t) <= expiry_time)%Z)).
Proof.
  intros P A R.
  destruct (accepted_sound _ _ _ _ _ P A R) as [ps [c [sec [s1 [Q [_ [K [G _]]]]]]]].
  destruct (check_sig_sound _ _ _ _ _ _ _ G) as [M _].
  exists ps. repeat split; auto.
  destruct (check_ts_nonce_ok _ _ _ K) as [[B _]|[_ [_ [_ [t [PI [T0 [W _]]]]]]]]; [left; auto|right; eauto].
Qed.

Lemma replay_refused_reach_l now0 ops0 o1 s1 out1 r1 ps1 :
  (0 < expiry_time)%Z -> (2 * expiry_time < nonce_ttl)%Z ->
  pstep (reach now0 ops0) o1 = (s1, out1) -> accepted out1 = true -> op_req o1 = Some r1 ->
  oauth_params r1 = Some ps1 -> bare ps1 = false ->
  forall ops o2 s3 out2 r2 ps2,
    pstep (prun_from s1 ops) o2 = (s3, out2) -> op_req o2 = Some r2 -> oauth_params r2 = Some ps2 ->
    same_combo ps1 ps2 -> accepted out2 = false.
Proof. intros E0 E1. apply replay_refused_l; auto. apply reach_nonce_inv. Qed.
End H.
