From Coq Require Import List NArith ZArith Bool Ascii String Lia.
From Authlib Require Import Base.Bytes Base.PyVal Base.Url Model.Metadata Spec.MetadataSpec.
Import ListNotations.
Open Scope string_scope.

Lemma first_fail_cons x r : first_fail (x :: r) = MOk <-> x = MOk /\ first_fail r = MOk.
Proof. destruct x; simpl; split; try tauto; try discriminate; intros [H _]; discriminate. Qed.

Lemma getd_member k d : getd k d = member k d.
Proof. reflexivity. Qed.

Ltac fin := split; (let Hfin := fresh "Hfin" in intro Hfin; first [reflexivity | discriminate Hfin | exact Hfin]).
Ltac cases :=
  cbn [py_truthy]; unfold implb, andb, orb, negb;
  repeat match goal with
         | |- context [match ?x with nil => _ | cons _ _ => _ end] => is_var x; destruct x
         | |- context [if ?b then _ else _] =>
             lazymatch b with
             | context [if _ then _ else _] => fail
             | context [match _ with nil => _ | cons _ _ => _ end] => fail
             | _ => destruct b eqn:?
             end
         end.
Ltac tt := cases; fin.

Lemma https_opt_iff k d : check_https_opt k d = MOk <-> rule_ok d k RHttpsOpt = true.
Proof.
  unfold check_https_opt, rule_ok, given, is_https. change getd with member in *.
  destruct (member k d); tt.
Qed.

Lemma url_opt_iff k d : check_url_opt k d = MOk <-> rule_ok d k RUrlOpt = true.
Proof.
  unfold check_url_opt, rule_ok, given, is_url. change getd with member in *.
  destruct (member k d); tt.
Qed.

Lemma array_opt_iff k d : check_array_opt k d = MOk <-> rule_ok d k RArrayOpt = true.
Proof.
  unfold check_array_opt, rule_ok, absent_or_array. change getd with member in *.
  destruct (member k d); fin.
Qed.

Lemma array_if_given_iff k d : check_array_if_truthy k d = MOk <-> rule_ok d k RArrayIfGiven = true.
Proof.
  unfold check_array_if_truthy, rule_ok, given, is_array, is_list. change getd with member in *.
  destruct (member k d); tt.
Qed.

Lemma response_types_iff d :
  check_response_types_supported d = MOk <-> rule_ok d "response_types_supported" RArrayRequired = true.
Proof.
  unfold check_response_types_supported, rule_ok, given, is_array, is_list. change getd with member in *.
  destruct (member "response_types_supported" d); tt.
Qed.

Lemma issuer_iff d : check_issuer d = MOk <-> rule_ok d "issuer" RIssuer = true.
Proof.
  unfold check_issuer, rule_ok, given, is_https, no_query_fragment. change getd with member in *.
  destruct (member "issuer" d); tt.
Qed.

Lemma boolean_opt_iff k d : check_boolean_opt k d = MOk <-> rule_ok d k RBooleanOpt = true.
Proof.
  unfold check_boolean_opt, rule_ok. destruct (dict_get k d) as [v|]; tt.
Qed.

Lemma id_token_algs_iff d :
  check_id_token_algs d = MOk <->
  rule_ok d "id_token_signing_alg_values_supported" (RRequiredArrayWith "RS256") = true.
Proof.
  unfold check_id_token_algs, rule_ok, is_array. change getd with member in *.
  destruct (member "id_token_signing_alg_values_supported" d); cbn [pv_list]; tt.
Qed.

Lemma jwks_required_iff d :
  check_jwks_uri_required d = MOk <-> rule_ok d "jwks_uri" RHttpsRequired = true.
Proof.
  unfold check_jwks_uri_required. pose proof (https_opt_iff "jwks_uri" d) as H.
  unfold rule_ok in *. unfold getd, member in *.
  destruct (dict_get "jwks_uri" d) as [[]|]; try exact H; fin.
Qed.

(* ---- set-based rules *)
Lemma scalar_eq v : scalar v = scalar_s v.
Proof. destruct v; reflexivity. Qed.

Lemma intersects_mentions_list l names :
  intersects l names = mentions (PList l) names.
Proof.
  unfold mentions, str_elems. induction l as [|x r IH]; [reflexivity|].
  cbn [intersects existsb flat_map]. destruct x; cbn [app existsb]; unfold intersects in IH; rewrite IH; reflexivity.
Qed.

Lemma all_in_only_strings l names : all_in l names = only_strings_in (PList l) names.
Proof. reflexivity. Qed.

(* a one-character string is none of the multi-character names used by the rules *)
Definition multi (names : list string) : Prop :=
  forall c, list_in_str (String c "") names = false.

Lemma intersects_chars l names :
  multi names -> intersects (map (fun c => PStr (String c "")) l) names = false.
Proof.
  intros Hm. induction l as [|c r IH]; [reflexivity|].
  cbn [map intersects existsb]. rewrite Hm. exact IH.
Qed.

Lemma multi_authz : multi ["authorization_code"; "implicit"].
Proof. intros c. destruct c as [[] [] [] [] [] [] [] []]; reflexivity. Qed.
Lemma multi_jwt : multi ["private_key_jwt"; "client_secret_jwt"].
Proof. intros c. destruct c as [[] [] [] [] [] [] [] []]; reflexivity. Qed.

Lemma intersects_keys kvs names :
  intersects (map (fun kv : string * pv => PStr (fst kv)) kvs) names = mentions (PDict kvs) names.
Proof.
  unfold mentions, str_elems, intersects. induction kvs as [|[k v] r IH]; [reflexivity|].
  cbn [map existsb fst]. now rewrite IH.
Qed.

(* the value of a "set key": absent (RFC default) or an array of scalars *)
Definition set_member_wf (k : string) (d : doc) : Prop :=
  match dict_get k d with
  | None => True
  | Some (PList l) => forallb scalar_s l = true
  | Some PNone => False
  | Some _ => True
  end.

Lemma doc_wf_set_member d k : doc_wf d = true -> In k SET_KEYS -> set_member_wf k d.
Proof.
  unfold doc_wf, set_member_wf. rewrite forallb_forall. intros H Hin. specialize (H k Hin).
  destruct (dict_get k d) as [[]|]; auto; discriminate.
Qed.

Lemma forallb_scalar_eq l : forallb scalar l = forallb scalar_s l.
Proof. induction l; simpl; [reflexivity|]. now rewrite scalar_eq, IHl. Qed.

(* py_set of a set member, when it does not crash, is the rule's "mentions" *)
Lemma py_set_mentions k dflt d names s :
  multi names ->
  py_set (get_default k (strs dflt) d) = Some s ->
  intersects s names = mentions (member_or k dflt d) names.
Proof.
  intros Hm. unfold get_default, member_or, strs.
  destruct (dict_get k d) as [v|].
  - destruct v as [| b | z | m e | x | l | kv]; cbn [py_set]; try discriminate.
    + intros H. injection H as <-. rewrite (intersects_chars _ _ Hm). reflexivity.
    + destruct (forallb scalar l); [|discriminate]. intros H. injection H as <-.
      apply intersects_mentions_list.
    + intros H. injection H as <-. apply intersects_keys.
  - cbn [py_set]. destruct (forallb scalar (map PStr dflt)); [|discriminate].
    intros H. injection H as <-. apply intersects_mentions_list.
Qed.

Lemma py_set_total k dflt d :
  set_member_wf k d -> absent_or_array (member k d) = true ->
  exists s, py_set (get_default k (strs dflt) d) = Some s.
Proof.
  unfold set_member_wf, member, get_default, strs, absent_or_array.
  destruct (dict_get k d) as [v|].
  - destruct v; try discriminate; try contradiction. intros Hs _.
    cbn [py_set]. rewrite forallb_scalar_eq, Hs. eauto.
  - intros _ _. cbn [py_set].
    assert (H : forallb scalar (map PStr dflt) = true) by (induction dflt; simpl; auto).
    rewrite H. eauto.
Qed.

Lemma authz_sound d :
  check_authorization_endpoint d = MOk -> rule_ok d "authorization_endpoint" RAuthorizationEndpoint = true.
Proof.
  unfold check_authorization_endpoint, rule_ok, given, is_https, AUTHZ_GRANTS. change getd with member in *.
  destruct (py_truthy (member "authorization_endpoint" d)) eqn:Et.
  - destruct (member "authorization_endpoint" d); try discriminate.
    destruct (is_secure_transport s); [reflexivity|discriminate].
  - destruct (py_set _) as [s|] eqn:Es; [|discriminate].
    rewrite <- (py_set_mentions _ _ _ _ _ multi_authz Es).
    destruct (intersects s ["authorization_code"; "implicit"]); [discriminate|reflexivity].
Qed.

Lemma authz_complete d :
  set_member_wf "grant_types_supported" d ->
  absent_or_array (member "grant_types_supported" d) = true ->
  rule_ok d "authorization_endpoint" RAuthorizationEndpoint = true -> check_authorization_endpoint d = MOk.
Proof.
  intros Hwf Harr. unfold check_authorization_endpoint, rule_ok, given, is_https, AUTHZ_GRANTS. change getd with member in *.
  destruct (py_truthy (member "authorization_endpoint" d)) eqn:Et.
  - destruct (member "authorization_endpoint" d); try discriminate.
    destruct (is_secure_transport s); [reflexivity|discriminate].
  - destruct (py_set_total _ ["authorization_code"; "implicit"] d Hwf Harr) as (s & Es). rewrite Es.
    rewrite <- (py_set_mentions _ _ _ _ _ multi_authz Es).
    destruct (intersects s ["authorization_code"; "implicit"]); [discriminate|reflexivity].
Qed.

Definition implicit_list (g : pv) : bool :=
  match g with PList [x] => py_eq x (PStr "implicit") | _ => false end.

Lemma implicit_only_sound g b : implicit_only g = Some b -> b = implicit_list g.
Proof.
  unfold implicit_only, implicit_list.
  destruct g as [| [] | z | m e | s | [|x [|y r]] | [|p [|q r]]]; cbn [py_truthy negb];
    try (destruct (negb (Z.eqb _ _))); try (destruct (negb (s =? ""))); cbn [negb];
    intros H; try discriminate H; injection H as <-; reflexivity.
Qed.

Lemma implicit_only_total g : absent_or_array g = true -> implicit_only g = Some (implicit_list g).
Proof.
  unfold implicit_only, implicit_list, absent_or_array.
  destruct g as [| b | z | m e | s | [|x [|y r]] | kv]; try discriminate; intros _; reflexivity.
Qed.

Lemma token_url_part d :
  (let url := member "token_endpoint" d in
   if negb (py_truthy url) then MErr "token_endpoint" else
   match url with
   | PStr s => if is_secure_transport s then MOk else MErr "token_endpoint"
   | _ => MCrash
   end) = MOk <->
  given (member "token_endpoint" d) && is_https (member "token_endpoint" d) = true.
Proof. unfold given, is_https. cbv zeta. destruct (member "token_endpoint" d); tt. Qed.

Lemma token_endpoint_sound d :
  check_token_endpoint d = MOk -> rule_ok d "token_endpoint" RTokenEndpoint = true.
Proof.
  unfold check_token_endpoint, rule_ok, implicit_only_spec. change getd with member in *.
  fold (implicit_list (member "grant_types_supported" d)).
  destruct (implicit_only (member "grant_types_supported" d)) as [b|] eqn:E; [|discriminate].
  apply implicit_only_sound in E. subst b.
  destruct (implicit_list (member "grant_types_supported" d)); [reflexivity|].
  cbn [orb]. intros H. now apply token_url_part.
Qed.

Lemma token_endpoint_complete d :
  absent_or_array (member "grant_types_supported" d) = true ->
  rule_ok d "token_endpoint" RTokenEndpoint = true -> check_token_endpoint d = MOk.
Proof.
  intros Harr. unfold check_token_endpoint, rule_ok, implicit_only_spec. change getd with member in *.
  fold (implicit_list (member "grant_types_supported" d)).
  rewrite (implicit_only_total _ Harr).
  destruct (implicit_list (member "grant_types_supported" d)); [reflexivity|].
  cbn [orb]. intros H. now apply token_url_part.
Qed.

Lemma alg_values_sound key mk d :
  check_alg_values key mk d = MOk -> rule_ok d key (RAlgValues mk) = true.
Proof.
  unfold check_alg_values, rule_ok, given, is_array, is_list, JWT_AUTH_METHODS. change getd with member in *.
  destruct (py_truthy (member key d)) eqn:Et; cbn [andb implb negb].
  - destruct (member key d) as [| b | z | m e | s | l | kv]; cbn [negb]; try discriminate.
    destruct (py_set _) as [s|] eqn:Es; [|discriminate].
    rewrite <- (py_set_mentions _ _ _ _ _ multi_jwt Es).
    rewrite andb_false_r. cbn [pv_list]. destruct (py_in_list (PStr "none") l); [discriminate|].
    destruct (intersects s ["private_key_jwt"; "client_secret_jwt"]); reflexivity.
  - destruct (py_set _) as [s|] eqn:Es; [|discriminate].
    rewrite <- (py_set_mentions _ _ _ _ _ multi_jwt Es).
    destruct (intersects s ["private_key_jwt"; "client_secret_jwt"]); cbn [andb negb implb]; [discriminate|reflexivity].
Qed.

Lemma alg_values_complete key mk d :
  set_member_wf mk d -> absent_or_array (member mk d) = true ->
  rule_ok d key (RAlgValues mk) = true -> check_alg_values key mk d = MOk.
Proof.
  intros Hwf Harr. unfold check_alg_values, rule_ok, given, is_array, is_list, JWT_AUTH_METHODS. change getd with member in *.
  destruct (py_set_total _ ["client_secret_basic"] d Hwf Harr) as (s & Es). rewrite Es.
  rewrite <- (py_set_mentions _ _ _ _ _ multi_jwt Es).
  destruct (py_truthy (member key d)) eqn:Et; cbn [andb implb negb].
  - destruct (member key d) as [| b | z | m e | x | l | kv]; cbn [negb andb]; try discriminate.
    rewrite andb_false_r. cbn [pv_list]. destruct (py_in_list (PStr "none") l); cbn [negb andb].
    + rewrite andb_false_r. discriminate.
    + reflexivity.
  - destruct (intersects s ["private_key_jwt"; "client_secret_jwt"]); cbn [andb negb implb]; [discriminate|reflexivity].
Qed.

Lemma required_enum_sound key vals d :
  check_required_enum_array key vals d = MOk -> rule_ok d key (RRequiredEnumArray vals) = true.
Proof.
  unfold check_required_enum_array, rule_ok. change getd with member in *.
  destruct (member key d); try discriminate.
  destruct (forallb scalar l); [|discriminate]. rewrite all_in_only_strings.
  destruct (only_strings_in (PList l) vals); [reflexivity|discriminate].
Qed.

Lemma only_strings_scalar l vals : only_strings_in (PList l) vals = true -> forallb scalar l = true.
Proof.
  unfold only_strings_in. induction l as [|x r IH]; [reflexivity|]. simpl.
  destruct x; try discriminate. destruct (list_in_str s vals); [|discriminate]. exact IH.
Qed.

Lemma required_enum_complete key vals d :
  rule_ok d key (RRequiredEnumArray vals) = true -> check_required_enum_array key vals d = MOk.
Proof.
  unfold check_required_enum_array, rule_ok. change getd with member in *.
  destruct (member key d); try discriminate. intros H.
  rewrite (only_strings_scalar _ _ H), all_in_only_strings, H. reflexivity.
Qed.

Lemma enum_opt_sound key vals d :
  check_enum_array_opt key vals d = MOk -> rule_ok d key (REnumArrayOpt vals) = true.
Proof.
  unfold check_enum_array_opt, rule_ok, given. change getd with member in *.
  destruct (py_truthy (member key d)); cbn [negb implb]; [|reflexivity].
  destruct (member key d); try discriminate.
  destruct (forallb scalar l); [|discriminate]. rewrite all_in_only_strings.
  destruct (only_strings_in (PList l) vals); [reflexivity|discriminate].
Qed.

Lemma enum_opt_complete key vals d :
  rule_ok d key (REnumArrayOpt vals) = true -> check_enum_array_opt key vals d = MOk.
Proof.
  unfold check_enum_array_opt, rule_ok, given. change getd with member in *.
  destruct (py_truthy (member key d)); cbn [negb implb]; [|reflexivity].
  destruct (member key d); try discriminate. intros H.
  rewrite (only_strings_scalar _ _ H), all_in_only_strings, H. reflexivity.
Qed.

(* ---- whole documents *)
Theorem as_validate_sound_l d : as_validate d = MOk -> doc_ok RFC8414_RULES d = true.
Proof.
  unfold as_validate, doc_ok, RFC8414_RULES. rewrite !first_fail_cons. cbn [forallb fst snd].
  intros (H1 & H2 & H3 & H4 & H5 & H6 & H7 & H8 & H9 & H10 & H11 & H12 & H13 & H14 & H15 & H16 &
          H17 & H18 & H19 & H20 & H21 & H22 & _).
  rewrite (proj1 (issuer_iff d) H1), (authz_sound d H2), (token_endpoint_sound d H3).
  rewrite (proj1 (https_opt_iff _ d) H4), (proj1 (https_opt_iff _ d) H5), (proj1 (array_opt_iff _ d) H6).
  rewrite (proj1 (response_types_iff d) H7), (proj1 (array_opt_iff _ d) H8), (proj1 (array_opt_iff _ d) H9).
  rewrite (proj1 (array_opt_iff _ d) H10), (alg_values_sound _ _ d H11), (proj1 (url_opt_iff _ d) H12).
  rewrite (proj1 (array_opt_iff _ d) H13), (proj1 (url_opt_iff _ d) H14), (proj1 (url_opt_iff _ d) H15).
  rewrite (proj1 (https_opt_iff _ d) H16), (proj1 (array_opt_iff _ d) H17), (alg_values_sound _ _ d H18).
  rewrite (proj1 (https_opt_iff _ d) H19), (proj1 (array_opt_iff _ d) H20), (alg_values_sound _ _ d H21).
  rewrite (proj1 (array_opt_iff _ d) H22). reflexivity.
Qed.

Theorem as_validate_complete_l d :
  doc_wf d = true -> doc_ok RFC8414_RULES d = true -> as_validate d = MOk.
Proof.
  intros Hwf. unfold as_validate, doc_ok, RFC8414_RULES. cbn [forallb fst snd]. rewrite !andb_true_iff.
  intros (H1 & H2 & H3 & H4 & H5 & H6 & H7 & H8 & H9 & H10 & H11 & H12 & H13 & H14 & H15 & H16 &
          H17 & H18 & H19 & H20 & H21 & H22 & _).
  assert (Wg := doc_wf_set_member d "grant_types_supported" Hwf ltac:(simpl; tauto)).
  assert (Wt := doc_wf_set_member d "token_endpoint_auth_methods_supported" Hwf ltac:(simpl; tauto)).
  assert (Wr := doc_wf_set_member d "revocation_endpoint_auth_methods_supported" Hwf ltac:(simpl; tauto)).
  assert (Wi := doc_wf_set_member d "introspection_endpoint_auth_methods_supported" Hwf ltac:(simpl; tauto)).
  rewrite !first_fail_cons. repeat split.
  - now apply issuer_iff.
  - apply authz_complete; auto.
  - apply token_endpoint_complete; auto.
  - now apply https_opt_iff.
  - now apply https_opt_iff.
  - now apply array_opt_iff.
  - now apply response_types_iff.
  - now apply array_opt_iff.
  - now apply array_opt_iff.
  - now apply array_opt_iff.
  - apply alg_values_complete; auto.
  - now apply url_opt_iff.
  - now apply array_opt_iff.
  - now apply url_opt_iff.
  - now apply url_opt_iff.
  - now apply https_opt_iff.
  - now apply array_opt_iff.
  - apply alg_values_complete; auto.
  - now apply https_opt_iff.
  - now apply array_opt_iff.
  - apply alg_values_complete; auto.
  - now apply array_opt_iff.
Qed.

Theorem op_validate_sound_l d : op_validate d = MOk -> doc_ok OIDC_RULES d = true.
Proof.
  unfold op_validate, doc_ok, OIDC_RULES. rewrite !first_fail_cons. cbn [forallb fst snd].
  intros (H1 & H2 & H3 & H4 & H5 & H6 & H7 & H8 & H9 & H10 & H11 & H12 & H13 & H14 & H15 & H16 &
          H17 & H18 & H19 & H20 & H21 & H22 & H23 & H24 & H25 & H26 & H27 & H28 & H29 & H30 & H31 &
          H32 & H33 & H34 & _).
  rewrite (proj1 (issuer_iff d) H1), (authz_sound d H2), (token_endpoint_sound d H3).
  rewrite (proj1 (jwks_required_iff d) H4), (proj1 (https_opt_iff _ d) H5), (proj1 (array_opt_iff _ d) H6).
  rewrite (proj1 (response_types_iff d) H7), (proj1 (array_opt_iff _ d) H8), (proj1 (array_opt_iff _ d) H9).
  rewrite (proj1 (array_opt_iff _ d) H10), (proj1 (url_opt_iff _ d) H11), (proj1 (array_opt_iff _ d) H12).
  rewrite (proj1 (url_opt_iff _ d) H13), (proj1 (url_opt_iff _ d) H14), (alg_values_sound _ _ d H15).
  rewrite (proj1 (array_opt_iff _ d) H16), (required_enum_sound _ _ d H17), (proj1 (id_token_algs_iff d) H18).
  rewrite (proj1 (array_opt_iff _ d) H19), (proj1 (array_opt_iff _ d) H20), (proj1 (array_opt_iff _ d) H21).
  rewrite (proj1 (array_opt_iff _ d) H22), (proj1 (array_opt_iff _ d) H23), (proj1 (array_if_given_iff _ d) H24).
  rewrite (proj1 (array_opt_iff _ d) H25), (proj1 (array_opt_iff _ d) H26), (enum_opt_sound _ _ d H27).
  rewrite (enum_opt_sound _ _ d H28), (proj1 (array_opt_iff _ d) H29), (proj1 (array_opt_iff _ d) H30).
  rewrite (proj1 (boolean_opt_iff _ d) H31), (proj1 (boolean_opt_iff _ d) H32).
  rewrite (proj1 (boolean_opt_iff _ d) H33), (proj1 (boolean_opt_iff _ d) H34). reflexivity.
Qed.

Theorem op_validate_complete_l d :
  doc_wf d = true -> doc_ok OIDC_RULES d = true -> op_validate d = MOk.
Proof.
  intros Hwf. unfold op_validate, doc_ok, OIDC_RULES. cbn [forallb fst snd]. rewrite !andb_true_iff.
  intros (H1 & H2 & H3 & H4 & H5 & H6 & H7 & H8 & H9 & H10 & H11 & H12 & H13 & H14 & H15 & H16 &
          H17 & H18 & H19 & H20 & H21 & H22 & H23 & H24 & H25 & H26 & H27 & H28 & H29 & H30 & H31 &
          H32 & H33 & H34 & _).
  assert (Wg := doc_wf_set_member d "grant_types_supported" Hwf ltac:(simpl; tauto)).
  assert (Wt := doc_wf_set_member d "token_endpoint_auth_methods_supported" Hwf ltac:(simpl; tauto)).
  rewrite !first_fail_cons. repeat split;
    first [ now apply issuer_iff | now apply https_opt_iff | now apply array_opt_iff
          | now apply response_types_iff | now apply url_opt_iff | now apply jwks_required_iff
          | now apply id_token_algs_iff | now apply array_if_given_iff | now apply boolean_opt_iff
          | now apply required_enum_complete | now apply enum_opt_complete
          | (apply authz_complete; auto) | (apply token_endpoint_complete; auto)
          | (apply alg_values_complete; auto) ].
Qed.
