(* C01: round trip and "nothing is verified but exactly what was signed" for the three JWS serializations. *)
From Coq Require Import List NArith ZArith Bool Ascii String Lia.
From Authlib Require Import Base.Bytes Base.Base64 Base.PyVal Model.KeyPolicy Model.JWS Proofs.Base64P.
Import ListNotations.
Open Scope string_scope.
Open Scope list_scope.

(* ---------- splitting at dots ---------- *)
Definition nodot (s : string) : Prop := str_any (fun c => Ascii.eqb c ".") s = false.

Lemma b64url_nodot s : nodot (b64url_encode s).
Proof.
  unfold nodot. pose proof (b64url_encode_alphabet s) as H.
  induction (b64url_encode s) as [|c r IH]; cbn in *; auto.
  apply andb_true_iff in H. destruct H as [H1 H2]. rewrite (IH H2), orb_false_r.
  destruct (Ascii.eqb c ".") eqn:E; auto. apply Ascii.eqb_eq in E. subst c. cbn in H1. discriminate.
Qed.

Lemma rsplit_dot_nodot s : nodot s -> rsplit_dot s = None.
Proof.
  unfold nodot. induction s as [|c r IH]; cbn; auto. intros H. apply orb_false_iff in H. destruct H as [H1 H2].
  rewrite (IH H2), H1. reflexivity.
Qed.

Lemma rsplit_dot_app a c : nodot c -> rsplit_dot (a ++ "." ++ c)%string = Some (a, c).
Proof.
  intros H. induction a as [|x a IH]; cbn.
  - rewrite (rsplit_dot_nodot c H). reflexivity.
  - cbn in IH. rewrite IH. reflexivity.
Qed.

Lemma split_first_app a b : nodot a -> split_first "." (a ++ "." ++ b)%string = (a, Some b).
Proof.
  unfold nodot. induction a as [|x a IH]; cbn; auto. intros H. apply orb_false_iff in H. destruct H as [H1 H2].
  rewrite H1. cbn in IH. rewrite (IH H2). reflexivity.
Qed.

Lemma str_app_assoc (a b c : string) : ((a ++ b) ++ c = a ++ (b ++ c))%string.
Proof. induction a as [|x a IH]; cbn; [reflexivity|]. rewrite IH. reflexivity. Qed.

Section P.
Variable json_dumps : hdict -> string.
Variable json_loads : string -> option pv.
Variable registered : string -> bool.
Variable prepare_key : string -> pv -> option pv.
Variable sign : string -> pv -> string -> option string.
Variable verify : string -> pv -> string -> string -> bool.

Notation prepare := (prepare registered prepare_key).
Notation serialize_compact := (serialize_compact json_dumps registered prepare_key sign).
Notation deserialize_compact := (deserialize_compact json_loads registered prepare_key verify).
Notation extract_header := (extract_header json_loads).
Notation validate_json_jws := (validate_json_jws json_loads registered prepare_key verify).
Notation validate_all := (validate_all json_loads registered prepare_key verify).
Notation deserialize_json := (deserialize_json json_loads registered prepare_key verify).
Notation sign_json := (sign_json json_dumps registered prepare_key sign).
Notation sign_all := (sign_all json_dumps registered prepare_key sign).

(* the two assumptions under which signing and verifying fit together *)
Definition json_roundtrip : Prop := forall d, json_loads (json_dumps d) = Some (PDict d).
Definition sig_correct : Prop := forall alg k m sg, sign alg k m = Some sg -> verify alg k m sg = true.

Lemma extract_header_encode d : json_roundtrip -> extract_header (b64url_encode (json_dumps d)) = JOk d.
Proof. intros J. unfold JWS.extract_header. rewrite urlsafe_b64decode_encode, J. reflexivity. Qed.

(* ---------- compact ---------- *)
Theorem compact_roundtrip_l allow private protected payload rawkey s :
  json_roundtrip -> sig_correct -> crit_check private protected = None ->
  serialize_compact allow private protected payload rawkey = JOk s ->
  deserialize_compact allow private s rawkey = JOk (protected, payload).
Proof.
  intros J C CR. unfold JWS.serialize_compact.
  destruct (validate_private_headers private protected); [discriminate|].
  destruct (prepare allow protected rawkey) as [[alg k]|e] eqn:P; [|discriminate].
  destruct (sign alg k _) as [sg|] eqn:S; [|discriminate].
  intros H. injection H as <-. unfold JWS.deserialize_compact, signing_input in *.
  rewrite (rsplit_dot_app _ _ (b64url_nodot sg)).
  rewrite (split_first_app _ _ (b64url_nodot (json_dumps protected))).
  rewrite (extract_header_encode _ J), CR. unfold extract_segment. rewrite !urlsafe_b64decode_encode.
  rewrite P. rewrite (C _ _ _ _ S). reflexivity.
Qed.

(* whatever is accepted: the token splits at its first and its last dot; the header and payload returned are the
   decodings of those two segments; the algorithm is the header's, allowed and registered; and the signature
   verified over EXACTLY the text before the last dot *)
Theorem compact_accept_sound_l allow private s rawkey h payload :
  deserialize_compact allow private s rawkey = JOk (h, payload) ->
  exists pseg plseg sigseg sg alg k,
    rsplit_dot s = Some ((pseg ++ "." ++ plseg)%string, sigseg) /\ nodot pseg /\
    extract_header pseg = JOk h /\ crit_check private h = None /\ urlsafe_b64decode plseg = Some payload /\ urlsafe_b64decode sigseg = Some sg /\
    prepare allow h rawkey = JOk (alg, k) /\
    verify alg k (pseg ++ "." ++ plseg)%string sg = true.
Proof.
  unfold JWS.deserialize_compact.
  destruct (rsplit_dot s) as [[sinput sigseg]|] eqn:R; [|discriminate].
  destruct (split_first "." sinput) as [pseg [plseg|]] eqn:SF; [|discriminate].
  destruct (extract_header pseg) as [h0|] eqn:EH; [|discriminate].
  destruct (crit_check private h0) eqn:CR; [discriminate|].
  unfold extract_segment.
  destruct (urlsafe_b64decode plseg) as [pl|] eqn:D1; [|discriminate].
  destruct (urlsafe_b64decode sigseg) as [sg|] eqn:D2; [|discriminate].
  destruct (prepare allow h0 rawkey) as [[alg k]|] eqn:P; [|discriminate].
  destruct (verify alg k sinput sg) eqn:V; [|discriminate].
  intros H. injection H as <- <-.
  assert (X : sinput = (pseg ++ "." ++ plseg)%string /\ nodot pseg).
  { clear - SF. revert pseg plseg SF. induction sinput as [|c r IH]; cbn; intros pseg plseg SF; [discriminate|].
    destruct (Ascii.eqb c ".") eqn:E.
    - injection SF as <- <-. apply Ascii.eqb_eq in E. subst c. split; reflexivity.
    - destruct (split_first "." r) as [a b] eqn:S2. injection SF as <- ->.
      destruct (IH a plseg eq_refl) as [A B]. subst r. split; [reflexivity|].
      unfold nodot in *. cbn. rewrite E, B. reflexivity. }
  destruct X as [-> ND]. exists pseg, plseg, sigseg, sg, alg, k. repeat split; auto.
Qed.

(* the algorithm used is named by the header, on the allow-list and registered *)
Lemma prepare_sound allow h rawkey alg k :
  prepare allow h rawkey = JOk (alg, k) ->
  dict_get "alg" h = Some (PStr alg) /\ registered alg = true /\
  (forall l, allow = Some l -> list_in_str alg l = true) /\
  prepare_key alg (effective_key h rawkey) = Some k.
Proof.
  unfold JWS.prepare. destruct (dict_get "alg" h) as [[| | | |a| |]|]; try discriminate.
  destruct (match allow with Some l => negb (list_in_str a l) | None => false end) eqn:A; [discriminate|].
  destruct (registered a) eqn:R; cbn [negb]; [|discriminate].
  destruct (prepare_key a _) as [k0|] eqn:K; [|discriminate].
  intros H. injection H as <- <-. repeat split; auto.
  intros l ->. apply negb_false_iff in A. exact A.
Qed.

(* ---------- JSON ---------- *)
Lemma validate_all_sound allow private plseg rawkey : forall sigs hs,
  validate_all allow private plseg sigs rawkey = JOk (hs, true) ->
  Forall2 (fun o h => validate_json_jws allow private plseg o rawkey = JOk (h, true)) sigs hs.
Proof.
  induction sigs as [|o r IH]; cbn; intros hs H.
  - injection H as <-. constructor.
  - destruct (validate_json_jws allow private plseg o rawkey) as [[h v]|] eqn:V; [|discriminate].
    destruct (validate_all allow private plseg r rawkey) as [[hs' vs]|] eqn:VA; [|discriminate].
    injection H as <- H. apply andb_true_iff in H. destruct H as [-> ->]. constructor; auto.
Qed.

Lemma validate_json_jws_sound allow private plseg o rawkey h :
  validate_json_jws allow private plseg o rawkey = JOk (h, true) ->
  exists protected alg k sg,
    extract_header (oval (so_protected o)) = JOk protected /\ crit_check private protected = None /\
    h = hmerge protected (match so_header o with PDict d => d | _ => [] end) /\
    prepare allow h rawkey = JOk (alg, k) /\
    urlsafe_b64decode (oval (so_signature o)) = Some sg /\
    verify alg k (oval (so_protected o) ++ "." ++ plseg)%string sg = true.
Proof.
  unfold JWS.validate_json_jws.
  destruct (otruthy (so_protected o)); cbn [negb]; [|discriminate].
  destruct (otruthy (so_signature o)); cbn [negb]; [|discriminate].
  destruct (extract_header (oval (so_protected o))) as [protected|] eqn:EH; [|discriminate].
  destruct (crit_check private protected) eqn:CR; [discriminate|].
  destruct (py_truthy (so_header o) && negb _); [discriminate|].
  destruct (prepare allow _ rawkey) as [[alg k]|] eqn:P; [|discriminate].
  unfold extract_segment. destruct (urlsafe_b64decode (oval (so_signature o))) as [sg|] eqn:D; [|discriminate].
  intros H. injection H as <- V. exists protected, alg, k, sg. repeat split; auto.
Qed.

(* a JSON JWS is accepted only if EVERY signature in it verifies, each over its own protected segment and the
   one payload segment *)
Theorem json_accept_sound_l allow private plseg general sigs rawkey hs payload :
  deserialize_json allow private plseg general sigs rawkey = JOk (hs, payload) ->
  exists seg, plseg = Some seg /\ urlsafe_b64decode seg = Some payload /\
    Forall2 (fun o h => exists protected alg k sg,
               extract_header (oval (so_protected o)) = JOk protected /\ crit_check private protected = None /\
               h = hmerge protected (match so_header o with PDict d => d | _ => [] end) /\
               prepare allow h rawkey = JOk (alg, k) /\
               urlsafe_b64decode (oval (so_signature o)) = Some sg /\
               verify alg k (oval (so_protected o) ++ "." ++ seg)%string sg = true) sigs hs.
Proof.
  unfold JWS.deserialize_json. destruct plseg as [seg|]; [|discriminate].
  unfold extract_segment. destruct (urlsafe_b64decode seg) as [pl|] eqn:D; [|discriminate].
  destruct (validate_all allow private seg sigs rawkey) as [[hs' [|]]|] eqn:VA; try discriminate.
  intros H. injection H as <- <-. exists seg. repeat split; auto.
  apply validate_all_sound in VA. induction VA; constructor; auto.
  apply validate_json_jws_sound. assumption.
Qed.


Lemma b64url_nonempty x : x <> "" -> String.eqb (b64url_encode x) "" = false.
Proof. destruct x as [|a x]; [congruence|]. intros _. cbn. destruct x as [|b x]; [reflexivity|]. destruct x; reflexivity. Qed.

(* what serialize_json produces is accepted again, with the merged header; empty signatures (the "none" algorithm)
   and an unprotected header that is not an object are outside (the library itself refuses them on the way back) *)
Lemma sign_json_verifies allow private plseg protected unprot rawkey o :
  json_roundtrip -> sig_correct -> (forall d, json_dumps d <> "") ->
  (forall alg k m, sign alg k m <> Some "") ->
  (py_truthy unprot = true -> exists d, unprot = PDict d) -> crit_check private protected = None ->
  sign_json allow private plseg protected unprot rawkey = JOk o ->
  validate_json_jws allow private plseg o rawkey = JOk (hmerge protected (match unprot with PDict d => d | _ => [] end), true).
Proof.
  intros J C DN SN UD CR. unfold JWS.sign_json.
  destruct (validate_private_headers private _); [discriminate|].
  destruct (prepare allow _ rawkey) as [[alg k]|] eqn:P; [|discriminate].
  destruct (sign alg k _) as [sg|] eqn:S; [|discriminate].
  intros H. injection H as <-.
  unfold JWS.validate_json_jws. cbn [so_protected so_signature so_header otruthy oval].
  rewrite (b64url_nonempty _ (DN protected)). cbn [negb].
  assert (sg <> "") by (intros ->; eapply SN; eauto).
  rewrite (b64url_nonempty _ H). cbn [negb].
  rewrite (extract_header_encode _ J), CR.
  assert (U : py_truthy unprot && negb (match unprot with PDict _ => true | _ => false end) = false).
  { destruct (py_truthy unprot) eqn:T; [|reflexivity]. destruct (UD eq_refl) as [d ->]. reflexivity. }
  rewrite U.
  match goal with |- context [JWS.prepare ?a ?b ?c ?h ?r] => replace (JWS.prepare a b c h r) with (@JOk (string * pv) (alg, k)) by (symmetry; exact P) end.
  unfold extract_segment. rewrite urlsafe_b64decode_encode.
  rewrite (C _ _ _ _ S). reflexivity.
Qed.

Theorem json_roundtrip_l allow private payload hs rawkey sigs :
  json_roundtrip -> sig_correct -> (forall d, json_dumps d <> "") -> (forall alg k m, sign alg k m <> Some "") ->
  Forall (fun pu => (py_truthy (snd pu) = true -> exists d, snd pu = PDict d) /\ crit_check private (fst pu) = None) hs ->
  sign_all allow private (b64url_encode payload) hs rawkey = JOk sigs ->
  deserialize_json allow private (Some (b64url_encode payload)) true sigs rawkey =
    JOk (map (fun pu => hmerge (fst pu) (match snd pu with PDict d => d | _ => [] end)) hs, payload).
Proof.
  intros J C DN SN FA H. unfold JWS.deserialize_json, extract_segment. rewrite urlsafe_b64decode_encode.
  assert (V : validate_all allow private (b64url_encode payload) sigs rawkey =
              JOk (map (fun pu => hmerge (fst pu) (match snd pu with PDict d => d | _ => [] end)) hs, true)).
  { revert sigs H. induction FA as [|[p u] r Hx FA IH]; intros sigs H; cbn in H.
    - injection H as <-. reflexivity.
    - destruct (sign_json allow private (b64url_encode payload) p u rawkey) as [o|] eqn:SJ; [|discriminate].
      destruct (sign_all allow private (b64url_encode payload) r rawkey) as [os|] eqn:SA; [|discriminate].
      injection H as <-. cbn [JWS.validate_all map fst snd].
      destruct Hx as [Hx1 Hx2]. cbn [fst snd] in *.
      rewrite (sign_json_verifies _ _ _ _ _ _ _ J C DN SN Hx1 Hx2 SJ). rewrite (IH os eq_refl). reflexivity. }
  rewrite V. reflexivity.
Qed.
End P.
