From Coq Require Import List NArith ZArith Bool Ascii String Lia.
From Authlib Require Import Base.Bytes Base.PyVal Model.Claims Model.Resource Spec.ClaimsSpec Proofs.ClaimsP.
Import ListNotations.
Open Scope string_scope.

(* ---- scopes *)
Lemma subset_strs_incl a b : subset_strs a b = true <-> incl a b.
Proof.
  induction a as [|x r IH]; simpl.
  - split; [intros _ y []|reflexivity].
  - rewrite andb_true_iff, IH, list_in_str_In. split.
    + intros [Hx Hr] y [<-|Hy]; auto.
    + intros H. split; [apply H; simpl; auto|]. intros y Hy. apply H. simpl. auto.
Qed.

Definition token_list (v : pv) : list string :=
  match scope_to_list v with Some l => l | None => [] end.

(* what the property demands: no requirement, or one alternative wholly contained *)
Definition scope_ok (token_scope : pv) (required : list string) : Prop :=
  required = [] \/ exists r, In r required /\ incl (split_ws r) (token_list token_scope).

(* every alternative names at least one scope *)
Definition required_wf (required : list string) : Prop :=
  forall r, In r required -> split_ws r <> [].

Theorem scope_insufficient_iff_l ts required :
  required_wf required ->
  (scope_insufficient ts required = false <-> scope_ok ts required).
Proof.
  intros Hwf. unfold scope_insufficient, scope_ok, token_list.
  destruct required as [|r0 rs]; [split; auto|].
  destruct (scope_to_list ts) as [[|t tl]|] eqn:E.
  - split; [discriminate|]. intros [H|(r & Hr & Hi)]; [discriminate|].
    exfalso. apply (Hwf r Hr). destruct (split_ws r) as [|x xs]; [reflexivity|].
    exfalso. apply (Hi x). simpl. auto.
  - rewrite negb_false_iff, existsb_exists. split.
    + intros (r & Hr & Hs). right. exists r. split; [assumption|]. now apply subset_strs_incl.
    + intros [H|(r & Hr & Hi)]; [discriminate|]. exists r. split; [assumption|].
      now apply subset_strs_incl.
  - split; [discriminate|]. intros [H|(r & Hr & Hi)]; [discriminate|].
    exfalso. apply (Hwf r Hr). destruct (split_ws r) as [|x xs]; [reflexivity|].
    exfalso. apply (Hi x). simpl. auto.
Qed.

(* ---- header parsing: characterisation of auth.split(None, 1) *)
Definition all_ws (s : string) := str_all is_ws s = true.
Definition no_ws (s : string) := str_any is_ws s = false.
Definition head_not_ws (s : string) :=
  match s with EmptyString => False | String c _ => is_ws c = false end.

Lemma lstrip_ws_spec s :
  exists pre, s = pre ++ lstrip_ws s /\ all_ws pre /\
              (lstrip_ws s = "" \/ head_not_ws (lstrip_ws s)).
Proof.
  induction s as [|c r IH]; simpl.
  - exists "". repeat split; auto.
  - destruct (is_ws c) eqn:E.
    + destruct IH as (pre & Heq & Hall & Hh). exists (String c pre). repeat split.
      * simpl. now rewrite <- Heq.
      * unfold all_ws in *. simpl. now rewrite E, Hall.
      * exact Hh.
    + exists "". repeat split; auto; try (right; exact E).
Qed.

Lemma take_word_spec s w rest :
  take_word s = (w, rest) ->
  s = w ++ rest /\ no_ws w /\ (rest = "" \/ exists c r, rest = String c r /\ is_ws c = true).
Proof.
  revert w rest. induction s as [|c r IH]; intros w rest; simpl.
  - intros H. injection H as <- <-. repeat split; auto.
  - destruct (is_ws c) eqn:E.
    + intros H. injection H as <- <-. repeat split; auto. right. eauto.
    + destruct (take_word r) as [w' rest'] eqn:Et. intros H. injection H as <- <-.
      destruct (IH _ _ eq_refl) as (Heq & Hno & Hr). repeat split.
      * simpl. now rewrite <- Heq.
      * unfold no_ws in *. simpl. now rewrite E, Hno.
      * exact Hr.
Qed.

Theorem split_max1_two_l a ty ts :
  split_max1 a = [ty; ts] ->
  exists pre ws, a = pre ++ ty ++ ws ++ ts /\ all_ws pre /\ no_ws ty /\ ty <> "" /\
                 all_ws ws /\ ws <> "" /\ head_not_ws ts.
Proof.
  unfold split_max1. destruct (lstrip_ws_spec a) as (pre & Ha & Hpre & Hh).
  destruct (lstrip_ws a) as [|c0 r0] eqn:El; [discriminate|].
  destruct (take_word (String c0 r0)) as [w rest] eqn:Et.
  destruct (lstrip_ws_spec rest) as (ws & Hr & Hws & Hh2).
  destruct (lstrip_ws rest) as [|c1 r1] eqn:El2; [discriminate|].
  intros H. injection H as <- <-.
  destruct (take_word_spec _ _ _ Et) as (Heq & Hno & Hrest).
  exists pre, ws. repeat split; auto.
  - rewrite Ha, Heq, Hr. reflexivity.
  - intros ->. destruct Hh as [Hh|Hh]; [discriminate|]. simpl in Hh.
    simpl in Heq. destruct Hrest as [->|(c & r & -> & Hc)]; [discriminate|].
    injection Heq as <- <-. congruence.
  - intros ->. simpl in Hr. destruct Hrest as [->|(c & r & -> & Hc)]; [discriminate|].
    injection Hr as <- <-. destruct Hh2 as [Hh2|Hh2]; [discriminate|]. simpl in Hh2. congruence.
  - destruct Hh2 as [Hh2|Hh2]; [discriminate|]. exact Hh2.
Qed.

(* ---- the decision *)
Theorem served_iff_l types st auth required s :
  validate_request types st auth required = Serve s <->
  exists a ty t, auth = Some a /\ split_max1 a = [ty; s] /\ In (lower ty) types /\
                 lookup s st = Some t /\ t_expired t = false /\ t_revoked t = false /\
                 scope_insufficient (t_scope t) required = false.
Proof.
  unfold validate_request. split.
  - destruct auth as [[|c r]|]; try discriminate.
    destruct (split_max1 (String c r)) as [|ty [|ts [|x l]]] eqn:Es; try discriminate.
    destruct (list_in_str (lower ty) types) eqn:Et; cbn [negb]; [|discriminate].
    destruct (lookup ts st) as [t|] eqn:El; [|discriminate].
    destruct (t_expired t) eqn:E1; [discriminate|].
    destruct (t_revoked t) eqn:E2; [discriminate|].
    destruct (scope_insufficient (t_scope t) required) eqn:E3; [discriminate|].
    intros H. injection H as <-. exists (String c r), ty, t.
    repeat split; auto. now apply list_in_str_In.
  - intros (a & ty & t & -> & Hs & Ht & Hl & H1 & H2 & H3).
    destruct a as [|c r]; [discriminate|]. rewrite Hs.
    apply list_in_str_In in Ht. rewrite Ht. cbn [negb]. now rewrite Hl, H1, H2, H3.
Qed.

Theorem refusal_exact_l types st auth required stc code :
  validate_request types st auth required = Refuse stc code ->
  (stc = 401%N /\ code = "missing_authorization" /\ (auth = None \/ auth = Some "")) \/
  (stc = 401%N /\ code = "unsupported_token_type" /\
     exists a, auth = Some a /\ a <> "" /\
       forall ty ts, split_max1 a = [ty; ts] -> ~ In (lower ty) types) \/
  (stc = 401%N /\ code = "invalid_token" /\
     exists a ty ts, auth = Some a /\ split_max1 a = [ty; ts] /\ In (lower ty) types /\
       (lookup ts st = None \/ exists t, lookup ts st = Some t /\ (t_expired t = true \/ t_revoked t = true))) \/
  (stc = 403%N /\ code = "insufficient_scope" /\
     exists a ty ts t, auth = Some a /\ split_max1 a = [ty; ts] /\ In (lower ty) types /\
       lookup ts st = Some t /\ t_expired t = false /\ t_revoked t = false /\
       scope_insufficient (t_scope t) required = true).
Proof.
  unfold validate_request.
  destruct auth as [[|c r]|].
  - cbv beta iota; intros H; injection H as <- <-. left. auto.
  - set (a := String c r).
    assert (Hne : a <> "") by discriminate.
    destruct (split_max1 a) as [|ty [|ts [|x l]]] eqn:Es.
    + cbv beta iota; intros H; injection H as <- <-. right; left. repeat split; auto.
      exists a. repeat split; auto. intros ? ? ?; congruence.
    + cbv beta iota; intros H; injection H as <- <-. right; left. repeat split; auto.
      exists a. repeat split; auto. intros ? ? ?; congruence.
    + destruct (list_in_str (lower ty) types) eqn:Et; cbn [negb].
      * apply list_in_str_In in Et.
        destruct (lookup ts st) as [t|] eqn:El.
        -- destruct (t_expired t) eqn:E1.
           { cbv beta iota; intros H; injection H as <- <-. right; right; left. repeat split; auto.
             exists a, ty, ts. repeat split; auto. right. exists t. auto. }
           destruct (t_revoked t) eqn:E2.
           { cbv beta iota; intros H; injection H as <- <-. right; right; left. repeat split; auto.
             exists a, ty, ts. repeat split; auto. right. exists t. auto. }
           destruct (scope_insufficient (t_scope t) required) eqn:E3; [|discriminate].
           cbv beta iota; intros H; injection H as <- <-. right; right; right. repeat split; auto.
           exists a, ty, ts, t. repeat split; auto.
        -- cbv beta iota; intros H; injection H as <- <-. right; right; left. repeat split; auto.
           exists a, ty, ts. repeat split; auto.
      * cbv beta iota; intros H; injection H as <- <-. right; left. repeat split; auto.
        exists a. repeat split; auto. intros ty' ts' E. rewrite Es in E. injection E as <- <-.
        intros Hin. apply list_in_str_In in Hin. congruence.
    + cbv beta iota; intros H; injection H as <- <-. right; left. repeat split; auto.
      exists a. repeat split; auto. intros ? ? ?; congruence.
  - cbv beta iota; intros H; injection H as <- <-. left. auto.
Qed.

Theorem never_escapes_l types st auth required cls :
  validate_request types st auth required <> Escapes cls.
Proof.
  unfold validate_request.
  destruct auth as [[|c r]|]; try discriminate.
  destruct (split_max1 _) as [|ty [|ts [|x l]]]; try discriminate.
  destruct (negb _); try discriminate.
  destruct (lookup ts st) as [t|]; try discriminate.
  destruct (t_expired t), (t_revoked t), (scope_insufficient (t_scope t) required); discriminate.
Qed.

(* ---- RFC 9068: what acceptance of a signature-verified token means *)
Definition present_truthy (k : string) (claims : dictT) : bool :=
  match dict_get k claims with Some v => py_truthy v | None => false end.

Definition at_explicit (issuer rs : string) (hdr claims : dictT) (now : Z) : bool :=
  typ_ok hdr &&
  forallb (fun k => present_truthy k claims) ["iss"; "exp"; "aud"; "sub"; "client_id"; "iat"; "jti"] &&
  py_eq (sget "iss" claims) (PStr issuer) &&
  py_in_list (PStr rs) (match sget "aud" claims with PList l => l | v => [v] end) &&
  time_ok claims now 0 &&
  implb (py_truthy (sget "auth_time" claims)) (is_number (sget "auth_time" claims)) &&
  implb (py_truthy (sget "amr" claims)) (is_list (sget "amr" claims)).

Lemma at_claims_ok_explicit issuer rs hdr claims now :
  rs <> "" ->
  at_claims_ok (iss_vfun issuer) (at_options rs) hdr claims now 0 = at_explicit issuer rs hdr claims now.
Proof.
  intros Hrs. unfold at_claims_ok, at_explicit.
  assert (Ht : negb (String.eqb rs "") = true).
  { destruct (String.eqb_spec rs ""); [contradiction|reflexivity]. }
  unfold essential_ok, expectations_ok, aud_ok, expected_auds, expectation_ok, at_options, iss_vfun.
  cbn [forallb fst snd arg pv_get dict_get String.eqb Ascii.eqb Bool.eqb py_truthy implb negb andb
       at_checked list_in_str orb pv_str pv_list present_truthy].
  rewrite Ht. cbn [existsb].
  unfold present_truthy, sget.
  destruct (dict_get "aud" claims) as [aud|] eqn:Ea.
  - rewrite !andb_true_r, orb_false_r, !andb_assoc.
    destruct aud; reflexivity.
  - destruct (typ_ok hdr); cbn [andb]; [|reflexivity].
    destruct (match dict_get "iss" claims with Some v => py_truthy v | None => false end); cbn [andb]; [|reflexivity].
    destruct (match dict_get "exp" claims with Some v => py_truthy v | None => false end); cbn [andb]; reflexivity.
Qed.

Definition at_scopes_ok (claims : dictT) (scopes groups roles entitlements : list string) : bool :=
  negb (scope_insufficient (cget_or "scope" claims (PList [])) scopes) &&
  negb (scope_insufficient (cget "groups" claims) groups) &&
  negb (scope_insufficient (cget "roles" claims) roles) &&
  negb (scope_insufficient (cget "entitlements" claims) entitlements).

Theorem jwt_at_accept_iff_l issuer rs hdr claims now scopes groups roles ents :
  rs <> "" ->
  (at_validate_request issuer rs (SigOk hdr claims) now scopes groups roles ents = Serve "" <->
   at_explicit issuer rs hdr claims now = true /\ at_scopes_ok claims scopes groups roles ents = true).
Proof.
  intros Hrs. unfold at_validate_request, at_scopes_ok.
  rewrite <- (at_claims_ok_explicit issuer rs hdr claims now Hrs).
  assert (Hwf : opts_wf (at_options rs) = true) by (vm_compute; reflexivity).
  pose proof (at_validate_iff_l (iss_vfun issuer) (fun _ _ => None) (at_options rs) hdr claims now 0 Hwf) as Hiff.
  destruct (at_validate (iss_vfun issuer) (at_options rs) hdr claims now 0) as [e|] eqn:Ev.
  - split; [discriminate|]. intros [H _]. apply Hiff in H. discriminate.
  - assert (Hok : at_claims_ok (iss_vfun issuer) (at_options rs) hdr claims now 0 = true) by (now apply Hiff).
    rewrite Hok.
    destruct (scope_insufficient (cget_or "scope" claims (PList [])) scopes); cbn [negb andb];
      [split; [discriminate|intros [_ H]; discriminate]|].
    destruct (scope_insufficient (cget "groups" claims) groups); cbn [negb andb];
      [split; [discriminate|intros [_ H]; discriminate]|].
    destruct (scope_insufficient (cget "roles" claims) roles); cbn [negb andb];
      [split; [discriminate|intros [_ H]; discriminate]|].
    destruct (scope_insufficient (cget "entitlements" claims) ents); cbn [negb andb];
      [split; [discriminate|intros [_ H]; discriminate]|].
    split; auto.
Qed.

Theorem jwt_at_bad_signature_401_l issuer rs sig now scopes groups roles ents :
  (forall h c, sig <> SigOk h c) ->
  at_validate_request issuer rs sig now scopes groups roles ents = Refuse 401 "invalid_token".
Proof. intros H. destruct sig; try reflexivity. exfalso. eapply H. reflexivity. Qed.
