From Coq Require Import List NArith Bool Ascii String Lia.
From Authlib Require Import Base.Bytes Base.Percent Base.Form.
Import ListNotations.
Open Scope string_scope.

Definition lacks (c : ascii) (s : string) : Prop := str_in c s = false.

Lemma lacks_app c a b : lacks c (a ++ b) <-> lacks c a /\ lacks c b.
Proof.
  unfold lacks. induction a as [|d r IH]; simpl.
  - tauto.
  - destruct (Ascii.eqb c d); simpl; [split; [intros H; discriminate H|intros [H _]; discriminate H]|exact IH].
Qed.

Lemma split_c_lacks c a : lacks c a -> split_c c a = [a].
Proof.
  unfold lacks. induction a as [|d r IH]; simpl; [reflexivity|].
  rewrite (Ascii.eqb_sym d c). destruct (Ascii.eqb c d); simpl; [discriminate|].
  intros H. now rewrite (IH H).
Qed.

Lemma split_c_app c a b : lacks c a -> split_c c (a ++ String c b) = a :: split_c c b.
Proof.
  unfold lacks. induction a as [|d r IH]; simpl.
  - now rewrite Ascii.eqb_refl.
  - rewrite (Ascii.eqb_sym d c). destruct (Ascii.eqb c d); simpl; [discriminate|].
    intros H. now rewrite (IH H).
Qed.

Lemma split_first_app c a b : lacks c a -> split_first c (a ++ String c b) = (a, Some b).
Proof.
  unfold lacks. induction a as [|d r IH]; simpl.
  - now rewrite Ascii.eqb_refl.
  - rewrite (Ascii.eqb_sym d c). destruct (Ascii.eqb c d); simpl; [discriminate|].
    intros H. now rewrite (IH H).
Qed.

(* ---- per-character facts, by exhaustion over the 256 octets *)
Lemma all_ascii (P : ascii -> Prop) :
  (forall b0 b1 b2 b3 b4 b5 b6 b7, P (Ascii b0 b1 b2 b3 b4 b5 b6 b7)) -> forall c, P c.
Proof. intros H [b0 b1 b2 b3 b4 b5 b6 b7]. apply H. Qed.

Ltac by_octet := apply all_ascii; intros [] [] [] [] [] [] [] []; vm_compute; try reflexivity; try discriminate; auto.

Definition qp_char (c : ascii) : string := quote_plus (String c "").

Lemma quote_plus_cons c r : quote_plus (String c r) = qp_char c ++ quote_plus r.
Proof.
  unfold qp_char. cbn [quote_plus]. destruct (Ascii.eqb c " "); [reflexivity|].
  destruct (always_safe c); reflexivity.
Qed.

Lemma unquote_cons_nonpct x r : Ascii.eqb x "%" = false -> unquote (String x r) = String x (unquote r).
Proof.
  destruct x as [[] [] [] [] [] [] [] []]; intros H; try discriminate H; reflexivity.
Qed.

Lemma unquote_pct h l r a b :
  hex_val h = Some a -> hex_val l = Some b ->
  unquote (String "%" (String h (String l r))) = String (n_byte (a * 16 + b)) (unquote r).
Proof. intros H1 H2. cbn [unquote]. now rewrite H1, H2. Qed.

(* shape of the encoding of one octet, checked for all 256 octets by computation *)
Definition qp_ok (c : ascii) : bool :=
  match qp_char c with
  | String x EmptyString =>
      (Ascii.eqb x c && negb (Ascii.eqb c "%") && negb (Ascii.eqb c "+")) ||
      (Ascii.eqb c " " && Ascii.eqb x "+")
  | String p (String h (String l EmptyString)) =>
      Ascii.eqb p "%" &&
      match hex_val h, hex_val l with
      | Some a, Some b => Ascii.eqb (n_byte (a * 16 + b)) c && negb (Ascii.eqb h "+") && negb (Ascii.eqb l "+")
      | _, _ => false
      end
  | _ => false
  end.

Lemma qp_ok_all : forall c, qp_ok c = true.
Proof. apply all_ascii. intros [] [] [] [] [] [] [] []; vm_compute; reflexivity. Qed.

Lemma plus_to_space_cons c r :
  plus_to_space (String c r) = String (if Ascii.eqb c "+" then " "%char else c) (plus_to_space r).
Proof. reflexivity. Qed.

Lemma qp_char_roundtrip c r :
  unquote (plus_to_space (qp_char c ++ r)) = String c (unquote (plus_to_space r)).
Proof.
  pose proof (qp_ok_all c) as H. unfold qp_ok in H.
  destruct (qp_char c) as [|x [|h [|l [|y t]]]] eqn:E; try discriminate H.
  - apply orb_true_iff in H. destruct H as [H|H].
    + rewrite !andb_true_iff, !negb_true_iff in H. destruct H as [[Hx Hp] Hq].
      apply Ascii.eqb_eq in Hx. subst x. cbn [append]. rewrite plus_to_space_cons, Hq.
      now rewrite unquote_cons_nonpct.
    + apply andb_true_iff in H. destruct H as [Hc Hx]. apply Ascii.eqb_eq in Hc, Hx. subst.
      reflexivity.
  - apply andb_true_iff in H. destruct H as [Hp H]. apply Ascii.eqb_eq in Hp. subst x.
    destruct (hex_val h) as [a|] eqn:Eh; [|discriminate]. destruct (hex_val l) as [b|] eqn:El; [|discriminate].
    rewrite !andb_true_iff, !negb_true_iff in H. destruct H as [[Hc Hh] Hl].
    apply Ascii.eqb_eq in Hc. cbn [append]. rewrite !plus_to_space_cons, Hh, Hl.
    change (Ascii.eqb "%" "+") with false. cbv iota.
    rewrite (unquote_pct h l _ a b Eh El), Hc. reflexivity.
Qed.

Theorem unquote_plus_quote_plus s : unquote_plus (quote_plus s) = s.
Proof.
  unfold unquote_plus. induction s as [|c r IH]; [reflexivity|].
  rewrite quote_plus_cons, qp_char_roundtrip, IH. reflexivity.
Qed.

Lemma qp_char_lacks_amp : forall c, lacks "&" (qp_char c).
Proof. unfold lacks. apply all_ascii. intros [] [] [] [] [] [] [] []; vm_compute; reflexivity. Qed.
Lemma qp_char_lacks_eq : forall c, lacks "=" (qp_char c).
Proof. unfold lacks. apply all_ascii. intros [] [] [] [] [] [] [] []; vm_compute; reflexivity. Qed.

Lemma quote_plus_lacks_amp s : lacks "&" (quote_plus s).
Proof.
  induction s as [|c r IH]; [reflexivity|]. rewrite quote_plus_cons. apply lacks_app.
  split; [apply qp_char_lacks_amp|exact IH].
Qed.
Lemma quote_plus_lacks_eq s : lacks "=" (quote_plus s).
Proof.
  induction s as [|c r IH]; [reflexivity|]. rewrite quote_plus_cons. apply lacks_app.
  split; [apply qp_char_lacks_eq|exact IH].
Qed.

Lemma encode_pair_lacks_amp kv : lacks "&" (encode_pair kv).
Proof.
  unfold encode_pair. apply lacks_app. split; [apply quote_plus_lacks_amp|].
  apply (lacks_app "&" "=" _). split; [reflexivity|apply quote_plus_lacks_amp].
Qed.

Lemma encode_pair_nonempty kv : encode_pair kv <> "".
Proof. unfold encode_pair. destruct (quote_plus (fst kv)); discriminate. Qed.

Lemma parse_piece_encode kv : parse_piece true (encode_pair kv) = [kv].
Proof.
  unfold parse_piece. destruct (String.eqb_spec (encode_pair kv) "") as [E|_].
  - now apply encode_pair_nonempty in E.
  - unfold encode_pair. change ("=" ++ quote_plus (snd kv)) with (String "=" (quote_plus (snd kv))).
    rewrite split_first_app by apply quote_plus_lacks_eq.
    rewrite orb_true_r, !unquote_plus_quote_plus. now destruct kv.
Qed.

(* what the client half emits, the server half reads back: for every list of octet pairs *)
Theorem parse_qsl_urlencode ps : parse_qsl true (urlencode ps) = ps.
Proof.
  unfold parse_qsl, urlencode. induction ps as [|kv r IH]; [reflexivity|].
  destruct r as [|kv2 r'].
  - simpl. rewrite split_c_lacks by apply encode_pair_lacks_amp. simpl.
    rewrite parse_piece_encode. reflexivity.
  - change (join "&" (map encode_pair (kv :: kv2 :: r')))
      with (encode_pair kv ++ String "&" (join "&" (map encode_pair (kv2 :: r')))).
    rewrite split_c_app by apply encode_pair_lacks_amp. cbn [flat_map].
    rewrite parse_piece_encode. cbn [app]. f_equal. exact IH.
Qed.

(* adding parameters never drops, reorders or alters the decoded parameters already there *)
Theorem add_params_to_qs_preserves q ps :
  parse_qsl true (add_params_to_qs q ps) = (parse_qsl true q ++ ps)%list.
Proof. unfold add_params_to_qs. apply parse_qsl_urlencode. Qed.

(* the encoder emits only characters that url_decode's pre-checks accept *)
Lemma qp_char_urlencoded : forall c, str_all urlencoded_char (qp_char c) = true.
Proof. apply all_ascii. intros [] [] [] [] [] [] [] []; vm_compute; reflexivity. Qed.

Lemma str_all_app p a b : str_all p (a ++ b) = str_all p a && str_all p b.
Proof. induction a as [|c r IH]; simpl; [reflexivity|]. now rewrite IH, andb_assoc. Qed.

Lemma quote_plus_urlencoded s : str_all urlencoded_char (quote_plus s) = true.
Proof.
  induction s as [|c r IH]; [reflexivity|]. now rewrite quote_plus_cons, str_all_app, qp_char_urlencoded, IH.
Qed.

Lemma urlencode_urlencoded ps : str_all urlencoded_char (urlencode ps) = true.
Proof.
  unfold urlencode. induction ps as [|kv r IH]; [reflexivity|].
  destruct r as [|kv2 r'].
  - simpl. unfold encode_pair. now rewrite !str_all_app, !quote_plus_urlencoded.
  - change (join "&" (map encode_pair (kv :: kv2 :: r')))
      with (encode_pair kv ++ "&" ++ join "&" (map encode_pair (kv2 :: r'))).
    rewrite !str_all_app, IH. unfold encode_pair. now rewrite !str_all_app, !quote_plus_urlencoded.
Qed.
