From Coq Require Import List NArith ZArith Bool Ascii String Lia.
From Authlib Require Import Base.Bytes Base.Base64 Base.Utf8 Base.Percent Base.PyVal.
From Authlib Require Import Model.Claims Model.Resource Model.ClientAuth Spec.ClaimsSpec Proofs.ClaimsP.
Import ListNotations.
Open Scope string_scope.

Lemma find_client_id reg id c : find_client reg id = Some c -> c_id c = id.
Proof.
  induction reg as [|c0 r IH]; simpl; [discriminate|].
  destruct (String.eqb_spec (c_id c0) id) as [E|E].
  - intros H. injection H as <-. exact E.
  - exact IH.
Qed.

Lemma find_client_In reg id c : find_client reg id = Some c -> In c reg.
Proof.
  induction reg as [|c0 r IH]; simpl; [discriminate|].
  destruct (String.eqb (c_id c0) id).
  - intros H. injection H as <-. auto.
  - auto.
Qed.

Section P.
Variable token_url : string.
Variable jti_fresh : string -> bool.
Variable now : Z.

(* what it means to present valid credentials for [c] through method [m] *)
Definition presents (reg : registry) (r : creq) (m : string) (c : client) : Prop :=
  (m = "client_secret_basic" /\
     exists id sec, extract_basic (r_auth r) = (Some id, Some sec) /\ id <> "" /\ sec <> "" /\
                    find_client reg id = Some c /\ c_secret c = sec) \/
  (m = "client_secret_post" /\
     exists id sec, r_form_id r = Some id /\ r_form_secret r = Some sec /\ id <> "" /\ sec <> "" /\
                    find_client reg id = Some c /\ c_secret c = sec) \/
  (m = "none" /\
     exists id, r_data_id r = Some id /\ id <> "" /\ nonempty (r_data_secret r) = false /\
                find_client reg id = Some c) \/
  (m = ASSERTION_METHOD /\
     r_assertion_type r = Some ASSERTION_TYPE /\ nonempty (r_assertion r) = true /\
     r_assertion_wellformed r = true /\ r_assertion_sig_ok r = true /\
     (exists sub, dict_get "sub" (r_assertion_claims r) = Some (PStr sub) /\ find_client reg sub = Some c) /\
     jwt_validate (assertion_vfun jti_fresh) (assertion_options token_url) (r_assertion_claims r) now 60 = None /\
     check_endpoint_auth_method c ASSERTION_METHOD "token" = true).

Lemma run_method_client reg r m c :
  run_method token_url jti_fresh now reg r m = MClient c -> presents reg r m c.
Proof.
  unfold run_method, presents.
  destruct (String.eqb_spec m "client_secret_basic") as [->|N1].
  { intros H. left. split; [reflexivity|]. unfold m_basic in H.
    destruct (extract_basic (r_auth r)) as [[id|] [sec|]] eqn:E; try discriminate.
    destruct (String.eqb_spec id "") as [|Hid]; cbn [negb andb] in H; [discriminate|].
    destruct (String.eqb_spec sec "") as [|Hsec]; cbn [negb andb] in H; [discriminate|].
    destruct (find_client reg id) as [c0|] eqn:Ef; [|discriminate].
    unfold check_secret in H. destruct (String.eqb_spec (c_secret c0) sec) as [Es|]; [|discriminate].
    injection H as <-. exists id, sec. repeat split; auto. }
  destruct (String.eqb_spec m "client_secret_post") as [->|N2].
  { intros H. right; left. split; [reflexivity|]. unfold m_post in H.
    destruct (r_form_id r) as [id|] eqn:E1; cbn [nonempty andb] in H; [|discriminate].
    destruct (String.eqb_spec id "") as [|Hid]; cbn [negb andb] in H; [discriminate|].
    destruct (r_form_secret r) as [sec|] eqn:E2; cbn [nonempty] in H; [|discriminate].
    destruct (String.eqb_spec sec "") as [|Hsec]; cbn [negb] in H; [discriminate|].
    cbn [oval] in H. destruct (find_client reg id) as [c0|] eqn:Ef; [|discriminate].
    unfold check_secret in H. destruct (String.eqb_spec (c_secret c0) sec) as [Es|]; [|discriminate].
    injection H as <-. exists id, sec. repeat split; auto. }
  destruct (String.eqb_spec m "none") as [->|N3].
  { intros H. right; right; left. split; [reflexivity|]. unfold m_none in H.
    destruct (r_data_id r) as [id|] eqn:E1; cbn [nonempty andb] in H; [|discriminate].
    destruct (String.eqb_spec id "") as [|Hid]; cbn [negb andb] in H; [discriminate|].
    destruct (nonempty (r_data_secret r)) eqn:E2; cbn [negb] in H; [discriminate|].
    cbn [oval] in H. destruct (find_client reg id) as [c0|] eqn:Ef; [|discriminate].
    injection H as <-. exists id. repeat split; auto. }
  destruct (String.eqb_spec m ASSERTION_METHOD) as [->|N4]; [|discriminate].
  intros H. right; right; right. split; [reflexivity|]. unfold m_assertion in H.
  destruct (r_assertion_type r) as [t|] eqn:Et; cbn [andb] in H; [|discriminate].
  destruct (String.eqb_spec t ASSERTION_TYPE) as [->|]; cbn [andb] in H; [|discriminate].
  destruct (nonempty (r_assertion r)) eqn:Ea; [|discriminate].
  destruct (r_assertion_wellformed r) eqn:Ew; cbn [negb] in H; [|discriminate].
  destruct (dict_get "sub" (r_assertion_claims r)) as [[]|] eqn:Es; try discriminate.
  destruct (find_client reg s) as [c0|] eqn:Ef; [|discriminate].
  destruct (r_assertion_sig_ok r) eqn:Eg; cbn [negb] in H; [|discriminate].
  destruct (jwt_validate _ _ _ _ _) eqn:Ev; [discriminate|].
  destruct (check_endpoint_auth_method c0 ASSERTION_METHOD "token") eqn:Ec; [|discriminate].
  injection H as <-. repeat split; auto. exists s. auto.
Qed.

(* soundness: a client is returned only for valid credentials through a method
   that the endpoint permits and the client is registered for *)
Theorem auth_sound_l reg r methods endpoint id m :
  authenticate token_url jti_fresh now reg r methods endpoint = AOk id m ->
  In m methods /\ exists c, c_id c = id /\ In c reg /\ presents reg r m c /\
                            check_endpoint_auth_method c m endpoint = true.
Proof.
  unfold authenticate. generalize methods at 1 3 as ms. intros ms.
  generalize methods as all. intros all. induction ms as [|m0 rest IH]; simpl.
  - destruct (list_in_str _ all); discriminate.
  - destruct (run_method token_url jti_fresh now reg r m0) as [c| |st] eqn:Em.
    + destruct (check_endpoint_auth_method c m0 endpoint) eqn:Ec.
      * intros H. injection H as <- <-. split; [auto|]. exists c.
        pose proof (run_method_client _ _ _ _ Em) as Hp.
        assert (Hin : In c reg).
        { destruct Hp as [(_ & id & sec & _ & _ & _ & Hf & _)|[(_ & id & sec & _ & _ & _ & _ & Hf & _)|
                         [(_ & id & _ & _ & _ & Hf)|(_ & _ & _ & _ & _ & (sub & _ & Hf) & _)]]];
            eapply find_client_In; eauto. }
        auto.
      * intros H. destruct (IH H) as [Hin Hc]. auto.
    + intros H. destruct (IH H) as [Hin Hc]. auto.
    + discriminate.
Qed.

(* every failure is invalid_client with status 400 or 401; 401 exactly carries the Basic challenge *)
Theorem auth_failure_is_invalid_client_l reg r methods endpoint st :
  authenticate token_url jti_fresh now reg r methods endpoint = AInvalidClient st ->
  st = 400%N \/ st = 401%N.
Proof.
  unfold authenticate. generalize methods at 1 as ms. intros ms. induction ms as [|m0 rest IH]; simpl.
  - destruct (list_in_str _ methods); intros H; injection H as <-; auto.
  - destruct (run_method token_url jti_fresh now reg r m0) as [c| |s] eqn:Em.
    + destruct (check_endpoint_auth_method c m0 endpoint); [discriminate|exact IH].
    + exact IH.
    + intros H. injection H as <-. unfold run_method in Em.
      destruct (m0 =? "client_secret_basic").
      { unfold m_basic in Em. destruct (extract_basic _) as [[?|] [?|]]; try discriminate.
        destruct (_ && _); try discriminate. destruct (find_client _ _); [|injection Em as <-; auto].
        destruct (check_secret _ _); discriminate. }
      destruct (m0 =? "client_secret_post").
      { unfold m_post in Em. destruct (_ && _); try discriminate.
        destruct (find_client _ _); [|injection Em as <-; auto]. destruct (check_secret _ _); discriminate. }
      destruct (m0 =? "none").
      { unfold m_none in Em. destruct (_ && _); try discriminate.
        destruct (find_client _ _); [discriminate|injection Em as <-; auto]. }
      destruct (m0 =? ASSERTION_METHOD); [|discriminate].
      unfold m_assertion in Em. destruct (_ && _); try discriminate.
      destruct (negb _); [injection Em as <-; auto|].
      destruct (dict_get _ _) as [[]|]; try (injection Em as <-; auto; fail).
      destruct (find_client _ _); [|injection Em as <-; auto].
      destruct (negb _); [injection Em as <-; auto|].
      destruct (jwt_validate _ _ _ _ _); [injection Em as <-; auto|].
      destruct (check_endpoint_auth_method _ _ _); [discriminate|injection Em as <-; auto].
Qed.

(* HTTP Basic was the only mechanism attempted and the endpoint permits it: a failure is 401 *)
Definition only_basic_attempted (r : creq) : Prop :=
  r_form_id r = None /\ r_form_secret r = None /\ r_data_id r = None /\ r_data_secret r = None /\
  r_assertion_type r = None /\ r_assertion r = None.

Lemma only_basic_other_methods_none reg r m :
  only_basic_attempted r -> m <> "client_secret_basic" ->
  run_method token_url jti_fresh now reg r m = MNone.
Proof.
  intros (H1 & H2 & H3 & H4 & H5 & H6) Hm. unfold run_method.
  destruct (String.eqb_spec m "client_secret_basic"); [contradiction|].
  destruct (m =? "client_secret_post"); [unfold m_post; now rewrite H1|].
  destruct (m =? "none"); [unfold m_none; now rewrite H3|].
  destruct (m =? ASSERTION_METHOD); [unfold m_assertion; now rewrite H5|reflexivity].
Qed.

Theorem basic_only_401_l reg r methods endpoint st :
  only_basic_attempted r -> In "client_secret_basic" methods ->
  authenticate token_url jti_fresh now reg r methods endpoint = AInvalidClient st -> st = 401%N.
Proof.
  intros Hob Hin. apply list_in_str_In in Hin.
  unfold authenticate. generalize methods at 1 as ms. intros ms. induction ms as [|m0 rest IH]; simpl.
  - rewrite Hin. intros H. now injection H as <-.
  - destruct (String.eqb_spec m0 "client_secret_basic") as [->|Hne].
    + destruct (run_method _ _ _ _ _ _) as [c| |s] eqn:Em.
      * destruct (check_endpoint_auth_method _ _ _); [discriminate|exact IH].
      * exact IH.
      * intros H. injection H as <-. unfold run_method in Em. simpl in Em. unfold m_basic in Em.
        destruct (extract_basic _) as [[?|] [?|]]; try discriminate.
        destruct (_ && _); try discriminate. destruct (find_client _ _); [|now injection Em as <-].
        destruct (check_secret _ _); discriminate.
    + rewrite (only_basic_other_methods_none reg r m0 Hob Hne). exact IH.
Qed.

(* a public client that also sends a secret is not authenticated by method none *)
Theorem public_with_secret_refused_l reg r :
  nonempty (r_data_secret r) = true -> m_none reg r = MNone.
Proof. intros H. unfold m_none. rewrite H. now rewrite andb_false_r. Qed.

(* a method outside the permitted list is never the one that authenticates *)
Theorem method_not_permitted_never_used_l reg r methods endpoint id m :
  authenticate token_url jti_fresh now reg r methods endpoint = AOk id m -> In m methods.
Proof. intros H. now destruct (auth_sound_l _ _ _ _ _ _ H). Qed.

(* exactly one mechanism, valid, permitted, registered: success (no over-refusal) *)
Theorem auth_complete_basic_l reg r methods endpoint c id sec :
  extract_basic (r_auth r) = (Some id, Some sec) -> id <> "" -> sec <> "" ->
  find_client reg id = Some c -> c_secret c = sec ->
  check_endpoint_auth_method c "client_secret_basic" endpoint = true ->
  methods = "client_secret_basic" :: tl methods ->
  authenticate token_url jti_fresh now reg r methods endpoint = AOk id "client_secret_basic".
Proof.
  intros He Hid Hsec Hf Hs Hc Hm. rewrite Hm. unfold authenticate. simpl.
  unfold run_method. simpl. unfold m_basic. rewrite He.
  destruct (String.eqb_spec id ""); [contradiction|]. destruct (String.eqb_spec sec ""); [contradiction|].
  cbn [negb andb]. rewrite Hf. unfold check_secret. rewrite Hs, String.eqb_refl, Hc.
  now rewrite (find_client_id _ _ _ Hf).
Qed.
End P.

(* ---- Basic header: what a well-formed RFC 7617 header yields *)
Example extract_basic_examples :
  extract_basic (Some "Basic YTpi") = (Some "a", Some "b") /\
  extract_basic (Some "basic  YTpi") = (Some "a", Some "b") /\
  extract_basic (Some "Basic YTo=") = (Some "a", Some "") /\
  extract_basic (Some "Basic OmI=") = (Some "", Some "b") /\
  extract_basic (Some "Basic YSUzQTpiJTI1") = (Some "a:", Some "b%") /\
  extract_basic (Some "Basic YQ") = (None, None) /\
  extract_basic (Some "Basic YQ==") = (Some "a", None) /\
  extract_basic (Some "Basic	YTpi") = (None, None) /\
  extract_basic (Some "Basic ") = (None, None) /\
  extract_basic (Some "Basic /w==") = (None, None) /\
  extract_basic (Some "Bearer YTpi") = (None, None) /\
  extract_basic None = (None, None).
Proof. vm_compute. repeat split. Qed.
