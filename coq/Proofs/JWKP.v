From Coq Require Import List NArith ZArith Bool Ascii String Lia Sorting.Sorted Permutation.
From Authlib Require Import Base.Bytes Base.Base64 Base.BigEndian Base.PyVal Model.JWK.
From Authlib Require Import Proofs.Base64P Proofs.BigEndianP.
Import ListNotations.
Open Scope string_scope.

(* ---- integers *)
Lemma int_to_bytes_min_nonempty n : n <> 0%N -> int_to_bytes_min n <> "".
Proof.
  intros Hn E. destruct (int_to_bytes_min_no_leading_zero n Hn) as (a & Ha & _).
  rewrite E in Ha. discriminate.
Qed.

Lemma base64_to_int_int_to_base64_l n : n <> 0%N -> base64_to_int (int_to_base64 n) = Some n.
Proof.
  intros Hn. unfold base64_to_int, int_to_base64. rewrite urlsafe_b64decode_encode.
  pose proof (int_to_bytes_min_nonempty n Hn) as Hne.
  destruct (int_to_bytes_min n) eqn:E; [contradiction|].
  rewrite <- E. now rewrite bytes_to_int_min.
Qed.

Lemma int_to_base64_zero_l : int_to_base64 0 = "" /\ base64_to_int "" = None.
Proof. split; reflexivity. Qed.

Lemma int_to_base64_minimal_l n :
  n <> 0%N ->
  exists octets a, urlsafe_b64decode (int_to_base64 n) = Some octets /\
                   first_char octets = Some a /\ byte_n a <> 0%N /\ bytes_to_int octets = n.
Proof.
  intros Hn. exists (int_to_bytes_min n).
  destruct (int_to_bytes_min_no_leading_zero n Hn) as (a & Ha & Hz).
  exists a. unfold int_to_base64. rewrite urlsafe_b64decode_encode.
  repeat split; auto using bytes_to_int_min.
Qed.

Lemma int_to_base64_alphabet_l n : str_all is_b64url_char (int_to_base64 n) = true.
Proof. apply b64url_encode_alphabet. Qed.

(* ---- EC coordinates: RFC 7518 s6.2.1.2 wants the full curve size *)
Lemma ec_coordinate_full_size_l crv n s :
  ec_coord crv n = Some s ->
  exists octets, urlsafe_b64decode s = Some octets /\
                 String.length octets = curve_octets crv /\ bytes_to_int octets = n.
Proof.
  unfold ec_coord. destruct (encode_int_fixed (curve_octets crv) n) as [o|] eqn:E; [|discriminate].
  intros H. injection H as <-. exists o. rewrite urlsafe_b64decode_encode.
  destruct (decode_encode_int_fixed _ _ _ E) as [H1 H2]. auto.
Qed.

Lemma ec_dumps_members_full_size_l crv x y d toks m v :
  ec_dumps_private crv x y d = KOk toks ->
  In (m, v) [("x", x); ("y", y); ("d", d)] ->
  exists s octets, dict_get m toks = Some (PStr s) /\ urlsafe_b64decode s = Some octets /\
                   String.length octets = curve_octets crv /\ bytes_to_int octets = v.
Proof.
  unfold ec_dumps_private.
  destruct (ec_coord crv x) as [xs|] eqn:Ex; [|discriminate].
  destruct (ec_coord crv y) as [ys|] eqn:Ey; [|discriminate].
  destruct (ec_coord crv d) as [ds|] eqn:Ed; [|discriminate].
  intros H. injection H as <-. intros [E|[E|[E|[]]]]; injection E as <- <-.
  - exists xs. destruct (ec_coordinate_full_size_l _ _ _ Ex) as (o & ? & ? & ?). exists o. auto.
  - exists ys. destruct (ec_coordinate_full_size_l _ _ _ Ey) as (o & ? & ? & ?). exists o. auto.
  - exists ds. destruct (ec_coordinate_full_size_l _ _ _ Ed) as (o & ? & ? & ?). exists o. auto.
Qed.

(* the defect that was repaired: the minimal-length encoder is NOT full size *)
Lemma minimal_encoder_not_full_size_l :
  exists crv n, curve_octets crv = 32%nat /\ ec_coord crv n <> Some (int_to_base64 n).
Proof. exists "P-256", 1%N. split; [reflexivity|]. vm_compute. discriminate. Qed.

(* import accepts both lengths: leading zero octets do not change the integer *)
Lemma ec_import_accepts_padded_l k n :
  n <> 0%N ->
  base64_to_int (b64url_encode (str_repeat "000"%char k ++ int_to_bytes_min n)) = Some n.
Proof.
  intros Hn. unfold base64_to_int. rewrite urlsafe_b64decode_encode.
  pose proof (int_to_bytes_min_nonempty n Hn) as Hne.
  destruct (str_repeat "000"%char k ++ int_to_bytes_min n) eqn:E.
  - destruct k; simpl in E; [contradiction|discriminate].
  - rewrite <- E. unfold bytes_to_int. rewrite be_acc_zeros. f_equal. apply (bytes_to_int_min n).
Qed.

(* ---- dict facts *)
Lemma dict_keys_set k k' v d :
  In k (dict_keys (dict_set k' v d)) <-> k = k' \/ In k (dict_keys d).
Proof.
  induction d as [|[k0 v0] r IH]; simpl.
  - intuition.
  - destruct (String.eqb_spec k' k0) as [->|Hne]; simpl.
    + intuition.
    + rewrite IH. intuition.
Qed.

Lemma dict_keys_filter (p : string -> bool) (d : dict) k :
  In k (dict_keys (filter (fun kv => p (fst kv)) d)) -> p k = true /\ In k (dict_keys d).
Proof.
  unfold dict_keys. rewrite in_map_iff. intros ((k0, v0) & <- & Hin).
  apply filter_In in Hin. destruct Hin as [Hin Hp]. simpl in *. split; [assumption|].
  apply in_map_iff. exists (k0, v0). auto.
Qed.

(* ---- export filter *)
Lemma public_export_only_public_fields_l kty pf toks thumb d :
  as_dict_core kty pf false toks thumb = KOk d ->
  dict_has "d" toks = true ->
  forall k, In k (dict_keys d) -> In k pf \/ k = "kty" \/ k = "kid".
Proof.
  unfold as_dict_core. intros H Hd. rewrite Hd in H. cbn [andb negb] in H.
  injection H as <-. intros k.
  set (f0 := filter (fun kv => list_in_str (fst kv) pf) toks).
  assert (Hf0 : forall k, In k (dict_keys f0) -> In k pf).
  { intros k0 Hk0. unfold f0 in Hk0.
    apply (dict_keys_filter (fun x => list_in_str x pf)) in Hk0. destruct Hk0 as [Hp _].
    now apply list_in_str_In. }
  destruct (match dict_get "kid" toks with Some v => py_truthy v | None => false end) eqn:Ekid.
  - destruct (dict_get "kid" toks) as [v|] eqn:Eg.
    + rewrite !dict_keys_set. intros [->|[->|Hin]]; auto.
    + rewrite !dict_keys_set. intros [->|Hin]; auto.
  - rewrite !dict_keys_set. intros [->|[->|Hin]]; auto.
Qed.

Definition disjoint_strs (a b : list string) : bool :=
  forallb (fun x => negb (list_in_str x b)) a.

Lemma public_export_no_private_member_l kty pf toks thumb d :
  disjoint_strs PRIVATE_MEMBERS (pf ++ ["kty"; "kid"]) = true ->
  as_dict_core kty pf false toks thumb = KOk d ->
  dict_has "d" toks = true ->
  forall k, In k PRIVATE_MEMBERS -> ~ In k (dict_keys d).
Proof.
  intros Hdis H Hd k Hk Hin.
  pose proof (public_export_only_public_fields_l _ _ _ _ _ H Hd k Hin) as Hp.
  unfold disjoint_strs in Hdis. rewrite forallb_forall in Hdis.
  specialize (Hdis k Hk). apply negb_true_iff in Hdis.
  assert (In k (pf ++ ["kty"; "kid"])) as Hin2.
  { apply in_or_app. simpl. intuition. }
  apply list_in_str_In in Hin2. congruence.
Qed.

Lemma key_classes_disjoint_l :
  disjoint_strs PRIVATE_MEMBERS (RSA_PUBLIC ++ ["kty"; "kid"]) = true /\
  disjoint_strs PRIVATE_MEMBERS (EC_PUBLIC ++ ["kty"; "kid"]) = true /\
  disjoint_strs PRIVATE_MEMBERS (OKP_PUBLIC ++ ["kty"; "kid"]) = true.
Proof. vm_compute. auto. Qed.

Lemma private_export_of_public_errors_l kty pf toks thumb :
  dict_has "d" toks = false ->
  as_dict_core kty pf true toks thumb = KErr "This is a public key".
Proof. intros H. unfold as_dict_core. rewrite H. reflexivity. Qed.

Lemma keyset_public_export_no_private_l ks ds :
  keyset_as_dict false ks = KOk ds ->
  Forall (fun '(kty, pf, toks, thumb) =>
            disjoint_strs PRIVATE_MEMBERS (pf ++ ["kty"; "kid"]) = true /\ dict_has "d" toks = true) ks ->
  Forall (fun d => forall k, In k PRIVATE_MEMBERS -> ~ In k (dict_keys d)) ds.
Proof.
  revert ds. induction ks as [|[[[kty pf] toks] thumb] r IH]; intros ds H HF.
  - injection H as <-. constructor.
  - cbn [keyset_as_dict] in H.
    destruct (as_dict_core kty pf false toks thumb) as [d|m] eqn:E; [|discriminate].
    destruct (keyset_as_dict false r) as [ds'|m] eqn:E2; [|discriminate].
    injection H as <-. inversion HF as [|? ? Hh HF']; subst. cbn in Hh. destruct Hh as [Hdis Hd].
    constructor.
    + exact (public_export_no_private_member_l kty pf toks thumb d Hdis E Hd).
    + apply IH; auto.
Qed.

Lemma keyset_private_export_with_public_errors_l ks :
  Exists (fun '(kty, pf, toks, thumb) => dict_has "d" toks = false) ks ->
  exists m, keyset_as_dict true ks = KErr m.
Proof.
  induction 1 as [[[[kty pf] toks] thumb] r H | [[[kty pf] toks] thumb] r H IH].
  - cbn [keyset_as_dict]. rewrite (private_export_of_public_errors_l _ _ _ _ H). eauto.
  - cbn [keyset_as_dict]. destruct (as_dict_core kty pf true toks thumb); eauto.
    destruct IH as (m & ->). eauto.
Qed.

(* ---- thumbprint member order *)
Definition sle (a b : string) : Prop := String.leb a b = true.

Lemma insert_sorted_sorted k l : Sorted sle l -> Sorted sle (insert_sorted k l).
Proof.
  induction l as [|x r IH]; intros Hs; simpl.
  - repeat constructor.
  - destruct (String.leb k x) eqn:E.
    + constructor; [assumption|]. constructor. exact E.
    + inversion Hs as [|? ? Hr Hhd]; subst. constructor; [auto|].
      destruct r as [|y r']; simpl.
      * constructor. destruct (String.leb_total x k) as [H|H]; [exact H|]. unfold sle. congruence.
      * destruct (String.leb k y) eqn:E2.
        -- constructor. destruct (String.leb_total x k) as [H|H]; [exact H|]. congruence.
        -- inversion Hhd; subst. constructor. assumption.
Qed.

Lemma sort_strs_sorted l : Sorted sle (sort_strs l).
Proof. induction l; simpl; [constructor|]. now apply insert_sorted_sorted. Qed.

Lemma insert_sorted_perm k l : Permutation (k :: l) (insert_sorted k l).
Proof.
  induction l as [|x r IH]; simpl; [reflexivity|].
  destruct (String.leb k x); [reflexivity|].
  rewrite perm_swap. now constructor.
Qed.

Lemma sort_strs_perm l : Permutation l (sort_strs l).
Proof.
  induction l as [|x r IH]; simpl; [reflexivity|].
  rewrite <- insert_sorted_perm. now constructor.
Qed.

(* the JSON text: members in sorted order, "name":"value", comma separated *)
Fixpoint members_text (fs : list string) (toks : dict) : option (list string) :=
  match fs with
  | [] => Some []
  | f :: r => match dict_get f toks, members_text r toks with
              | Some (PStr v), Some t => Some ((q f ++ ":" ++ q v) :: t)
              | _, _ => None
              end
  end.

Lemma thumb_go_spec toks fs acc s :
  thumb_go toks fs acc = KOk s ->
  exists t, members_text fs toks = Some t /\ s = "{" ++ join "," (rev acc ++ t) ++ "}".
Proof.
  revert acc. induction fs as [|f r IH]; intros acc H.
  - simpl in H. injection H as <-. exists []. now rewrite app_nil_r.
  - cbn [thumb_go members_text] in *. destruct (dict_get f toks) as [[]|] eqn:E; try discriminate.
    destruct (IH _ H) as (t & Ht & ->). rewrite Ht. eexists; split; [reflexivity|].
    simpl. now rewrite <- app_assoc.
Qed.

Lemma thumbprint_input_canonical_l kty required toks s :
  thumbprint_input kty required toks = KOk s ->
  exists fields texts,
    Sorted sle fields /\ Permutation (required ++ ["kty"]) fields /\
    members_text fields (dict_set "kty" (PStr kty) toks) = Some texts /\
    s = "{" ++ join "," texts ++ "}".
Proof.
  unfold thumbprint_input. intros H. destruct (thumb_go_spec _ _ _ _ H) as (t & Ht & ->).
  exists (sort_strs (required ++ ["kty"])), t.
  repeat split; auto using sort_strs_sorted, sort_strs_perm.
Qed.

(* ---- OKP / oct: raw octets, unpadded base64url *)
Lemma raw_octets_roundtrip_l x : urlsafe_b64decode (b64url_encode x) = Some x.
Proof. apply urlsafe_b64decode_encode. Qed.
