(* C03: JWE -- the serialization round trip and "nothing is decrypted but exactly what was received". *)
From Coq Require Import List NArith ZArith Bool Ascii String Lia.
From Authlib Require Import Base.Bytes Base.Base64 Base.PyVal Model.JWS Model.JWE Proofs.Base64P Proofs.JWSP.
Import ListNotations.
Open Scope string_scope.
Open Scope list_scope.

Lemma split_dots_nonempty s : split_dots s <> [].
Proof. induction s as [|c r IH]; cbn; [discriminate|]. destruct (Ascii.eqb c "."); [discriminate|]. destruct (split_dots r); discriminate. Qed.

Lemma split_dots_nodot s : nodot s -> split_dots s = [s].
Proof.
  unfold nodot. induction s as [|c r IH]; cbn; auto. intros H. apply orb_false_iff in H. destruct H as [H1 H2].
  rewrite H1, (IH H2). reflexivity.
Qed.

Lemma split_dots_app a r : nodot a -> split_dots (a ++ "." ++ r)%string = a :: split_dots r.
Proof.
  unfold nodot. induction a as [|c a IH]; cbn; auto. intros H. apply orb_false_iff in H. destruct H as [H1 H2].
  rewrite H1. cbn in IH. rewrite (IH H2). reflexivity.
Qed.

(* the pieces of split_dots contain no dot, and joining them with dots gives the string back *)
Lemma split_dots_pieces s : Forall nodot (split_dots s).
Proof.
  induction s as [|c r IH]; cbn; [repeat constructor|].
  destruct (Ascii.eqb c ".") eqn:E; [constructor; [reflexivity|exact IH]|].
  destruct (split_dots r) as [|h t]; [repeat constructor; unfold nodot; cbn; rewrite E; reflexivity|].
  inversion IH; subst. constructor; auto. unfold nodot in *. cbn. rewrite E. assumption.
Qed.

Lemma split_dots_join s : join "." (split_dots s) = s.
Proof.
  induction s as [|c r IH]; cbn; [reflexivity|].
  destruct (Ascii.eqb c ".") eqn:E.
  - apply Ascii.eqb_eq in E. subst c. pose proof (split_dots_nonempty r). destruct (split_dots r) eqn:S; [congruence|].
    cbn in *. rewrite IH. reflexivity.
  - destruct (split_dots r) as [|h t] eqn:S; [exfalso; eapply split_dots_nonempty; eauto|].
    cbn in *. destruct t; cbn in *; rewrite <- IH; reflexivity.
Qed.

Section P.
Variable json_dumps : hdict -> string.
Variable json_loads : string -> option pv.
Variable alg_registered enc_registered zip_registered : string -> bool.
Variable prepare_key : string -> pv -> option pv.
Variable unwrap : string -> string -> string -> hdict -> pv -> option string.
Variable decrypt : string -> string -> string -> string -> string -> string -> option string.
Variable decompress : string -> string -> option string.

Notation header_alg := (header_alg alg_registered).
Notation header_enc := (header_enc enc_registered).
Notation header_zip := (header_zip zip_registered).
Notation extract_hdr := (extract_hdr json_loads).
Notation finish := (finish decompress).
Notation deserialize_compact :=
  (deserialize_compact json_loads alg_registered enc_registered zip_registered prepare_key unwrap decrypt decompress).
Notation deserialize_json :=
  (deserialize_json json_loads alg_registered enc_registered zip_registered prepare_key unwrap decrypt decompress).
Notation try_all := (try_all unwrap).

(* ---------- compact: what is assembled is taken apart again ---------- *)
Theorem compact_roundtrip_l allow protected ek iv ct tag rawkey alg enc zip k cek msg payload :
  (forall d, json_loads (json_dumps d) = Some (PDict d)) ->
  header_alg allow protected = EOk alg -> header_enc allow protected = EOk enc -> header_zip allow protected = EOk zip ->
  prepare_key alg (effective_key protected rawkey) = Some k ->
  unwrap alg enc ek protected k = Some cek ->
  decrypt enc cek iv (b64url_encode (json_dumps protected)) ct tag = Some msg ->
  finish zip msg = EOk payload ->
  deserialize_compact allow (assemble_compact (json_dumps protected) ek iv ct tag) rawkey = EOk (protected, payload).
Proof.
  intros J HA HE HZ PK UW DE FI. unfold JWE.deserialize_compact, assemble_compact.
  rewrite (split_dots_app _ _ (b64url_nodot (json_dumps protected))).
  rewrite (split_dots_app _ _ (b64url_nodot ek)), (split_dots_app _ _ (b64url_nodot iv)), (split_dots_app _ _ (b64url_nodot ct)).
  rewrite (split_dots_nodot _ (b64url_nodot tag)).
  unfold JWE.extract_hdr, extract_seg. rewrite !urlsafe_b64decode_encode, J.
  rewrite HA, HE, HZ, PK, UW, DE, FI. reflexivity.
Qed.

(* ---------- compact: whatever decrypts ---------- *)
Theorem compact_accept_sound_l allow s rawkey h payload :
  deserialize_compact allow s rawkey = EOk (h, payload) ->
  exists ps eks ivs cts tags ek iv ct tag alg enc zip k cek msg,
    s = (ps ++ "." ++ eks ++ "." ++ ivs ++ "." ++ cts ++ "." ++ tags)%string /\
    nodot ps /\ nodot eks /\ nodot ivs /\ nodot cts /\ nodot tags /\
    extract_hdr ps = EOk h /\
    urlsafe_b64decode eks = Some ek /\ urlsafe_b64decode ivs = Some iv /\ urlsafe_b64decode cts = Some ct /\
    urlsafe_b64decode tags = Some tag /\
    header_alg allow h = EOk alg /\ header_enc allow h = EOk enc /\ header_zip allow h = EOk zip /\
    prepare_key alg (effective_key h rawkey) = Some k /\
    unwrap alg enc ek h k = Some cek /\
    decrypt enc cek iv ps ct tag = Some msg /\            (* the AAD is the received protected segment itself *)
    finish zip msg = EOk payload.
Proof.
  unfold JWE.deserialize_compact.
  pose proof (split_dots_pieces s) as P. pose proof (split_dots_join s) as Jn.
  destruct (split_dots s) as [|ps [|eks [|ivs [|cts [|tags [|x l]]]]]]; try discriminate.
  destruct (extract_hdr ps) as [h0|] eqn:EH; [|discriminate].
  unfold extract_seg.
  destruct (urlsafe_b64decode eks) as [ek|] eqn:D1; [|discriminate].
  destruct (urlsafe_b64decode ivs) as [iv|] eqn:D2; [|discriminate].
  destruct (urlsafe_b64decode cts) as [ct|] eqn:D3; [|discriminate].
  destruct (urlsafe_b64decode tags) as [tag|] eqn:D4; [|discriminate].
  destruct (header_alg allow h0) as [alg|] eqn:HA; [|discriminate].
  destruct (header_enc allow h0) as [enc|] eqn:HE; [|discriminate].
  destruct (header_zip allow h0) as [zip|] eqn:HZ; [|discriminate].
  destruct (prepare_key alg _) as [k|] eqn:PK; [|discriminate].
  destruct (unwrap alg enc ek h0 k) as [cek|] eqn:UW; [|discriminate].
  destruct (decrypt enc cek iv ps ct tag) as [msg|] eqn:DE; [|discriminate].
  destruct (finish zip msg) as [pl|] eqn:FI; [|discriminate].
  intros H. injection H as <- <-.
  inversion P as [|? ? N1 P1]; subst. inversion P1 as [|? ? N2 P2]; subst. inversion P2 as [|? ? N3 P3]; subst.
  inversion P3 as [|? ? N4 P4]; subst. inversion P4 as [|? ? N5 P5]; subst.
  exists ps, eks, ivs, cts, tags, ek, iv, ct, tag, alg, enc, zip, k, cek, msg.
  repeat split; auto; try (rewrite <- Jn; reflexivity).
Qed.

(* ---------- compact: the converse -- every five-segment string whose parts pass each stage is accepted, so the
   conditions of compact_accept_sound_l characterise acceptance exactly ---------- *)
Theorem compact_accept_complete_l allow ps eks ivs cts tags ek iv ct tag alg enc zip k cek msg rawkey h payload :
  nodot ps -> nodot eks -> nodot ivs -> nodot cts -> nodot tags ->
  extract_hdr ps = EOk h ->
  urlsafe_b64decode eks = Some ek -> urlsafe_b64decode ivs = Some iv -> urlsafe_b64decode cts = Some ct ->
  urlsafe_b64decode tags = Some tag ->
  header_alg allow h = EOk alg -> header_enc allow h = EOk enc -> header_zip allow h = EOk zip ->
  prepare_key alg (effective_key h rawkey) = Some k ->
  unwrap alg enc ek h k = Some cek ->
  decrypt enc cek iv ps ct tag = Some msg ->
  finish zip msg = EOk payload ->
  deserialize_compact allow (ps ++ "." ++ eks ++ "." ++ ivs ++ "." ++ cts ++ "." ++ tags)%string rawkey = EOk (h, payload).
Proof.
  intros N1 N2 N3 N4 N5 EH D1 D2 D3 D4 HA HE HZ PK UW DE FI. unfold JWE.deserialize_compact.
  rewrite (split_dots_app _ _ N1), (split_dots_app _ _ N2), (split_dots_app _ _ N3), (split_dots_app _ _ N4).
  rewrite (split_dots_nodot _ N5). rewrite EH. unfold extract_seg. rewrite D1, D2, D3, D4.
  rewrite HA, HE, HZ, PK, UW, DE, FI. reflexivity.
Qed.

(* a serialization that does not consist of exactly five dot-separated segments is refused before any key is touched *)
Theorem compact_segment_count_l allow s rawkey :
  List.length (split_dots s) <> 5%nat -> deserialize_compact allow s rawkey = EErr (EDecode "segments").
Proof.
  unfold JWE.deserialize_compact. intros L.
  destruct (split_dots s) as [|a [|b [|c [|d [|e [|x l]]]]]]; try reflexivity. cbn in L. congruence.
Qed.

(* alg / enc / zip are the header's, allow-listed and registered *)
Lemma header_alg_sound allow h a : header_alg allow h = EOk a ->
  dict_get "alg" h = Some (PStr a) /\ alg_registered a = true /\ allowed allow a = true.
Proof.
  unfold JWE.header_alg, str_member. destruct (dict_get "alg" h) as [[| | | |x| |]|]; try discriminate.
  destruct (allowed allow x) eqn:A; cbn; [|discriminate]. destruct (alg_registered x) eqn:R; [|discriminate].
  intros H; injection H as <-. auto.
Qed.
Lemma header_enc_sound allow h a : header_enc allow h = EOk a ->
  dict_get "enc" h = Some (PStr a) /\ enc_registered a = true /\ allowed allow a = true.
Proof.
  unfold JWE.header_enc, str_member. destruct (dict_get "enc" h) as [[| | | |x| |]|]; try discriminate.
  destruct (allowed allow x) eqn:A; cbn; [|discriminate]. destruct (enc_registered x) eqn:R; [|discriminate].
  intros H; injection H as <-. auto.
Qed.

(* ---------- JSON: whatever decrypts ---------- *)
Lemma try_all_sound alg enc p u k rs cek :
  try_all alg enc p u k rs = Some cek ->
  exists r ek, In (r, ek) rs /\ unwrap alg enc ek (merge3 p u (r_header r)) k = Some cek.
Proof.
  induction rs as [|[r ek] q IH]; cbn; [discriminate|].
  destruct (unwrap alg enc ek _ k) as [c|] eqn:U.
  - intros H; injection H as <-. exists r, ek. auto.
  - intros H. destruct (IH H) as [r0 [ek0 [I U0]]]. exists r0, ek0. auto.
Qed.

Lemma find_kid_recipient_In rs kid r ek : find_kid_recipient rs kid = Some (r, ek) ->
  In (r, ek) rs /\ kid_of (r_header r) = Some kid.
Proof.
  induction rs as [|[r0 ek0] q IH]; cbn; [discriminate|].
  destruct (kid_of (r_header r0)) as [k|] eqn:K.
  - destruct (String.eqb k kid) eqn:E.
    + intros H; injection H as <- <-. apply String.eqb_eq in E. subst. auto.
    + intros H. destruct (IH H). auto.
  - intros H. destruct (IH H). auto.
Qed.

Lemma decode_eks_sound rs l r ek : decode_eks rs = EOk l -> In (r, ek) l ->
  In r rs /\ exists seg, r_ek r = Some seg /\ urlsafe_b64decode seg = Some ek.
Proof.
  revert l. induction rs as [|r0 q IH]; cbn; intros l H I.
  - injection H as <-. destruct I.
  - destruct (r_ek r0) as [seg|] eqn:S; [|discriminate]. unfold extract_seg in H.
    destruct (urlsafe_b64decode seg) as [e|] eqn:D; [|discriminate].
    destruct (decode_eks q) as [l0|] eqn:DE; [|discriminate]. injection H as <-.
    destruct I as [I|I].
    + injection I as <- <-. split; [left; reflexivity|]. eauto.
    + destruct (IH l0 eq_refl I) as [A B]. split; [right; exact A|exact B].
Qed.

Theorem json_accept_sound_l allow o rawkey key_kid p payload :
  deserialize_json allow o rawkey key_kid = EOk (p, payload) ->
  exists iv ct tag alg enc zip k r ek cek msg,
    (match o_protected o with Some ps => extract_hdr ps | None => EOk [] end) = EOk p /\
    (exists s, o_iv o = Some s /\ urlsafe_b64decode s = Some iv) /\
    (exists s, o_ct o = Some s /\ urlsafe_b64decode s = Some ct) /\
    (exists s, o_tag o = Some s /\ urlsafe_b64decode s = Some tag) /\
    header_alg allow (hmerge p (o_unprotected o)) = EOk alg /\
    header_enc allow (hmerge p (o_unprotected o)) = EOk enc /\
    header_zip allow (hmerge p (o_unprotected o)) = EOk zip /\
    prepare_key alg rawkey = Some k /\
    In r (o_recipients o) /\ (exists seg, r_ek r = Some seg /\ urlsafe_b64decode seg = Some ek) /\
    unwrap alg enc ek (merge3 p (o_unprotected o) (r_header r)) k = Some cek /\
    decrypt enc cek iv (json_aad o) ct tag = Some msg /\     (* AAD: the received protected member (and "." aad) *)
    finish zip msg = EOk payload.
Proof.
  unfold JWE.deserialize_json.
  destruct (match o_protected o with Some ps => extract_hdr ps | None => EOk [] end) as [p0|] eqn:EP; [|discriminate].
  destruct (decode_eks (o_recipients o)) as [rs|] eqn:DK; [|discriminate].
  destruct (match o_aad o with Some a => extract_seg a "JWE AAD" | None => EOk "" end); [|discriminate].
  destruct (o_iv o) as [ivs|] eqn:OI; [|discriminate].
  destruct (o_ct o) as [cts|] eqn:OC; [|discriminate].
  destruct (o_tag o) as [tags|] eqn:OT; [|discriminate].
  unfold extract_seg.
  destruct (urlsafe_b64decode ivs) as [iv|] eqn:D2; [|discriminate].
  destruct (urlsafe_b64decode cts) as [ct|] eqn:D3; [|discriminate].
  destruct (urlsafe_b64decode tags) as [tag|] eqn:D4; [|discriminate].
  destruct (header_alg allow _) as [alg|] eqn:HA; [|discriminate].
  destruct (header_enc allow _) as [enc|] eqn:HE; [|discriminate].
  destruct (header_zip allow _) as [zip|] eqn:HZ; [|discriminate].
  destruct (prepare_key alg rawkey) as [k|] eqn:PK; [|discriminate].
  match goal with |- context [match ?c with Some cek => _ | None => EErr (EKeyError "unwrap") end] =>
    destruct c as [cek|] eqn:CK; [|discriminate] end.
  destruct (decrypt enc cek iv (json_aad o) ct tag) as [msg|] eqn:DE; [|discriminate].
  destruct (finish zip msg) as [pl|] eqn:FI; [|discriminate].
  intros H. injection H as <- <-.
  assert (X : exists r ek, In (r, ek) rs /\ unwrap alg enc ek (merge3 p0 (o_unprotected o) (r_header r)) k = Some cek).
  { destruct (match key_kid with Some kid => find_kid_recipient rs kid | None => None end) as [[r ek]|] eqn:FK.
    - destruct key_kid as [kid|]; [|discriminate]. destruct (find_kid_recipient_In _ _ _ _ FK) as [I _]. eauto.
    - apply try_all_sound in CK. exact CK. }
  destruct X as [r [ek [I U]]]. destruct (decode_eks_sound _ _ _ _ DK I) as [IR SEG].
  exists iv, ct, tag, alg, enc, zip, k, r, ek, cek, msg. repeat split; eauto.
Qed.
End P.
