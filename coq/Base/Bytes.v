(* Byte strings: Coq [string] with one [ascii] per octet.  Text is its UTF-8
   encoding.  Small executable helpers shared by every model. *)
From Coq Require Import List NArith ZArith Bool Ascii String Lia.
Import ListNotations.
Open Scope string_scope.

Definition byte_n (a : ascii) : N := N_of_ascii a.
Definition n_byte (n : N) : ascii := ascii_of_N n.

Lemma byte_n_lt a : (byte_n a < 256)%N.
Proof. unfold byte_n. apply N_ascii_bounded. Qed.

Lemma n_byte_n a : n_byte (byte_n a) = a.
Proof. unfold n_byte, byte_n. apply ascii_N_embedding. Qed.

Lemma byte_n_byte n : (n < 256)%N -> byte_n (n_byte n) = n.
Proof. unfold n_byte, byte_n. apply N_ascii_embedding. Qed.

Definition ascii_eqb (a b : ascii) : bool := Ascii.eqb a b.

Fixpoint str_in (c : ascii) (s : string) : bool :=
  match s with
  | EmptyString => false
  | String d r => Ascii.eqb c d || str_in c r
  end.

Fixpoint str_all (p : ascii -> bool) (s : string) : bool :=
  match s with
  | EmptyString => true
  | String d r => p d && str_all p r
  end.

Fixpoint str_any (p : ascii -> bool) (s : string) : bool :=
  match s with
  | EmptyString => false
  | String d r => p d || str_any p r
  end.

Fixpoint str_map (f : ascii -> ascii) (s : string) : string :=
  match s with
  | EmptyString => EmptyString
  | String d r => String (f d) (str_map f r)
  end.

Fixpoint str_rev_app (s acc : string) : string :=
  match s with
  | EmptyString => acc
  | String d r => str_rev_app r (String d acc)
  end.
Definition str_rev (s : string) : string := str_rev_app s "".

Fixpoint str_repeat (c : ascii) (n : nat) : string :=
  match n with O => "" | S k => String c (str_repeat c k) end.

Definition is_upper (a : ascii) : bool :=
  let n := byte_n a in (65 <=? n)%N && (n <=? 90)%N.
Definition is_lower (a : ascii) : bool :=
  let n := byte_n a in (97 <=? n)%N && (n <=? 122)%N.
Definition is_digit (a : ascii) : bool :=
  let n := byte_n a in (48 <=? n)%N && (n <=? 57)%N.
Definition is_alpha a := is_upper a || is_lower a.
Definition is_alnum a := is_alpha a || is_digit a.

(* ASCII-only lower/upper (Python's str.lower on ASCII text; non-ASCII octets
   of UTF-8 text are left alone, which agrees with str.lower for every code
   point whose lower-casing is itself -- the harness only feeds such text
   where case matters). *)
Definition lower_ascii (a : ascii) : ascii :=
  if is_upper a then n_byte (byte_n a + 32) else a.
Definition upper_ascii (a : ascii) : ascii :=
  if is_lower a then n_byte (byte_n a - 32) else a.
Definition lower (s : string) := str_map lower_ascii s.
Definition upper (s : string) := str_map upper_ascii s.

(* prefix test *)
Fixpoint starts_with (p s : string) : bool :=
  match p, s with
  | EmptyString, _ => true
  | String a p', String b s' => Ascii.eqb a b && starts_with p' s'
  | _, _ => false
  end.

Definition ends_with (p s : string) : bool :=
  starts_with (str_rev p) (str_rev s).

(* drop n characters *)
Fixpoint str_drop (n : nat) (s : string) : string :=
  match n, s with
  | O, _ => s
  | S k, String _ r => str_drop k r
  | S _, EmptyString => EmptyString
  end.

Fixpoint str_take (n : nat) (s : string) : string :=
  match n, s with
  | O, _ => EmptyString
  | S k, String a r => String a (str_take k r)
  | S _, EmptyString => EmptyString
  end.

(* Split on a single separator character: Python's s.split(c) (all pieces). *)
Fixpoint split_on_aux (c : ascii) (s cur : string) : list string :=
  match s with
  | EmptyString => [str_rev cur]
  | String d r =>
      if Ascii.eqb d c then str_rev cur :: split_on_aux c r ""
      else split_on_aux c r (String d cur)
  end.
Definition split_on (c : ascii) (s : string) : list string := split_on_aux c s "".

(* Split on the first occurrence of c: (before, Some after) or (s, None). *)
Fixpoint split_first (c : ascii) (s : string) : string * option string :=
  match s with
  | EmptyString => (EmptyString, None)
  | String d r =>
      if Ascii.eqb d c then (EmptyString, Some r)
      else let '(a, b) := split_first c r in (String d a, b)
  end.

Fixpoint join (sep : string) (l : list string) : string :=
  match l with
  | [] => ""
  | [x] => x
  | x :: r => x ++ sep ++ join sep r
  end.

(* Python str.split() with no argument on ASCII whitespace 09-0D,1C-1F,20. *)
Definition is_ws (a : ascii) : bool :=
  let n := byte_n a in
  ((9 <=? n) && (n <=? 13) || (28 <=? n) && (n <=? 32))%N.

Fixpoint split_ws_aux (s cur : string) : list string :=
  match s with
  | EmptyString => match cur with EmptyString => [] | _ => [str_rev cur] end
  | String d r =>
      if is_ws d then
        match cur with
        | EmptyString => split_ws_aux r ""
        | _ => str_rev cur :: split_ws_aux r ""
        end
      else split_ws_aux r (String d cur)
  end.
Definition split_ws (s : string) : list string := split_ws_aux s "".

Fixpoint lstrip_ws (s : string) : string :=
  match s with
  | String d r => if is_ws d then lstrip_ws r else s
  | EmptyString => EmptyString
  end.
Definition rstrip_ws (s : string) : string := str_rev (lstrip_ws (str_rev s)).
Definition strip_ws (s : string) : string := rstrip_ws (lstrip_ws s).

Fixpoint list_in_str (x : string) (l : list string) : bool :=
  match l with
  | [] => false
  | y :: r => String.eqb x y || list_in_str x r
  end.

Lemma list_in_str_In x l : list_in_str x l = true <-> In x l.
Proof.
  induction l as [|y r IH]; simpl.
  - split; [discriminate | tauto].
  - rewrite orb_true_iff, IH, String.eqb_eq. split; intros [H|H]; auto.
Qed.

Lemma str_app_assoc a b c : (a ++ b) ++ c = a ++ (b ++ c).
Proof. induction a; simpl; congruence. Qed.

Lemma str_app_nil_r s : s ++ "" = s.
Proof. induction s; simpl; congruence. Qed.

Lemma str_rev_app_spec s acc : str_rev_app s acc = str_rev s ++ acc.
Proof.
  unfold str_rev. revert acc.
  induction s as [|d r IH]; intros acc; simpl; [reflexivity|].
  rewrite IH. rewrite (IH (String d "")).
  rewrite str_app_assoc. reflexivity.
Qed.

Lemma str_rev_cons d r : str_rev (String d r) = str_rev r ++ String d "".
Proof. unfold str_rev. simpl. now rewrite str_rev_app_spec. Qed.

Lemma str_rev_app_distr a b : str_rev (a ++ b) = str_rev b ++ str_rev a.
Proof.
  induction a as [|d r IH]; simpl.
  - now rewrite str_app_nil_r.
  - rewrite !str_rev_cons, IH, str_app_assoc. reflexivity.
Qed.

Lemma str_rev_involutive s : str_rev (str_rev s) = s.
Proof.
  induction s as [|d r IH]; [reflexivity|].
  rewrite str_rev_cons, str_rev_app_distr, IH. reflexivity.
Qed.

Lemma str_length_app a b : String.length (a ++ b) = String.length a + String.length b.
Proof. induction a; simpl; congruence. Qed.
