(* CPython int(str) for base 10 on ASCII text: optional surrounding whitespace, optional sign, decimal digits with
   single underscores between digits.  None = ValueError.  (Non-ASCII digits and whitespace, which CPython also
   accepts, are outside this model; the harnesses keep numeric text ASCII.) *)
From Coq Require Import List NArith ZArith Bool Ascii String.
From Authlib Require Import Base.Bytes.
Import ListNotations.
Open Scope string_scope.

(* str.strip() whitespace within ASCII: \t \n \v \f \r, FS GS RS US, space *)
Definition is_pyspace (a : ascii) : bool :=
  let n := N_of_ascii a in
  ((9 <=? n) && (n <=? 13))%N || ((28 <=? n) && (n <=? 32))%N.

Fixpoint lstrip_py (s : string) : string :=
  match s with
  | String c r => if is_pyspace c then lstrip_py r else s
  | EmptyString => s
  end.
Definition strip_py (s : string) : string := str_rev (lstrip_py (str_rev (lstrip_py s))).

Definition digit_val (a : ascii) : Z := Z.of_N (N_of_ascii a) - 48.

(* digits with single underscores strictly between digits; [prev_digit] tells whether the previous character
   was a digit (an underscore is allowed only then, and must be followed by a digit) *)
Fixpoint parse_digits (s : string) (acc : Z) (prev_digit : bool) : option Z :=
  match s with
  | EmptyString => if prev_digit then Some acc else None
  | String c r =>
      if is_digit c then parse_digits r (acc * 10 + digit_val c) true
      else if Ascii.eqb c "_" then (if prev_digit then parse_digits r acc false else None)
      else None
  end.

Definition py_int (s : string) : option Z :=
  match strip_py s with
  | EmptyString => None
  | String c r =>
      if Ascii.eqb c "-" then option_map Z.opp (parse_digits r 0 false)
      else if Ascii.eqb c "+" then parse_digits r 0 false
      else parse_digits (String c r) 0 false
  end.
