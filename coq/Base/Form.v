(* application/x-www-form-urlencoded as authlib uses it (authlib/common/urls.py):
   url_encode = urllib.parse.urlencode on octet pairs (quote_plus),
   parse_qsl(keep_blank_values) and url_decode with its two pre-checks. *)
From Coq Require Import List NArith Bool Ascii String.
From Authlib Require Import Base.Bytes Base.Percent.
Import ListNotations.
Open Scope string_scope.

(* s.split(c), all pieces *)
Fixpoint split_c (c : ascii) (s : string) : list string :=
  match s with
  | EmptyString => [EmptyString]
  | String d r =>
      if Ascii.eqb d c then EmptyString :: split_c c r
      else match split_c c r with
           | x :: t => String d x :: t
           | [] => [String d EmptyString]
           end
  end.

Definition pair_s := (string * string)%type.

Definition encode_pair (kv : pair_s) : string := quote_plus (fst kv) ++ "=" ++ quote_plus (snd kv).
Definition urlencode (ps : list pair_s) : string := join "&" (map encode_pair ps).

Definition parse_piece (keep_blank : bool) (p : string) : list pair_s :=
  if String.eqb p "" then [] else
  match split_first "=" p with
  | (n, Some v) => if negb (String.eqb v "") || keep_blank then [(unquote_plus n, unquote_plus v)] else []
  | (n, None) => if keep_blank then [(unquote_plus n, "")] else []
  end.

Definition parse_qsl (keep_blank : bool) (qs : string) : list pair_s :=
  flat_map (parse_piece keep_blank) (split_c "&" qs).

(* authlib url_decode pre-checks *)
Definition urlencoded_char (c : ascii) : bool :=
  is_alnum c || str_in c "_.-=&;:%+~,*@!()/?".

Definition is_hex (c : ascii) : bool := match hex_val c with Some _ => true | None => false end.

(* INVALID_HEX_PATTERN.search: a '%' followed by a non-hex character, or by a hex
   character and then a non-hex character ('%' at the very end or '%X' at the end do not match) *)
Fixpoint invalid_hex (s : string) : bool :=
  match s with
  | String "%" (String a r as rest) =>
      if negb (is_hex a) then true
      else match r with
           | String b _ => if negb (is_hex b) then true else invalid_hex rest
           | EmptyString => invalid_hex rest
           end
  | String _ r => invalid_hex r
  | EmptyString => false
  end.

Definition url_decode (q : string) : option (list pair_s) :=
  if negb (str_all urlencoded_char q) then None
  else if invalid_hex q then None
  else Some (parse_qsl true q).

(* add_params_to_qs(query, params) *)
Definition add_params_to_qs (query : string) (params : list pair_s) : string :=
  urlencode (parse_qsl true query ++ params).
