(* urllib.parse.quote / unquote at octet level. *)
From Coq Require Import List NArith Bool Ascii String.
From Authlib Require Import Base.Bytes.
Open Scope string_scope.

Definition hex_val (a : ascii) : option N :=
  let n := byte_n a in
  if is_digit a then Some (n - 48)%N
  else if (65 <=? n)%N && (n <=? 70)%N then Some (n - 55)%N
  else if (97 <=? n)%N && (n <=? 102)%N then Some (n - 87)%N
  else None.

Definition hex_digit_upper (n : N) : ascii :=
  if (n <? 10)%N then n_byte (48 + n) else n_byte (55 + n).

(* unquote: %XY -> octet, anything else (incl. malformed escapes) verbatim *)
Fixpoint unquote (s : string) : string :=
  match s with
  | String "%" (String h (String l r) as rest) =>
      match hex_val h, hex_val l with
      | Some a, Some b => String (n_byte (a * 16 + b)) (unquote r)
      | _, _ => String "%" (unquote rest)
      end
  | String c r => String c (unquote r)
  | EmptyString => EmptyString
  end.

(* + -> space first, as parse_qsl does *)
Definition plus_to_space (s : string) : string :=
  str_map (fun c => if Ascii.eqb c "+" then " "%char else c) s.
Definition unquote_plus (s : string) : string := unquote (plus_to_space s).

Definition always_safe (c : ascii) : bool :=
  is_alnum c || str_in c "_.-~".

(* quote(s, safe): octets outside always_safe and [safe] become %XY upper-case *)
Fixpoint quote (safe : string) (s : string) : string :=
  match s with
  | EmptyString => EmptyString
  | String c r =>
      if always_safe c || str_in c safe then String c (quote safe r)
      else let n := byte_n c in
           String "%" (String (hex_digit_upper (n / 16)) (String (hex_digit_upper (n mod 16)) (quote safe r)))
  end.

(* quote_plus: space -> '+', everything else as quote with no extra safe characters *)
Fixpoint quote_plus (s : string) : string :=
  match s with
  | EmptyString => EmptyString
  | String c r =>
      if Ascii.eqb c " " then String "+" (quote_plus r)
      else if always_safe c then String c (quote_plus r)
      else let n := byte_n c in
           String "%" (String (hex_digit_upper (n / 16)) (String (hex_digit_upper (n mod 16)) (quote_plus r)))
  end.
