(* urllib.parse.urlparse / urlunparse (CPython 3.12) on octet strings, for
   URLs without IPv6 brackets and with ASCII netloc (documented domain). *)
From Coq Require Import List NArith Bool Ascii String.
From Authlib Require Import Base.Bytes.
Import ListNotations.
Open Scope string_scope.

Record url6 := { u_scheme : string; u_netloc : string; u_path : string;
                 u_params : string; u_query : string; u_fragment : string }.

(* lstrip of C0 controls and space; removal of TAB, CR, LF anywhere *)
Fixpoint lstrip_c0 (s : string) : string :=
  match s with
  | String c r => if (byte_n c <=? 32)%N then lstrip_c0 r else s
  | EmptyString => EmptyString
  end.
Fixpoint remove_unsafe (s : string) : string :=
  match s with
  | EmptyString => EmptyString
  | String c r =>
      let n := byte_n c in
      if (n =? 9)%N || (n =? 10)%N || (n =? 13)%N then remove_unsafe r else String c (remove_unsafe r)
  end.

Definition scheme_char (c : ascii) : bool := is_alnum c || str_in c "+-.".

(* (before, after) at the first character satisfying p; None when there is none *)
Fixpoint break_at (p : ascii -> bool) (s : string) : string * option string :=
  match s with
  | EmptyString => (EmptyString, None)
  | String c r => if p c then (EmptyString, Some s)
                  else let '(a, b) := break_at p r in (String c a, b)
  end.

Definition split_scheme (u : string) : string * string :=
  match split_first ":" u with
  | (pre, Some rest) =>
      match pre with
      | String c _ => if is_alpha c && str_all scheme_char pre then (lower pre, rest) else ("", u)
      | EmptyString => ("", u)
      end
  | (_, None) => ("", u)
  end.

Definition uses_params (scheme : string) : bool :=
  list_in_str scheme [""; "ftp"; "hdl"; "prospero"; "http"; "imap"; "https"; "shttp"; "rtsp"; "rtsps";
                      "rtspu"; "sip"; "sips"; "mms"; "sftp"; "tel"].

(* _splitparams: ';' after the last '/' *)
Definition split_params (path : string) : string * string :=
  let parts := split_on "/" path in
  match rev parts with
  | [] => (path, "")
  | last :: before_rev =>
      match split_first ";" last with
      | (l, Some p) =>
          match before_rev with
          | [] => (l, p)
          | _ => (join "/" (rev before_rev) ++ "/" ++ l, p)
          end
      | (_, None) => (path, "")
      end
  end.

Definition urlparse (u0 : string) : url6 :=
  let u := remove_unsafe (lstrip_c0 u0) in
  let '(scheme, rest) := split_scheme u in
  let '(netloc, rest) :=
    if starts_with "//" rest then
      let r2 := str_drop 2 rest in
      let '(n, after) := break_at (fun c => str_in c "/?#") r2 in
      (n, match after with Some a => a | None => "" end)
    else ("", rest) in
  let '(rest, fragment) :=
    match split_first "#" rest with (a, Some f) => (a, f) | (a, None) => (a, "") end in
  let '(path, query) :=
    match split_first "?" rest with (a, Some q) => (a, q) | (a, None) => (a, "") end in
  let '(path, params) :=
    if uses_params scheme && str_in ";" path then split_params path else (path, "") in
  {| u_scheme := scheme; u_netloc := netloc; u_path := path; u_params := params;
     u_query := query; u_fragment := fragment |}.

(* urlunparse((scheme, netloc, path, params, query, fragment)) *)
Definition uses_netloc (scheme : string) : bool :=
  list_in_str scheme [""; "ftp"; "http"; "gopher"; "nntp"; "telnet"; "imap"; "wais"; "file"; "mms"; "https";
                      "shttp"; "snews"; "prospero"; "rtsp"; "rtsps"; "rtspu"; "rsync"; "svn"; "svn+ssh";
                      "sftp"; "nfs"; "git"; "git+ssh"; "ws"; "wss"; "itms-services"].

Definition urlunparse (x : url6) : string :=
  let url := if String.eqb (u_params x) "" then u_path x else u_path x ++ ";" ++ u_params x in
  let url :=
    if negb (String.eqb (u_netloc x) "") || (negb (String.eqb (u_scheme x) "") && uses_netloc (u_scheme x)
                                              && negb (starts_with "//" url)) then
      (if negb (String.eqb url "") && negb (starts_with "/" url) then "//" ++ u_netloc x ++ "/" ++ url
       else "//" ++ u_netloc x ++ url)
    else url in
  let url := if String.eqb (u_scheme x) "" then url else u_scheme x ++ ":" ++ url in
  let url := if String.eqb (u_query x) "" then url else url ++ "?" ++ u_query x in
  if String.eqb (u_fragment x) "" then url else url ++ "#" ++ u_fragment x.

(* ParseResult.hostname (no brackets): after the last '@', before the first ':' , lower-cased *)
Fixpoint after_last_at (s acc : string) : string :=
  match s with
  | EmptyString => acc
  | String c r => if Ascii.eqb c "@" then after_last_at r r else after_last_at r acc
  end.

Definition hostname (netloc : string) : option string :=
  let hostinfo := after_last_at netloc netloc in
  let h := fst (split_first ":" hostinfo) in
  if String.eqb h "" then None else Some (lower h).

(* authlib.common.urls.is_valid_url *)
Definition is_valid_url (url : string) (fragments_allowed : bool) : bool :=
  let p := urlparse url in
  negb (String.eqb (u_scheme p) "") &&
  match hostname (u_netloc p) with Some _ => true | None => false end &&
  (fragments_allowed || String.eqb (u_fragment p) "").

(* authlib.common.security.is_secure_transport with AUTHLIB_INSECURE_TRANSPORT unset *)
Definition is_secure_transport (uri : string) : bool :=
  let l := lower uri in starts_with "https://" l || starts_with "http://localhost:" l.
