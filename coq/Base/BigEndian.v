(* Unsigned big-endian integer <-> octet string, as
   int.to_bytes((n.bit_length()+7)//8, "big") and int(hex(data),16). *)
From Coq Require Import List NArith ZArith Bool Ascii String Lia.
From Authlib Require Import Base.Bytes.
Open Scope string_scope.
Open Scope N_scope.

(* little-endian digits; fuel = number of bits is always enough *)
Fixpoint le_bytes (fuel : nat) (n : N) : string :=
  match fuel with
  | O => ""
  | S f => if n =? 0 then "" else String (n_byte (n mod 256)) (le_bytes f (n / 256))
  end.

Definition int_to_bytes_min (n : N) : string :=
  str_rev (le_bytes (N.to_nat (N.size n)) n).

Fixpoint be_to_int_acc (s : string) (acc : N) : N :=
  match s with
  | EmptyString => acc
  | String a r => be_to_int_acc r (acc * 256 + byte_n a)
  end.
Definition bytes_to_int (s : string) : N := be_to_int_acc s 0.

Fixpoint le_to_int (s : string) : N :=
  match s with
  | EmptyString => 0
  | String a r => byte_n a + 256 * le_to_int r
  end.

(* fixed-width big-endian: authlib.jose.rfc7518.util.encode_int(num, bits)
   = num.to_bytes(ceil(bits/8)) ; None when it does not fit (OverflowError) *)
Definition encode_int_fixed (len : nat) (n : N) : option string :=
  let m := int_to_bytes_min n in
  if Nat.leb (String.length m) len
  then Some (str_repeat "000"%char (len - String.length m) ++ m)
  else None.
