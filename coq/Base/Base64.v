(* base64url as authlib uses it (authlib/common/encoding.py):
     urlsafe_b64encode s = base64.urlsafe_b64encode(s).rstrip(b"=")
     urlsafe_b64decode s = base64.urlsafe_b64decode(s + b"=" * (-len(s) % 4))
   The decoder is a faithful model of CPython 3.12's lenient
   binascii.a2b_base64 (non-strict mode) preceded by the "-_" -> "+/"
   translation of base64.urlsafe_b64decode.  *)
From Coq Require Import List NArith ZArith Bool Ascii String Lia ZifyBool ZifyN.
From Authlib Require Import Base.Bytes.
Import ListNotations.
Open Scope string_scope.
Open Scope N_scope.

(* index (0..63) -> character, URL-safe alphabet *)
Definition b64u_char (n : N) : ascii :=
  if n <? 26 then n_byte (65 + n)
  else if n <? 52 then n_byte (97 + (n - 26))
  else if n <? 62 then n_byte (48 + (n - 52))
  else if n =? 62 then "-"%char else "_"%char.

(* standard alphabet (used by HTTP Basic) *)
Definition b64s_char (n : N) : ascii :=
  if n <? 26 then n_byte (65 + n)
  else if n <? 52 then n_byte (97 + (n - 26))
  else if n <? 62 then n_byte (48 + (n - 52))
  else if n =? 62 then "+"%char else "/"%char.

(* character -> value, as seen by urlsafe_b64decode: both alphabets accepted
   because the translation maps -_ onto +/ and leaves +/ alone *)
Definition b64_val (c : ascii) : option N :=
  let n := byte_n c in
  if (65 <=? n) && (n <=? 90) then Some (n - 65)
  else if (97 <=? n) && (n <=? 122) then Some (n - 97 + 26)
  else if (48 <=? n) && (n <=? 57) then Some (n - 48 + 52)
  else if (n =? 45) || (n =? 43) then Some 62
  else if (n =? 95) || (n =? 47) then Some 63
  else None.

(* value as seen by plain base64.b64decode (no translation): only + and / *)
Definition b64s_val (c : ascii) : option N :=
  let n := byte_n c in
  if (65 <=? n) && (n <=? 90) then Some (n - 65)
  else if (97 <=? n) && (n <=? 122) then Some (n - 97 + 26)
  else if (48 <=? n) && (n <=? 57) then Some (n - 48 + 52)
  else if (n =? 43) then Some 62
  else if (n =? 47) then Some 63
  else None.

Section Enc.
Variable alpha : N -> ascii.

(* encoder without padding *)
Fixpoint b64enc (s : string) : string :=
  match s with
  | EmptyString => ""
  | String a EmptyString =>
      let x := byte_n a in
      String (alpha (x / 4)) (String (alpha ((x mod 4) * 16)) "")
  | String a (String b EmptyString) =>
      let x := byte_n a in let y := byte_n b in
      String (alpha (x / 4))
        (String (alpha ((x mod 4) * 16 + y / 16))
           (String (alpha ((y mod 16) * 4)) ""))
  | String a (String b (String c rest)) =>
      let x := byte_n a in let y := byte_n b in let z := byte_n c in
      String (alpha (x / 4))
        (String (alpha ((x mod 4) * 16 + y / 16))
           (String (alpha ((y mod 16) * 4 + z / 64))
              (String (alpha (z mod 64)) (b64enc rest))))
  end.
End Enc.

Definition b64url_encode := b64enc b64u_char.
Definition b64std_encode_nopad := b64enc b64s_char.

(* padding that authlib adds: "=" * (-len(s) % 4), computed on the raw length *)
Definition pad_for (len : nat) : string :=
  match Nat.modulo len 4 with
  | 0%nat => "" | 1%nat => "===" | 2%nat => "==" | _ => "=" end.

(* standard padded encoding, as base64.b64encode produces it *)
Definition b64std_encode (s : string) : string :=
  let e := b64std_encode_nopad s in (e ++ pad_for (String.length e))%string.

Section Dec.
Variable val : ascii -> option N.

(* a2b_base64, non strict.  qp = quad_pos, lc = leftchar, pads = pads. *)
Fixpoint a2b (s : string) (qp : nat) (lc pads : N) : option string :=
  match s with
  | EmptyString => match qp with O => Some "" | _ => None end
  | String c r =>
      if Ascii.eqb c "="%char then
        if (Nat.leb 2 qp) && (4 <=? N.of_nat qp + (pads + 1)) then Some ""
        else a2b r qp lc (if Nat.leb 2 qp then pads + 1 else pads)
      else
        match val c with
        | None => a2b r qp lc pads
        | Some v =>
            match qp with
            | 0%nat => a2b r 1 v 0
            | 1%nat => option_map (String (n_byte (lc * 4 + v / 16))) (a2b r 2 (v mod 16) 0)
            | 2%nat => option_map (String (n_byte (lc * 16 + v / 4))) (a2b r 3 (v mod 4) 0)
            | _ => option_map (String (n_byte (lc * 64 + v))) (a2b r 0 0 0)
            end
        end
  end.
End Dec.

Definition a2b_base64_url (s : string) : option string := a2b b64_val s 0 0 0.
Definition a2b_base64_std (s : string) : option string := a2b b64s_val s 0 0 0.

(* authlib.common.encoding.urlsafe_b64decode on bytes *)
Definition urlsafe_b64decode (s : string) : option string :=
  a2b_base64_url (s ++ pad_for (String.length s))%string.

(* strict RFC 4648 s5 unpadded base64url: what an RFC-strict peer accepts *)
Definition is_b64url_char (c : ascii) : bool :=
  is_alnum c || Ascii.eqb c "-"%char || Ascii.eqb c "_"%char.

Definition b64url_canonical (s : string) : bool :=
  match urlsafe_b64decode s with
  | Some bs => String.eqb (b64url_encode bs) s
  | None => false
  end.
