(* The value universe exchanged with the Python harness and used by models of
   dynamically typed code: JSON values plus exact floats (m * 2^e). *)
From Coq Require Import List NArith ZArith Bool Ascii String.
From Authlib Require Import Base.Bytes.
Import ListNotations.
Open Scope string_scope.

Inductive pv : Type :=
| PNone
| PBool (b : bool)
| PInt (z : Z)
| PFloat (m e : Z)            (* the dyadic rational m * 2^e, exact *)
| PStr (s : string)
| PList (l : list pv)
| PDict (kvs : list (string * pv)).

Fixpoint dict_get (k : string) (kvs : list (string * pv)) : option pv :=
  match kvs with
  | [] => None
  | (k', v) :: r => if String.eqb k k' then Some v else dict_get k r
  end.

Definition pv_get (k : string) (d : pv) : option pv :=
  match d with PDict kvs => dict_get k kvs | _ => None end.

Definition pv_str (v : pv) : string := match v with PStr s => s | _ => "" end.
Definition pv_int (v : pv) : Z := match v with PInt z => z | PBool true => 1%Z | _ => 0%Z end.
Definition pv_bool (v : pv) : bool := match v with PBool b => b | _ => false end.
Definition pv_list (v : pv) : list pv := match v with PList l => l | _ => [] end.
Definition pv_nat (v : pv) : nat := Z.to_nat (pv_int v).
Definition pv_N (v : pv) : N := Z.to_N (pv_int v).

Definition arg (k : string) (d : pv) : pv :=
  match pv_get k d with Some v => v | None => PNone end.
Definition arg_s k d := pv_str (arg k d).
Definition arg_z k d := pv_int (arg k d).
Definition arg_b k d := pv_bool (arg k d).
Definition arg_l k d := pv_list (arg k d).
Definition arg_opt_s k d : option string :=
  match arg k d with PStr s => Some s | _ => None end.
Definition arg_strs k d : list string := map pv_str (arg_l k d).

Definition opt_pv {A} (f : A -> pv) (o : option A) : pv :=
  match o with Some a => f a | None => PNone end.

(* Python truthiness *)
Definition py_truthy (v : pv) : bool :=
  match v with
  | PNone => false
  | PBool b => b
  | PInt z => negb (Z.eqb z 0)
  | PFloat m _ => negb (Z.eqb m 0)
  | PStr s => negb (String.eqb s "")
  | PList l => match l with [] => false | _ => true end
  | PDict l => match l with [] => false | _ => true end
  end.

(* ---- numbers: bool, int and exact binary floats; Python compares them exactly *)
Definition num_parts (v : pv) : option (Z * Z) :=
  match v with
  | PBool b => Some ((if b then 1 else 0)%Z, 0%Z)
  | PInt z => Some (z, 0%Z)
  | PFloat m e => Some (m, e)
  | _ => None
  end.

Definition is_number (v : pv) : bool :=
  match num_parts v with Some _ => true | None => false end.

Definition dy_cmp (a b : Z * Z) : comparison :=
  let e := Z.min (snd a) (snd b) in
  Z.compare (fst a * 2 ^ (snd a - e)) (fst b * 2 ^ (snd b - e)).

(* v < c and v > c for a number v and an integer c; false for non-numbers *)
Definition num_lt_int (v : pv) (c : Z) : bool :=
  match num_parts v with
  | Some p => match dy_cmp p (c, 0%Z) with Lt => true | _ => false end
  | None => false
  end.
Definition num_gt_int (v : pv) (c : Z) : bool :=
  match num_parts v with
  | Some p => match dy_cmp p (c, 0%Z) with Gt => true | _ => false end
  | None => false
  end.

(* Python == on the JSON universe *)
Fixpoint py_eq (a b : pv) {struct a} : bool :=
  match a, b with
  | PNone, PNone => true
  | PStr s, PStr t => String.eqb s t
  | PList l, PList m =>
      (fix go (l m : list pv) {struct l} : bool :=
         match l, m with
         | [], [] => true
         | x :: l', y :: m' => py_eq x y && go l' m'
         | _, _ => false
         end) l m
  | PDict d, PDict e =>
      Nat.eqb (List.length d) (List.length e) &&
      (fix go (d : list (string * pv)) {struct d} : bool :=
         match d with
         | [] => true
         | (k, v) :: r =>
             match dict_get k e with Some w => py_eq v w | None => false end && go r
         end) d
  | _, _ =>
      match num_parts a, num_parts b with
      | Some p, Some q => match dy_cmp p q with Eq => true | _ => false end
      | _, _ => false
      end
  end.

Fixpoint py_in_list (v : pv) (l : list pv) : bool :=
  match l with [] => false | x :: r => py_eq v x || py_in_list v r end.

Definition is_list (v : pv) : bool := match v with PList _ => true | _ => false end.
Definition is_str (v : pv) : bool := match v with PStr _ => true | _ => false end.
Definition is_dict (v : pv) : bool := match v with PDict _ => true | _ => false end.
