(* The value universe exchanged with the Python harness and used by models of
   dynamically typed code: JSON values plus exact floats (m * 2^e). *)
From Coq Require Import List NArith ZArith Bool Ascii String.
From Authlib Require Import Base.Bytes.
Import ListNotations.
Open Scope string_scope.

Inductive pv : Type :=
| PNone
| PBool (b : bool)
| PInt (z : Z)
| PFloat (m e : Z)            (* the dyadic rational m * 2^e, exact *)
| PStr (s : string)
| PList (l : list pv)
| PDict (kvs : list (string * pv)).

Fixpoint dict_get (k : string) (kvs : list (string * pv)) : option pv :=
  match kvs with
  | [] => None
  | (k', v) :: r => if String.eqb k k' then Some v else dict_get k r
  end.

Definition pv_get (k : string) (d : pv) : option pv :=
  match d with PDict kvs => dict_get k kvs | _ => None end.

Definition pv_str (v : pv) : string := match v with PStr s => s | _ => "" end.
Definition pv_int (v : pv) : Z := match v with PInt z => z | PBool true => 1%Z | _ => 0%Z end.
Definition pv_bool (v : pv) : bool := match v with PBool b => b | _ => false end.
Definition pv_list (v : pv) : list pv := match v with PList l => l | _ => [] end.
Definition pv_nat (v : pv) : nat := Z.to_nat (pv_int v).
Definition pv_N (v : pv) : N := Z.to_N (pv_int v).

Definition arg (k : string) (d : pv) : pv :=
  match pv_get k d with Some v => v | None => PNone end.
Definition arg_s k d := pv_str (arg k d).
Definition arg_z k d := pv_int (arg k d).
Definition arg_b k d := pv_bool (arg k d).
Definition arg_l k d := pv_list (arg k d).
Definition arg_opt_s k d : option string :=
  match arg k d with PStr s => Some s | _ => None end.
Definition arg_strs k d : list string := map pv_str (arg_l k d).

Definition opt_pv {A} (f : A -> pv) (o : option A) : pv :=
  match o with Some a => f a | None => PNone end.

(* Python truthiness *)
Definition py_truthy (v : pv) : bool :=
  match v with
  | PNone => false
  | PBool b => b
  | PInt z => negb (Z.eqb z 0)
  | PFloat m _ => negb (Z.eqb m 0)
  | PStr s => negb (String.eqb s "")
  | PList l => match l with [] => false | _ => true end
  | PDict l => match l with [] => false | _ => true end
  end.
