(* UTF-8 well-formedness (Unicode Table 3-7), as CPython's strict decoder accepts. *)
From Coq Require Import List NArith Bool Ascii String.
From Authlib Require Import Base.Bytes.
Open Scope N_scope.

Definition in_rng (lo hi x : N) : bool := (lo <=? x) && (x <=? hi).
Definition cont (x : N) : bool := in_rng 128 191 x.

Fixpoint utf8_valid (s : string) : bool :=
  match s with
  | EmptyString => true
  | String a r =>
      let x := byte_n a in
      if x <? 128 then utf8_valid r
      else match r with
           | String b r2 =>
               let y := byte_n b in
               if in_rng 194 223 x then cont y && utf8_valid r2
               else match r2 with
                    | String c r3 =>
                        let z := byte_n c in
                        if x =? 224 then in_rng 160 191 y && cont z && utf8_valid r3
                        else if in_rng 225 236 x || in_rng 238 239 x then cont y && cont z && utf8_valid r3
                        else if x =? 237 then in_rng 128 159 y && cont z && utf8_valid r3
                        else match r3 with
                             | String d r4 =>
                                 let w := byte_n d in
                                 if x =? 240 then in_rng 144 191 y && cont z && cont w && utf8_valid r4
                                 else if in_rng 241 243 x then cont y && cont z && cont w && utf8_valid r4
                                 else if x =? 244 then in_rng 128 143 y && cont z && cont w && utf8_valid r4
                                 else false
                             | EmptyString => false
                             end
                    | EmptyString => false
                    end
           | EmptyString => false
           end
  end.

Definition is_ascii_str (s : string) : bool := str_all (fun a => byte_n a <? 128) s.
