(* C04: what the property demands of JWT claims validation, as an executable
   predicate written from the property text / RFC 7519 s4.1, not from the
   code's control flow: a conjunction of independent clauses. *)
From Coq Require Import List NArith ZArith Bool Ascii String.
From Authlib Require Import Base.Bytes Base.PyVal.
Import ListNotations.
Open Scope string_scope.

Definition sdict := list (string * pv).
Definition sget (k : string) (d : sdict) : pv := match dict_get k d with Some v => v | None => PNone end.

Section S.
Variable vfun : string -> sdict -> pv -> bool.

(* every present exp/nbf/iat is a number inside the window *)
Definition time_ok (claims : sdict) (now leeway : Z) : bool :=
  match dict_get "exp" claims with
  | None => true | Some v => is_number v && negb (num_lt_int v (now - leeway)) end &&
  match dict_get "nbf" claims with
  | None => true | Some v => is_number v && negb (num_gt_int v (now + leeway)) end &&
  match dict_get "iat" claims with
  | None => true | Some v => is_number v && negb (num_gt_int v (now + leeway)) end.

(* every claim marked essential is present and non-empty *)
Definition essential_ok (opts claims : sdict) : bool :=
  forallb (fun ko => implb (py_truthy (arg "essential" (snd ko)))
                       match dict_get (fst ko) claims with Some v => py_truthy v | None => false end) opts.

(* a claim given an expected value / value list / validator matches it *)
Definition expectation_ok (claims : sdict) (k : string) (o : pv) : bool :=
  let v := sget k claims in
  implb (py_truthy o)
    (implb (py_truthy (arg "value" o)) (py_eq v (arg "value" o)) &&
     implb (py_truthy (arg "values" o)) (py_in_list v (pv_list (arg "values" o))) &&
     implb (py_truthy (arg "validate" o)) (vfun (pv_str (arg "validate" o)) claims v)).

(* [checked k] says which claims carry value expectations in this claim set *)
Definition expectations_ok (checked : string -> bool) (opts claims : sdict) : bool :=
  forallb (fun ko => implb (checked (fst ko)) (expectation_ok claims (fst ko) (snd ko))) opts.

(* aud: when the token carries an aud claim and audiences are expected, at
   least one expected audience is among the token's audiences (RFC 7519 s4.1.3) *)
Definition expected_auds (o : pv) : list pv :=
  if py_truthy (arg "values" o) then pv_list (arg "values" o)
  else if py_truthy (arg "value" o) then [arg "value" o] else [].

Definition aud_ok (opts claims : sdict) : bool :=
  match dict_get "aud" opts with
  | None => true
  | Some o =>
      implb (py_truthy o)
        match dict_get "aud" claims with
        | None => true
        | Some aud =>
            match expected_auds o with
            | [] => true
            | evs => let auds := match aud with PList l => l | _ => [aud] end in
                     existsb (fun v => py_in_list v auds) evs
            end
        end
  end.

Definition jwt_checked (registered : list string) (k : string) : bool :=
  list_in_str k ["iss"; "sub"; "jti"] || negb (list_in_str k registered).

Definition jwt_claims_ok (registered : list string) (opts claims : sdict) (now leeway : Z) : bool :=
  essential_ok opts claims && expectations_ok (jwt_checked registered) opts claims &&
  aud_ok opts claims && time_ok claims now leeway.

(* ---- OpenID Connect Core s2, s3.1.3.7, s3.2.2.11, s3.3.2.12: ID Token *)
Variable half_hash : string -> string -> option string.

Definition hash_matches (claimed s alg : string) : bool :=
  match half_hash s alg with None => true | Some h => String.eqb h claimed end.

Inductive idt_flow := FCode | FImplicit | FHybrid.

Definition idt_required (f : idt_flow) : list string :=
  match f with FCode => ["iss"; "sub"; "aud"; "exp"; "iat"]
             | _ => ["iss"; "sub"; "aud"; "exp"; "iat"; "nonce"] end.

Definition has (k : string) (d : sdict) : bool :=
  match dict_get k d with Some _ => true | None => false end.

Definition idt_extras_ok (f : idt_flow) (hdr params claims : sdict) : bool :=
  let auth_time := sget "auth_time" claims in
  let nonce := sget "nonce" params in
  let amr := sget "amr" claims in
  let aud := sget "aud" claims in
  let client := sget "client_id" params in
  let azp := sget "azp" claims in
  let atok := sget "access_token" params in
  let at_hash := sget "at_hash" claims in
  let code := sget "code" params in
  let c_hash := sget "c_hash" claims in
  let alg := pv_str (sget "alg" hdr) in
  (* auth_time *)
  implb (py_truthy (sget "max_age" params)) (py_truthy auth_time) &&
  implb (py_truthy auth_time) (is_number auth_time) &&
  (* nonce *)
  implb (py_truthy nonce) (match dict_get "nonce" claims with Some v => py_eq nonce v | None => false end) &&
  (* amr *)
  implb (py_truthy amr) (is_list amr) &&
  (* azp *)
  implb (py_truthy aud && py_truthy client &&
         negb (py_eq (match aud with PList [x] => x | _ => aud end) client)) (py_truthy azp) &&
  implb (py_truthy azp && py_truthy client) (py_eq azp client) &&
  (* at_hash *)
  match f with FCode => true | _ => implb (py_truthy atok) (has "at_hash" claims) end &&
  implb (py_truthy at_hash && py_truthy atok) (hash_matches (pv_str at_hash) (pv_str atok) alg) &&
  (* c_hash *)
  match f with
  | FHybrid => implb (py_truthy code) (py_truthy c_hash && hash_matches (pv_str c_hash) (pv_str code) alg)
  | _ => true
  end.

Definition idt_checked (k : string) : bool := list_in_str k ["iss"; "sub"; "acr"].

Definition idtoken_ok (f : idt_flow) (opts hdr params claims : sdict) (now leeway : Z) : bool :=
  forallb (fun k => has k claims) (idt_required f) &&
  essential_ok opts claims && expectations_ok idt_checked opts claims &&
  aud_ok opts claims && time_ok claims now leeway && idt_extras_ok f hdr params claims.

(* ---- RFC 9068 s4: JWT access token claims *)
Definition typ_ok (hdr : sdict) : bool :=
  let typ := sget "typ" hdr in
  implb (py_truthy typ)
    (let t := lower (pv_str typ) in String.eqb t "at+jwt" || String.eqb t "application/at+jwt").

Definition at_checked (k : string) : bool :=
  negb (list_in_str k ["aud"; "exp"; "nbf"; "iat"; "auth_time"; "amr"]).

Definition at_claims_ok (opts hdr claims : sdict) (now leeway : Z) : bool :=
  typ_ok hdr && essential_ok opts claims && expectations_ok at_checked opts claims &&
  aud_ok opts claims && time_ok claims now leeway &&
  implb (py_truthy (sget "auth_time" claims)) (is_number (sget "auth_time" claims)) &&
  implb (py_truthy (sget "amr" claims)) (is_list (sget "amr" claims)).
End S.

(* the options dictionary is the caller's configuration: a dict (unique keys)
   whose members are dicts and whose "values" members are lists *)
Fixpoint nodup_strs (l : list string) : bool :=
  match l with [] => true | x :: r => negb (list_in_str x r) && nodup_strs r end.

Definition opt_wf (o : pv) : bool :=
  is_dict o &&
  match arg "values" o with PNone | PList _ => true | _ => false end &&
  match arg "validate" o with PNone | PStr _ => true | _ => false end.

Definition opts_wf (opts : sdict) : bool :=
  nodup_strs (map fst opts) && forallb (fun ko => opt_wf (snd ko)) opts.
