(* C18 (part 1): RFC 8414 s2 / OpenID Connect Discovery s3 as a rule table.
   Written from the RFC text and the property statement; a falsy optional
   member counts as absent; "https" is is_secure_transport (https, or the
   documented http://localhost: exemption). *)
From Coq Require Import List NArith ZArith Bool Ascii String.
From Authlib Require Import Base.Bytes Base.PyVal Base.Url.
Import ListNotations.
Open Scope string_scope.

Definition sdoc := list (string * pv).
Definition member (k : string) (d : sdoc) : pv := match dict_get k d with Some v => v | None => PNone end.
Definition given (v : pv) : bool := py_truthy v.

Definition is_https (v : pv) : bool :=
  match v with PStr s => is_secure_transport s | _ => false end.
Definition is_url (v : pv) : bool :=
  match v with PStr s => is_valid_url s true | _ => false end.
Definition no_query_fragment (v : pv) : bool :=
  match v with
  | PStr s => let p := urlparse s in String.eqb (u_query p) "" && String.eqb (u_fragment p) ""
  | _ => false
  end.
Definition is_array (v : pv) : bool := match v with PList _ => true | _ => false end.
Definition absent_or_array (v : pv) : bool := match v with PNone | PList _ => true | _ => false end.

(* the strings among the elements of an array-valued member (with its RFC default when omitted) *)
Definition str_elems (v : pv) : list string :=
  match v with
  | PList l => flat_map (fun x => match x with PStr s => [s] | _ => [] end) l
  | PDict kvs => map fst kvs
  | _ => []
  end.
Definition member_or (k : string) (dflt : list string) (d : sdoc) : pv :=
  match dict_get k d with Some v => v | None => PList (map PStr dflt) end.
Definition mentions (v : pv) (names : list string) : bool :=
  existsb (fun s => list_in_str s names) (str_elems v).
Definition only_strings_in (v : pv) (names : list string) : bool :=
  match v with
  | PList l => forallb (fun x => match x with PStr s => list_in_str s names | _ => false end) l
  | _ => false
  end.

Inductive rule :=
| RIssuer                                  (* REQUIRED, https, no query or fragment *)
| RAuthorizationEndpoint                   (* https; REQUIRED unless no grant type uses it *)
| RTokenEndpoint                           (* https; REQUIRED unless only the implicit grant is supported *)
| RHttpsOpt                                (* OPTIONAL https URL *)
| RHttpsRequired                           (* REQUIRED (not null), https when given *)
| RUrlOpt                                  (* OPTIONAL URL (scheme and host) *)
| RArrayOpt                                (* OPTIONAL JSON array *)
| RArrayIfGiven                            (* JSON array when given (non-empty) *)
| RArrayRequired                           (* REQUIRED non-empty JSON array *)
| RAlgValues (methods_key : string)        (* JSON array when given; REQUIRED when a JWT auth method is advertised; never "none" *)
| RRequiredEnumArray (values : list string)
| REnumArrayOpt (values : list string)
| RRequiredArrayWith (value : string)
| RBooleanOpt.

Definition implicit_only_spec (d : sdoc) : bool :=
  match member "grant_types_supported" d with
  | PList [x] => py_eq x (PStr "implicit")
  | _ => false
  end.

Definition rule_ok (d : sdoc) (key : string) (r : rule) : bool :=
  let v := member key d in
  match r with
  | RIssuer => given v && is_https v && no_query_fragment v
  | RAuthorizationEndpoint =>
      if given v then is_https v
      else negb (mentions (member_or "grant_types_supported" ["authorization_code"; "implicit"] d)
                          ["authorization_code"; "implicit"])
  | RTokenEndpoint => implicit_only_spec d || (given v && is_https v)
  | RHttpsOpt => implb (given v) (is_https v)
  | RHttpsRequired => match dict_get key d with Some PNone | None => false | Some _ => implb (given v) (is_https v) end
  | RUrlOpt => implb (given v) (is_url v)
  | RArrayOpt => absent_or_array v
  | RArrayIfGiven => implb (given v) (is_array v)
  | RArrayRequired => given v && is_array v
  | RAlgValues mk =>
      implb (given v) (is_array v) &&
      implb (mentions (member_or mk ["client_secret_basic"] d) ["private_key_jwt"; "client_secret_jwt"]) (given v) &&
      negb (given v && py_in_list (PStr "none") (pv_list v))
  | RRequiredEnumArray vals => only_strings_in v vals
  | REnumArrayOpt vals => implb (given v) (only_strings_in v vals)
  | RRequiredArrayWith x => is_array v && py_in_list (PStr x) (pv_list v)
  | RBooleanOpt => match dict_get key d with
                   | None => true
                   | Some b => py_eq b (PBool true) || py_eq b (PBool false)
                   end
  end.

Definition RFC8414_RULES : list (string * rule) :=
  [ ("issuer", RIssuer);
    ("authorization_endpoint", RAuthorizationEndpoint);
    ("token_endpoint", RTokenEndpoint);
    ("jwks_uri", RHttpsOpt);
    ("registration_endpoint", RHttpsOpt);
    ("scopes_supported", RArrayOpt);
    ("response_types_supported", RArrayRequired);
    ("response_modes_supported", RArrayOpt);
    ("grant_types_supported", RArrayOpt);
    ("token_endpoint_auth_methods_supported", RArrayOpt);
    ("token_endpoint_auth_signing_alg_values_supported", RAlgValues "token_endpoint_auth_methods_supported");
    ("service_documentation", RUrlOpt);
    ("ui_locales_supported", RArrayOpt);
    ("op_policy_uri", RUrlOpt);
    ("op_tos_uri", RUrlOpt);
    ("revocation_endpoint", RHttpsOpt);
    ("revocation_endpoint_auth_methods_supported", RArrayOpt);
    ("revocation_endpoint_auth_signing_alg_values_supported", RAlgValues "revocation_endpoint_auth_methods_supported");
    ("introspection_endpoint", RHttpsOpt);
    ("introspection_endpoint_auth_methods_supported", RArrayOpt);
    ("introspection_endpoint_auth_signing_alg_values_supported", RAlgValues "introspection_endpoint_auth_methods_supported");
    ("code_challenge_methods_supported", RArrayOpt) ].

Definition OIDC_RULES : list (string * rule) :=
  [ ("issuer", RIssuer);
    ("authorization_endpoint", RAuthorizationEndpoint);
    ("token_endpoint", RTokenEndpoint);
    ("jwks_uri", RHttpsRequired);
    ("registration_endpoint", RHttpsOpt);
    ("scopes_supported", RArrayOpt);
    ("response_types_supported", RArrayRequired);
    ("response_modes_supported", RArrayOpt);
    ("grant_types_supported", RArrayOpt);
    ("token_endpoint_auth_methods_supported", RArrayOpt);
    ("service_documentation", RUrlOpt);
    ("ui_locales_supported", RArrayOpt);
    ("op_policy_uri", RUrlOpt);
    ("op_tos_uri", RUrlOpt);
    ("token_endpoint_auth_signing_alg_values_supported", RAlgValues "token_endpoint_auth_methods_supported");
    ("acr_values_supported", RArrayOpt);
    ("subject_types_supported", RRequiredEnumArray ["pairwise"; "public"]);
    ("id_token_signing_alg_values_supported", RRequiredArrayWith "RS256");
    ("id_token_encryption_alg_values_supported", RArrayOpt);
    ("id_token_encryption_enc_values_supported", RArrayOpt);
    ("userinfo_signing_alg_values_supported", RArrayOpt);
    ("userinfo_encryption_alg_values_supported", RArrayOpt);
    ("userinfo_encryption_enc_values_supported", RArrayOpt);
    ("request_object_signing_alg_values_supported", RArrayIfGiven);
    ("request_object_encryption_alg_values_supported", RArrayOpt);
    ("request_object_encryption_enc_values_supported", RArrayOpt);
    ("display_values_supported", REnumArrayOpt ["page"; "popup"; "touch"; "wap"]);
    ("claim_types_supported", REnumArrayOpt ["normal"; "aggregated"; "distributed"]);
    ("claims_supported", RArrayOpt);
    ("claims_locales_supported", RArrayOpt);
    ("claims_parameter_supported", RBooleanOpt);
    ("request_parameter_supported", RBooleanOpt);
    ("request_uri_parameter_supported", RBooleanOpt);
    ("require_request_uri_registration", RBooleanOpt) ].

Definition doc_ok (rules : list (string * rule)) (d : sdoc) : bool :=
  forallb (fun kr => rule_ok d (fst kr) (snd kr)) rules.

(* the members whose elements the library puts into Python sets: when
   present they must be arrays of scalars (not null, no nested arrays/objects) *)
Definition SET_KEYS := ["grant_types_supported"; "token_endpoint_auth_methods_supported";
  "revocation_endpoint_auth_methods_supported"; "introspection_endpoint_auth_methods_supported";
  "subject_types_supported"; "display_values_supported"; "claim_types_supported"].

Definition scalar_s (v : pv) : bool := match v with PList _ | PDict _ => false | _ => true end.
Definition doc_wf (d : sdoc) : bool :=
  forallb (fun k => match dict_get k d with
                    | None => true
                    | Some (PList l) => forallb scalar_s l
                    | Some PNone => false
                    | Some _ => true
                    end) SET_KEYS.
