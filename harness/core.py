"""Shared harness: wire format, model process, Coq obligation runner,
evidence writer, known-findings matcher, violation reporting."""
import hashlib
import json
import os
import random
import re
import subprocess
import sys
import time

VERIF = os.path.dirname(os.path.dirname(os.path.abspath(__file__)))
REPO = os.environ.get("VERIF_REPO", "/repo")
COQ = os.path.join(VERIF, "coq")
MODEL_BIN = os.path.join(VERIF, "bin", "model")


# ----------------------------------------------------------------- wire format
def enc(v):
    if v is None:
        return "N"
    if v is True:
        return "T"
    if v is False:
        return "F"
    if isinstance(v, int):
        return "I" + ("-%x" % -v if v < 0 else "%x" % v)
    if isinstance(v, float):
        num, den = v.as_integer_ratio()
        e = -(den.bit_length() - 1)
        return "R" + ("-%x" % -num if num < 0 else "%x" % num) + "p" + str(e)
    if isinstance(v, str):
        try:
            return "S" + v.encode("utf-8", "surrogateescape").hex()
        except UnicodeEncodeError:
            # an unpaired surrogate that is not an escaped byte (text only a JSON escape can carry): its generalised UTF-8 octets,
            # so that the model sees a string different from every well-formed one
            return "S" + b"".join((bytes([ord(c) - 0xDC00]) if 0xDC80 <= ord(c) <= 0xDCFF else c.encode("utf-8", "surrogatepass")) for c in v).hex()
    if isinstance(v, (bytes, bytearray)):
        return "S" + bytes(v).hex()
    if isinstance(v, (list, tuple)):
        return " ".join(["L%d" % len(v)] + [enc(x) for x in v])
    if isinstance(v, dict):
        out = ["D%d" % len(v)]
        for k, x in v.items():
            out.append(enc(k))
            out.append(enc(x))
        return " ".join(out)
    raise TypeError("cannot encode %r" % (v,))


def _dec(toks, i):
    t = toks[i]
    c, body = t[0], t[1:]
    if c == "N":
        return None, i + 1
    if c == "T":
        return True, i + 1
    if c == "F":
        return False, i + 1
    if c == "I":
        return int(body, 16), i + 1
    if c == "R":
        m, e = body.split("p")
        m = int(m, 16)
        e = int(e)
        return (float(m) * (2.0 ** e)), i + 1
    if c == "S":
        return bytes.fromhex(body).decode("utf-8", "surrogateescape"), i + 1
    if c == "L":
        n = int(body)
        out = []
        i += 1
        for _ in range(n):
            v, i = _dec(toks, i)
            out.append(v)
        return out, i
    if c == "D":
        n = int(body)
        out = {}
        i += 1
        for _ in range(n):
            k, i = _dec(toks, i)
            v, i = _dec(toks, i)
            out[k] = v
        return out, i
    raise ValueError("bad token %r" % t)


def dec(s):
    toks = s.split()
    v, _ = _dec(toks, 0)
    return v


class ModelError(Exception):
    pass


class Model:
    """The extracted Coq model as a line-oriented subprocess."""

    def __init__(self, oracles=None):
        self.p = subprocess.Popen(
            ["/bin/sh", "-c", "ulimit -s unlimited 2>/dev/null; exec %s" % MODEL_BIN],
            stdin=subprocess.PIPE, stdout=subprocess.PIPE, text=True, bufsize=1)
        self.oracles = oracles or {}
        self.calls = 0
        self.oracle_log = []

    def call(self, fn, arg):
        self.calls += 1
        self.p.stdin.write(fn + " " + enc(arg) + "\n")
        self.p.stdin.flush()
        while True:
            line = self.p.stdout.readline()
            if not line:
                raise ModelError("model process died on %s" % fn)
            line = line.rstrip("\n")
            if line.startswith("R "):
                return dec(line[2:])
            if line.startswith("Q "):
                _, name, rest = line.split(" ", 2)
                q = dec(rest)
                a = self.oracles[name](q)
                self.oracle_log.append((name, q, a))
                self.p.stdin.write(enc(a) + "\n")
                self.p.stdin.flush()
                continue
            if line.startswith("E "):
                raise ModelError(line[2:])
            raise ModelError("unexpected model output %r" % line)

    def close(self):
        try:
            self.p.stdin.close()
            self.p.wait(timeout=5)
        except Exception:
            self.p.kill()


# ----------------------------------------------------------------- Coq obligations
FORBIDDEN = re.compile(
    r"\b(Admitted|admit|Axiom|Axioms|Parameter|Parameters|Conjecture|Admit Obligations|"
    r"Unset Guard Checking|Unset Positivity Checking|Unset Universe Checking|bypass_check|"
    r"type-in-type|impredicative-set)\b")


def forbidden_scan():
    """Return a list of (file, line, text) for forbidden vernacular in the development."""
    bad = []
    for root, _, files in os.walk(COQ):
        for f in files:
            if not f.endswith(".v"):
                continue
            path = os.path.join(root, f)
            in_comment = 0
            for n, line in enumerate(open(path, encoding="utf-8"), 1):
                # strip comments (nesting aware, line granular is enough for our style)
                text = ""
                i = 0
                while i < len(line):
                    if line.startswith("(*", i):
                        in_comment += 1
                        i += 2
                    elif line.startswith("*)", i) and in_comment:
                        in_comment -= 1
                        i += 2
                    else:
                        if not in_comment:
                            text += line[i]
                        i += 1
                # string literals may legitimately contain words; drop them
                text = re.sub(r'"[^"]*"', '""', text)
                if FORBIDDEN.search(text):
                    bad.append((os.path.relpath(path, VERIF), n, line.strip()))
                if re.match(r"\s*(Variable|Variables|Hypothesis|Hypotheses)\b", text):
                    # allowed only inside a Section: checked by section depth below
                    pass
    # Variables/Hypotheses outside sections
    for root, _, files in os.walk(COQ):
        for f in files:
            if not f.endswith(".v"):
                continue
            path = os.path.join(root, f)
            depth = 0
            for n, line in enumerate(open(path, encoding="utf-8"), 1):
                s = line.strip()
                if re.match(r"Section\s+\w+\s*\.", s):
                    depth += 1
                elif re.match(r"End\s+\w+\s*\.", s) and depth:
                    depth -= 1
                elif re.match(r"(Variable|Variables|Hypothesis|Hypotheses|Context)\b", s) and depth == 0:
                    bad.append((os.path.relpath(path, VERIF), n, s))
    return bad


def ensure_built(log):
    """(Re)build the Coq development and the extracted model if anything is stale."""
    r = subprocess.run([os.path.join(VERIF, "build.sh")], cwd=VERIF, capture_output=True, text=True)
    log.append(r.stdout[-4000:] + r.stderr[-4000:])
    return r.returncode == 0


def check_props(prop_id, timeout=900):
    """Re-check Props/<ID>.v with coqc and parse the Print Assumptions output.
    Returns dict(theorems=[{name, closed, axioms}], ok, output, cmd)."""
    path = os.path.join("Props", prop_id + ".v")
    if not os.path.exists(os.path.join(COQ, path)):
        return {"theorems": [], "ok": False, "declared": [], "output": "missing " + path, "cmd": "", "wall_s": 0}
    cmd = "cd %s && coqc -Q . Authlib %s" % (COQ, path)
    t0 = time.time()
    try:
        r = subprocess.run(["coqc", "-Q", ".", "Authlib", path], cwd=COQ,
                           capture_output=True, text=True, timeout=timeout)
        out, rc = r.stdout + r.stderr, r.returncode
    except subprocess.TimeoutExpired:
        out, rc = "coqc timeout", 124
    src = open(os.path.join(COQ, path), encoding="utf-8").read()
    names = re.findall(r"^\s*(?:Theorem|Lemma|Corollary)\s+([A-Za-z0-9_']+)", src, re.M)
    printed = re.findall(r"^\s*Print Assumptions\s+([A-Za-z0-9_'.]+)\s*\.", src, re.M)
    # split the output into one chunk per Print Assumptions, in order
    chunks = re.split(r"(?=Closed under the global context|^Axioms:|^Section Variables:)", out, flags=re.M)
    chunks = [c for c in chunks if c.startswith(("Closed", "Axioms", "Section"))]
    theorems = []
    for i, nm in enumerate(printed):
        ch = chunks[i] if i < len(chunks) else ""
        closed = ch.startswith("Closed under the global context")
        axioms = []
        if not closed and ch:
            axioms = re.findall(r"^([A-Za-z0-9_.']+)\s*:", ch, re.M)
            axioms = [a for a in axioms if a not in ("Axioms", "Section Variables")]
        theorems.append({"name": nm, "checked": rc == 0 and bool(ch), "closed": closed, "axioms": axioms})
    return {"theorems": theorems, "ok": rc == 0 and len(chunks) >= len(printed) and len(printed) > 0,
            "declared": names, "output": out[-3000:], "cmd": cmd, "wall_s": time.time() - t0}


# ----------------------------------------------------------------- findings / reporting
def load_known():
    p = os.path.join(VERIF, "known_findings.json")
    if not os.path.exists(p):
        return []
    return json.load(open(p))["findings"]


class Ctx:
    def __init__(self, prop_id, tier, seed):
        self.prop = prop_id
        self.tier = tier
        self.seed = seed
        self.rng = random.Random(seed)
        self.t0 = time.time()
        self.evaluations = 0
        self.nontrivial = set()
        self.samples = []
        self.dist = {}
        self.validated = 0           # cases compared model vs implementation
        self.disagreements = []      # (name, case, impl, model)
        self.violations = {}         # key -> dict(what, case)
        self.broken = []             # (name, detail) proof/correspondence broken without input
        self.notes = []
        self.trusted = []
        self.assumptions = []
        self.rule = ""
        self.exhaustive = False
        self.extra = {}
        self._model = None

    @property
    def model(self):
        if self._model is None:
            self._model = Model(getattr(self, "oracles", None))
        return self._model

    # -- bookkeeping
    def count(self, bucket, n=1):
        self.dist[bucket] = self.dist.get(bucket, 0) + n

    def case(self, case, nontrivial_key=None, bucket=None):
        self.evaluations += 1
        if nontrivial_key is not None:
            self.nontrivial.add(nontrivial_key)
        if bucket:
            self.count(bucket)
        if len(self.samples) < 6 and (self.evaluations % 97 == 1 or len(self.samples) < 2):
            self.samples.append(_jsonable(case))

    def compare(self, name, case, impl, model, spec_ok=None):
        """Correspondence: implementation outcome vs model outcome on one case."""
        self.validated += 1
        if impl != model:
            self.disagreements.append({"correspondence": name, "case": _jsonable(case),
                                       "impl": _jsonable(impl), "model": _jsonable(model)})
            return False
        return True

    def violation(self, key, what, case):
        """A concrete input/history on which the implementation breaks the property."""
        if key not in self.violations:
            self.violations[key] = {"what": what, "case": _jsonable(case)}

    def obligation_broken(self, name, detail):
        self.broken.append({"name": name, "detail": detail})

    # -- sharding over worker processes: a worker fills a Ctx of its own; the parent merges what it found
    def summary(self):
        return {"evaluations": self.evaluations, "nontrivial": list(self.nontrivial), "samples": self.samples, "dist": self.dist, "validated": self.validated,
                "disagreements": self.disagreements[:50], "n_disagreements": len(self.disagreements), "violations": self.violations, "broken": self.broken,
                "model_calls": self._model.calls if self._model else 0}

    def merge(self, s):
        self.evaluations += s["evaluations"]
        self.nontrivial.update(tuple(x) if isinstance(x, list) else x for x in s["nontrivial"])
        for smp in s["samples"]:
            if len(self.samples) < 6:
                self.samples.append(smp)
        for k, v in s["dist"].items():
            self.count(k, v)
        self.validated += s["validated"]
        self.disagreements.extend(s["disagreements"])
        for k, v in s["violations"].items():
            self.violations.setdefault(k, v)
        self.broken.extend(s["broken"])
        self.extra["worker_model_calls"] = self.extra.get("worker_model_calls", 0) + s["model_calls"]


def _worker(args):
    prop, tier, seed, module_name, func_name, job, idx = args
    import importlib
    import traceback
    mod = importlib.import_module(module_name)
    w = Ctx(prop, tier, (seed * 1000003 + idx) & 0x7FFFFFFF)
    try:
        getattr(mod, func_name)(w, *job)
    except Exception:  # noqa: BLE001
        w.obligation_broken("harness-crash", traceback.format_exc())
    finally:
        if w._model:
            w._model.close()
    return w.summary()


def run_parallel(ctx, module_name, func_name, jobs, workers=14):
    """Runs func(worker_ctx, *job) for every job in worker processes (each with its own model process) and merges the findings."""
    import multiprocessing as mp
    args = [(ctx.prop, ctx.tier, ctx.seed, module_name, func_name, job, i) for i, job in enumerate(jobs)]
    with mp.get_context("fork").Pool(min(workers, max(1, len(jobs)))) as pool:
        for s in pool.imap_unordered(_worker, args, chunksize=1):
            ctx.merge(s)


def _jsonable(v):
    if isinstance(v, (bytes, bytearray)):
        return {"__bytes__": bytes(v).hex()}
    if isinstance(v, dict):
        return {str(k): _jsonable(x) for k, x in v.items()}
    if isinstance(v, (list, tuple)):
        return [_jsonable(x) for x in v]
    if isinstance(v, (set, frozenset)):
        return sorted(_jsonable(x) for x in v)
    if isinstance(v, (str, int, float, bool)) or v is None:
        if isinstance(v, int) and abs(v) > 2 ** 62:
            return {"__int__": hex(v)}
        if isinstance(v, str):
            if any("\ud800" <= c <= "\udfff" for c in v):
                # unpaired surrogates (escaped bytes, or text that only a JSON escape can carry): kept exactly, as UTF-16 code units
                return {"__utf16__": v.encode("utf-16-le", "surrogatepass").hex()}
            return v
        return v
    return repr(v)


def unjson(v):
    if isinstance(v, dict):
        if set(v) == {"__bytes__"}:
            return bytes.fromhex(v["__bytes__"])
        if set(v) == {"__int__"}:
            return int(v["__int__"], 16)
        if set(v) == {"__utf16__"}:
            return bytes.fromhex(v["__utf16__"]).decode("utf-16-le", "surrogatepass")
        return {k: unjson(x) for k, x in v.items()}
    if isinstance(v, list):
        return [unjson(x) for x in v]
    return v


def write_replay(prop, key, payload):
    d = os.path.join(VERIF, "replays", prop)
    os.makedirs(d, exist_ok=True)
    h = hashlib.sha1(key.encode()).hexdigest()[:12]
    path = os.path.join(d, "%s.json" % h)
    with open(path, "w") as f:
        json.dump(payload, f, indent=1, sort_keys=True)
    return path


def finish(ctx, props, meta):
    """Decide, print VIOLATION / KNOWN-FINDING lines, write evidence, return exit code."""
    known = {k["key"]: k for k in load_known() if k["property"] == ctx.prop and k.get("status") == "known"}
    rc = 0
    lines = []
    nviol = 0
    # 1. concrete property violations on the implementation
    for key, v in sorted(ctx.violations.items()):
        if key in known:
            lines.append("KNOWN-FINDING: property=%s %s [%s]" % (ctx.prop, known[key]["what"], key))
            continue
        nviol += 1
        path = write_replay(ctx.prop, key, {"property": ctx.prop, "key": key, "kind": "failing-input",
                                            "what": v["what"], "case": v["case"], "seed": ctx.seed})
        lines.append("VIOLATION property=%s replay=%s" % (ctx.prop, path))
        rc = 1
    # 2. correspondence disagreements not explained by a reported/known violation
    if ctx.disagreements:
        by = {}
        for d in ctx.disagreements:
            by.setdefault(d["correspondence"], []).append(d)
        for name, ds in sorted(by.items()):
            nviol += 1
            key = "%s:correspondence:%s" % (ctx.prop, name)
            found = rc == 1  # a failing input was already reported above
            path = write_replay(ctx.prop, key, {
                "property": ctx.prop, "key": key, "kind": "correspondence-broken",
                "correspondence": name, "count": len(ds), "first": ds[0], "seed": ctx.seed,
                "note": "model and implementation disagree; theorems about the model no longer "
                        "transfer to the code"})
            lines.append("VIOLATION property=%s replay=%s%s" % (
                ctx.prop, path, "" if found else " no-failing-input-found"))
            rc = 1
    # 3. broken proof obligations
    broken = list(ctx.broken)
    if props is not None and not props["ok"]:
        broken.append({"name": "Props/%s.v" % ctx.prop, "detail": props["output"][-1500:]})
    for b in broken:
        nviol += 1
        key = "%s:obligation:%s" % (ctx.prop, b["name"])
        path = write_replay(ctx.prop, key, {"property": ctx.prop, "key": key, "kind": "obligation-broken",
                                            "theorem_or_unit": b["name"], "detail": b["detail"],
                                            "seed": ctx.seed})
        lines.append("VIOLATION property=%s replay=%s%s" % (
            ctx.prop, path, "" if ctx.violations and rc == 1 and any(
                k not in known for k in ctx.violations) else " no-failing-input-found"))
        rc = 1
    # evidence
    ths = props["theorems"] if props else []
    obligations = len(ths) + len(meta.get("extra_obligations", []))
    discharged = sum(1 for t in ths if t["checked"]) + sum(
        1 for o in meta.get("extra_obligations", []) if o.get("ok"))
    axioms = sorted({a for t in ths for a in t["axioms"]})
    trusted = [
        "Coq 8.16.1 kernel (coqc); vm_compute used for finite sweeps and witnesses; native_compute not used",
        "axioms reported by Print Assumptions for Props/%s.v: %s" % (
            ctx.prop, ", ".join(axioms) if axioms else "none (every theorem: Closed under the global context)"),
        "extraction: ExtrOcamlBasic only (bool, option, unit, list, prod, sumbool, sumor -> OCaml's); "
        "Z/N/positive/nat/ascii/string stay extracted inductives; no Extract Constant/Inductive of ours",
        "coq/Extract/driver.ml (hand-written wire-format glue and oracle pipe)",
        "harness (Python): generators, canonicalisation, adapters that drive the real authlib from %s" % REPO,
    ] + ctx.trusted + meta.get("trusted", [])
    ev = {
        "property_id": ctx.prop, "tier": ctx.tier, "seed": ctx.seed, "level": "proof",
        "coverage": {
            "obligations": obligations, "discharged": discharged,
            "checker_cmd": props["cmd"] if props else "",
            "trusted_base": trusted,
            "theorems": [{"name": t["name"], "closed": t["closed"], "axioms": t["axioms"]} for t in ths],
            "evaluations": ctx.evaluations,
            "distinct_nontrivial": len(ctx.nontrivial),
            "rule": ctx.rule,
            "samples": ctx.samples or [{"note": "no sampled case"}],
            "traces_validated_against_impl": ctx.validated,
            "disagreements_checked": len(ctx.disagreements),
            "distribution": ctx.dist,
            "exhaustive": ctx.exhaustive,
            "model_calls": ctx._model.calls if ctx._model else 0,
            "known_findings_seen": sorted(k for k in ctx.violations if k in known),
            "notes": ctx.notes,
        },
        "assumptions": ctx.assumptions + meta.get("assumptions", []),
        "wall_s": round(time.time() - ctx.t0, 2),
        "violations": nviol,
    }
    ev["coverage"].update(ctx.extra)
    os.makedirs(os.path.join(VERIF, "evidence"), exist_ok=True)
    with open(os.path.join(VERIF, "evidence", ctx.prop + ".json"), "w") as f:
        json.dump(ev, f, indent=1, sort_keys=True)
    for l in lines:
        print(l)
    sys.stdout.flush()
    if ctx._model:
        ctx._model.close()
    return rc
