"""A deterministic asyncio event loop whose scheduler is under the harness's control.

Every iteration of the loop runs exactly ONE ready callback, chosen by `chooser(n)` among the `n` callbacks that
are ready.  Because all task wake-ups, future callbacks and lock hand-offs go through `call_soon`, every
interleaving of the coroutines at `await` granularity corresponds to one choice sequence, and the same choice
sequence always reproduces the same execution (no threads, timers or real I/O are involved).

`explore(scenario, ...)` enumerates choice sequences depth-first (stateless model checking: each schedule is a
fresh run from the initial state).
"""
import asyncio
import random


class SchedLoop(asyncio.SelectorEventLoop):
    def __init__(self, chooser):
        super().__init__()
        self._chooser = chooser

    def _run_once(self):
        ready = self._ready
        stash = None
        if len(ready) > 1:
            k = self._chooser(len(ready))
            items = list(ready)
            ready.clear()
            ready.append(items.pop(k))
            stash = items
        super()._run_once()
        if stash:
            # callbacks not chosen stay ahead of the ones scheduled by the callback that just ran
            ready.extendleft(reversed(stash))


class Chooser:
    """Follows `prefix`, then `fallback(n)`; records (choice, alternatives) for every choice point."""

    def __init__(self, prefix=(), fallback=None):
        self.prefix = list(prefix)
        self.fallback = fallback or (lambda n: 0)
        self.path = []

    def __call__(self, n):
        i = len(self.path)
        k = self.prefix[i] if i < len(self.prefix) else self.fallback(n)
        if k >= n:
            k = n - 1
        self.path.append((k, n))
        return k


def run_with(chooser, main_factory):
    loop = SchedLoop(chooser)
    try:
        asyncio.set_event_loop(loop)
        return loop.run_until_complete(main_factory())
    finally:
        try:
            loop.run_until_complete(loop.shutdown_asyncgens())
        except Exception:
            pass
        asyncio.set_event_loop(None)
        loop.close()


def explore(main_factory, limit=None):
    """Depth-first enumeration of every schedule.  Yields (choices, result); stops after `limit` runs."""
    prefix = []
    n = 0
    while True:
        ch = Chooser(prefix)
        res = run_with(ch, main_factory)
        yield [k for k, _ in ch.path], res
        n += 1
        if limit is not None and n >= limit:
            return
        path = ch.path
        i = len(path) - 1
        while i >= 0 and path[i][0] + 1 >= path[i][1]:
            i -= 1
        if i < 0:
            return
        prefix = [k for k, _ in path[:i]] + [path[i][0] + 1]


def sample(main_factory, rng: random.Random):
    ch = Chooser((), lambda n: rng.randrange(n))
    res = run_with(ch, main_factory)
    return [k for k, _ in ch.path], res
