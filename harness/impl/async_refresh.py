"""C17 implementation side: several tasks share one real AsyncOAuth2Client; the transport, the token-update
callback and the refresh lock are observed (never altered), and the scheduler is harness/impl/sched_loop.py.

Events (tid, kind, detail...) are appended to one ordered log:
  begin | acquire | release | refresh_send | refresh_resp | token_set | cb_start | cb_end | send | recv | done | error
"""
import asyncio
import json
import time

import httpx

from authlib.integrations.httpx_client import AsyncOAuth2Client

TOKEN_URL = "https://as.example/token"
API_URL = "https://rs.example/api"


def _tid():
    t = asyncio.current_task()
    name = t.get_name() if t else ""
    return int(name[1:]) if name.startswith("w") else -1


class LoggingLock:
    """Wraps the client's own lock object; only reports when it is entered and left."""

    def __init__(self, inner, log):
        self._inner = inner
        self._log = log

    async def __aenter__(self):
        r = await self._inner.__aenter__()
        self._log.append((_tid(), "acquire"))
        return r

    async def __aexit__(self, *a):
        self._log.append((_tid(), "release"))
        return await self._inner.__aexit__(*a)

    def __getattr__(self, k):
        return getattr(self._inner, k)


class Transport(httpx.AsyncBaseTransport):
    def __init__(self, log, outcomes, yields):
        self.log = log
        self.outcomes = list(outcomes)
        self.attempt = 0
        self.yields = yields
        self.requests = []          # raw observation for the property oracle

    async def handle_async_request(self, request):
        url = str(request.url)
        body = request.content.decode()
        authz = request.headers.get("authorization")
        if url.startswith(TOKEN_URL):
            self.attempt += 1
            k = self.attempt
            form = dict(httpx.QueryParams(body))
            self.requests.append(("token", _tid(), form, authz))
            self.log.append((_tid(), "refresh_send", form.get("grant_type"), form.get("refresh_token")))
            for _ in range(self.yields):
                await asyncio.sleep(0)
            o = self.outcomes[k - 1] if k - 1 < len(self.outcomes) else "ok"
            self.log.append((_tid(), "refresh_resp", o))
            if o == "err":
                return httpx.Response(400, json={"error": "invalid_grant", "error_description": "x"})
            if o == "5xx":
                return httpx.Response(503, text="down", request=request)
            if o == "junk":
                # a gateway's answer: JSON that is neither a token nor an OAuth error
                return httpx.Response(429, json={"message": "rate limit exceeded"})
            tok = {"access_token": "at%d" % k, "token_type": "Bearer", "expires_in": 3600}
            if getattr(self, "no_expiry", False):
                del tok["expires_in"]
            if o == "rot":
                tok["refresh_token"] = "rt%d" % k
            return httpx.Response(200, json=tok)
        self.requests.append(("api", _tid(), authz))
        self.log.append((_tid(), "send", authz))
        for _ in range(self.yields):
            await asyncio.sleep(0)
        self.log.append((_tid(), "recv"))
        return httpx.Response(200, json={"ok": True})


def make_client(cfg, log, transport):
    """cfg: has_token, init_expired, has_rt, has_url, cc, has_cb"""

    class ObservedClient(AsyncOAuth2Client):
        # the attribute `token` is a property of the base class; observe assignments
        @property
        def token(self):
            return AsyncOAuth2Client.token.fget(self)

        @token.setter
        def token(self, value):
            AsyncOAuth2Client.token.fset(self, value)
            if _tid() >= 0:
                log.append((_tid(), "token_set", (value or {}).get("access_token"), (value or {}).get("refresh_token")))

    token = None
    if cfg["has_token"]:
        token = {"access_token": "at0", "token_type": "Bearer"}
        if cfg["init_expired"]:
            # "expired" includes the leeway (60 s): expired_by may be small, or negative down to -59 (about to expire)
            token["expires_at"] = int(time.time()) - cfg.get("expired_by", 1000)
        elif cfg.get("init_far", True):
            token["expires_at"] = int(time.time()) + cfg.get("valid_for", 100000)
        if cfg["has_rt"]:
            token["refresh_token"] = "rt0"

    cb_calls = []

    async def update_token(tok, refresh_token=None, access_token=None):
        cb_calls.append((_tid(), dict(tok), refresh_token, access_token))
        log.append((_tid(), "cb_start", tok.get("access_token"), tok.get("refresh_token"), refresh_token, access_token))
        for _ in range(transport.yields):
            await asyncio.sleep(0)
        log.append((_tid(), "cb_end"))

    kw = {}
    if cfg["has_url"]:
        kw["token_endpoint"] = TOKEN_URL
    if cfg["cc"]:
        kw["grant_type"] = "client_credentials"
    client = ObservedClient("cid", "csecret", token=token, transport=transport,
                            update_token=update_token if cfg["has_cb"] else None, **kw)
    client._token_refresh_lock = LoggingLock(client._token_refresh_lock, log)
    return client, cb_calls


def scenario(cfg, n, outcomes, kinds=None, yields=1):
    """Returns a coroutine factory; its result is dict(log=..., requests=..., callbacks=..., results=...)."""
    kinds = kinds or ["request"] * n

    async def main():
        log = []
        transport = Transport(log, outcomes, yields)
        transport.no_expiry = bool(cfg.get("resp_no_expiry"))     # a success response without expires_in (RFC 6749: RECOMMENDED, not required)
        client, cb_calls = make_client(cfg, log, transport)
        results = {}

        async def worker(i):
            log.append((i, "begin"))
            try:
                if kinds[i] == "stream":
                    async with client.stream("GET", API_URL) as resp:
                        await resp.aread()
                else:
                    resp = await client.request("GET", API_URL)
                results[i] = ("ok", resp.status_code)
                log.append((i, "done"))
            except Exception as e:  # noqa: BLE001
                results[i] = ("error", type(e).__name__)
                log.append((i, "error", type(e).__name__))

        tasks = [asyncio.get_running_loop().create_task(worker(i), name="w%d" % i) for i in range(n)]
        await asyncio.gather(*tasks)
        final = client.token
        await client.aclose()
        return {"log": log, "requests": transport.requests, "callbacks": cb_calls, "results": results,
                "final": dict(final) if final else None}

    return main
