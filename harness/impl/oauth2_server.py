"""Reference integrator for the OAuth 2 provider side: a framework-free
AuthorizationServer over in-memory stores, following the repository's own
sqla_oauth2 mixins (client, authorization code, token semantics) and the
Flask test applications.  Every store access goes through `Store.op`, which
counts callbacks and can inject a fault at the k-th one (C19)."""
import time

from authlib.oauth2 import OAuth2Request
from authlib.oauth2.rfc6749 import AuthorizationServer, ClientMixin, TokenMixin, AuthorizationCodeMixin
from authlib.oauth2.rfc6749 import grants, list_to_scope, scope_to_list
from authlib.oauth2.rfc6749.requests import JsonRequest
from authlib.oauth2.rfc6750 import BearerTokenGenerator


from authlib.integrations.sqla_oauth2.client_mixin import OAuth2ClientMixin as _M
from authlib.integrations.sqla_oauth2.tokens_mixins import OAuth2TokenMixin as _T, OAuth2AuthorizationCodeMixin as _AC


class StorageError(Exception):
    """Raised by the fault injector; not an OAuth2Error."""


# a real store fails with exceptions of many families (a corrupted record: ValueError / KeyError / TypeError; the network:
# OSError / TimeoutError; ...).  Each class below is ALSO a StorageError, so that the harness recognises it when it surfaces.
FAULT_CLASSES = [StorageError] + [type("Storage" + b.__name__, (StorageError, b), {}) for b in
                                  (ValueError, TypeError, KeyError, AttributeError, OSError, TimeoutError, OverflowError, LookupError, RuntimeError,
                                   UnicodeDecodeError if False else ArithmeticError, EOFError)]


class HReq:
    """A framework-neutral HTTP request."""

    def __init__(self, method, uri, form=None, headers=None, body=None):
        self.method, self.uri, self.form, self.headers, self.body = method, uri, form, headers or {}, body


PK = {}


class User:
    def __init__(self, uid):
        self.uid = uid

    def get_user_id(self):
        return self.uid

    # what the Django integration reads (impl/django_provider.py); a primary key may be falsy (0): PK maps user names to such keys
    pk = property(lambda self: PK.get(self.uid, self.uid))


class Client(_M):
    """The repository's own sqla_oauth2 client mixin, used as it stands (no database: the column attributes are plain instance
    attributes here).  Registration data lives in the metadata document, as in the mixin; a change to
    authlib/integrations/sqla_oauth2/client_mixin.py is observed by every check that uses this integrator."""

    def __init__(self, client_id, client_secret="", redirect_uris=(), scope="", grant_types=(),
                 response_types=(), token_endpoint_auth_method="client_secret_basic", jwks=None):
        self.client_id = client_id
        self.client_secret = client_secret
        self.client_id_issued_at = 0
        self.client_secret_expires_at = 0
        self._client_metadata = None
        md = {"redirect_uris": list(redirect_uris), "scope": scope, "grant_types": list(grant_types),
              "response_types": list(response_types), "token_endpoint_auth_method": token_endpoint_auth_method}
        if token_endpoint_auth_method is None:
            del md["token_endpoint_auth_method"]     # a registration that leaves the member out: RFC 7591's default applies
        if jwks is not None:
            md["jwks"] = jwks
        self.set_client_metadata(md)

    def update_metadata(self, **kw):
        """what a registration update does: a new metadata document through set_client_metadata"""
        md = dict(self.client_metadata)
        md.update(kw)
        self.set_client_metadata(md)

    # assignment to a registration member rewrites the metadata document
    scope = property(_M.scope.fget, lambda self, v: self.update_metadata(scope=v))
    redirect_uris = property(_M.redirect_uris.fget, lambda self, v: self.update_metadata(redirect_uris=list(v)))
    grant_types = property(_M.grant_types.fget, lambda self, v: self.update_metadata(grant_types=list(v)))
    response_types = property(_M.response_types.fget, lambda self, v: self.update_metadata(response_types=list(v)))
    token_endpoint_auth_method = property(_M.token_endpoint_auth_method.fget, lambda self, v: self.update_metadata(token_endpoint_auth_method=v))
    jwks = property(_M.jwks.fget, lambda self, v: self.update_metadata(jwks=v))


class Code(AuthorizationCodeMixin):
    def __init__(self, code, client_id, redirect_uri, scope, user_id, nonce=None, code_challenge=None,
                 code_challenge_method=None, auth_time=None):
        self.code, self.client_id, self.redirect_uri, self.scope = code, client_id, redirect_uri, scope
        self.user_id, self.nonce = user_id, nonce
        self.code_challenge, self.code_challenge_method = code_challenge, code_challenge_method
        self.auth_time = int(time.time()) if auth_time is None else auth_time

    is_expired = _AC.is_expired
    get_redirect_uri = _AC.get_redirect_uri
    get_scope = _AC.get_scope
    get_auth_time = _AC.get_auth_time
    get_nonce = _AC.get_nonce


class Token(TokenMixin):
    def __init__(self, client_id, user_id, token_type=None, access_token=None, refresh_token=None, scope="",
                 expires_in=0, **extra):
        self.client_id, self.user_id = client_id, user_id
        self.token_type, self.access_token, self.refresh_token = token_type, access_token, refresh_token
        self.scope = scope
        self.issued_at = int(time.time())
        self.access_token_revoked_at = 0
        self.refresh_token_revoked_at = 0
        self.expires_in = expires_in
        self.extra = extra

    check_client = _T.check_client
    get_scope = _T.get_scope
    get_expires_in = _T.get_expires_in
    is_revoked = _T.is_revoked
    is_expired = _T.is_expired

    def get_client(self):
        return None

    def get_user(self):
        return User(self.user_id) if self.user_id is not None else None


class Store:
    def __init__(self):
        self.clients = {}
        self.codes = {}
        self.tokens = []
        self.users = {}
        self.trace = []          # (op, detail) in call order
        self.fault_at = None     # 1-based index of the callback that fails
        self.fault_class = StorageError
        self.calls = 0
        self.counter = 0

    def op(self, name, detail=None):
        """Called at the top of every integrator callback."""
        self.calls += 1
        if self.fault_at is not None and self.calls == self.fault_at:
            self.trace.append((name, "FAULT"))
            raise self.fault_class("injected fault at callback %d (%s)" % (self.calls, name))
        self.trace.append((name, detail))

    def fresh(self, prefix):
        self.counter += 1
        return "%s%d" % (prefix, self.counter)

    def snapshot(self):
        return {
            "codes": sorted((c.code, c.client_id, c.redirect_uri, c.scope, c.user_id) for c in self.codes.values()),
            "tokens": [(t.client_id, t.user_id, t.access_token, t.refresh_token, t.scope,
                        bool(t.access_token_revoked_at), bool(t.refresh_token_revoked_at)) for t in self.tokens],
        }


class Server(AuthorizationServer):
    """`transport` selects the glue between the HTTP request and the library: "neutral" (this class), or the repository's
    own Flask / Django integration (impl/transports.py); requests a framework would read differently stay neutral."""

    def __init__(self, store, scopes_supported=None, token_generator=None, transport="neutral"):
        super().__init__(scopes_supported=scopes_supported)
        self.store = store
        self.transport = transport
        self._transport = "neutral"      # what is in force during the current call
        self.via = {}
        if token_generator is None:
            token_generator = BearerTokenGenerator(
                lambda **kw: store.fresh("at"), lambda **kw: store.fresh("rt"))
        self.register_token_generator("default", token_generator)

    def query_client(self, client_id):
        self.store.op("query_client", client_id)
        return self.store.clients.get(client_id)

    def save_token(self, token, request):
        self.store.op("save_token", token.get("access_token"))
        uid = request.user.get_user_id() if request.user else None
        self.store.tokens.append(Token(request.client.client_id, uid, **token))

    def send_signal(self, name, *args, **kwargs):
        pass

    def create_oauth2_request(self, request):
        if isinstance(request, OAuth2Request):
            return request
        if self._transport == "flask":
            from authlib.integrations.flask_oauth2 import AuthorizationServer as F
            return F.create_oauth2_request(self, request)
        if self._transport == "django":
            from authlib.integrations.django_oauth2 import AuthorizationServer as D
            return D.create_oauth2_request(self, request)
        return OAuth2Request(request.method, request.uri, request.form, request.headers)

    def create_json_request(self, request):
        if self._transport == "flask":
            from authlib.integrations.flask_oauth2 import AuthorizationServer as F
            return F.create_json_request(self, request)
        if self._transport == "django":
            from authlib.integrations.django_oauth2 import AuthorizationServer as D
            return D.create_json_request(self, request)
        return JsonRequest(request.method, request.uri, request.body, request.headers)

    def handle_response(self, status, body, headers):
        if self._transport == "flask":
            from authlib.integrations.flask_oauth2 import AuthorizationServer as F
            return F.handle_response(self, status, body, headers)
        if self._transport == "django":
            from authlib.integrations.django_oauth2 import AuthorizationServer as D
            return D.handle_response(self, status, body, headers)
        return status, body, headers

    # the public entry points, each taking an HReq: through the chosen glue when every transport reads the request alike
    def _through(self, request, f):
        from impl import transports as T
        if self.transport != "neutral" and isinstance(request, HReq) and T.usable(request, self.transport):
            self.via[self.transport] = self.via.get(self.transport, 0) + 1
            return T.call(self, self.transport, request, f)
        self.via["neutral"] = self.via.get("neutral", 0) + 1
        return f(request)

    def create_token_response(self, request=None):
        return self._through(request, lambda r: AuthorizationServer.create_token_response(self, r))

    def create_endpoint_response(self, name, request=None):
        return self._through(request, lambda r: AuthorizationServer.create_endpoint_response(self, name, r))

    def get_consent_grant(self, request=None, end_user=None):
        return self._through(request, lambda r: AuthorizationServer.get_consent_grant(self, r, end_user))

    def create_authorization_response(self, request=None, grant_user=None):
        return self._through(request, lambda r: AuthorizationServer.create_authorization_response(self, r, grant_user))


def make_grants(store, users_by_name=None):
    """Grant classes bound to [store]."""
    users_by_name = users_by_name if users_by_name is not None else {}

    class AuthorizationCodeGrant(grants.AuthorizationCodeGrant):
        TOKEN_ENDPOINT_AUTH_METHODS = ["client_secret_basic", "client_secret_post", "none"]

        def save_authorization_code(self, code, request):
            store.op("save_authorization_code", code)
            data = request.data
            store.codes[code] = Code(code, request.client.client_id, request.redirect_uri, request.scope,
                                     request.user.get_user_id(), nonce=data.get("nonce"),
                                     code_challenge=data.get("code_challenge"),
                                     code_challenge_method=data.get("code_challenge_method"))

        def query_authorization_code(self, code, client):
            store.op("query_authorization_code", code)
            item = store.codes.get(code)
            if item and item.client_id == client.client_id and not item.is_expired():
                return item

        def delete_authorization_code(self, authorization_code):
            store.op("delete_authorization_code", authorization_code.code)
            store.codes.pop(authorization_code.code, None)

        def authenticate_user(self, authorization_code):
            store.op("authenticate_user", authorization_code.user_id)
            return User(authorization_code.user_id)

    class ImplicitGrant(grants.ImplicitGrant):
        pass

    class PasswordGrant(grants.ResourceOwnerPasswordCredentialsGrant):
        TOKEN_ENDPOINT_AUTH_METHODS = ["client_secret_basic", "client_secret_post", "none"]

        def authenticate_user(self, username, password):
            store.op("authenticate_user", username)
            if users_by_name.get(username) == password:
                return User(username)

    class ClientCredentialsGrant(grants.ClientCredentialsGrant):
        TOKEN_ENDPOINT_AUTH_METHODS = ["client_secret_basic", "client_secret_post"]

    class RefreshTokenGrant(grants.RefreshTokenGrant):
        TOKEN_ENDPOINT_AUTH_METHODS = ["client_secret_basic", "client_secret_post", "none"]
        INCLUDE_NEW_REFRESH_TOKEN = True

        def authenticate_refresh_token(self, refresh_token):
            store.op("authenticate_refresh_token", refresh_token)
            for t in store.tokens:
                if t.refresh_token == refresh_token and not t.refresh_token_revoked_at:
                    return t

        def authenticate_user(self, credential):
            store.op("authenticate_user", credential.user_id)
            return User(credential.user_id) if credential.user_id is not None else None

        def revoke_old_credential(self, credential):
            store.op("revoke_old_credential", credential.refresh_token)
            credential.refresh_token_revoked_at = int(time.time())

    return {"code": AuthorizationCodeGrant, "implicit": ImplicitGrant, "password": PasswordGrant,
            "client_credentials": ClientCredentialsGrant, "refresh": RefreshTokenGrant}


def basic_header(cid, secret):
    import base64
    return {"Authorization": "Basic " + base64.b64encode(("%s:%s" % (cid, secret)).encode()).decode()}


# ---------------------------------------------------------------- device flow (RFC 8628)
def make_device(store):
    from authlib.oauth2.rfc8628 import DeviceAuthorizationEndpoint, DeviceCodeGrant, DeviceCredentialDict
    store.devices = {}        # device_code -> DeviceCredentialDict
    store.user_grants = {}    # user_code -> (User, approved)

    class DeviceEndpoint(DeviceAuthorizationEndpoint):
        def get_verification_uri(self):
            return "https://as.example/activate"

        def generate_device_code(self):
            return store.fresh("dc")

        def generate_user_code(self):
            return store.fresh("UC")

        def save_device_credential(self, client_id, scope, data):
            store.op("save_device_credential", data["device_code"])
            store.devices[data["device_code"]] = DeviceCredentialDict(
                client_id=client_id, scope=scope, user_code=data["user_code"],
                device_code=data["device_code"], expires_at=int(time.time()) + data["expires_in"])

    class DeviceGrant(DeviceCodeGrant):
        def query_device_credential(self, device_code):
            store.op("query_device_credential", device_code)
            return store.devices.get(device_code)

        def query_user_grant(self, user_code):
            store.op("query_user_grant", user_code)
            return store.user_grants.get(user_code)

        def should_slow_down(self, credential):
            return False

    return DeviceEndpoint, DeviceGrant


# ---------------------------------------------------------------- jwt-bearer grant (RFC 7523)
def make_jwt_bearer(store, key_of_client):
    from authlib.oauth2.rfc7523 import JWTBearerGrant as _G

    class JWTBearerGrant(_G):
        def resolve_issuer_client(self, issuer):
            store.op("query_client", issuer)
            return store.clients.get(issuer)

        def resolve_client_key(self, client, headers, payload):
            return key_of_client(client)

        def authenticate_user(self, subject):
            store.op("authenticate_user", subject)
            return User(subject)

        def has_granted_permission(self, client, user):
            return True

    return JWTBearerGrant
