"""The same provider behind the repository's own framework glue.

`oauth2_server.Server` is framework-free: it turns an `HReq` into the library's request object itself.  Most
applications do not do that; they go through `authlib.integrations.flask_oauth2` or `django_oauth2`, whose
`create_oauth2_request` / `create_json_request` / `handle_response` wrap the framework's request and build the framework's
response.  `call(server, transport, req, f)` sends the very same `HReq` through that glue: a real Flask request context or
a real Django `HttpRequest` is built from it, the integration's functions (borrowed unbound, they do not depend on the
integration's own server state) make the library's request from it and the framework response from the result, and the
framework response is read back into the (status, body, headers) triple the harnesses compare.

Only requests that all three transports are bound to read alike are sent through a framework (`usable`): text values,
an ordinary query string, no name twice (Flask reads the first value and the query before the form, the others the last
and the form before the query).  Everything else stays on the framework-free path, which sees every request.
"""
import json
import re
from urllib.parse import urlsplit, urlencode

TRANSPORTS = ("neutral", "flask", "django")

_PLAIN_Q = re.compile(r"^(?:[A-Za-z0-9_.~=&-]|%[0-9A-Fa-f]{2})*$")
_PLAIN_H = re.compile(r"^[\x20-\x7e]*$")
_FLASK = None


def _flask_app():
    global _FLASK
    if _FLASK is None:
        import flask
        _FLASK = flask.Flask("verif-transport")
        _FLASK.config["TESTING"] = True
    return _FLASK


def _django_ready():
    from impl.client_apps import _django_setup
    _django_setup()


def query_names(uri):
    q = urlsplit(uri).query
    return [p.split("=", 1)[0] for p in q.split("&") if p]


def usable(req, transport):
    if transport == "neutral":
        return True
    if not hasattr(req, "uri") or not isinstance(req.uri, str) or not isinstance(req.method, str):
        return False
    u = urlsplit(req.uri)
    if u.scheme not in ("http", "https") or not u.netloc or u.fragment or not _PLAIN_Q.match(u.query):
        return False
    if any("=" not in p for p in u.query.split("&") if p):
        return False
    if not re.match(r"^[A-Za-z0-9.-]+(:[0-9]+)?$", u.netloc) or not re.match(r"^[A-Za-z0-9_.~/-]*$", u.path):
        return False
    form = req.form or {}
    if not isinstance(form, dict) or not all(isinstance(k, str) and isinstance(v, str) and k for k, v in form.items()):
        return False
    if any("\ud800" <= c <= "\udfff" for k, v in form.items() for c in k + v):
        return False
    names = query_names(req.uri)
    if transport == "flask" and (len(set(names)) != len(names) or set(names) & set(form)):
        return False       # (Django, like the framework-free request, reads the last value and the form before the query)
    hdrs = req.headers or {}
    if not isinstance(hdrs, dict) or not all(isinstance(k, str) and isinstance(v, str) and re.match(r"^[A-Za-z-]+$", k)
                                            and _PLAIN_H.match(v) and v == v.strip() for k, v in hdrs.items()):
        return False
    if req.body is not None and not isinstance(req.body, (str, bytes)):
        return False
    if req.body is not None and form:
        return False
    return True


def _read_back(status, data, header_items):
    text = data.decode("utf-8") if isinstance(data, bytes) else data
    body = text
    if text:
        try:
            body = json.loads(text)
        except ValueError:
            body = text
    headers = [(k, v) for k, v in header_items if k.lower() != "content-length"]
    return status, body, headers


def call(server, transport, req, f):
    """Run f(framework_request) with `server` switched to the glue of `transport`; gives (status, body, headers) when
    f returns a framework response, and f's own result otherwise (a grant object, ...)."""
    u = urlsplit(req.uri)
    path = u.path or "/"
    hdrs = dict(req.headers or {})
    if req.body is not None:
        data = req.body if isinstance(req.body, bytes) else req.body.encode("utf-8")
        ctype = hdrs.pop("Content-Type", "application/json")
    else:
        data = urlencode(req.form or {}).encode("ascii")
        ctype = hdrs.pop("Content-Type", "application/x-www-form-urlencoded")
    server._transport = transport
    try:
        if transport == "flask":
            import flask
            app = _flask_app()
            with app.test_request_context(path, base_url="%s://%s" % (u.scheme, u.netloc), query_string=u.query, method=req.method,
                                          data=data, content_type=ctype, headers=hdrs):
                out = f(flask.request)
                if isinstance(out, flask.Response):
                    return _read_back(out.status_code, out.get_data(), list(out.headers.items()))
                return out
        _django_ready()
        from django.http import HttpResponse
        from django.test import RequestFactory
        extra = {"HTTP_" + k.upper().replace("-", "_"): v for k, v in hdrs.items()}
        extra["HTTP_HOST"] = u.netloc
        extra["QUERY_STRING"] = u.query
        dreq = RequestFactory().generic(req.method, path, data=data, content_type=ctype, secure=(u.scheme == "https"), **extra)
        out = f(dreq)
        if isinstance(out, HttpResponse):
            return _read_back(out.status_code, out.content, list(out.items()))
        return out
    finally:
        server._transport = "neutral"


def pick(*parts):
    """A transport chosen by the content of the case (stable across runs and seeds, recorded in the case)."""
    import zlib
    return TRANSPORTS[zlib.crc32(json.dumps(parts, sort_keys=True, default=str).encode()) % len(TRANSPORTS)]


def wrap(transport, req):
    """The library's request object for `req`, made by the integration's wrapper around a real framework request
    (for callers that hand a request object to a component directly: ClientAuthentication, a resource protector)."""
    u = urlsplit(req.uri)
    hdrs = dict(req.headers or {})
    if req.body is not None:
        data = req.body if isinstance(req.body, bytes) else req.body.encode("utf-8")
        ctype = hdrs.pop("Content-Type", "application/json")
    else:
        data = urlencode(req.form or {}).encode("ascii")
        ctype = hdrs.pop("Content-Type", "application/x-www-form-urlencoded")
    if transport == "flask":
        import flask
        from werkzeug.test import EnvironBuilder
        from authlib.integrations.flask_oauth2.requests import FlaskOAuth2Request
        env = EnvironBuilder(path=u.path or "/", base_url="%s://%s" % (u.scheme, u.netloc), query_string=u.query, method=req.method,
                             data=data, content_type=ctype, headers=hdrs).get_environ()
        return FlaskOAuth2Request(flask.Request(env))
    _django_ready()
    from django.test import RequestFactory
    from authlib.integrations.django_oauth2.requests import DjangoOAuth2Request
    extra = {"HTTP_" + k.upper().replace("-", "_"): v for k, v in hdrs.items()}
    extra["HTTP_HOST"] = u.netloc
    extra["QUERY_STRING"] = u.query
    return DjangoOAuth2Request(RequestFactory().generic(req.method, u.path or "/", data=data, content_type=ctype,
                                                        secure=(u.scheme == "https"), **extra))
