"""An independent implementation of the RFC 7515/7518/8037 signature algorithms on top of `cryptography`
and `hmac`/`hashlib` only (no authlib code), plus a table of test keys in several textual forms.

Used as the oracle behind the model's `prepare_key` / `sign` / `verify` parameters and as the "second
implementation" the property asks to interoperate with."""
import base64
import hashlib
import hmac
import json

from cryptography.exceptions import InvalidSignature
from cryptography.hazmat.primitives import hashes, serialization
from cryptography.hazmat.primitives.asymmetric import ec, ed25519, ed448, padding, rsa
from cryptography.hazmat.primitives.asymmetric.utils import decode_dss_signature, encode_dss_signature

ALGS = ["none", "HS256", "HS384", "HS512", "RS256", "RS384", "RS512", "ES256", "ES384", "ES512", "ES256K",
        "PS256", "PS384", "PS512", "EdDSA"]
HASH = {"256": hashes.SHA256, "384": hashes.SHA384, "512": hashes.SHA512}
CURVES = {"ES256": ec.SECP256R1, "ES384": ec.SECP384R1, "ES512": ec.SECP521R1, "ES256K": ec.SECP256K1}
CURVE_LEN = {"ES256": 32, "ES384": 48, "ES512": 66, "ES256K": 32}

_K = {}


def b64u(b):
    return base64.urlsafe_b64encode(b).rstrip(b"=")


def keys():
    """key id -> dict(kind=..., priv=..., pub=...) ; generated once per process"""
    if _K:
        return _K
    _K["oct1"] = {"kind": "oct", "secret": b"secret-one-" + b"0123456789abcdef" * 4}
    _K["oct2"] = {"kind": "oct", "secret": b"secret-two-" + b"fedcba9876543210" * 4}
    for name in ("rsa1", "rsa2"):
        k = rsa.generate_private_key(public_exponent=65537, key_size=2048)
        _K[name] = {"kind": "rsa", "priv": k, "pub": k.public_key()}
    for name, crv in (("p256", ec.SECP256R1()), ("p256b", ec.SECP256R1()), ("p384", ec.SECP384R1()), ("p521", ec.SECP521R1()),
                      ("k256", ec.SECP256K1())):
        k = ec.generate_private_key(crv)
        _K[name] = {"kind": "ec", "curve": type(crv), "priv": k, "pub": k.public_key()}
    for name, cls in (("ed25519", ed25519.Ed25519PrivateKey), ("ed25519b", ed25519.Ed25519PrivateKey), ("ed448", ed448.Ed448PrivateKey)):
        k = cls.generate()
        _K[name] = {"kind": "okp", "priv": k, "pub": k.public_key()}
    return _K


def family_ok(alg, kid):
    """RFC 7518 s3.1 / RFC 8037: which key may be used with which algorithm."""
    if alg == "none":
        return True
    k = keys().get(kid.split(".")[0]) if isinstance(kid, str) else None
    if k is None:
        return False
    if alg.startswith("HS"):
        return k["kind"] == "oct"
    if alg[:2] in ("RS", "PS"):
        return k["kind"] == "rsa"
    if alg in CURVES:
        return k["kind"] == "ec" and k["curve"] is CURVES[alg]
    if alg == "EdDSA":
        return k["kind"] == "okp"
    return False


_JWK_IDS = {}


def kid_of_jwk(d):
    """a JWK dict (as carried in a token's own header) names one of the known keys, or nothing"""
    if not _JWK_IDS:
        for kid, k in keys().items():
            for name in ((kid,) if k["kind"] == "oct" else (kid, kid + ".pub")):
                j = material(name, "jwk")
                _JWK_IDS[json.dumps({x: j[x] for x in j if x not in ("kid", "use", "key_ops", "alg")}, sort_keys=True)] = name
    if not isinstance(d, dict):
        return None
    return _JWK_IDS.get(json.dumps({x: d[x] for x in d if x not in ("kid", "use", "key_ops", "alg")}, sort_keys=True))


def prepare(alg, kid):
    """None = refused; otherwise the prepared key (its id)."""
    if alg == "none":
        return "none-key"
    if isinstance(kid, dict):
        kid = kid_of_jwk(kid)
    if not isinstance(kid, str) or not family_ok(alg, kid):
        return None
    return kid


def sign(alg, kid, msg):
    if alg == "none":
        return b""
    base = kid.split(".")[0]
    k = keys()[base]
    if kid.endswith(".pub"):
        return None
    if alg.startswith("HS"):
        return hmac.new(k["secret"], msg, getattr(hashlib, "sha" + alg[2:])).digest()
    h = HASH.get(alg[2:5])
    if alg.startswith("RS"):
        return k["priv"].sign(msg, padding.PKCS1v15(), h())
    if alg.startswith("PS"):
        return k["priv"].sign(msg, padding.PSS(mgf=padding.MGF1(h()), salt_length=h.digest_size), h())
    if alg in CURVES:
        r, s = decode_dss_signature(k["priv"].sign(msg, ec.ECDSA(h())))
        n = CURVE_LEN[alg]
        return r.to_bytes(n, "big") + s.to_bytes(n, "big")
    if alg == "EdDSA":
        return k["priv"].sign(msg)
    return None


def verify(alg, kid, msg, sig):
    if alg == "none":
        return False
    base = kid.split(".")[0]
    k = keys()[base]
    try:
        if alg.startswith("HS"):
            return hmac.compare_digest(hmac.new(k["secret"], msg, getattr(hashlib, "sha" + alg[2:])).digest(), sig)
        h = HASH.get(alg[2:5])
        if alg.startswith("RS"):
            k["pub"].verify(sig, msg, padding.PKCS1v15(), h())
            return True
        if alg.startswith("PS"):
            k["pub"].verify(sig, msg, padding.PSS(mgf=padding.MGF1(h()), salt_length=h.digest_size), h())
            return True
        if alg in CURVES:
            n = CURVE_LEN[alg]
            if len(sig) != 2 * n:
                return False
            r, s = int.from_bytes(sig[:n], "big"), int.from_bytes(sig[n:], "big")
            k["pub"].verify(encode_dss_signature(r, s), msg, ec.ECDSA(h()))
            return True
        if alg == "EdDSA":
            k["pub"].verify(sig, msg)
            return True
    except (InvalidSignature, ValueError):
        return False
    return False


# ---------------------------------------------------------------- key material in the forms authlib accepts
def material(kid, form):
    """form: raw | pem | pem-str | jwk | key ; kid may end in '.pub'"""
    from authlib.jose import JsonWebKey
    base, pub = (kid[:-4], True) if kid.endswith(".pub") else (kid, False)
    k = keys()[base]
    if k["kind"] == "oct":
        if form in ("raw", "pem"):
            return k["secret"]
        if form == "pem-str":
            return k["secret"].decode()
        d = {"kty": "oct", "k": b64u(k["secret"]).decode()}
        return d if form == "jwk" else JsonWebKey.import_key(d)
    if pub:
        pem = k["pub"].public_bytes(serialization.Encoding.PEM, serialization.PublicFormat.SubjectPublicKeyInfo)
    else:
        pem = k["priv"].private_bytes(serialization.Encoding.PEM, serialization.PrivateFormat.PKCS8, serialization.NoEncryption())
    if form in ("raw", "pem"):
        return pem
    if form == "pem-str":
        return pem.decode()
    key = JsonWebKey.import_key(pem)
    if form == "jwk":
        return key.as_dict(is_private=not pub)
    return key


def default_key_for(alg):
    return {"none": "oct1", "HS": "oct1", "RS": "rsa1", "PS": "rsa1", "ES256": "p256", "ES384": "p384", "ES512": "p521", "ES256K": "k256",
            "EdDSA": "ed25519"}.get(alg, None) or {"HS": "oct1", "RS": "rsa1", "PS": "rsa1"}[alg[:2]]


def other_key_for(alg):
    return {"none": "oct2", "ES256": "p256b", "ES384": "p256", "ES512": "p384", "ES256K": "p256", "EdDSA": "ed25519b"}.get(alg) or \
        {"HS": "oct2", "RS": "rsa2", "PS": "rsa2"}[alg[:2]]


def json_loads_oracle(data):
    try:
        v = json.loads(data.decode("utf-8") if isinstance(data, (bytes, bytearray)) else data)
    except ValueError:
        return None
    return [v]
