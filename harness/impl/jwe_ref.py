"""An independent implementation of JWE (RFC 7516 compact serialization, RFC 7518 key management and content
encryption, RFC 8037 X25519/X448 key agreement, DEFLATE), written from the RFCs on top of `cryptography`, hmac and
zlib only.  It answers the model's unwrap / decrypt / decompress parameters and is the second implementation the
property asks to interoperate with."""
import base64
import hashlib
import hmac
import json
import os
import struct
import zlib

from cryptography.exceptions import InvalidTag
from cryptography.hazmat.primitives import hashes, keywrap, padding as sym_padding
from cryptography.hazmat.primitives.asymmetric import ec, padding, rsa, x25519, x448
from cryptography.hazmat.primitives.ciphers import Cipher, algorithms, modes
from cryptography.hazmat.primitives.ciphers.aead import AESGCM
from cryptography.hazmat.primitives.kdf.concatkdf import ConcatKDFHash

ALGS = ["dir", "RSA1_5", "RSA-OAEP", "RSA-OAEP-256", "A128KW", "A192KW", "A256KW", "A128GCMKW", "A192GCMKW", "A256GCMKW",
        "ECDH-ES", "ECDH-ES+A128KW", "ECDH-ES+A192KW", "ECDH-ES+A256KW"]
ENCS = {"A128CBC-HS256": 32, "A192CBC-HS384": 48, "A256CBC-HS512": 64, "A128GCM": 16, "A192GCM": 24, "A256GCM": 32}
_K = {}


def b64u(b):
    return base64.urlsafe_b64encode(b).rstrip(b"=")


def b64d(s):
    if isinstance(s, str):
        s = s.encode()
    return base64.urlsafe_b64decode(s + b"=" * (-len(s) % 4))


def keys():
    if _K:
        return _K
    for n in (16, 24, 32, 48, 64):
        _K["oct%d" % n] = {"kind": "oct", "secret": bytes((i * 7 + n) % 256 for i in range(n))}
        _K["oct%db" % n] = {"kind": "oct", "secret": bytes((i * 11 + n + 1) % 256 for i in range(n))}
    for name in ("rsa1", "rsa2"):
        k = rsa.generate_private_key(public_exponent=65537, key_size=2048)
        _K[name] = {"kind": "rsa", "priv": k, "pub": k.public_key()}
    for name, crv in (("p256", ec.SECP256R1()), ("p256b", ec.SECP256R1()), ("p384", ec.SECP384R1()), ("p521", ec.SECP521R1())):
        k = ec.generate_private_key(crv)
        _K[name] = {"kind": "ec", "priv": k, "pub": k.public_key()}
    for name, cls in (("x25519", x25519.X25519PrivateKey), ("x25519b", x25519.X25519PrivateKey), ("x448", x448.X448PrivateKey)):
        k = cls.generate()
        _K[name] = {"kind": "okp", "priv": k, "pub": k.public_key()}
    return _K


def family_ok(alg, kid):
    k = keys().get(kid) if isinstance(kid, str) else None
    if k is None:
        return False
    if alg == "dir" or alg.endswith("KW") and not alg.startswith("ECDH"):
        return k["kind"] == "oct"
    if alg.startswith("RSA"):
        return k["kind"] == "rsa"
    if alg.startswith("ECDH-ES"):
        return k["kind"] in ("ec", "okp")
    return False


def prepare(alg, kid):
    return kid if family_ok(alg, kid) else None


# ---------------------------------------------------------------- content encryption (RFC 7518 s5)
def _cbc_hs(enc):
    n = ENCS[enc] // 2
    return n, {"A128CBC-HS256": hashlib.sha256, "A192CBC-HS384": hashlib.sha384, "A256CBC-HS512": hashlib.sha512}[enc]


def enc_encrypt(enc, cek, iv, aad, pt):
    if len(cek) != ENCS[enc]:
        raise ValueError("cek size")
    if enc.endswith("GCM"):
        out = AESGCM(cek).encrypt(iv, pt, aad)
        return out[:-16], out[-16:]
    n, h = _cbc_hs(enc)
    mac_key, enc_key = cek[:n], cek[n:]
    padder = sym_padding.PKCS7(128).padder()
    data = padder.update(pt) + padder.finalize()
    c = Cipher(algorithms.AES(enc_key), modes.CBC(iv)).encryptor()
    ct = c.update(data) + c.finalize()
    al = struct.pack(">Q", len(aad) * 8)
    tag = hmac.new(mac_key, aad + iv + ct + al, h).digest()[:n]
    return ct, tag


def enc_decrypt(enc, cek, iv, aad, ct, tag):
    """None when the authenticated decryption refuses."""
    try:
        if enc not in ENCS or len(cek) != ENCS[enc]:
            return None
        if enc.endswith("GCM"):
            if len(iv) != 12 or len(tag) != 16:
                return None
            return AESGCM(cek).decrypt(iv, ct + tag, aad)
        n, h = _cbc_hs(enc)
        if len(iv) != 16:
            return None
        mac_key, enc_key = cek[:n], cek[n:]
        al = struct.pack(">Q", len(aad) * 8)
        want = hmac.new(mac_key, aad + iv + ct + al, h).digest()[:n]
        if not hmac.compare_digest(want, tag):
            return None
        d = Cipher(algorithms.AES(enc_key), modes.CBC(iv)).decryptor()
        data = d.update(ct) + d.finalize()
        unp = sym_padding.PKCS7(128).unpadder()
        return unp.update(data) + unp.finalize()
    except (InvalidTag, ValueError):
        return None


def iv_size(enc):
    return 12 if enc.endswith("GCM") else 16


# ---------------------------------------------------------------- key management (RFC 7518 s4)
def _kw_size(alg):
    """A128KW / A192GCMKW / ECDH-ES+A256KW -> key size in octets"""
    if not alg.endswith("KW"):
        return None
    digits = "".join(ch for ch in alg.split("A")[-1] if ch.isdigit())
    return int(digits[:3]) // 8


def _concat_kdf(z, alg, enc, header):
    if alg == "ECDH-ES":
        alg_id, bits = enc, ENCS[enc] * 8
    else:
        alg_id, bits = alg, _kw_size(alg) * 8

    def lp(b):
        return struct.pack(">I", len(b)) + b
    apu = b64d(header["apu"]) if header.get("apu") else b""
    apv = b64d(header["apv"]) if header.get("apv") else b""
    other = lp(alg_id.encode()) + lp(apu) + lp(apv) + struct.pack(">I", bits)
    return ConcatKDFHash(hashes.SHA256(), bits // 8, other).derive(z)


def _epk_to_pub(epk):
    kty, crv = epk.get("kty"), epk.get("crv")
    if kty == "EC":
        curve = {"P-256": ec.SECP256R1(), "P-384": ec.SECP384R1(), "P-521": ec.SECP521R1()}[crv]
        x, y = int.from_bytes(b64d(epk["x"]), "big"), int.from_bytes(b64d(epk["y"]), "big")
        return ec.EllipticCurvePublicNumbers(x, y, curve).public_key()
    if kty == "OKP" and crv == "X25519":
        return x25519.X25519PublicKey.from_public_bytes(b64d(epk["x"]))
    if kty == "OKP" and crv == "X448":
        return x448.X448PublicKey.from_public_bytes(b64d(epk["x"]))
    raise ValueError("epk")


def _pub_to_epk(pub):
    if isinstance(pub, ec.EllipticCurvePublicKey):
        nums = pub.public_numbers()
        n = (pub.curve.key_size + 7) // 8
        crv = {"secp256r1": "P-256", "secp384r1": "P-384", "secp521r1": "P-521"}[pub.curve.name]
        return {"kty": "EC", "crv": crv, "x": b64u(nums.x.to_bytes(n, "big")).decode(), "y": b64u(nums.y.to_bytes(n, "big")).decode()}
    from cryptography.hazmat.primitives import serialization
    raw = pub.public_bytes(serialization.Encoding.Raw, serialization.PublicFormat.Raw)
    return {"kty": "OKP", "crv": "X25519" if isinstance(pub, x25519.X25519PublicKey) else "X448", "x": b64u(raw).decode()}


def _ecdh(priv, pub):
    if isinstance(priv, ec.EllipticCurvePrivateKey):
        return priv.exchange(ec.ECDH(), pub)
    return priv.exchange(pub)


def unwrap(alg, enc, ek, header, kid):
    """The content encryption key, or None when key management refuses."""
    try:
        k = keys()[kid]
        size = ENCS[enc]
        if alg == "dir":
            # RFC 7516 s5.2 step 10 asks to verify that the encrypted key is empty; authlib ignores the segment in the
            # direct modes (the plaintext is unaffected), and so does this oracle
            cek = k["secret"]
        elif alg == "RSA1_5":
            cek = k["priv"].decrypt(ek, padding.PKCS1v15())
        elif alg == "RSA-OAEP":
            cek = k["priv"].decrypt(ek, padding.OAEP(padding.MGF1(hashes.SHA1()), hashes.SHA1(), None))
        elif alg == "RSA-OAEP-256":
            cek = k["priv"].decrypt(ek, padding.OAEP(padding.MGF1(hashes.SHA256()), hashes.SHA256(), None))
        elif alg in ("A128KW", "A192KW", "A256KW"):
            if len(k["secret"]) != _kw_size(alg):
                return None
            cek = keywrap.aes_key_unwrap(k["secret"], ek)
        elif alg in ("A128GCMKW", "A192GCMKW", "A256GCMKW"):
            if len(k["secret"]) != _kw_size(alg):
                return None
            iv, tag = b64d(header["iv"]), b64d(header["tag"])
            cek = AESGCM(k["secret"]).decrypt(iv, ek + tag, None)
        elif alg.startswith("ECDH-ES"):
            z = _ecdh(k["priv"], _epk_to_pub(header["epk"]))
            dk = _concat_kdf(z, alg, enc, header)
            cek = dk if alg == "ECDH-ES" else keywrap.aes_key_unwrap(dk, ek)
        else:
            return None
        if len(cek) != size:
            return None
        return cek
    except Exception:  # noqa: BLE001
        return None


def wrap(alg, enc, header, kid):
    """(ek, cek, header additions) -- the encrypting side."""
    k = keys()[kid]
    size = ENCS[enc]
    extra = {}
    if alg == "dir":
        return b"", k["secret"], extra
    if alg.startswith("ECDH-ES"):
        pub = k["pub"]
        if isinstance(pub, ec.EllipticCurvePublicKey):
            eph = ec.generate_private_key(pub.curve)
        elif isinstance(pub, x25519.X25519PublicKey):
            eph = x25519.X25519PrivateKey.generate()
        else:
            eph = x448.X448PrivateKey.generate()
        extra["epk"] = _pub_to_epk(eph.public_key())
        h2 = dict(header, **extra)
        dk = _concat_kdf(_ecdh(eph, pub), alg, enc, h2)
        if alg == "ECDH-ES":
            return b"", dk, extra
        cek = os.urandom(size)
        return keywrap.aes_key_wrap(dk, cek), cek, extra
    cek = os.urandom(size)
    if alg == "RSA1_5":
        return k["pub"].encrypt(cek, padding.PKCS1v15()), cek, extra
    if alg == "RSA-OAEP":
        return k["pub"].encrypt(cek, padding.OAEP(padding.MGF1(hashes.SHA1()), hashes.SHA1(), None)), cek, extra
    if alg == "RSA-OAEP-256":
        return k["pub"].encrypt(cek, padding.OAEP(padding.MGF1(hashes.SHA256()), hashes.SHA256(), None)), cek, extra
    if alg in ("A128KW", "A192KW", "A256KW"):
        return keywrap.aes_key_wrap(k["secret"], cek), cek, extra
    iv = os.urandom(12)
    out = AESGCM(k["secret"]).encrypt(iv, cek, None)
    extra.update({"iv": b64u(iv).decode(), "tag": b64u(out[-16:]).decode()})
    return out[:-16], cek, extra


def deflate(data):
    c = zlib.compressobj(wbits=-15)
    return c.compress(data) + c.flush()


def inflate(data):
    try:
        d = zlib.decompressobj(wbits=-15)
        return d.decompress(data) + d.flush()
    except zlib.error:
        return None


def encrypt_compact(alg, enc, zip_name, kid, payload, extra_header=None):
    header = {"alg": alg, "enc": enc}
    if zip_name:
        header["zip"] = zip_name
    header.update(extra_header or {})
    ek, cek, extra = wrap(alg, enc, header, kid)
    header.update(extra)
    ps = b64u(json.dumps(header, separators=(",", ":")).encode())
    iv = os.urandom(iv_size(enc))
    msg = deflate(payload) if zip_name == "DEF" else payload
    ct, tag = enc_encrypt(enc, cek, iv, ps, msg)
    return b".".join([ps, b64u(ek), b64u(iv), b64u(ct), b64u(tag)])


def default_key_for(alg, enc):
    if alg == "dir":
        return "oct%d" % ENCS[enc]
    if alg.startswith("RSA"):
        return "rsa1"
    if alg.startswith("ECDH"):
        return "p256"
    return "oct%d" % _kw_size(alg)


def material(kid, private=True, form="key"):
    """the key in a form authlib accepts"""
    from authlib.jose import JsonWebKey
    from cryptography.hazmat.primitives import serialization
    k = keys()[kid]
    if k["kind"] == "oct":
        d = {"kty": "oct", "k": b64u(k["secret"]).decode()}
        return k["secret"] if form == "raw" else d if form == "jwk" else JsonWebKey.import_key(d)
    if private:
        pem = k["priv"].private_bytes(serialization.Encoding.PEM, serialization.PrivateFormat.PKCS8, serialization.NoEncryption())
    else:
        pem = k["pub"].public_bytes(serialization.Encoding.PEM, serialization.PublicFormat.SubjectPublicKeyInfo)
    if form == "pem":
        return pem
    key = JsonWebKey.import_key(pem)
    return key.as_dict(is_private=private) if form == "jwk" else key
