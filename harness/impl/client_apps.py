"""C14 implementation side: the Flask, Django and Starlette client integrations behind one interface.

Every adapter registers the same providers on the real integration, keeps N user sessions (plain dicts copied into
the framework's session object for the duration of one request), optionally a shared cache, and a mock provider that
records every request it receives.  begin() performs authorize_redirect, callback() performs authorize_access_token.
"""
import asyncio
import base64
import hashlib
import json
import time
import urllib.parse as up
from unittest import mock

import requests

from authlib.jose import jwt

ISSUER = "https://idp.example"
HS_KEY = "hs-key-" + "0123456789abcdef" * 4
JWKS = {"keys": [{"kty": "oct", "k": base64.urlsafe_b64encode(HS_KEY.encode()).rstrip(b"=").decode(), "kid": "k1"}]}

# provider name -> options
PROVIDERS = {
    "plain": {"pkce": False, "openid": False},
    "pkce": {"pkce": True, "openid": False},
    "oidc": {"pkce": False, "openid": True},
    "both": {"pkce": True, "openid": True},
    "legacy": {"oauth1": True, "pkce": False, "openid": False},
    # two providers registered with ONE preset client class (client_cls with a class-level OAUTH_APP_CONFIG, as the documented
    # "compliance" presets are): they share endpoints, not their name, state or credentials
    "presetA": {"pkce": False, "openid": False, "preset": True},
    "presetB": {"pkce": False, "openid": False, "preset": True},
    # an OpenID login decided at call time: the registered default scope has no "openid", the application passes scope="openid profile"
    # to authorize_redirect -- a nonce is made, kept and checked as for a client registered with the openid scope
    "lateoidc": {"pkce": False, "openid": True, "late_scope": True},
}


def begin_kwargs(prov):
    return {"scope": "openid profile"} if PROVIDERS[prov].get("late_scope") else {}


def register_kwargs(name, oauth=None):
    o = PROVIDERS[name]
    if o.get("preset"):
        cls = getattr(oauth, "_verif_preset_cls", None)
        if cls is None:
            cls = type("PresetApp", (oauth.oauth2_client_cls,), {"OAUTH_APP_CONFIG": {
                "access_token_url": "https://preset.example/token", "authorize_url": "https://preset.example/authorize", "client_kwargs": {}}})
            oauth._verif_preset_cls = cls
        return dict(client_id="cid-" + name, client_secret="sec", client_cls=cls)
    if o.get("oauth1"):
        return dict(client_id="cid-" + name, client_secret="sec", request_token_url="https://%s.example/request" % name,
                    access_token_url="https://%s.example/access" % name, authorize_url="https://%s.example/authorize" % name)
    ck = {}
    if o["pkce"]:
        ck["code_challenge_method"] = "S256"
    if o["openid"]:
        ck["scope"] = "openid profile" if not o.get("late_scope") else "profile"
    kw = dict(client_id="cid-" + name, client_secret="sec", access_token_url="https://%s.example/token" % name,
              authorize_url="https://%s.example/authorize" % name, client_kwargs=ck)
    if o["openid"]:
        kw.update(jwks=JWKS, issuer=ISSUER, id_token_signing_alg_values_supported=["HS256"])
    return kw


class Clock:
    def __init__(self):
        self.t = 1_700_000_000

    def __call__(self):
        return float(self.t)


class Cache:
    def __init__(self, clock):
        self.clock, self.d = clock, {}

    def get(self, k):
        v = self.d.get(k)
        return v[0] if v and self.clock.t < v[1] else None

    def set(self, k, v, timeout=None):
        self.d[k] = (v, self.clock.t + (timeout or 10 ** 9))

    def delete(self, k):
        self.d.pop(k, None)


class AsyncCache(Cache):
    async def get(self, k):
        return Cache.get(self, k)

    async def set(self, k, v, timeout=None):
        Cache.set(self, k, v, timeout)

    async def delete(self, k):
        Cache.delete(self, k)


class MockProvider:
    """Answers token / request-token requests and records them."""

    def __init__(self, clock):
        self.clock = clock
        self.log = []            # dicts: url, form, headers
        self.flows = {}          # state string -> dict(nonce=..., challenge=..., redirect=..., prov=...)
        self.code_owner = {}     # code -> state string of the flow the provider bound it to
        self.rt = 0
        self.fail_next = False   # the next token / access-token request is refused by the provider
        self.id_token_exp = 600  # lifetime of the ID tokens it issues, relative to its clock (negative: already expired)

    def handle(self, method, url, body, headers):
        form = dict(up.parse_qsl(body or "", keep_blank_values=True))
        self.log.append({"url": url, "form": form, "headers": {k.lower(): v for k, v in dict(headers).items()}})
        if url.endswith("/request"):
            self.rt += 1
            return 200, "oauth_token=rt%d&oauth_token_secret=rs%d&oauth_callback_confirmed=true" % (self.rt, self.rt), "application/x-www-form-urlencoded"
        if self.fail_next and not url.endswith("/request"):
            self.fail_next = False
            if url.endswith("/access"):
                return 401, "error=token_rejected", "application/x-www-form-urlencoded"
            return 400, json.dumps({"error": "invalid_grant", "error_description": "provider says no"}), "application/json"
        if url.endswith("/access"):
            return 200, "oauth_token=at1&oauth_token_secret=as1", "application/x-www-form-urlencoded"
        tok = {"access_token": "AT-" + form.get("code", ""), "token_type": "Bearer", "expires_in": 3600}
        owner = self.flows.get(self.code_owner.get(form.get("code")))
        if owner and owner.get("nonce"):
            payload = {"iss": ISSUER, "sub": "u1", "aud": [form.get("client_id") or "cid-" + owner["prov"]], "iat": int(self.clock.t),
                       "exp": int(self.clock.t) + self.id_token_exp, "nonce": owner["nonce"]}
            tok["id_token"] = jwt.encode({"alg": "HS256", "kid": "k1"}, payload, HS_KEY).decode()
        return 200, json.dumps(tok), "application/json"


def parse_begin(url):
    u = up.urlsplit(url)
    q = dict(up.parse_qsl(u.query))
    return q


class Base:
    clears_old = False

    def __init__(self, use_cache, nsessions=2):
        self.clock = Clock()
        self.use_cache = use_cache
        self.sessions = [dict() for _ in range(nsessions)]
        self.provider = MockProvider(self.clock)
        self.states = []          # state strings in order of creation

    # --- what a begin produced, by state id
    def record_begin(self, prov, url, redirect):
        q = parse_begin(url)
        state = q.get("state") or q.get("oauth_token")
        self.provider.flows[state] = {"prov": prov, "nonce": q.get("nonce"), "challenge": q.get("code_challenge"), "redirect": redirect,
                                      "url_redirect": q.get("redirect_uri")}
        self.states.append(state)
        self.provider.code_owner["code%d" % (len(self.states) - 1)] = state
        return len(self.states) - 1

    def state_string(self, ref):
        if ref is None:
            return None
        if isinstance(ref, int):
            return self.states[ref] if ref < len(self.states) else "unknown-state-%d" % ref
        return ref

    def describe_exchange(self, nlog_before):
        """Which flow's data travelled in the token request(s) sent during the callback."""
        sent = self.provider.log[nlog_before:]
        if not sent:
            return None
        r = sent[-1]
        if r["url"].endswith("/access"):
            auth = r["headers"].get("authorization", "")
            tok = [p.split("=")[1].strip('"') for p in auth.replace("OAuth ", "").split(", ") if p.startswith("oauth_token=")]
            return {"kind": "oauth1", "request_token": tok[0] if tok else None}
        return {"kind": "oauth2", "code": r["form"].get("code"), "redirect_uri": r["form"].get("redirect_uri"),
                "code_verifier": r["form"].get("code_verifier")}


def s256(v):
    return base64.urlsafe_b64encode(hashlib.sha256(v.encode()).digest()).rstrip(b"=").decode()


# ------------------------------------------------------------------------------------------------ requests-based mocking
class _Resp(requests.Response):
    pass


def _mk_response(status, text, ctype):
    r = requests.Response()
    r.status_code = status
    r._content = text.encode()
    r.headers["Content-Type"] = ctype
    return r


def patched_send(provider):
    def send(self, req, **kw):
        body = req.body.decode() if isinstance(req.body, bytes) else (req.body or "")
        st, text, ctype = provider.handle(req.method, req.url.split("?")[0], body, req.headers)
        return _mk_response(st, text, ctype)
    return mock.patch("requests.sessions.Session.send", send)


# ------------------------------------------------------------------------------------------------ Flask
class FlaskAdapter(Base):
    name = "flask"

    def __init__(self, use_cache, nsessions=2):
        super().__init__(use_cache, nsessions)
        from flask import Flask
        from authlib.integrations.flask_client import OAuth
        self.app = Flask(__name__)
        self.app.secret_key = "!"
        self.cache = Cache(self.clock) if use_cache else None
        self.oauth = OAuth(self.app, cache=self.cache)
        for n in PROVIDERS:
            self.oauth.register(n, **register_kwargs(n, self.oauth))

    def _ctx(self, sess, path="/"):
        return self.app.test_request_context(path)

    def begin(self, sess, prov, redirect):
        from flask import session
        with self._ctx(sess), patched_send(self.provider):
            session.update(self.sessions[sess])
            resp = getattr(self.oauth, prov).authorize_redirect(redirect, **begin_kwargs(prov))
            self.sessions[sess] = dict(session)
        return self.record_begin(prov, resp.headers["Location"], redirect)

    def callback(self, sess, prov, ref, code, provider_fails=False, aat_kwargs=None, post=False):
        from flask import session
        self.provider.fail_next = provider_fails
        st = self.state_string(ref)
        if PROVIDERS[prov].get("oauth1"):
            q = {"oauth_verifier": "v"}
            if st is not None:
                q["oauth_token"] = st
        else:
            q = {"code": code}
            if st is not None:
                q["state"] = st
        n = len(self.provider.log)
        # post: the provider answered with response_mode=form_post -- code and state arrive in the body of a POST
        post = post and not PROVIDERS[prov].get("oauth1")
        rctx = self.app.test_request_context("/cb", method="POST", data=q) if post else self._ctx(sess, "/cb?" + up.urlencode(q))
        with rctx, patched_send(self.provider):
            session.update(self.sessions[sess])
            try:
                token = getattr(self.oauth, prov).authorize_access_token(**(aat_kwargs or {}))
                out = ("token", token)
            except Exception as e:  # noqa: BLE001
                out = ("error", type(e).__name__, str(e))
            self.sessions[sess] = dict(session)
        return out, self.describe_exchange(n)


# ------------------------------------------------------------------------------------------------ Django
_DJANGO_READY = False


def _django_setup():
    global _DJANGO_READY
    if not _DJANGO_READY:
        from django.conf import settings
        if not settings.configured:
            settings.configure(DEBUG=False, SECRET_KEY="x", ALLOWED_HOSTS=["*"], USE_TZ=True, DATABASES={},
                               AUTHLIB_OAUTH_CLIENTS={})
        import django
        django.setup()
        _DJANGO_READY = True


class DjangoAdapter(Base):
    name = "django"

    def __init__(self, use_cache, nsessions=2):
        super().__init__(use_cache, nsessions)
        _django_setup()
        from authlib.integrations.django_client import OAuth
        self.cache = Cache(self.clock) if use_cache else None
        self.oauth = OAuth(cache=self.cache)
        for n in PROVIDERS:
            self.oauth.register(n, **register_kwargs(n, self.oauth))

    def _request(self, sess, path):
        from django.test import RequestFactory
        r = RequestFactory().get(path)
        r.session = self.sessions[sess]
        return r

    def begin(self, sess, prov, redirect):
        with patched_send(self.provider):
            resp = getattr(self.oauth, prov).authorize_redirect(self._request(sess, "/login"), redirect, **begin_kwargs(prov))
        return self.record_begin(prov, resp["Location"], redirect)

    def callback(self, sess, prov, ref, code, provider_fails=False, aat_kwargs=None, post=False):
        self.provider.fail_next = provider_fails
        st = self.state_string(ref)
        if PROVIDERS[prov].get("oauth1"):
            q = {"oauth_verifier": "v"}
            if st is not None:
                q["oauth_token"] = st
        else:
            q = {"code": code}
            if st is not None:
                q["state"] = st
        n = len(self.provider.log)
        with patched_send(self.provider):
            try:
                if post and not PROVIDERS[prov].get("oauth1"):
                    from django.test import RequestFactory
                    dreq = RequestFactory().post("/cb", data=q)
                    dreq.session = self.sessions[sess]
                else:
                    dreq = self._request(sess, "/cb?" + up.urlencode(q))
                token = getattr(self.oauth, prov).authorize_access_token(dreq, **(aat_kwargs or {}))
                out = ("token", token)
            except Exception as e:  # noqa: BLE001
                out = ("error", type(e).__name__, str(e))
        return out, self.describe_exchange(n)


# ------------------------------------------------------------------------------------------------ Starlette
class StarletteAdapter(Base):
    name = "starlette"
    clears_old = True

    def __init__(self, use_cache, nsessions=2):
        super().__init__(use_cache, nsessions)
        import httpx
        from authlib.integrations.starlette_client import OAuth
        provider = self.provider

        class T(httpx.AsyncBaseTransport):
            async def handle_async_request(self, request):
                st, text, ctype = provider.handle(request.method, str(request.url).split("?")[0], request.content.decode(), request.headers)
                return httpx.Response(st, content=text.encode(), headers={"Content-Type": ctype})

        self.cache = AsyncCache(self.clock) if use_cache else None
        self.oauth = OAuth(cache=self.cache)
        for n in PROVIDERS:
            kw = register_kwargs(n, self.oauth)
            ck = dict(kw.get("client_kwargs") or {})
            ck["transport"] = T()
            kw["client_kwargs"] = ck
            self.oauth.register(n, **kw)

    def _request(self, sess, path, query=""):
        from starlette.requests import Request
        scope = {"type": "http", "method": "GET", "path": path, "query_string": query.encode(), "headers": [],
                 "session": self.sessions[sess], "scheme": "https", "server": ("rp.example", 443), "root_path": ""}
        return Request(scope)

    def begin(self, sess, prov, redirect):
        resp = asyncio.run(getattr(self.oauth, prov).authorize_redirect(self._request(sess, "/login"), redirect, **begin_kwargs(prov)))
        return self.record_begin(prov, resp.headers["location"], redirect)

    def callback(self, sess, prov, ref, code, provider_fails=False, aat_kwargs=None, post=False):
        self.provider.fail_next = provider_fails
        st = self.state_string(ref)
        if PROVIDERS[prov].get("oauth1"):
            q = {"oauth_verifier": "v"}
            if st is not None:
                q["oauth_token"] = st
        else:
            q = {"code": code}
            if st is not None:
                q["state"] = st
        n = len(self.provider.log)

        async def go():
            try:
                token = await getattr(self.oauth, prov).authorize_access_token(self._request(sess, "/cb", up.urlencode(q)), **(aat_kwargs or {}))
                return ("token", token)
            except Exception as e:  # noqa: BLE001
                return ("error", type(e).__name__, str(e))
        out = asyncio.run(go())
        return out, self.describe_exchange(n)


ADAPTERS = {"flask": FlaskAdapter, "django": DjangoAdapter, "starlette": StarletteAdapter}
