"""The repository's Django provider integrations, unmodified, over the reference integrator's in-memory rows.

`authlib.integrations.django_oauth2` (AuthorizationServer with its own query_client / save_token / settings handling /
token generators, endpoints.RevocationEndpoint, ResourceProtector, BearerTokenValidator) and `django_oauth1`
(CacheAuthorizationServer, ResourceProtector) reach the integrator's data through a very small ORM surface:
`Model.objects.get(**equalities)`, `Model.DoesNotExist`, `Model(**fields)`, `instance.save()`.  `fake_model` gives the
reference integrator's plain row classes exactly that surface over a Python list, so no database is involved and the
rows are the same objects the other harness parts look at.  Requests are real Django `HttpRequest`s (RequestFactory),
responses real `HttpResponse`s.

What runs through this module is checked against the property's own oracles; it is NOT tied to the Coq model (the
Django revocation endpoint, for one, retires a whole token row where the SQLAlchemy helper distinguishes the two
strings) -- a search for failing inputs in glue the modelled path does not reach, nothing more.
"""
import json
import time
from urllib.parse import urlencode, urlsplit

from impl import oauth2_server as S
from impl.client_apps import _django_setup


class DoesNotExist(Exception):
    pass


class MultipleObjectsReturned(Exception):
    pass


def fake_model(row_cls, rows, on_op=None):
    """A subclass of `row_cls` with Django's `objects.get` / `DoesNotExist` / `save` over the list returned by rows()."""
    class Manager:
        def get(self, **kw):
            if on_op:
                on_op("get:" + ",".join(sorted(kw)))
            found = [r for r in rows() if all(getattr(r, k, None) == v for k, v in kw.items())]
            if not found:
                raise Model.DoesNotExist()
            if len(found) > 1:
                raise Model.MultipleObjectsReturned()
            return found[0]

    class Model(row_cls):
        DoesNotExist = type("DoesNotExist", (DoesNotExist,), {})
        MultipleObjectsReturned = type("MultipleObjectsReturned", (MultipleObjectsReturned,), {})
        objects = Manager()

        def save(self):
            if on_op:
                on_op("save")
            if not any(r is self for r in rows()):
                rows().append(self)

    Model.__name__ = "Dj" + row_cls.__name__
    return Model


class DjTokenRow(S.Token):
    """django_oauth2.endpoints.RevocationEndpoint writes `token.revoked = True`: the row is retired as a whole."""

    @property
    def revoked(self):
        return bool(self.is_revoked())

    @revoked.setter
    def revoked(self, value):
        if value:
            now = int(time.time())
            self.access_token_revoked_at = self.access_token_revoked_at or now
            self.refresh_token_revoked_at = self.refresh_token_revoked_at or now


class DjUser(S.User):
    @property
    def pk(self):
        return self.uid

    def __bool__(self):
        return True


def django_request(method, uri, form=None, headers=None, body=None):
    from django.test import RequestFactory
    u = urlsplit(uri)
    hdrs = dict(headers or {})
    if body is not None:
        data = body if isinstance(body, bytes) else body.encode("utf-8")
        ctype = hdrs.pop("Content-Type", "application/json")
    else:
        data = urlencode(form or {}).encode("ascii")
        ctype = hdrs.pop("Content-Type", "application/x-www-form-urlencoded")
    extra = {"HTTP_" + k.upper().replace("-", "_"): v for k, v in hdrs.items()}
    extra.update(HTTP_HOST=u.netloc, QUERY_STRING=u.query)
    return RequestFactory().generic(method, u.path or "/", data=data, content_type=ctype, secure=(u.scheme == "https"), **extra)


def read_back(resp):
    text = resp.content.decode("utf-8")
    try:
        body = json.loads(text) if text else ""
    except ValueError:
        body = text
    return resp.status_code, body, [(k, v) for k, v in resp.items()]


class OAuth2Provider:
    """django_oauth2 over a Store.  `config` is the AUTHLIB_OAUTH2_PROVIDER setting the server reads when it is made."""

    def __init__(self, store, users=None, config=None):
        _django_setup()
        from django.conf import settings
        from authlib.integrations.django_oauth2 import AuthorizationServer, BearerTokenValidator, ResourceProtector
        from authlib.integrations.django_oauth2.endpoints import RevocationEndpoint
        self.store = store
        cfg = {"refresh_token_generator": True}
        cfg.update(config or {})
        settings.AUTHLIB_OAUTH2_PROVIDER = cfg
        self.ClientModel = fake_model(S.Client, lambda: list_view(store.clients))
        self.TokenModel = fake_model(DjTokenRow, lambda: store.tokens)
        self.server = AuthorizationServer(self.ClientModel, self.TokenModel)
        self.grants = S.make_grants(store, users)
        self.server.register_endpoint(RevocationEndpoint)
        self.protector = ResourceProtector()
        self.protector.register_token_validator(BearerTokenValidator(self.TokenModel))

    def token(self, form, headers):
        return read_back(self.server.create_token_response(django_request("POST", "https://as.example/token", form, headers)))

    def endpoint(self, name, form, headers):
        return read_back(self.server.create_endpoint_response(name, django_request("POST", "https://as.example/" + name, form, headers)))

    def authorize(self, query, user):
        req = django_request("GET", "https://as.example/authorize?" + urlencode(query))
        return read_back(self.server.create_authorization_response(req, grant_user=user))

    def acquire(self, authorization, scopes):
        req = django_request("GET", "https://rs.example/api", None, {"Authorization": authorization} if authorization is not None else {})
        return self.protector.acquire_token(req, scopes)


class list_view:
    """the rows of a dict of clients as a list that `save` may append to"""

    def __init__(self, d):
        self.d = d

    def __iter__(self):
        return iter(list(self.d.values()))

    def append(self, row):
        self.d[row.client_id] = row
