"""C19 implementation side: every protocol flow of the provider as a request against the reference integrator
(harness/impl/oauth2_server.py) whose callbacks all pass through Store.op, which can fail the k-th callback.

`World` holds the store and the server; `World.request(req, fault_at)` performs one abstract request
(dict with 'kind' and flags) and returns (outcome, trace) where outcome is ['ok', ...] | ['error', code] |
['raised', callback-index, callback-name]."""
import json
import time
import urllib.parse as up

from authlib.oauth2.rfc6749 import grants as G
from authlib.oauth2.rfc7009 import RevocationEndpoint
from authlib.oauth2 import OAuth2Error

from impl import oauth2_server as S

TOKEN_URI = "https://as.example/token"
AUTH_URI = "https://as.example/authorize"


class Clock:
    def __init__(self):
        self.t = 1_700_000_000

    def __call__(self):
        return float(self.t)


class World:
    def __init__(self):
        self.clock = Clock()
        self.real_time = time.time
        time.time = self.clock
        st = self.store = S.Store()
        st.clients = {
            "c1": S.Client("c1", "s1", ["https://c1.example/cb"], "a b", ["authorization_code", "refresh_token", "password",
                                                                            "client_credentials", "implicit",
                                                                            "urn:ietf:params:oauth:grant-type:device_code"],
                           ["code", "token"], "client_secret_basic"),
            "c2": S.Client("c2", "s2", ["https://c2.example/cb"], "a", ["authorization_code", "refresh_token"],
                           ["code"], "client_secret_basic"),
        }
        users = {"alice": "pw"}
        srv = self.srv = S.Server(st)
        gs = S.make_grants(st, users)
        srv.register_grant(gs["code"])
        srv.register_grant(gs["implicit"])
        srv.register_grant(gs["password"])
        srv.register_grant(gs["client_credentials"])
        srv.register_grant(gs["refresh"])
        DeviceEndpoint, DeviceGrant = S.make_device(st)
        srv.register_endpoint(DeviceEndpoint)
        srv.register_grant(DeviceGrant)

        class Revocation(RevocationEndpoint):
            CLIENT_AUTH_METHODS = ["client_secret_basic"]

            def query_token(self, token_string, token_type_hint):
                st.op("query_token", token_string)
                for t in st.tokens:
                    if t.access_token == token_string or t.refresh_token == token_string:
                        return t
                return None

            def revoke_token(self, token, request):
                st.op("revoke_token", token.access_token)
                now = int(time.time())
                token.access_token_revoked_at = now
                token.refresh_token_revoked_at = now

        srv.register_endpoint(Revocation)

    def close(self):
        time.time = self.real_time

    # ------------------------------------------------------------------
    def snapshot(self):
        st = self.store
        return {
            "codes": sorted([c.code, c.client_id, c.user_id] for c in st.codes.values()),
            "tokens": [[t.access_token, t.refresh_token, t.client_id, t.user_id, bool(t.refresh_token_revoked_at or t.access_token_revoked_at)]
                       for t in st.tokens],
            "devices": sorted([d["device_code"], d["client_id"]] for d in st.devices.values()),
            "counter": st.counter,
        }

    def _call(self, fn, fault_at):
        st = self.store
        st.calls = 0
        st.trace = []
        st.fault_at = fault_at
        try:
            out = fn()
        except S.StorageError:
            out = ["raised", st.calls, st.trace[-1][0]]
        except OAuth2Error as e:            # authorization endpoint errors surface as exceptions to the view
            out = ["error", e.error]
        finally:
            st.fault_at = None
        return out, [n for n, _ in st.trace]

    def request(self, req, fault_at=None):
        return self._call(lambda: getattr(self, "do_" + req["kind"])(req), fault_at)

    # ------------------------------------------------------------------ helpers
    def _creds(self, req):
        cid = req.get("client", "c1")
        secret = {"c1": "s1", "c2": "s2"}.get(cid, "zz")
        if req.get("bad_secret"):
            secret = "wrong"
        return S.basic_header(cid, secret)

    def _token_out(self, resp):
        status, body, _ = resp
        if status == 200 and isinstance(body, dict) and "access_token" in body:
            return ["ok", "token", body["access_token"], body.get("refresh_token")]
        return ["error", body.get("error") if isinstance(body, dict) else str(body)]

    # ------------------------------------------------------------------ OAuth 2 flows
    def do_authorize(self, req):
        """authorization endpoint; response_type code | token"""
        q = {"response_type": req.get("response_type", "code"), "client_id": req.get("client", "c1"), "state": "xyz"}
        if req.get("bad_redirect"):
            q["redirect_uri"] = "https://evil.example/cb"
        if req.get("scope"):
            q["scope"] = req["scope"]
        r = S.HReq("GET", AUTH_URI + "?" + up.urlencode(q), None, {})
        user = S.User(req["user"]) if req.get("user") else None
        status, body, headers = self.srv.create_authorization_response(r, grant_user=user)
        if status != 302:
            return ["error", body.get("error") if isinstance(body, dict) else "?"]
        loc = dict(headers).get("Location", "")
        parts = up.urlsplit(loc)
        params = dict(up.parse_qsl(parts.query)) or dict(up.parse_qsl(parts.fragment))
        if "code" in params:
            return ["ok", "code", params["code"]]
        if "access_token" in params:
            return ["ok", "token", params["access_token"], None]
        return ["error", params.get("error", "?")]

    def _token(self, form, req):
        r = S.HReq("POST", TOKEN_URI, form, self._creds(req))
        return self._token_out(self.srv.create_token_response(r))

    def do_redeem(self, req):
        form = {"grant_type": "authorization_code", "code": req["code"]}
        if req.get("wrong_redirect"):
            form["redirect_uri"] = "https://other.example/cb"
        return self._token(form, req)

    def do_refresh(self, req):
        form = {"grant_type": "refresh_token", "refresh_token": req["refresh_token"]}
        if req.get("scope"):
            form["scope"] = req["scope"]
        return self._token(form, req)

    def do_password(self, req):
        return self._token({"grant_type": "password", "username": req.get("username", "alice"), "password": req.get("password", "pw")}, req)

    def do_client_credentials(self, req):
        return self._token({"grant_type": "client_credentials"}, req)

    def do_device_authorize(self, req):
        r = S.HReq("POST", "https://as.example/device", {"client_id": req.get("client", "c1"), "scope": "a"}, self._creds(req))
        status, body, _ = self.srv.create_endpoint_response("device_authorization", r)
        if status == 200 and "device_code" in body:
            return ["ok", "device", body["device_code"], body["user_code"]]
        return ["error", body.get("error")]

    def do_decide(self, req):
        self.store.user_grants[req["user_code"]] = (S.User(req["user"]), bool(req["approve"]))
        return ["ok", "none"]

    def do_poll(self, req):
        return self._token({"grant_type": "urn:ietf:params:oauth:grant-type:device_code", "device_code": req["device_code"],
                            "client_id": req.get("client", "c1")}, req)

    def do_revoke(self, req):
        r = S.HReq("POST", "https://as.example/revoke", {"token": req["token"]}, self._creds(req))
        status, body, _ = self.srv.create_endpoint_response("revocation", r)
        if status == 200:
            return ["ok", "revoked"]
        return ["error", body.get("error")]

    def do_tick(self, req):
        self.clock.t += req["dt"]
        return ["ok", "none"]
