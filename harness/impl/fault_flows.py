"""C19 implementation side: every protocol flow of the provider as a request against the reference integrator
(harness/impl/oauth2_server.py) whose callbacks all pass through Store.op, which can fail the k-th callback.

`World` holds the store and the server; `World.request(req, fault_at)` performs one abstract request
(dict with 'kind' and flags) and returns (outcome, trace) where outcome is ['ok', ...] | ['error', code] |
['raised', callback-index, callback-name]."""
import json
import time
import urllib.parse as up

from authlib.oauth2.rfc6749 import grants as G
from authlib.oauth2.rfc7009 import RevocationEndpoint
from authlib.oauth2 import OAuth2Error

from impl import oauth2_server as S

TOKEN_URI = "https://as.example/token"
AUTH_URI = "https://as.example/authorize"


def num(s):
    """'at12' -> 12; None -> None"""
    if s is None:
        return None
    digits = "".join(ch for ch in s if ch.isdigit())
    return int(digits) if digits else -1


class Clock:
    def __init__(self):
        self.t = 1_700_000_000

    def __call__(self):
        return float(self.t)


JB_KEY = b"jwt-bearer-shared-secret-0123456789abcdef"


class World:
    def __init__(self, model=None, transport="neutral", o1_provider="flask"):
        self.model = model
        self.o1_provider = o1_provider      # "flask" (modelled) or "django" (django_oauth1; property oracles only)
        self.clock = Clock()
        self.real_time = time.time
        time.time = self.clock
        st = self.store = S.Store()
        st.clients = {
            "c1": S.Client("c1", "s1", ["https://c1.example/cb"], "a b", ["authorization_code", "refresh_token", "password",
                                                                            "client_credentials", "implicit",
                                                                            "urn:ietf:params:oauth:grant-type:device_code",
                                                                            "urn:ietf:params:oauth:grant-type:jwt-bearer"],
                           ["code", "token"], "client_secret_basic"),
            "c2": S.Client("c2", "s2", ["https://c2.example/cb"], "a", ["authorization_code", "refresh_token",
                                                                         "urn:ietf:params:oauth:grant-type:device_code"],
                           ["code"], "client_secret_basic"),
        }
        st.clients["pub"] = S.Client("pub", "", ["https://pub.example/cb"], "a b", ["implicit", "authorization_code", "refresh_token"], ["token", "code"], "none")
        users = {"alice": "pw"}
        srv = self.srv = S.Server(st, transport=transport)     # framework-free, or behind the Flask / Django glue
        gs = S.make_grants(st, users)

        class CodeGrant(gs["code"]):
            def generate_authorization_code(self):
                return st.fresh("code")

        srv.register_grant(CodeGrant)
        srv.register_grant(gs["implicit"])
        srv.register_grant(gs["password"])
        srv.register_grant(gs["client_credentials"])
        srv.register_grant(gs["refresh"])
        DeviceEndpoint, DeviceGrant = S.make_device(st)
        srv.register_endpoint(DeviceEndpoint)
        srv.register_grant(DeviceGrant)

        srv.register_grant(S.make_jwt_bearer(st, lambda client: JB_KEY))

        class Revocation(RevocationEndpoint):
            CLIENT_AUTH_METHODS = ["client_secret_basic"]

            def query_token(self, token_string, token_type_hint):
                st.op("query_token", token_string)
                for t in st.tokens:
                    if t.access_token == token_string or t.refresh_token == token_string:
                        return t
                return None

            def revoke_token(self, token, request):
                st.op("revoke_token", token.access_token)
                now = int(time.time())
                token.access_token_revoked_at = now
                token.refresh_token_revoked_at = now

        srv.register_endpoint(Revocation)
        self._o1 = None

    # ------------------------------------------------------------------ OAuth 1 provider (lazy: needs Flask + RSA keys)
    @property
    def o1(self):
        if self._o1 is None:
            from props import c12
            import authlib.integrations.flask_oauth1.authorization_server as FAS
            st = self.store

            def namegen(kind):
                st.counter += 1
                k = st.counter
                if kind == "token":
                    return {"oauth_token": "t%d" % k, "oauth_token_secret": "s%d" % k}
                return "v%d" % k

            self._c12 = c12
            self._FAS = FAS
            self._real_gen = FAS.generate_token
            if self.o1_provider == "django":
                import authlib.integrations.django_oauth1.authorization_server as DAS
                self._o1 = c12.DjangoProvider(["HMAC-SHA1"], self.clock, op=lambda name: st.op(name), namegen=namegen)
                self._DAS, self._real_dgen = DAS, DAS.generate_token
                DAS.generate_token = self._o1.verifier_gen
            else:
                self._o1 = c12.Provider(["HMAC-SHA1"], self.clock, op=lambda name: st.op(name), namegen=namegen)
            FAS.generate_token = self._o1.verifier_gen
        return self._o1

    def close(self):
        time.time = self.real_time
        if self._o1 is not None:
            self._FAS.generate_token = self._real_gen
            if self.o1_provider == "django":
                self._DAS.generate_token = self._real_dgen
                self._o1.restore()

    # ------------------------------------------------------------------
    def snapshot(self):
        st = self.store
        snap = {
            "codes": sorted([num(c.code), c.client_id, c.user_id] for c in st.codes.values()),
            "tokens": [[num(t.access_token), num(t.refresh_token), t.client_id, t.user_id,
                        bool(t.refresh_token_revoked_at or t.access_token_revoked_at)] for t in st.tokens],
            "devices": sorted([num(d["device_code"]), num(d["user_code"]), d["client_id"]] for d in st.devices.values()),
            "temps": [], "tok1": [], "nonces": [],
            "counter": st.counter,
        }
        if self._o1 is not None:
            d = self._o1.cache.d
            snap["temps"] = sorted([num(v[0]["oauth_token"]), v[0]["client_id"], num(v[0].get("oauth_verifier")), v[0].get("user_id")]
                                   for k, v in d.items() if k.startswith(getattr(self._o1, "PREFIX", "temporary_credential:")))
            snap["nonces"] = sorted(k[len("nonce:"):] for k in d if k.startswith("nonce:"))
            snap["tok1"] = sorted([num(t.oauth_token), t.client_id, t.user_id] for t in self._o1.tokens)
        return snap

    def _call(self, fn, fault_at):
        st = self.store
        st.calls = 0
        st.trace = []
        st.fault_at = fault_at
        try:
            out = fn()
        except S.StorageError:
            out = ["raised", st.calls - 1, st.trace[-1][0]]
        except OAuth2Error as e:            # authorization endpoint errors surface as exceptions to the view
            out = ["error", e.error]
        finally:
            st.fault_at = None
        # the callback at which the injected failure was raised, whether or not it reached the caller
        self.fired = next((n for n, d in st.trace if d == "FAULT"), None)
        return out, [n for n, _ in st.trace]

    def request(self, req, fault_at=None):
        return self._call(lambda: getattr(self, "do_" + req["kind"])(req), fault_at)

    # ------------------------------------------------------------------ helpers
    def _creds(self, req):
        cid = req.get("client", "c1")
        if cid == "pub" and not req.get("bad_secret"):
            return {}                  # a public client authenticates with method none: its id travels in the form
        secret = {"c1": "s1", "c2": "s2"}.get(cid, "zz")
        if req.get("bad_secret"):
            secret = "wrong"
        return S.basic_header(cid, secret)

    def _token_out(self, resp):
        status, body, _ = resp
        if status == 200 and isinstance(body, dict) and "access_token" in body:
            return ["ok", "token", num(body["access_token"]), num(body.get("refresh_token"))]
        return ["error", body.get("error") if isinstance(body, dict) else str(body)]

    # ------------------------------------------------------------------ OAuth 2 flows
    def do_authorize(self, req):
        """authorization endpoint; response_type code | token"""
        q = {"response_type": req.get("response_type", "code"), "client_id": req.get("client", "c1"), "state": "xyz"}
        q["redirect_uri"] = "https://%s.example/cb" % req.get("client", "c1")
        if req.get("flag"):
            q["redirect_uri"] = "https://evil.example/cb"
        if req.get("scope"):
            q["scope"] = req["scope"]
        r = S.HReq("GET", AUTH_URI + "?" + up.urlencode(q), None, {})
        user = S.User(req["user"]) if req.get("user") else None
        status, body, headers = self.srv.create_authorization_response(r, grant_user=user)
        if status != 302:
            return ["error", body.get("error") if isinstance(body, dict) else "?"]
        loc = dict(headers).get("Location", "")
        parts = up.urlsplit(loc)
        params = dict(up.parse_qsl(parts.query)) or dict(up.parse_qsl(parts.fragment))
        if "code" in params:
            return ["ok", "code", num(params["code"])]
        if "access_token" in params:
            return ["ok", "token", num(params["access_token"]), None]
        return ["error", params.get("error", "?")]

    def _token(self, form, req):
        if req.get("client") == "pub":
            form = dict(form, client_id="pub")
        r = S.HReq("POST", TOKEN_URI, form, self._creds(req))
        return self._token_out(self.srv.create_token_response(r))

    def do_redeem(self, req):
        form = {"grant_type": "authorization_code", "code": "code%d" % req["ref"],
                "redirect_uri": "https://%s.example/cb" % req.get("client", "c1")}
        if req.get("flag"):
            form["redirect_uri"] = "https://other.example/cb"
        return self._token(form, req)

    def do_refresh(self, req):
        form = {"grant_type": "refresh_token", "refresh_token": "rt%d" % req["ref"]}
        if req.get("flag"):
            form["scope"] = "zzz"
        return self._token(form, req)

    def do_password(self, req):
        return self._token({"grant_type": "password", "username": req.get("user") or "alice",
                            "password": "bad" if req.get("flag") else "pw"}, req)

    def do_client_credentials(self, req):
        return self._token({"grant_type": "client_credentials"}, req)

    def do_jwt_bearer(self, req):
        """RFC 7523 grant: the assertion is issued by the client named in the request, for the request's user (if any); flag = expired"""
        from authlib.jose import jwt
        now = int(time.time())
        claims = {"iss": req.get("client", "c1"), "aud": TOKEN_URI, "exp": now - 1000 if req.get("flag") else now + 300, "iat": now - 5}
        if req.get("user"):
            claims["sub"] = req["user"]
        assertion = jwt.encode({"alg": "HS256"}, claims, JB_KEY).decode()
        r = S.HReq("POST", TOKEN_URI, {"grant_type": "urn:ietf:params:oauth:grant-type:jwt-bearer", "assertion": assertion}, {})
        return self._token_out(self.srv.create_token_response(r))

    def do_device_authorize(self, req):
        r = S.HReq("POST", "https://as.example/device", {"client_id": req.get("client", "c1"), "scope": "a"}, self._creds(req))
        status, body, _ = self.srv.create_endpoint_response("device_authorization", r)
        if status == 200 and "device_code" in body:
            return ["ok", "device", num(body["device_code"]), num(body["user_code"])]
        return ["error", body.get("error")]

    def do_decide(self, req):
        self.store.user_grants["UC%d" % req["ref"]] = (S.User(req.get("user") or ""), bool(req["approve"]))
        return ["ok", "none"]

    def do_poll(self, req):
        return self._token({"grant_type": "urn:ietf:params:oauth:grant-type:device_code", "device_code": "dc%d" % req["ref"],
                            "client_id": req.get("client", "c1")}, req)

    def do_revoke(self, req):
        kind, n = req["tref"]
        tok = {"access": "at%d" % n, "refresh": "rt%d" % n}.get(kind, "unknown-token")
        r = S.HReq("POST", "https://as.example/revoke", {"token": tok}, self._creds(req))
        status, body, _ = self.srv.create_endpoint_response("revocation", r)
        if status == 200:
            return ["ok", "none"]
        return ["error", body.get("error")]

    def do_implicit(self, req):
        req = dict(req)
        req["response_type"] = "token"
        return self.do_authorize(req)

    # ------------------------------------------------------------------ OAuth 1 flows
    def nonce_key(self, req):
        """the key under which the bundled nonce hook records this request (what the model is given)"""
        key = "%s-%d-%s" % (req["nonce_raw"], self.clock.t, req.get("client", "c1"))
        if req["kind"] == "o1_exchange":
            key += "-t%d" % req["ref"]
        if req["kind"] == "o1_access":
            key += "-t%d" % req["ref"]
        return key

    def _o1_send(self, kind, spec, user=None):
        c12 = self.o1 and self._c12

        class Ctx:                      # build_req needs ctx.model only to compute base strings
            model = self.model
        op = {"op": kind, "req": c12.build_req(Ctx, kind, spec)}
        if user:
            op["user"] = user
        return c12.out_of(op, c12.send(self.o1, op))

    def _o1_spec(self, req, token=None, token_secret=""):
        c12 = self.o1 and self._c12
        client = req.get("client", "c1")
        spec = {"client": client, "sig_method": "HMAC-SHA1", "ts": str(self.clock.t), "nonce": req["nonce_raw"],
                "placement": "header", "http": "POST", "sig": "right"}
        if token is not None:
            spec["token"] = token
        spec["sign_client_secret"] = "wrong" if req.get("sig_bad") else c12.SECRETS.get(client, "x")
        spec["sign_token_secret"] = token_secret
        return spec

    def do_o1_initiate(self, req):
        spec = self._o1_spec(req)
        spec["callback"] = "https://client.example/cb"
        out = self._o1_send("initiate", spec)
        return ["ok", "temp", num(out[1])] if out[0] == "temp" else out[:1] + out[2:]

    def do_o1_authorize(self, req):
        spec = {"token": "t%d" % req["ref"], "placement": "query", "http": "POST", "sig": "absent"}
        out = self._o1_send("authorize", spec, req.get("user"))
        if out[0] == "redirect":
            q = dict(up.parse_qsl(up.urlsplit(out[1]).query))
            if "oauth_verifier" in q:
                return ["ok", "verifier", num(q["oauth_token"]), num(q["oauth_verifier"])]
            return ["error", q.get("error")]
        return out[:1] + out[2:]

    def do_o1_exchange(self, req):
        spec = self._o1_spec(req, "t%d" % req["ref"], "s%d" % req["ref"])
        spec["verifier"] = "wrong" if req.get("flag") else "v%d" % req.get("verifier", 0)
        out = self._o1_send("exchange", spec)
        return ["ok", "token1", num(out[1])] if out[0] == "token" else out[:1] + out[2:]

    def do_o1_access(self, req):
        spec = self._o1_spec(req, "t%d" % req["ref"], "s%d" % req["ref"])
        out = self._o1_send("access", spec)
        return ["ok", "served", num(out[1])] if out[0] == "served" else out[:1] + out[2:]
