"""C13 -- OpenID Connect ID Tokens: what the provider issues and what the relying party accepts agree.

Provider: the real OIDC grants (OpenIDCode extension, OpenIDImplicitGrant, OpenIDHybridGrant) on the reference
integrator, for 6 response types x 12 signing algorithms; the decoded payload is compared with Model/IDToken.v.
Relying party: the real claims classes (selected by get_claim_cls_by_response_type) and OpenIDMixin.parse_id_token,
with matching parameters and with each parameter replaced by a near-miss; verdicts are compared with the model and
with the property's own expectation; at_hash / c_hash are recomputed with hashlib."""
import base64
import hashlib
import json
import time
import urllib.parse as up

from cryptography.hazmat.primitives import serialization
from cryptography.hazmat.primitives.asymmetric import ec, rsa

from authlib.integrations.base_client.sync_openid import OpenIDMixin
from authlib.jose import JsonWebKey, jwt
from authlib.jose.errors import JoseError
from authlib.oidc.core import grants as oidc_grants
from authlib.oidc.core.claims import get_claim_cls_by_response_type
from authlib.oidc.core.grants import OpenIDCode

from impl import oauth2_server as S

META = {
    "assumptions": [
        "the integrator's user information is the subject plus claims outside the reserved ID Token names; its nonce record "
        "is a pure lookup (exists_nonce) filled when a code is saved or an ID Token is produced at the authorization endpoint",
        "SHA-2 is an oracle of the model (answered by hashlib); JWS signing/verification is exercised but not modelled here (C01)",
        "clocks: the provider's time.time is patched; the relying party validates with explicit now/leeway",
    ],
    "trusted": ["modelled, not verified: jwt.encode/decode (serialisation and signature), JSON round trip of the payload"],
}

ISS = "https://op.example"
ALGS = [p + b for p in ("HS", "RS", "PS", "ES") for b in ("256", "384", "512")]
RTS = ["code", "id_token", "id_token token", "code id_token", "code token", "code id_token token"]
REDIRECT = "https://rp.example/cb"
_KEYS = {}


def keypair(alg):
    fam = alg[:2]
    if fam == "HS":
        k = "hs-secret-" + "0123456789abcdef" * 6
        return k, k, "other-secret-" + "fedcba9876543210" * 6
    name = fam if fam != "PS" else "RS"
    tag = name + (alg[2:] if name == "ES" else "")
    if tag not in _KEYS:
        def gen():
            if name == "RS":
                return rsa.generate_private_key(public_exponent=65537, key_size=2048)
            return ec.generate_private_key({"256": ec.SECP256R1(), "384": ec.SECP384R1(), "512": ec.SECP521R1()}[alg[2:]])
        ks = []
        for _ in range(2):
            k = gen()
            priv = k.private_bytes(serialization.Encoding.PEM, serialization.PrivateFormat.PKCS8, serialization.NoEncryption()).decode()
            pub = k.public_key().public_bytes(serialization.Encoding.PEM, serialization.PublicFormat.SubjectPublicKeyInfo).decode()
            ks.append((priv, pub))
        _KEYS[tag] = ks
    (priv, pub), (_, other_pub) = _KEYS[tag]
    return priv, pub, other_pub


class Clock:
    def __init__(self, t=1_700_000_000):
        self.t = t

    def __call__(self):
        return float(self.t)


AUD_AS_TEXT = [False]      # the provider's get_audiences hook may return the single audience as plain text instead of a list


def build(alg, require_nonce, extra_claims):
    store = S.Store()
    store.used_nonces = set()
    from impl import transports as T
    srv = S.Server(store, transport=T.pick(alg, require_nonce, sorted(extra_claims)))     # framework-free, Flask or Django glue
    g = S.make_grants(store)
    priv, _, _ = keypair(alg)
    cfg = {"key": priv, "alg": alg, "iss": ISS, "exp": 3600}

    def user_info(user, scope):
        d = {"sub": user.get_user_id()}
        d.update(extra_claims)
        return d

    class OIDCCode(OpenIDCode):
        def get_audiences(self, request):
            return request.client.get_client_id() if AUD_AS_TEXT[0] else super().get_audiences(request)

        def exists_nonce(self, nonce, request):
            return (request.client_id, nonce) in store.used_nonces

        def get_jwt_config(self, grant):
            return dict(cfg)

        def generate_user_info(self, user, scope):
            return user_info(user, scope)

    class Mixin:
        def get_audiences(self, request):
            return request.client.get_client_id() if AUD_AS_TEXT[0] else super().get_audiences(request)

        def exists_nonce(self, nonce, request):
            return (request.client_id, nonce) in store.used_nonces

        def get_jwt_config(self):
            return dict(cfg)

        def generate_user_info(self, user, scope):
            return user_info(user, scope)

        def process_implicit_token(self, token, code=None):
            store.used_nonces.add((self.request.client_id, self.request.data.get("nonce")))
            return super().process_implicit_token(token, code)

    class CodeGrant(g["code"]):
        def save_authorization_code(self, code, request):
            super().save_authorization_code(code, request)
            if request.data.get("nonce"):
                store.used_nonces.add((request.client_id, request.data.get("nonce")))

    class OImplicit(Mixin, oidc_grants.OpenIDImplicitGrant):
        pass

    class OHybrid(Mixin, oidc_grants.OpenIDHybridGrant):
        def save_authorization_code(self, code, request):
            store.codes[code] = S.Code(code, request.client.client_id, request.redirect_uri, request.scope, request.user.get_user_id(),
                                       nonce=request.data.get("nonce"))
            store.used_nonces.add((request.client_id, request.data.get("nonce")))

    srv.register_grant(CodeGrant, [OIDCCode(require_nonce=require_nonce)])
    srv.register_grant(OImplicit)
    srv.register_grant(OHybrid)
    for cid in ("rp1", "rp2"):
        store.clients[cid] = S.Client(cid, "", [REDIRECT], "openid profile", ["authorization_code", "implicit"], RTS, "none")
    return store, srv


def authorize(srv, rt, client, nonce, user="alice"):
    q = {"response_type": rt, "client_id": client, "scope": "openid profile", "state": "st", "redirect_uri": REDIRECT}
    if nonce is not None:
        q["nonce"] = nonce
    r = S.HReq("GET", "https://op.example/authorize?" + up.urlencode(q), None, {})
    status, body, headers = srv.create_authorization_response(r, grant_user=S.User(user))
    loc = dict(headers).get("Location", "")
    u = up.urlsplit(loc)
    return dict(up.parse_qsl(u.fragment)) or dict(up.parse_qsl(u.query))


def redeem(srv, client, code):
    r = S.HReq("POST", "https://op.example/token", {"grant_type": "authorization_code", "code": code, "client_id": client,
                                                   "redirect_uri": REDIRECT}, {})
    status, body, _ = srv.create_token_response(r)
    return body


def b64d(s):
    return base64.urlsafe_b64decode(s + "=" * (-len(s) % 4))


def raw_parts(tok):
    h, p, _ = tok.split(".")
    return json.loads(b64d(h)), json.loads(b64d(p))


HALF_HASH_STRINGS = ["", "some-token", "a", "tok\u200b", "tok", "t\u00f6k", "tk", "\u0442\u043e\u043a\u0435\u043d", "a\u00a0b", "ab", "\U0001f511key", "key",
                     "\u00e9", "e\u0301"]


def half_hash_ref(s, alg):
    d = getattr(hashlib, "sha" + alg[2:])(s.encode()).digest()
    return base64.urlsafe_b64encode(d[:len(d) // 2]).rstrip(b"=").decode()


def issue(ctx, rt, alg, client, nonce, extra, clock):
    """Runs the real flow.  Returns (id_token, code, access_token) or an error dict."""
    store, srv = build(alg, False, extra)
    resp = authorize(srv, rt, client, nonce)
    if "error" in resp:
        return None, resp
    code = resp.get("code")
    at = resp.get("access_token")
    idt = resp.get("id_token")
    if rt in ("code", "code token"):
        body = redeem(srv, client, code)
        if "id_token" not in body:
            return None, body
        idt, at = body["id_token"], body["access_token"]
    return (idt, code, at), resp


ERR = {"MissingClaimError": "missing_claim", "InvalidClaimError": "invalid_claim", "ExpiredTokenError": "expired_token",
       "InvalidTokenError": "invalid_token"}


def rp_real(idt, pub, rt, iss, nonce, client, code, at, rp_now, lw):
    """The relying party's verdict with authlib's own classes."""
    cls = get_claim_cls_by_response_type(rt)
    params = {"nonce": nonce, "client_id": client}
    if rt in ("code", "code token", "id_token token", "code id_token token"):
        params["access_token"] = at
    if rt in ("code id_token", "code id_token token"):
        params["code"] = code
    try:
        claims = jwt.decode(idt, pub, claims_cls=cls, claims_options={"iss": {"values": [iss]}}, claims_params=params)
    except JoseError as e:
        return ["signature", type(e).__name__]
    try:
        claims.validate(now=rp_now, leeway=lw)
        return None
    except JoseError as e:
        k = ERR.get(type(e).__name__, type(e).__name__)
        d = e.description or ""
        claim = d.split("'")[1] if "'" in d else d.split('"')[1] if '"' in d else ("exp" if k == "expired_token" else d)
        if k == "invalid_token":
            claim = "iat" if "issued in the future" in d else "nbf" if "not valid yet" in d else d
        return [k, claim]


class RP(OpenIDMixin):
    """Minimal host for OpenIDMixin.parse_id_token."""

    def __init__(self, client_id, issuer, jwks, algs):
        self.client_id = client_id
        self.server_metadata = {"issuer": issuer, "jwks": jwks, "id_token_signing_alg_values_supported": algs}

    def load_server_metadata(self):
        return self.server_metadata


def parse_real(idt, alg, pub, client, iss, nonce, at):
    if alg.startswith("HS"):
        jwks = {"keys": [JsonWebKey.import_key(pub, {"kty": "oct"}).as_dict()]}
    else:
        jwks = {"keys": [JsonWebKey.import_key(pub).as_dict()]}
    rp = RP(client, iss, jwks, [alg])
    token = {"id_token": idt}
    if at:
        token["access_token"] = at
    try:
        rp.parse_id_token(token, nonce, leeway=120)
        return True
    except JoseError:
        return False
    except ValueError:
        return False


def rp_key_rotation(ctx, alg):
    """One relying-party client object across a rotation of the provider's signing key UNDER THE SAME kid: after the provider's key
    set changed, tokens of the new key are accepted and tokens of the old key are refused ("rejected if the verification key differs")."""
    from authlib.jose import jwt as _jwt
    priv_a, pub_a, _ = keypair(alg)
    if alg.startswith("HS"):
        key_a, key_b = pub_a, pub_a + "-rotated"
        jwk_a, jwk_b = (dict(JsonWebKey.import_key(k, {"kty": "oct"}).as_dict(), kid="k") for k in (key_a, key_b))
        sign_a, sign_b = key_a, key_b
    else:
        from cryptography.hazmat.primitives.asymmetric import ec, rsa, ed25519
        from cryptography.hazmat.primitives import serialization as ser
        if alg[:2] in ("RS", "PS"):
            kb = rsa.generate_private_key(65537, 2048)
        elif alg == "EdDSA":
            kb = ed25519.Ed25519PrivateKey.generate()
        else:
            kb = ec.generate_private_key({"ES256": ec.SECP256R1(), "ES384": ec.SECP384R1(), "ES512": ec.SECP521R1(), "ES256K": ec.SECP256K1()}[alg])
        sign_a = priv_a
        sign_b = kb.private_bytes(ser.Encoding.PEM, ser.PrivateFormat.PKCS8, ser.NoEncryption())
        jwk_a = dict(JsonWebKey.import_key(pub_a).as_dict(), kid="k")
        jwk_b = dict(JsonWebKey.import_key(kb.public_key().public_bytes(ser.Encoding.PEM, ser.PublicFormat.SubjectPublicKeyInfo)).as_dict(), kid="k")
    now = int(time.time())
    claims = {"iss": ISS, "sub": "alice", "aud": ["rp1"], "exp": now + 600, "iat": now, "nonce": "n1"}
    tok_a = _jwt.encode({"alg": alg, "kid": "k"}, claims, sign_a).decode()
    tok_b = _jwt.encode({"alg": alg, "kid": "k"}, claims, sign_b).decode()
    rp = RP("rp1", ISS, {"keys": [jwk_a]}, [alg])

    def parse(tok):
        try:
            rp.parse_id_token({"id_token": tok}, "n1", leeway=120)
            return True
        except (JoseError, ValueError):
            return False
    steps = [("before:own-key", tok_a, True), ("before:other-key", tok_b, False)]
    got = [(lab, parse(t), want) for lab, t, want in steps]
    rp.server_metadata["jwks"] = {"keys": [jwk_b]}           # the provider rotated its key, same kid
    got += [(lab, parse(t), want) for lab, t, want in (("after:new-key", tok_b, True), ("after:old-key", tok_a, False), ("after:new-key-again", tok_b, True))]
    rp.server_metadata["jwks"] = {"keys": [jwk_a, dict(jwk_b, kid="k2")]}     # and back, with the other key under another kid
    got += [(lab, parse(t), want) for lab, t, want in (("back:old-key", tok_a, True), ("back:new-key-wrong-kid", tok_b, False))]
    case = {"rp_key_rotation": alg}
    ctx.case(case, ("rotation", alg), "rp-rotation:%s" % alg[:2])
    for lab, ok, want in got:
        ctx.count("rp-rotation:%s:%s" % (lab, "accept" if ok else "refuse"))
        if ok != want:
            ctx.violation("C13:rp-key-rotation:%s:%s" % (lab, "accepted" if ok else "refused"),
                          "one relying-party client across a key rotation under the same kid: a token was %s against the provider's CURRENT key set" % ("accepted" if ok else "refused"),
                          dict(case, step=lab))


def rp_refetch_path(ctx, alg):
    """The relying party's cached key set does not hold the token's kid (the provider rotated to a NEW kid): the key set is fetched
    again and the token decoded a second time -- with the same expectations (nonce, client, access token) as the first time.
    Both the synchronous and the asynchronous client mixins."""
    import asyncio
    from authlib.jose import jwt as _jwt
    from authlib.integrations.base_client.async_openid import AsyncOpenIDMixin
    priv_a, pub_a, _ = keypair(alg)
    if alg.startswith("HS"):
        sign_b = pub_a + "-new"
        jwk_a = dict(JsonWebKey.import_key(pub_a, {"kty": "oct"}).as_dict(), kid="k1")
        jwk_b = dict(JsonWebKey.import_key(sign_b, {"kty": "oct"}).as_dict(), kid="k2")
    else:
        from cryptography.hazmat.primitives.asymmetric import ec, rsa
        from cryptography.hazmat.primitives import serialization as ser
        kb = rsa.generate_private_key(65537, 2048) if alg[:2] in ("RS", "PS") else ec.generate_private_key({"ES256": ec.SECP256R1(), "ES384": ec.SECP384R1(), "ES512": ec.SECP521R1()}[alg])
        sign_b = kb.private_bytes(ser.Encoding.PEM, ser.PrivateFormat.PKCS8, ser.NoEncryption())
        jwk_a = dict(JsonWebKey.import_key(pub_a).as_dict(), kid="k1")
        jwk_b = dict(JsonWebKey.import_key(kb.public_key().public_bytes(ser.Encoding.PEM, ser.PublicFormat.SubjectPublicKeyInfo)).as_dict(), kid="k2")
    now = int(time.time())
    at = "access-token-1"
    claims = {"iss": ISS, "sub": "alice", "aud": ["rp1"], "exp": now + 600, "iat": now, "nonce": "n1", "at_hash": half_hash_ref(at, alg)}
    tok_b = _jwt.encode({"alg": alg, "kid": "k2"}, claims, sign_b).decode()
    published = {"keys": [jwk_b]}

    class Resp:
        def raise_for_status(self):
            pass

        def json(self):
            return json.loads(json.dumps(published))

    class Session:
        def __init__(self, **kw):
            pass

        def __enter__(self):
            return self

        def __exit__(self, *a):
            return False

        async def __aenter__(self):
            return self

        async def __aexit__(self, *a):
            return False

        def request(self, method, uri, withhold_token=False):
            return Resp()

    class ASession(Session):
        async def request(self, method, uri, withhold_token=False):
            return Resp()

    def metadata():
        return {"issuer": ISS, "jwks": {"keys": [jwk_a]}, "jwks_uri": "https://op.example/jwks", "id_token_signing_alg_values_supported": [alg]}

    class SyncRP(OpenIDMixin):
        client_cls, client_kwargs = Session, {}

        def __init__(self, client_id):
            self.client_id, self.server_metadata = client_id, metadata()

        def load_server_metadata(self):
            return self.server_metadata

    class AsyncRP(AsyncOpenIDMixin):
        client_cls, client_kwargs = ASession, {}

        def __init__(self, client_id):
            self.client_id, self.server_metadata = client_id, metadata()

        async def load_server_metadata(self):
            return self.server_metadata

    variants = [("match", "rp1", "n1", at, True), ("nonce", "rp1", "n1x", at, False), ("nonce-prefix", "rp1", "n", at, False), ("client", "rp2", "n1", at, False),
                ("client-contained", "rp", "n1", at, False), ("access-token", "rp1", "n1", at + "x", False),
                # the default issuer check (the metadata's issuer) holds on the second decoding as on the first
                ("issuer", "rp1", "n1", at, False), ("issuer-prefix", "rp1", "n1", at, False)]
    tok_of = {"issuer": _jwt.encode({"alg": alg, "kid": "k2"}, dict(claims, iss="https://evil.example"), sign_b).decode(),
              "issuer-prefix": _jwt.encode({"alg": alg, "kid": "k2"}, dict(claims, iss=ISS[:-1]), sign_b).decode()}
    for flavour in ("sync", "async"):
        for lab, client, nonce, atok, want in variants:
            rp = SyncRP(client) if flavour == "sync" else AsyncRP(client)
            token = {"id_token": tok_of.get(lab, tok_b), "access_token": atok}
            try:
                if flavour == "sync":
                    rp.parse_id_token(token, nonce, leeway=120)
                else:
                    asyncio.run(rp.parse_id_token(token, nonce, leeway=120))
                ok = True
            except (JoseError, ValueError):
                ok = False
            case = {"rp_refetch": alg, "flavour": flavour, "variant": lab}
            ctx.case(case, ("rp-refetch", alg, flavour, lab), "rp-refetch:%s:%s" % (flavour, lab))
            ctx.count("rp-refetch:%s:%s:%s" % (flavour, lab, "accept" if ok else "refuse"))
            if ok != want:
                ctx.violation("C13:rp-refetch:%s:%s:%s" % (flavour, lab, "accepted" if ok else "refused"),
                              "after the relying party had to fetch the provider's key set again, an ID Token was %s although %s" %
                              ("accepted" if ok else "refused", "its %s differs" % lab if not want else "everything matches"), case)

    # which key of the provider's set verifies: the one the header's kid names; a kid that is present but names no key ("" included)
    # is an unknown kid even when the set has a single key; without a kid the single key of the set is used
    for flavour in ("sync", "async"):
        for lab, hdr_kid, want in (("kid-right", "k2", True), ("kid-absent-single-key", None, True), ("kid-empty", "", False), ("kid-other", "k1", False),
                                   ("kid-zero", 0, False), ("kid-false", False, False)):
            hdr = {"alg": alg} if hdr_kid is None else {"alg": alg, "kid": hdr_kid}
            tk = _jwt.encode(hdr, claims, sign_b).decode()
            rp = SyncRP("rp1") if flavour == "sync" else AsyncRP("rp1")
            rp.server_metadata["jwks"] = {"keys": [jwk_b]}
            try:
                if flavour == "sync":
                    rp.parse_id_token({"id_token": tk, "access_token": at}, "n1", leeway=120)
                else:
                    asyncio.run(rp.parse_id_token({"id_token": tk, "access_token": at}, "n1", leeway=120))
                ok = True
            except (JoseError, ValueError):
                ok = False
            case = {"rp_refetch": alg, "flavour": flavour, "variant": lab}
            ctx.case(case, ("rp-kid", alg, flavour, lab), "rp-kid:%s:%s" % (flavour, lab))
            if ok != want:
                ctx.violation("C13:rp-kid:%s:%s:%s" % (flavour, lab, "accepted" if ok else "refused"),
                              "an ID Token whose header kid is %r was %s by a relying party whose provider publishes the single key 'k2'" %
                              (hdr_kid, "accepted" if ok else "refused"), case)
    # two providers in one process that use the SAME kid for different keys: each relying party verifies with its own provider's key
    tok_a2 = _jwt.encode({"alg": alg, "kid": "same"}, claims, priv_a).decode()
    tok_b2 = _jwt.encode({"alg": alg, "kid": "same"}, claims, sign_b).decode()
    for flavour in ("sync", "async"):
        rps = {}
        for name, jwk in (("A", jwk_a), ("B", jwk_b)):
            rp = SyncRP("rp1") if flavour == "sync" else AsyncRP("rp1")
            rp.server_metadata["jwks"] = {"keys": [dict(jwk, kid="same")]}
            rps[name] = rp
        for step, (who, tk, want) in enumerate((("A", tok_a2, True), ("B", tok_a2, False), ("B", tok_b2, True), ("A", tok_b2, False), ("A", tok_a2, True))):
            try:
                if flavour == "sync":
                    rps[who].parse_id_token({"id_token": tk, "access_token": at}, "n1", leeway=120)
                else:
                    asyncio.run(rps[who].parse_id_token({"id_token": tk, "access_token": at}, "n1", leeway=120))
                ok = True
            except (JoseError, ValueError):
                ok = False
            case = {"rp_refetch": alg, "flavour": flavour, "variant": "two-providers-step-%d" % step}
            ctx.case(case, ("rp-two", alg, flavour, step), "rp-two-providers:%s" % flavour)
            if ok != want:
                ctx.violation("C13:rp-two-providers:%s:%s" % (flavour, "accepted" if ok else "refused"),
                              "with two providers that publish different keys under the same kid, relying party %s %s a token signed by %s key" %
                              (who, "accepted" if ok else "refused", "the other provider's" if not want else "its own provider's"), case)
    # the leeway the application passes to the relying-party entry point is the leeway that is applied: the clock moves
    # around exp and iat, the leeway is 0, small, the default (120 s, also when omitted) or large
    real = time.time
    try:
        for flavour in ("sync", "async"):
            for lw in (0, 1, 30, 120, "omitted", 300):
                eff = 120 if lw == "omitted" else lw
                for dt in (-300 - 1, -eff - 1, -eff, -1, 0, 600 - 1, 600, 600 + 1, 600 + eff, 600 + eff + 1, 600 + 119, 600 + 121, 600 + 301):
                    time.time = lambda dt=dt: now + dt
                    rp = SyncRP("rp1") if flavour == "sync" else AsyncRP("rp1")
                    rp.server_metadata["jwks"] = {"keys": [jwk_b]}
                    kw = {} if lw == "omitted" else {"leeway": lw}
                    try:
                        if flavour == "sync":
                            rp.parse_id_token({"id_token": tok_b, "access_token": at}, "n1", **kw)
                        else:
                            asyncio.run(rp.parse_id_token({"id_token": tok_b, "access_token": at}, "n1", **kw))
                        ok = True
                    except (JoseError, ValueError):
                        ok = False
                    want = (now + 600 >= now + dt - eff) and (now <= now + dt + eff)      # exp within, iat within
                    case = {"rp_leeway": alg, "flavour": flavour, "leeway": lw, "clock_offset": dt}
                    ctx.case(case, ("rp-leeway", alg, flavour, lw, dt), "rp-leeway:%s:%s" % (flavour, "accept" if ok else "refuse"))
                    if ok != want:
                        ctx.violation("C13:rp-leeway:%s:%s" % (flavour, "accepted" if ok else "refused"),
                                      "relying party %s an ID Token that is %s the window of exp/iat widened by the leeway it was given" %
                                      ("accepted" if ok else "refused", "outside" if not want else "inside"), case)
    finally:
        time.time = real


def rp_client_integrations_leeway(ctx):
    """The relying party as applications use it: the Flask, Django and Starlette client integrations' authorize_access_token, with the
    leeway the application passes (0, a small one, none: the 120 s default, a large one) against ID Tokens that expired a little or
    long ago.  Expired beyond the leeway is refused, within it accepted."""
    from impl import client_apps as CA
    for fw in ("flask", "django", "starlette"):
        for expired_by in (30, 119, 121, 200, -600):
            for kw in ({"leeway": 0}, {"leeway": 1}, {"leeway": 60}, {}, {"leeway": 120}, {"leeway": 300}):
                eff = kw.get("leeway", 120)
                a = CA.ADAPTERS[fw](False)
                real = time.time
                time.time = a.clock
                try:
                    a.provider.id_token_exp = -expired_by
                    a.begin(0, "oidc", "https://rp.example/cb")
                    (res, sent) = a.callback(0, "oidc", 0, "code0", False, aat_kwargs=dict(kw))
                finally:
                    time.time = real
                ok = res[0] == "token"
                want = expired_by <= eff
                case = {"rp_client_leeway": fw, "expired_by": expired_by, "leeway": kw.get("leeway", "omitted")}
                ctx.case(case, ("rp-client-leeway", fw, expired_by, json.dumps(kw)), "rp-client-leeway:%s:%s" % (fw, "accept" if ok else "refuse"))
                if ok != want:
                    ctx.violation("C13:rp-client-leeway:%s:%s" % (fw, "accepted" if ok else "refused"),
                                  "the %s client integration %s an ID Token that expired %d s ago although the application asked for a leeway of %s" %
                                  (fw, "accepted" if ok else "refused", expired_by, kw.get("leeway", "the default 120 s")), dict(case, outcome=[str(x)[:80] for x in res[:3]]))


def check_combo(ctx, rt, alg, nonce, extra, aud_as_text=False):
    AUD_AS_TEXT[0] = aud_as_text
    try:
        _check_combo(ctx, rt, alg, nonce, extra, aud_as_text)
    finally:
        AUD_AS_TEXT[0] = False


def _check_combo(ctx, rt, alg, nonce, extra, aud_as_text):
    clock = Clock()
    real = time.time
    time.time = clock
    try:
        got, resp = issue(ctx, rt, alg, "rp1", nonce, extra, clock)
    finally:
        time.time = real
    case = {"rt": rt, "alg": alg, "nonce": nonce, "extra": extra, "aud_as_text": aud_as_text}
    ctx.case(case, json.dumps(case, sort_keys=True), "combo:%s:%s%s" % (rt, alg[:2], ":aud-text" if aud_as_text else ""))
    if got is None:
        ctx.count("not-issued:%s" % resp.get("error"))
        if nonce or rt == "code":
            ctx.violation("C13:not-issued:%s" % rt, "a valid authentication request did not yield an ID Token", case)
        return
    idt, code, at = got
    hdr, payload = raw_parts(idt)
    _, pub, other_pub = keypair(alg)
    now = clock.t
    # ---- provider output vs model
    ui = {"sub": "alice"}
    ui.update(extra)
    mp = ctx.model.call("idtoken_payload", {"rt": rt, "iss": ISS, "client": "rp1", "now": now, "exp_in": 3600, "auth_time": now if rt in ("code", "code token") else None,
                                            "nonce": nonce, "code": code or "", "access_token": at or "", "alg": alg, "user_info": ui})
    ctx.compare("idtoken_payload", case, dict(payload, aud=[payload["aud"]]) if aud_as_text and isinstance(payload.get("aud"), str) else payload, mp)
    if hdr.get("alg") != alg:
        ctx.violation("C13:alg", "the ID Token header carries a different algorithm", case)
    # ---- the property's own expectations on the issued token
    if "rp1" not in (payload.get("aud") if isinstance(payload.get("aud"), list) else [payload.get("aud")]):
        ctx.violation("C13:aud", "aud does not contain the client", case)
    if nonce and payload.get("nonce") != nonce:
        ctx.violation("C13:nonce-claim", "the nonce claim is not the request's nonce", case)
    if at and rt != "code id_token" and payload.get("at_hash") != half_hash_ref(at, alg):
        ctx.violation("C13:at_hash:%s" % alg[2:], "at_hash is not the left half of the SHA-2 digest", case)
    if rt in ("code id_token", "code id_token token") and payload.get("c_hash") != half_hash_ref(code, alg):
        ctx.violation("C13:c_hash:%s" % alg[2:], "c_hash is not the left half of the SHA-2 digest", case)
    ctx.compare("half_hash", {"alg": alg}, half_hash_ref("some-token", alg), ctx.model.call("half_hash", {"s": "some-token", "alg": alg}))
    # create_half_hash itself, over octet strings outside ASCII too (RFC 6749 tokens are VSCHAR, but a provider's generator or a code
    # taken from the query string may hand over any text; the hash is over the UTF-8 octets as the library has always done): the
    # library, hashlib and the model agree, and two values that differ only outside ASCII have different hashes
    from authlib.oidc.core.util import create_half_hash as _chh
    for s_ in HALF_HASH_STRINGS:
        lib = _chh(s_, alg)
        lib = lib.decode() if isinstance(lib, bytes) else lib
        ref = half_hash_ref(s_, alg)
        ctx.count("half_hash:%s" % ("ascii" if s_.isascii() else "non-ascii"))
        if lib != ref:
            ctx.violation("C13:half_hash:%s:%s" % (alg[2:], "ascii" if s_.isascii() else "non-ascii"),
                          "create_half_hash is not the left half of the SHA-2 digest of the value's UTF-8 octets", {"alg": alg, "s": s_, "got": lib, "want": ref})
        ctx.compare("half_hash", {"alg": alg, "s": s_}, lib, ctx.model.call("half_hash", {"s": s_, "alg": alg}))
    # ---- relying party: matching parameters and near-misses
    base = {"iss": ISS, "nonce": nonce, "client": "rp1", "code": code or "", "at": at or "", "now": now + 10, "lw": 0, "key": pub}
    variants = [("match", {}), ("issuer", {"iss": ISS + "/"}), ("issuer-case", {"iss": ISS.upper()}),
                ("nonce", {"nonce": (nonce or "") + "x"}), ("nonce-prefix", {"nonce": (nonce or "n")[:-1] or "q"}),
                ("client", {"client": "rp2"}), ("client-case", {"client": "RP1"}),
                ("client-contained", {"client": "rp"}), ("client-suffix", {"client": "p1"}), ("client-containing", {"client": "rp10"}), ("client-char", {"client": "r"}),
                ("access-token", {"at": (at or "") + "x"}), ("code", {"code": (code or "") + "x"}),
                ("access-token-zwsp", {"at": (at or "") + "\u200b"}), ("code-nbsp", {"code": (code or "") + "\u00a0"}),
                ("access-token-lookalike", {"at": "\u0430" + (at or "")}), ("code-lookalike", {"code": (code or "")[:1] + "\u0441" + (code or "")[1:]}),
                ("expired", {"now": now + 3601}), ("expired-leeway-ok", {"now": now + 3601, "lw": 5}), ("at-exp", {"now": now + 3600}),
                ("future-iat", {"now": now - 10}), ("future-iat-leeway", {"now": now - 10, "lw": 10}), ("key", {"key": other_pub})]
    for name, delta in variants:
        v = dict(base)
        v.update(delta)
        real_v = rp_real(idt, v["key"], rt, v["iss"], v["nonce"], v["client"], v["code"], v["at"], v["now"], v["lw"])
        ctx.count("rp:%s:%s" % (name, "accept" if real_v is None else real_v[0]))
        if name != "key":
            mv = ctx.model.call("idtoken_rp", {"rt": rt, "iss": v["iss"], "nonce": v["nonce"], "client": v["client"], "code": v["code"],
                                               "access_token": v["at"], "header": hdr, "claims": payload, "now": v["now"], "leeway": v["lw"]})
            ctx.compare("idtoken_rp", dict(case, variant=name), real_v, mv)
        relevant = True
        if name.startswith("access-token") and rt in ("id_token", "code id_token"):
            relevant = False           # the relying party holds no access token for these response types
        if name.startswith("code") and rt not in ("code id_token", "code id_token token"):
            relevant = False
        if name in ("nonce", "nonce-prefix") and not nonce and rt in ("code", "code token") and not v["nonce"]:
            relevant = False
        expect_accept = name in ("match", "expired-leeway-ok", "at-exp", "future-iat-leeway")
        if expect_accept and real_v is not None:
            ctx.violation("C13:rejected:%s:%s" % (name, rt), "the relying party refused an ID Token issued for exactly these parameters", dict(case, variant=name))
        if not expect_accept and relevant and real_v is None:
            ctx.violation("C13:accepted:%s:%s" % (name, rt), "the relying party accepted an ID Token although %s differs" % name, dict(case, variant=name))
    # ---- the integration entry point
    if rt in ("code", "code token", "id_token", "id_token token"):
        for name, kw in (("match", {}), ("nonce", {"nonce": (nonce or "") + "x"}), ("client", {"client": "rp2"}), ("issuer", {"iss": ISS + "/"}),
                         ("access-token", {"at": (at or "") + "x"}), ("key", {"key": other_pub})):
            v = dict(base)
            v.update(kw)
            real = time.time
            time.time = Clock(now + 10)
            try:
                ok = parse_real(idt, alg, v["key"], v["client"], v["iss"], v["nonce"], v["at"] if rt != "id_token" else None)
            finally:
                time.time = real
            ctx.count("parse_id_token:%s:%s" % (name, "accept" if ok else "refuse"))
            if name == "match" and not ok:
                ctx.violation("C13:parse-rejected:%s" % rt, "parse_id_token refused a matching ID Token", dict(case, variant=name))
            skip = (name == "access-token" and rt == "id_token") or (name == "nonce" and not v["nonce"])
            if name != "match" and ok and not skip:
                ctx.violation("C13:parse-accepted:%s:%s" % (name, rt), "parse_id_token accepted an ID Token although %s differs" % name, dict(case, variant=name))


def nonce_sequences(ctx, n):
    rng = ctx.rng
    for _ in range(n):
        require = rng.random() < 0.5
        store, srv = build("HS256", require, {})
        steps, outs = [], []
        for _ in range(rng.choice([3, 5, 8])):
            rt = rng.choice(RTS)
            client = rng.choice(["rp1", "rp2"])
            nonce = rng.choice(["n1", "n2", "n1", None, ""])
            resp = authorize(srv, rt, client, nonce)
            required = True if rt != "code" else require
            steps.append([client, nonce, required])
            if "error" in resp:
                d = resp.get("error_description", "")
                outs.append("missing_nonce" if "Missing" in d else "replay" if "Replay" in d else "error:" + resp["error"] + ":" + d)
            else:
                outs.append("issued")
        case = {"require_nonce": require, "steps": steps}
        ctx.case(case, json.dumps(case), "nonce-seq")
        ctx.compare("nonce_run", case, outs, ctx.model.call("nonce_run", {"steps": steps}))
        seen = set()
        for (client, nonce, required), o in zip(steps, outs):
            ctx.count("nonce:" + o.split(":")[0])
            if o == "issued":
                if nonce and (client, nonce) in seen:
                    ctx.violation("C13:nonce-replay", "an authentication request replaying a nonce already used by the client was accepted", case)
                if not nonce and required:
                    ctx.violation("C13:nonce-missing", "an authentication request without the required nonce was accepted", case)
                if nonce:
                    seen.add((client, nonce))


def oracles():
    return {"sha": lambda q: getattr(hashlib, "sha" + q[0])(q[1].encode("utf-8", "surrogateescape")).digest()}


def run(ctx):
    ctx.oracles = oracles()
    ctx.rule = ("6 response types x 12 algorithms x nonce variants x extra claims; per issued token 15 relying-party variants (match, "
                "issuer, nonce, client, access token, code, expiry and leeway boundaries, key) through the claims classes and 6 through "
                "parse_id_token; seeded nonce sequences over 2 clients; distinct_nontrivial = distinct (response type, alg, nonce, extra)")
    extras = [{}, {"name": "Alice", "email": "a@example.org"}]
    for rt in RTS:
        for alg in ALGS:
            nonces = ["n-0Aa", None] if rt in ("code", "code token") else ["n-0Aa"]
            for nonce in nonces:
                check_combo(ctx, rt, alg, nonce, extras[(len(rt) + len(alg)) % 2] if ctx.tier == "quick" else extras[0])
                if ctx.tier != "quick":
                    check_combo(ctx, rt, alg, nonce, extras[1])
    for i, rt in enumerate(RTS):
        for alg in (ALGS if ctx.tier != "quick" else [ALGS[i % len(ALGS)], ALGS[(i + 5) % len(ALGS)]]):
            check_combo(ctx, rt, alg, "n-0Aa", {}, aud_as_text=True)
    for alg in (ALGS if ctx.tier != "quick" else ["HS256", "RS256", "ES256", "EdDSA"]):
        if alg in ALGS:
            rp_key_rotation(ctx, alg)
            rp_refetch_path(ctx, alg)
    rp_client_integrations_leeway(ctx)
    nonce_sequences(ctx, 60 if ctx.tier == "quick" else 600)


def run_case(ctx, case):
    if "rp_client_leeway" in case:
        return rp_client_integrations_leeway(ctx)
    ctx.oracles = oracles()
    if "steps" in case:
        nonce_sequences(ctx, 0)
        return
    if "rp_key_rotation" in case:
        return rp_key_rotation(ctx, case["rp_key_rotation"])
    if "rp_refetch" in case:
        return rp_refetch_path(ctx, case["rp_refetch"])
    check_combo(ctx, case["rt"], case["alg"], case["nonce"], case["extra"], case.get("aud_as_text", False))
